//! Runs protocol requests against the real implementation (in-process, under catch_unwind).

use std::cell::RefCell;
use std::convert::{TryFrom, TryInto};
use std::panic::{catch_unwind, AssertUnwindSafe};

use purr::feature::*;
use purr::graph::{Atom, Bond, Builder, Error as BuildError};
use purr::read::{read, Error as ReadError, Trace};
use purr::walk::{walk, Error as WalkError, Follower};
use purr::write::Writer;

use crate::canon::*;

thread_local! {
    static LAST_PANIC: RefCell<String> = RefCell::new(String::new());
}

pub fn install_panic_hook() {
    std::panic::set_hook(Box::new(|info| {
        let loc = info.location().map(|l| format!("{}:{}", l.file(), l.line())).unwrap_or_default();
        LAST_PANIC.with(|p| *p.borrow_mut() = loc);
    }));
}

pub fn last_panic() -> String {
    LAST_PANIC.with(|p| p.borrow().clone())
}

/// A follower that records the calls it receives.
pub struct Rec<'a> {
    pub t: &'a Tables,
    pub events: Vec<Ev>,
}

impl<'a> Rec<'a> {
    pub fn new(t: &'a Tables) -> Self {
        Rec { t, events: Vec::new() }
    }
}

impl<'a> Follower for Rec<'a> {
    fn root(&mut self, root: AtomKind) {
        self.events.push(Ev::Root(kind_s(self.t, &root)))
    }
    fn extend(&mut self, bond_kind: BondKind, atom_kind: AtomKind) {
        self.events.push(Ev::Extend(bond_s(self.t, &bond_kind).parse().unwrap(), kind_s(self.t, &atom_kind)))
    }
    fn join(&mut self, bond_kind: BondKind, rnum: Rnum) {
        self.events.push(Ev::Join(bond_s(self.t, &bond_kind).parse().unwrap(), rnum_s(self.t, &rnum).parse().unwrap()))
    }
    fn pop(&mut self, depth: usize) {
        self.events.push(Ev::Pop(depth))
    }
}

pub fn read_verdict_s(r: &std::thread::Result<Result<(), ReadError>>) -> String {
    match r {
        Ok(Ok(())) => "ok".to_string(),
        Ok(Err(ReadError::Character(i))) => format!("char:{}", i),
        Ok(Err(ReadError::EndOfLine)) => "eol".to_string(),
        Err(_) => format!("panic:{}", last_panic()),
    }
}

pub fn build_s(t: &Tables, r: std::thread::Result<Result<Vec<Atom>, BuildError>>) -> String {
    match r {
        Ok(Ok(g)) => format!("ok {}", graph_s(t, &g)),
        Ok(Err(BuildError::Join(s, tt))) => format!("join:{}:{}", s, tt),
        Ok(Err(BuildError::Rnum(i))) => format!("rnum:{}", i),
        Err(_) => "panic".to_string(),
    }
}

/// online protocol checker (the documented follower contract), on canonical events
pub fn proto_violation(events: &[Ev]) -> Option<usize> {
    let mut n: Option<usize> = None;
    for (i, e) in events.iter().enumerate() {
        match (n, e) {
            (None, Ev::Root(_)) => n = Some(1),
            (Some(k), Ev::Root(_)) => n = Some(k + 1),
            (Some(k), Ev::Extend(_, _)) => n = Some(k + 1),
            (Some(_), Ev::Join(_, _)) => {}
            (Some(k), Ev::Pop(d)) => {
                if 1 <= *d && *d < k { n = Some(k - d) } else { return Some(i) }
            }
            (None, _) => return Some(i),
        }
    }
    None
}

pub fn proto_s(events: &[Ev]) -> String {
    match proto_violation(events) {
        None => "ok".to_string(),
        Some(i) => format!("viol:{}", i),
    }
}

fn drive<F: Follower>(t: &Tables, f: &mut F, events: &[Ev]) -> Option<()> {
    let _ = t;
    for e in events {
        match e {
            Ev::Root(k) => f.root(parse_kind(k)?),
            Ev::Extend(b, k) => f.extend(bond_kind_at(*b)?, parse_kind(k)?),
            Ev::Join(b, r) => f.join(bond_kind_at(*b)?, rnum_at(*r)?),
            Ev::Pop(d) => f.pop(*d),
        }
    }
    Some(())
}

pub fn trace_dump(trace: &Trace, n_atoms: usize, n_joins: usize) -> String {
    let mut atoms = Vec::new();
    for i in 0..n_atoms + 2 {
        match trace.atom(i) {
            Some(r) => atoms.push(format!("{}-{}", r.start, r.end)),
            None => {
                // ids past the last atom map to nothing: any later Some is recorded explicitly
                for j in i + 1..n_atoms + 2 {
                    if trace.atom(j).is_some() { atoms.push(format!("gap@{}", j)) }
                }
                break;
            }
        }
    }
    let mut rnums = Vec::new();
    for k in 0..n_joins + 2 {
        match trace.rnum(k) {
            Some(r) => rnums.push(format!("{}-{}", r.start, r.end)),
            None => break,
        }
    }
    // complete key set of the private bond map, from the Debug rendering; values re-queried through the API
    let dbg = format!("{:?}", trace);
    let mut bonds: Vec<(usize, usize, usize)> = Vec::new();
    if let Some(start) = dbg.find("bonds: {") {
        let rest = &dbg[start + 8..];
        let end = rest.find('}').unwrap_or(rest.len());
        let body = &rest[..end];
        // entries look like "(0, 1): 2"
        let mut it = body.split('(').skip(1);
        while let Some(ent) = it.next() {
            let nums: Vec<usize> = ent
                .split(|c: char| !c.is_ascii_digit())
                .filter(|x| !x.is_empty())
                .filter_map(|x| x.parse().ok())
                .collect();
            if nums.len() >= 3 {
                bonds.push((nums[0], nums[1], nums[2]));
            }
        }
    }
    bonds.sort();
    let mut bs = Vec::new();
    for (s, tt, c) in bonds {
        let q = trace.bond(s, tt);
        if q == Some(c) {
            bs.push(format!("{}>{}@{}", s, tt, c))
        } else {
            bs.push(format!("{}>{}@{}!api={:?}", s, tt, c, q))
        }
    }
    format!("atoms={};bonds={};rnums={}", atoms.join(","), bs.join(","), rnums.join(","))
}

pub fn do_read(t: &Tables, s: &str) -> String {
    // 1. recording follower
    let mut rec = Rec::new(t);
    purr::verif::reset_depth();
    let r = catch_unwind(AssertUnwindSafe(|| read(s, &mut rec, None)));
    let depth = purr::verif::max_depth();
    let verdict = read_verdict_s(&r);
    let events = rec.events;
    // 2. writer
    let mut w = Writer::new();
    let rw = catch_unwind(AssertUnwindSafe(|| read(s, &mut w, None)));
    let vw = read_verdict_s(&rw);
    let wtext = match catch_unwind(AssertUnwindSafe(|| w.write())) {
        Ok(x) => hex_str(&x),
        Err(_) => "panic".to_string(),
    };
    // 3. builder with trace
    let mut b = Builder::new();
    let mut trace = Trace::new();
    let rb = catch_unwind(AssertUnwindSafe(|| read(s, &mut b, Some(&mut trace))));
    let vb = read_verdict_s(&rb);
    let bres = build_s(t, catch_unwind(AssertUnwindSafe(|| b.build())));
    // 4. builder without trace
    let mut b2 = Builder::new();
    let rb2 = catch_unwind(AssertUnwindSafe(|| read(s, &mut b2, None)));
    let vb2 = read_verdict_s(&rb2);
    let bres2 = build_s(t, catch_unwind(AssertUnwindSafe(|| b2.build())));
    let n_atoms = events.iter().filter(|e| matches!(e, Ev::Root(_) | Ev::Extend(_, _))).count();
    let n_joins = events.iter().filter(|e| matches!(e, Ev::Join(_, _))).count();
    let tdump = match catch_unwind(AssertUnwindSafe(|| trace_dump(&trace, n_atoms, n_joins))) {
        Ok(x) => x,
        Err(_) => "panic".to_string(),
    };
    let mut fi = String::new();
    let strip = |v: &str| if v.starts_with("panic") { "panic".to_string() } else { v.to_string() };
    if strip(&vw) != strip(&verdict) { fi.push_str(&format!(" # FOLLOWERDEP writer={}", vw)) }
    if strip(&vb) != strip(&verdict) { fi.push_str(&format!(" # FOLLOWERDEP builder+trace={}", vb)) }
    if strip(&vb2) != strip(&verdict) { fi.push_str(&format!(" # FOLLOWERDEP builder={}", vb2)) }
    if bres2 != bres { fi.push_str(&format!(" # FOLLOWERDEP builder-without-trace={}", bres2)) }
    // G: the verdict once more, compared with the grammar automaton of the Lean specification (Purr/Spec/Automaton.lean)
    format!(
        "{} # G {} # EV {} # W {} # B {} # T {} # P {} # D {}{}",
        verdict,
        verdict,
        join_sp(&events.iter().map(|e| e.s()).collect::<Vec<_>>()),
        wtext,
        bres,
        tdump,
        proto_s(&events),
        depth,
        fi
    )
}

pub fn do_evs(t: &Tables, events: &[Ev]) -> String {
    let mut w = Writer::new();
    let rw = catch_unwind(AssertUnwindSafe(|| drive(t, &mut w, events)));
    let wtext = match rw {
        Ok(Some(())) => match catch_unwind(AssertUnwindSafe(|| w.write())) {
            Ok(x) => hex_str(&x),
            Err(_) => "panic".to_string(),
        },
        Ok(None) => "bad".to_string(),
        Err(_) => "panic".to_string(),
    };
    let mut b = Builder::new();
    let rb = catch_unwind(AssertUnwindSafe(|| drive(t, &mut b, events)));
    let bres = match rb {
        Ok(Some(())) => build_s(t, catch_unwind(AssertUnwindSafe(|| b.build()))),
        Ok(None) => "bad".to_string(),
        Err(_) => "panic".to_string(),
    };
    format!("W {} # B {} # P {}", wtext, bres, proto_s(events))
}

pub fn walk_verdict_s(r: &std::thread::Result<Result<(), WalkError>>) -> String {
    match r {
        Ok(Ok(())) => "ok".to_string(),
        Ok(Err(WalkError::HalfBond(s, t))) => format!("half:{}:{}", s, t),
        Ok(Err(WalkError::DuplicateBond(s, t))) => format!("dup:{}:{}", s, t),
        Ok(Err(WalkError::UnknownTarget(s, t))) => format!("unk:{}:{}", s, t),
        Ok(Err(WalkError::IncompatibleBond(s, t))) => format!("inc:{}:{}", s, t),
        Ok(Err(WalkError::Loop(s))) => format!("loop:{}", s),
        Err(_) => format!("panic:{}", last_panic()),
    }
}

pub fn do_walk(t: &Tables, ts: &[&str]) -> String {
    let g = match parse_graph(ts) { Some(g) => g, None => return "bad".to_string() };
    let mut rec = Rec::new(t);
    let r = catch_unwind(AssertUnwindSafe(|| walk(g, &mut rec)));
    let verdict = walk_verdict_s(&r);
    let events = rec.events;
    let g2 = parse_graph(ts).unwrap();
    let mut w = Writer::new();
    let rw = catch_unwind(AssertUnwindSafe(|| walk(g2, &mut w)));
    let vw = walk_verdict_s(&rw);
    let wtext = match catch_unwind(AssertUnwindSafe(|| w.write())) {
        Ok(x) => hex_str(&x),
        Err(_) => "panic".to_string(),
    };
    let mut fi = String::new();
    if vw != verdict { fi.push_str(&format!(" # FOLLOWERDEP writer={}", vw)) }
    let evs = join_sp(&events.iter().map(|e| e.s()).collect::<Vec<_>>());
    // EVR: the events of a successful traversal (compared with the recursive model walkRec)
    let evr = if verdict == "ok" { evs.clone() } else { "none".to_string() };
    format!("{} # EV {} # W {} # P {} # EVR {}{}", verdict, evs, wtext, proto_s(&events), evr, fi)
}

pub fn do_pool(t: &Tables, ts: &[&str]) -> String {
    let mut pairs = Vec::new();
    if !(ts.len() == 1 && ts[0] == "-") {
        for x in ts {
            let mut p = x.splitn(2, '-');
            let a: usize = match p.next().and_then(|v| v.parse().ok()) { Some(v) => v, None => return "bad".to_string() };
            let b: usize = match p.next().and_then(|v| v.parse().ok()) { Some(v) => v, None => return "bad".to_string() };
            pairs.push((a, b));
        }
    }
    let mut pool = purr::verif::JoinPool::new();
    let mut out: Vec<String> = Vec::new();
    for (i, (a, b)) in pairs.iter().enumerate() {
        match catch_unwind(AssertUnwindSafe(|| pool.hit(*a, *b))) {
            Ok(r) => out.push(rnum_s(t, &r)),
            Err(_) => return format!("{} panic@{}", join_sp(&out), i),
        }
    }
    join_sp(&out)
}

fn list_s(v: &[u8]) -> String {
    if v.is_empty() { "-".to_string() } else { v.iter().map(|x| x.to_string()).collect::<Vec<_>>().join(",") }
}

fn some_s(x: Option<usize>) -> String {
    match x { Some(n) => format!("some {}", n), None => "none".to_string() }
}

pub fn do_txt(t: &Tables, ty: &str, i: usize) -> String {
    let r: Option<String> = match ty {
        "element" => t.elements.get(i).map(|x| x.to_string()),
        "baro" => t.bracket_aromatics.get(i).map(|x| x.to_string()),
        "aro" => t.aromatics.get(i).map(|x| x.to_string()),
        "ali" => t.aliphatics.get(i).map(|x| x.to_string()),
        "cfg" => t.configurations.get(i).map(|x| x.to_string()),
        "charge" => t.charges.get(i).map(|x| x.to_string()),
        "hcount" => t.hcounts.get(i).map(|x| x.to_string()),
        "rnum" => t.rnums.get(i).map(|x| x.to_string()),
        "bond" => t.bond_kinds.get(i).map(|x| x.to_string()),
        "number" => if i <= 65535 { Number::try_from(i as u16).ok().map(|x| x.to_string()) } else { None },
        _ => None,
    };
    match r { Some(x) => hex_str(&x), None => "bad".to_string() }
}

pub fn do_conv(t: &Tables, name: &str, arg: &str) -> String {
    match name {
        "charge" => match arg.parse::<i64>() {
            Ok(z) if z >= -128 && z <= 127 => some_s(Charge::try_from(z as i8).ok().map(|q| t.charges.iter().position(|y| *y == q).unwrap())),
            Ok(_) => "none".to_string(),
            Err(_) => "bad".to_string(),
        },
        "hcount" => match arg.parse::<u64>() {
            Ok(n) if n <= 255 => some_s(VirtualHydrogen::try_from(n as u8).ok().map(|h| t.hcounts.iter().position(|y| *y == h).unwrap())),
            Ok(_) => "none".to_string(),
            Err(_) => "bad".to_string(),
        },
        "rnum" => match arg.parse::<u64>() {
            Ok(n) if n <= 65535 => some_s(Rnum::try_from(n as u16).ok().map(|r| t.rnums.iter().position(|y| *y == r).unwrap())),
            Ok(_) => "none".to_string(),
            Err(_) => "bad".to_string(),
        },
        "number" => match arg.parse::<u64>() {
            Ok(n) if n <= 65535 => some_s(Number::try_from(n as u16).ok().map(|x| u16::from(&x) as usize)),
            Ok(_) => "none".to_string(),
            Err(_) => "bad".to_string(),
        },
        "numstr" => match unhex(arg) {
            Some(s) => {
                let r: Result<Number, ()> = s.try_into();
                some_s(r.ok().map(|x| u16::from(&x) as usize))
            }
            None => "bad".to_string(),
        },
        "baro2aro" => match arg.parse::<usize>().ok().and_then(|i| t.bracket_aromatics.get(i)) {
            Some(a) => some_s(Aromatic::try_from(a).ok().map(|x| t.aromatics.iter().position(|y| *y == x).unwrap())),
            None => "bad".to_string(),
        },
        "el2ali" => match arg.parse::<usize>().ok().and_then(|i| t.elements.get(i)) {
            Some(e) => some_s(Aliphatic::try_from(e).ok().map(|x| t.aliphatics.iter().position(|y| *y == x).unwrap())),
            None => "bad".to_string(),
        },
        _ => "bad".to_string(),
    }
}

pub fn do_back(t: &Tables, name: &str, i: usize) -> String {
    match name {
        "charge" => match t.charges.get(i) { Some(q) => { let v: i8 = q.into(); v.to_string() } None => "bad".to_string() },
        "hcount" => match t.hcounts.get(i) { Some(h) => { let v: u8 = h.into(); v.to_string() } None => "bad".to_string() },
        "number" => if i <= 65535 { match Number::try_from(i as u16) { Ok(n) => u16::from(&n).to_string(), Err(_) => "bad".to_string() } } else { "bad".to_string() },
        "baro2el" => match t.bracket_aromatics.get(i) { Some(a) => { let e: Element = a.into(); t.elements.iter().position(|y| *y == e).unwrap().to_string() } None => "bad".to_string() },
        "aro2ali" => match t.aromatics.get(i) { Some(a) => { let e: Aliphatic = a.into(); t.aliphatics.iter().position(|y| *y == e).unwrap().to_string() } None => "bad".to_string() },
        "rev" => match t.bond_kinds.get(i) { Some(b) => bond_s(t, &b.reverse()), None => "bad".to_string() },
        "order" => match bond_kind_at(i) { Some(b) => Bond::new(b, 0).order().to_string(), None => "bad".to_string() },
        "tgt_ali" => match t.aliphatics.get(i) { Some(a) => list_s(a.targets()), None => "bad".to_string() },
        "tgt_aro" => match t.aromatics.get(i) { Some(a) => list_s(a.targets()), None => "bad".to_string() },
        _ => "bad".to_string(),
    }
}

pub fn parse_bond_multi(tk: &str) -> Option<Vec<Bond>> {
    let mut out = Vec::new();
    if tk == "-" { return Some(out) }
    for x in tk.split(',') {
        let mut p = x.splitn(2, '*');
        let b: usize = p.next()?.parse().ok()?;
        let c: usize = p.next()?.parse().ok()?;
        for _ in 0..c {
            out.push(Bond::new(bond_kind_at(b)?, 0));
        }
    }
    Some(out)
}

pub fn do_val(_t: &Tables, k: &str, bs: &str) -> String {
    let kind = match parse_kind(k) { Some(k) => k, None => return "bad".to_string() };
    let bonds = match parse_bond_multi(bs) { Some(b) => b, None => return "bad".to_string() };
    let targets = list_s(kind.targets());
    let ar = kind.is_aromatic();
    let a0 = Atom::new(parse_kind(k).unwrap());
    // the public `invert_configuration` and `is_zero`, called directly
    let mut inv = parse_kind(k).unwrap();
    inv.invert_configuration();
    let hz = match &inv { AtomKind::Bracket { hcount: Some(h), .. } => h.is_zero().to_string(), _ => "-".to_string() };
    let inv_s = kind_s(_t, &inv);
    let ba = bonds.iter().filter(|b| b.is_aromatic()).count();
    let bd = bonds.iter().filter(|b| b.is_directional()).count();
    let atom = Atom { kind, bonds };
    let s = match catch_unwind(AssertUnwindSafe(|| atom.subvalence())) { Ok(v) => v.to_string(), Err(_) => "panic".to_string() };
    let h = match catch_unwind(AssertUnwindSafe(|| atom.suppressed_hydrogens())) { Ok(v) => v.to_string(), Err(_) => "panic".to_string() };
    format!("T {} # S {} # H {} # AR {} # AA {} {} {} # BA {} # BD {} # IV {} # HZ {}", targets, s, h, ar, atom.is_aromatic(), a0.is_aromatic(), a0.bonds.len(), ba, bd, inv_s, hz)
}

pub fn do_deb(t: &Tables, k: &str, bos: &str) -> String {
    let kind = match parse_kind(k) { Some(k) => k, None => return "bad".to_string() };
    let bos: u64 = match bos.parse() { Ok(v) => v, Err(_) => return "bad".to_string() };
    if bos > 255 { return "bad".to_string() }
    match catch_unwind(AssertUnwindSafe(|| kind.debracket(bos as u8))) {
        Ok(k2) => kind_s(t, &k2),
        Err(_) => "panic".to_string(),
    }
}

pub fn handle(t: &Tables, line: &str) -> String {
    let toks: Vec<&str> = line.trim().split(' ').collect();
    match toks.as_slice() {
        ["READ", h] => match unhex(h) { Some(s) => do_read(t, &s), None => "bad".to_string() },
        ["EVS", rest @ ..] => {
            let evs: Option<Vec<Ev>> = if rest.len() == 1 && rest[0] == "-" { Some(vec![]) } else { rest.iter().map(|x| Ev::parse(x)).collect() };
            match evs { Some(e) => do_evs(t, &e), None => "bad".to_string() }
        }
        ["WALK", rest @ ..] => do_walk(t, rest),
        ["POOL", rest @ ..] => do_pool(t, rest),
        ["TXT", ty, i] => match i.parse() { Ok(i) => do_txt(t, ty, i), Err(_) => "bad".to_string() },
        ["CONV", name, arg] => do_conv(t, name, arg),
        ["BACK", name, i] => match i.parse() { Ok(i) => do_back(t, name, i), Err(_) => "bad".to_string() },
        ["REC", l, r] => match (parse_bond(l), parse_bond(r)) {
            (Some(l), Some(r)) => match purr::verif::reconcile(l, r) {
                Some((a, b)) => format!("some {} {}", bond_s(t, &a), bond_s(t, &b)),
                None => "none".to_string(),
            },
            _ => "bad".to_string(),
        },
        ["VAL", k, bs] => do_val(t, k, bs),
        ["DEB", k, bos] => do_deb(t, k, bos),
        ["KTXT", k] => match parse_kind(k) { Some(k) => hex_str(&k.to_string()), None => "bad".to_string() },
        _ => "bad".to_string(),
    }
}
