//! purrh — correspondence / oracle harness for rapodaca/purr (see /verif/DESIGN.md section 3).
//!
//!   purrh selftest                      check enum tables against declaration order
//!   purrh gen <suite> <tier> <seed>     print protocol requests for a suite
//!   purrh impl                          answer requests on stdin with the real implementation
//!   purrh oracle <property>             run the property-level oracle on requests from stdin
mod canon;
mod gen;
mod imp;
mod oracle;
mod rng;
mod tables;

use std::io::{self, BufRead, BufWriter, Write};

fn main() {
    let args: Vec<String> = std::env::args().collect();
    if let Err(e) = tables::check_orders() {
        eprintln!("table order check failed: {}", e);
        std::process::exit(3);
    }
    let t = canon::Tables::new();
    match args.get(1).map(|s| s.as_str()) {
        Some("selftest") => println!("ok"),
        Some("gen") => {
            let suite = args.get(2).expect("suite");
            let tier = args.get(3).map(|s| s.as_str()).unwrap_or("quick");
            let seed: u64 = args.get(4).and_then(|s| s.parse().ok()).unwrap_or(1);
            let out = io::stdout();
            let mut out = BufWriter::new(out.lock());
            gen::generate(&t, suite, tier, seed, &mut out);
            out.flush().unwrap();
        }
        Some("impl") => {
            imp::install_panic_hook();
            let stdin = io::stdin();
            let out = io::stdout();
            let mut out = BufWriter::new(out.lock());
            for line in stdin.lock().lines() {
                let line = line.unwrap();
                writeln!(out, "{}", imp::handle(&t, &line)).unwrap();
            }
            out.flush().unwrap();
        }
        Some("oracle") => {
            imp::install_panic_hook();
            let prop = args.get(2).expect("property");
            let mut orc = oracle::Oracle::new(&t, prop);
            let stdin = io::stdin();
            let out = io::stdout();
            let mut out = BufWriter::new(out.lock());
            for line in stdin.lock().lines() {
                let line = line.unwrap();
                writeln!(out, "{}", orc.check(&line)).unwrap();
            }
            out.flush().unwrap();
        }
        _ => {
            eprintln!("usage: purrh selftest | gen <suite> <tier> <seed> | impl | oracle <property>");
            std::process::exit(2);
        }
    }
}
