//! purrh — correspondence / oracle harness for rapodaca/purr (see /verif/DESIGN.md section 3).
//!
//!   purrh selftest                      check enum tables against declaration order
//!   purrh gen <suite> <tier> <seed>     print protocol requests for a suite
//!   purrh impl                          answer requests on stdin with the real implementation
//!   purrh oracle <property>             run the property-level oracle on requests from stdin
mod canon;
mod gen;
mod imp;
mod oracle;
mod refsmiles;
mod rng;
mod tables;

use std::io::{self, BufRead, BufWriter, Write};

fn main() {
    let args: Vec<String> = std::env::args().collect();
    if let Err(e) = tables::check_orders() {
        eprintln!("table order check failed: {}", e);
        std::process::exit(3);
    }
    let t = canon::Tables::new();
    match args.get(1).map(|s| s.as_str()) {
        Some("selftest") => println!("ok"),
        Some("gen") => {
            let suite = args.get(2).expect("suite");
            let tier = args.get(3).map(|s| s.as_str()).unwrap_or("quick");
            let seed: u64 = args.get(4).and_then(|s| s.parse().ok()).unwrap_or(1);
            let out = io::stdout();
            let mut out = BufWriter::new(out.lock());
            gen::generate(&t, suite, tier, seed, &mut out);
            out.flush().unwrap();
        }
        Some("impl") => {
            imp::install_panic_hook();
            let stdin = io::stdin();
            let out = io::stdout();
            let mut out = BufWriter::new(out.lock());
            for line in stdin.lock().lines() {
                let line = line.unwrap();
                writeln!(out, "{}", imp::handle(&t, &line)).unwrap();
                out.flush().unwrap(); // one answer per request on disk: if a request never returns, the check knows which
            }
            out.flush().unwrap();
        }
        Some("oracle") => {
            imp::install_panic_hook();
            let prop = args.get(2).expect("property");
            let mut orc = oracle::Oracle::new(&t, prop);
            let stdin = io::stdin();
            let out = io::stdout();
            let mut out = BufWriter::new(out.lock());
            for line in stdin.lock().lines() {
                let line = line.unwrap();
                writeln!(out, "{}", orc.check(&line)).unwrap();
                out.flush().unwrap();
            }
            out.flush().unwrap();
        }
        Some("soak") => {
            // read -> build -> walk -> write on a size family, in the main thread and in a 2 MiB thread
            let fam = args.get(2).expect("family").clone();
            let n: usize = args.get(3).and_then(|s| s.parse().ok()).unwrap_or(1000);
            if let Some(f) = fam.strip_prefix("trace:") {
                // C15 at size: the trace of a string whose cursors lie beyond 16 bits
                let s = gen::family(f, n);
                let label = format!("family {} with {} atoms ({} characters)", f, n, s.chars().count());
                match oracle::trace_check(&t, &s, &label) {
                    Some(Ok(())) => println!("main-thread trace ok characters={}", s.chars().count()),
                    Some(Err(m)) => { println!("trace error {}", m); std::process::exit(1) }
                    None => { println!("trace error the family string is refused"); std::process::exit(1) }
                }
                // the same in a thread with an ordinary small stack (C19: reading with a trace must not need stack in
                // proportion to the input)
                let s2 = s.clone();
                let h = std::thread::Builder::new().stack_size(2 * 1024 * 1024).spawn(move || {
                    let t2 = canon::Tables::new();
                    oracle::trace_check(&t2, &s2, "2 MiB thread")
                }).unwrap();
                match h.join() {
                    Ok(Some(Ok(()))) => { println!("2MiB-thread trace ok"); return }
                    Ok(Some(Err(m))) => { println!("2MiB-thread trace error {}", m); std::process::exit(1) }
                    Ok(None) => { println!("2MiB-thread trace error refused"); std::process::exit(1) }
                    Err(_) => { println!("2MiB-thread panicked"); std::process::exit(1) }
                }
            }
            let s = gen::family(&fam, n);
            let digits = fam == "digits";
            let run = move |s: String| -> Result<usize, String> {
                let mut b = purr::graph::Builder::new();
                purr::read::read(&s, &mut b, None).map_err(|e| format!("read: {:?}", e))?;
                if digits {
                    // every ring digit of this family opens and closes on the one atom: valid syntax, not a molecule;
                    // the builder must say so (a Join error), and the string writer must echo the string
                    match b.build() { Err(purr::graph::Error::Join(0, 0)) => {} other => return Err(format!("build: expected Join(0, 0), got {:?}", other.map(|g| g.len()))) }
                    let mut w = purr::write::Writer::new();
                    purr::read::read(&s, &mut w, None).map_err(|e| format!("read into writer: {:?}", e))?;
                    if w.write() != s { return Err("writer does not echo the digits family".to_string()) }
                    return Ok(1)
                }
                drop(b);
                oracle::soak_check(&s)
            };
            let s2 = s.clone();
            match run(s) { Ok(a) => println!("main-thread ok atoms={}", a), Err(e) => { println!("main-thread error {}", e); std::process::exit(1) } }
            let h = std::thread::Builder::new().stack_size(2 * 1024 * 1024).spawn(move || run(s2)).unwrap();
            match h.join() { Ok(Ok(a)) => println!("2MiB-thread ok atoms={}", a), Ok(Err(e)) => { println!("2MiB-thread error {}", e); std::process::exit(1) } Err(_) => { println!("2MiB-thread panicked"); std::process::exit(1) } }
        }
        Some("classify") => {
            for a in args.iter().skip(2) { println!("{:?} {:?}", a, refsmiles::classify(a)) }
        }
        _ => {
            eprintln!("usage: purrh selftest | gen <suite> <tier> <seed> | impl | oracle <property>");
            std::process::exit(2);
        }
    }
}
