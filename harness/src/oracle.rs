//! Property-level oracles: each property stated directly over the public API of the
//! implementation (no model involved).  Used to search for a concrete failing input, and as a
//! guard against "model and code agree and both are wrong".
//!
//! `check` answers one request line with `OK`, `SKIP` (request not relevant to the property) or
//! `FAIL <message>`.

use std::collections::HashMap;
use std::convert::{TryFrom, TryInto};
use std::panic::{catch_unwind, AssertUnwindSafe};

use purr::feature::*;
use purr::graph::Bond;
use purr::read::read;

use crate::canon::*;
use crate::imp::{self, Rec};

/// the periodic table, transcribed independently of /repo (atomic-number order)
pub const PERIODIC: [&str; 118] = [
    "H", "He", "Li", "Be", "B", "C", "N", "O", "F", "Ne", "Na", "Mg", "Al", "Si", "P", "S", "Cl", "Ar", "K", "Ca",
    "Sc", "Ti", "V", "Cr", "Mn", "Fe", "Co", "Ni", "Cu", "Zn", "Ga", "Ge", "As", "Se", "Br", "Kr", "Rb", "Sr", "Y", "Zr",
    "Nb", "Mo", "Tc", "Ru", "Rh", "Pd", "Ag", "Cd", "In", "Sn", "Sb", "Te", "I", "Xe", "Cs", "Ba", "La", "Ce", "Pr", "Nd",
    "Pm", "Sm", "Eu", "Gd", "Tb", "Dy", "Ho", "Er", "Tm", "Yb", "Lu", "Hf", "Ta", "W", "Re", "Os", "Ir", "Pt", "Au", "Hg",
    "Tl", "Pb", "Bi", "Po", "At", "Rn", "Fr", "Ra", "Ac", "Th", "Pa", "U", "Np", "Pu", "Am", "Cm", "Bk", "Cf", "Es", "Fm",
    "Md", "No", "Lr", "Rf", "Db", "Sg", "Bh", "Hs", "Mt", "Ds", "Rg", "Cn", "Nh", "Fl", "Mc", "Lv", "Ts", "Og",
];

pub struct Oracle<'a> {
    pub t: &'a Tables,
    pub prop: String,
    /// C07: spelling -> (type, index) seen so far, to detect two values sharing a spelling
    seen: HashMap<(String, String), usize>,
}

fn fail(msg: String) -> String {
    format!("FAIL {}", msg)
}

/// read `s` into a recording follower; Ok(events) only if accepted
fn read_events(t: &Tables, s: &str) -> Result<Vec<Ev>, String> {
    let mut rec = Rec::new(t);
    let r = catch_unwind(AssertUnwindSafe(|| read(s, &mut rec, None)));
    match r {
        Ok(Ok(())) => Ok(rec.events),
        other => Err(imp::read_verdict_s(&other)),
    }
}

/// the standard spelling of each value, computed from the property text (not from /repo)
fn standard_spelling(ty: &str, i: usize) -> Option<String> {
    Some(match ty {
        "element" => PERIODIC.get(i)?.to_string(),
        "baro" => ["b", "c", "n", "o", "s", "p", "se", "as"].get(i)?.to_string(),
        "aro" => ["b", "c", "n", "o", "p", "s"].get(i)?.to_string(),
        "ali" => ["B", "C", "N", "O", "S", "P", "F", "Cl", "Br", "I", "At", "Ts"].get(i)?.to_string(),
        "cfg" => {
            // declaration order: AL1 AL2 OH1..30 SP1..3 TB1..20 TH1 TH2; @ / @@ stand for the TH and AL pairs
            match i {
                0 | 55 => "@".to_string(),
                1 | 56 => "@@".to_string(),
                2..=31 => format!("@OH{}", i - 1),
                32..=34 => format!("@SP{}", i - 31),
                35..=54 => format!("@TB{}", i - 34),
                _ => return None,
            }
        }
        "charge" => {
            let v = charge_value_of_index(i);
            if i >= 30 { return None }
            let sign = if v < 0 { "-" } else { "+" };
            if v.abs() == 1 { sign.to_string() } else { format!("{}{}", sign, v.abs()) }
        }
        "hcount" => match i { 0 => "".to_string(), 1 => "H".to_string(), 2..=9 => format!("H{}", i), _ => return None },
        "rnum" => if i < 10 { format!("{}", i) } else if i < 100 { format!("%{}", i) } else { return None },
        "bond" => ["", "-", "=", "#", "$", ":", "/", "\\"].get(i)?.to_string(),
        "number" => if i < 1000 { format!("{}", i) } else { return None },
        _ => return None,
    })
}

impl<'a> Oracle<'a> {
    pub fn new(t: &'a Tables, prop: &str) -> Self {
        Oracle { t, prop: prop.to_string(), seen: HashMap::new() }
    }

    pub fn check(&mut self, line: &str) -> String {
        let toks: Vec<&str> = line.trim().split(' ').collect();
        let r = catch_unwind(AssertUnwindSafe(|| match self.prop.as_str() {
            "C07" => self.c07(&toks),
            "C18" => self.c18(&toks),
            "C16" => self.c16(&toks),
            "C13" => self.c13(&toks),
            "C06" => self.c06(&toks),
            "C08" => self.c08(&toks),
            "C09" => self.c09(&toks),
            "C11" => self.c11(&toks),
            "C10" => self.c10(&toks),
            "C04" => self.c04(&toks),
            "C05" => self.c05(&toks),
            "C19" => self.c19(&toks),
            "C17" => self.c17(&toks),
            _ => "SKIP".to_string(),
        }));
        match r {
            Ok(s) => s,
            Err(_) => fail(format!("oracle panicked at {}", imp::last_panic())),
        }
    }

    // ---------------- C07: every feature value's text form reads back to the same value ----------------
    fn c07(&mut self, toks: &[&str]) -> String {
        let t = self.t;
        match toks {
            ["TXT", ty, i] => {
                let i: usize = match i.parse() { Ok(i) => i, Err(_) => return "SKIP".to_string() };
                let text = match unhex(&imp::do_txt(t, ty, i)) { Some(x) => x, None => return "SKIP".to_string() };
                // 1. standard spelling
                match standard_spelling(ty, i) {
                    Some(std) => if std != text {
                        return fail(format!("{} #{} is written {:?}, standard spelling is {:?}", ty, i, text, std))
                    },
                    None => return "SKIP".to_string(),
                }
                // 2. two different values never share a spelling (up to the documented shorthands)
                let class = match (*ty, i) { ("cfg", 0) => 55, ("cfg", 1) => 56, _ => i };
                if let Some(prev) = self.seen.insert((ty.to_string(), text.clone()), class) {
                    if prev != class {
                        return fail(format!("{} #{} and #{} share the spelling {:?}", ty, prev, i, text))
                    }
                }
                // 3. accepted in the corresponding position and reads back to the same value
                let (ctx, expect): (String, Ev) = match *ty {
                    "element" => (format!("[{}]", text), Ev::Root(format!("[_,E{},_,_,_,_]", i))),
                    "baro" => (format!("[{}]", text), Ev::Root(format!("[_,R{},_,_,_,_]", i))),
                    "aro" => (text.clone(), Ev::Root(format!("a{}", i))),
                    "ali" => (text.clone(), Ev::Root(format!("A{}", i))),
                    "cfg" => (format!("[C{}]", text), Ev::Root(format!("[_,E5,{},_,_,_]", class))),
                    "charge" => (format!("[C{}]", text), Ev::Root(format!("[_,E5,_,_,{},_]", charge_value_of_index(i)))),
                    "hcount" => (format!("[C{}]", text), Ev::Root(format!("[_,E5,_,{},_,_]", if i == 0 { "_".to_string() } else { i.to_string() }))),
                    "number" => (format!("[{}C:{}]", text, text), Ev::Root(format!("[{},E5,_,_,_,{}]", i, i))),
                    "rnum" => (format!("C{}", text), Ev::Join(0, i)),
                    "bond" => (format!("C{}C", text), Ev::Extend(i, "A1".to_string())),
                    _ => return "SKIP".to_string(),
                };
                match read_events(t, &ctx) {
                    Ok(evs) => {
                        let got = if *ty == "rnum" || *ty == "bond" { evs.get(1) } else { evs.get(0) };
                        if got != Some(&expect) {
                            return fail(format!("{} #{} written {:?}: {:?} reads back as {:?}, expected {}", ty, i, text, ctx, got.map(|e| e.s()), expect.s()))
                        }
                        "OK".to_string()
                    }
                    Err(v) => fail(format!("{} #{} written {:?}: {:?} is refused ({})", ty, i, text, ctx, v)),
                }
            }
            ["READ", h] => {
                let s = match unhex(h) { Some(s) => s, None => return "SKIP".to_string() };
                match read_events(t, &s) {
                    Ok(evs) => match self.roundtrip_history(&evs) { Ok(_) => "OK".to_string(), Err(m) => fail(format!("accepted string {:?}: {}", s, m)) },
                    Err(_) => "SKIP".to_string(),
                }
            }
            ["KTXT", k] => {
                // a whole atom kind: its text reads back to the same kind up to the documented shorthands
                let kind = match parse_kind(k) { Some(k) => k, None => return "SKIP".to_string() };
                let text = kind.to_string();
                let expect = norm_kind_s(k);
                match read_events(t, &text) {
                    Ok(evs) => match evs.as_slice() {
                        [Ev::Root(got)] if *got == expect => "OK".to_string(),
                        other => fail(format!("kind {} written {:?} reads back as {:?}, expected R:{}", k, text, other.iter().map(|e| e.s()).collect::<Vec<_>>(), expect)),
                    },
                    Err(v) => fail(format!("kind {} written {:?} is refused ({})", k, text, v)),
                }
            }
            _ => "SKIP".to_string(),
        }
    }

    // ---------------- C18: conversions exact, total on their range, inverse ----------------
    fn c18(&mut self, toks: &[&str]) -> String {
        let t = self.t;
        match toks {
            ["CONV", "charge", z] => {
                let z: i64 = match z.parse() { Ok(z) => z, Err(_) => return "SKIP".to_string() };
                if z < -128 || z > 127 { return "SKIP".to_string() }
                let in_range = z != 0 && -15 <= z && z <= 15;
                match Charge::try_from(z as i8) {
                    Ok(q) => {
                        if !in_range { return fail(format!("Charge::try_from({}) succeeds outside -15..15 \\ 0", z)) }
                        let back: i8 = (&q).into();
                        if back as i64 != z { return fail(format!("Charge::try_from({}) converts back to {}", z, back)) }
                        let shown = q.to_string();
                        let val = signed_value(&shown);
                        if val != Some(z) { return fail(format!("Charge::try_from({}) is shown as {:?}", z, shown)) }
                        "OK".to_string()
                    }
                    Err(_) => if in_range { fail(format!("Charge::try_from({}) fails inside its range", z)) } else { "OK".to_string() },
                }
            }
            ["CONV", "hcount", n] => {
                let n: u64 = match n.parse() { Ok(n) => n, Err(_) => return "SKIP".to_string() };
                if n > 255 { return "SKIP".to_string() }
                match VirtualHydrogen::try_from(n as u8) {
                    Ok(h) => {
                        if n > 9 { return fail(format!("VirtualHydrogen::try_from({}) succeeds outside 0..9", n)) }
                        let back: u8 = (&h).into();
                        if back as u64 != n { return fail(format!("VirtualHydrogen::try_from({}) converts back to {}", n, back)) }
                        let shown = h.to_string();
                        let want = match n { 0 => "".to_string(), 1 => "H".to_string(), _ => format!("H{}", n) };
                        if shown != want { return fail(format!("VirtualHydrogen {} is shown as {:?}", n, shown)) }
                        "OK".to_string()
                    }
                    Err(_) => if n <= 9 { fail(format!("VirtualHydrogen::try_from({}) fails inside its range", n)) } else { "OK".to_string() },
                }
            }
            ["CONV", "rnum", n] => {
                let n: u64 = match n.parse() { Ok(n) => n, Err(_) => return "SKIP".to_string() };
                if n > 65535 { return "SKIP".to_string() }
                match Rnum::try_from(n as u16) {
                    Ok(r) => {
                        if n > 99 { return fail(format!("Rnum::try_from({}) succeeds outside 0..99", n)) }
                        let shown = r.to_string();
                        let digits = shown.trim_start_matches('%');
                        if digits.parse::<u64>().ok() != Some(n) { return fail(format!("Rnum::try_from({}) is shown as {:?}", n, shown)) }
                        // injective: the value is the n-th in declaration order
                        if t.rnums.iter().position(|y| *y == r) != Some(n as usize) { return fail(format!("Rnum::try_from({}) is not the value R{}", n, n)) }
                        "OK".to_string()
                    }
                    Err(_) => if n <= 99 { fail(format!("Rnum::try_from({}) fails inside its range", n)) } else { "OK".to_string() },
                }
            }
            ["CONV", "number", n] => {
                let n: u64 = match n.parse() { Ok(n) => n, Err(_) => return "SKIP".to_string() };
                if n > 65535 { return "SKIP".to_string() }
                match Number::try_from(n as u16) {
                    Ok(x) => {
                        if n > 999 { return fail(format!("Number::try_from({}) succeeds outside 0..999", n)) }
                        if u16::from(&x) as u64 != n { return fail(format!("Number::try_from({}) converts back to {}", n, u16::from(&x))) }
                        if x.to_string() != n.to_string() { return fail(format!("Number {} is shown as {:?}", n, x.to_string())) }
                        "OK".to_string()
                    }
                    Err(_) => if n <= 999 { fail(format!("Number::try_from({}) fails inside its range", n)) } else { "OK".to_string() },
                }
            }
            ["CONV", "numstr", h] => {
                let s = match unhex(h) { Some(s) => s, None => return "SKIP".to_string() };
                let r: Result<Number, ()> = s.clone().try_into();
                match r {
                    Ok(x) => {
                        let v = u16::from(&x);
                        if v > 999 { return fail(format!("String {:?} converts to Number {} outside 0..999", s, v)) }
                        let body = s.strip_prefix('+').unwrap_or(&s);
                        if body.is_empty() || !body.chars().all(|c| c.is_ascii_digit()) || body.parse::<u64>().ok() != Some(v as u64) {
                            return fail(format!("String {:?} converts to Number {}", s, v))
                        }
                        "OK".to_string()
                    }
                    Err(_) => {
                        if !s.is_empty() && s.chars().all(|c| c.is_ascii_digit()) && s.parse::<u64>().map(|v| v < 1000).unwrap_or(false) {
                            fail(format!("digit string {:?} inside 0..999 is refused", s))
                        } else { "OK".to_string() }
                    }
                }
            }
            ["BACK", "rev", i] => {
                let i: usize = match i.parse() { Ok(i) => i, Err(_) => return "SKIP".to_string() };
                let b = match t.bond_kinds.get(i) { Some(b) => b, None => return "SKIP".to_string() };
                let r = b.reverse();
                if r.reverse() != *b { return fail(format!("reverse is not an involution on bond kind #{}", i)) }
                let directional = *b == BondKind::Up || *b == BondKind::Down;
                if (r != *b) != directional { return fail(format!("reverse of bond kind #{} is #{}", i, bond_s(t, &r))) }
                if *b == BondKind::Up && r != BondKind::Down { return fail("reverse(Up) is not Down".to_string()) }
                "OK".to_string()
            }
            ["BACK", "order", i] => {
                let i: usize = match i.parse() { Ok(i) => i, Err(_) => return "SKIP".to_string() };
                let b = match bond_kind_at(i) { Some(b) => b, None => return "SKIP".to_string() };
                let want = match b { BondKind::Double => 2, BondKind::Triple => 3, BondKind::Quadruple => 4, _ => 1 };
                let got = Bond::new(b, 0).order();
                if got != want { return fail(format!("order of bond kind #{} is {}, documented {}", i, got, want)) }
                "OK".to_string()
            }
            ["BACK", "baro2el", i] | ["CONV", "baro2aro", i] => {
                let i: usize = match i.parse() { Ok(i) => i, Err(_) => return "SKIP".to_string() };
                let a = match t.bracket_aromatics.get(i) { Some(a) => a, None => return "SKIP".to_string() };
                let e: Element = a.into();
                if e.to_string().to_lowercase() != a.to_string() { return fail(format!("BracketAromatic {} converts to Element {}", a, e)) }
                if let Ok(ar) = Aromatic::try_from(a) {
                    if ar.to_string() != a.to_string() { return fail(format!("BracketAromatic {} converts to Aromatic {}", a, ar)) }
                    let al: Aliphatic = (&ar).into();
                    if al.to_string().to_lowercase() != ar.to_string() { return fail(format!("Aromatic {} converts to Aliphatic {}", ar, al)) }
                } else if ["b", "c", "n", "o", "p", "s"].contains(&a.to_string().as_str()) {
                    return fail(format!("BracketAromatic {} has no Aromatic", a))
                }
                "OK".to_string()
            }
            ["CONV", "el2ali", i] => {
                let i: usize = match i.parse() { Ok(i) => i, Err(_) => return "SKIP".to_string() };
                let e = match t.elements.get(i) { Some(e) => e, None => return "SKIP".to_string() };
                let organic = ["B", "C", "N", "O", "S", "P", "F", "Cl", "Br", "I", "At", "Ts"].contains(&PERIODIC[i]);
                match Aliphatic::try_from(e) {
                    Ok(al) => if al.to_string() != PERIODIC[i] { fail(format!("Element #{} ({}) converts to Aliphatic {}", i, PERIODIC[i], al)) }
                              else if !organic { fail(format!("Element {} converts to an Aliphatic", PERIODIC[i])) } else { "OK".to_string() },
                    Err(_) => if organic { fail(format!("Element {} has no Aliphatic", PERIODIC[i])) } else { "OK".to_string() },
                }
            }
            ["BACK", "aro2ali", i] => {
                let i: usize = match i.parse() { Ok(i) => i, Err(_) => return "SKIP".to_string() };
                let a = match t.aromatics.get(i) { Some(a) => a, None => return "SKIP".to_string() };
                let al: Aliphatic = a.into();
                if al.to_string().to_lowercase() != a.to_string() { return fail(format!("Aromatic {} converts to Aliphatic {}", a, al)) }
                "OK".to_string()
            }
            ["BACK", "charge", i] => {
                let i: usize = match i.parse() { Ok(i) => i, Err(_) => return "SKIP".to_string() };
                let q = match t.charges.get(i) { Some(q) => q, None => return "SKIP".to_string() };
                let v: i8 = q.into();
                if v as i32 != charge_value_of_index(i) { return fail(format!("Charge #{} converts to {}", i, v)) }
                match Charge::try_from(v) { Ok(q2) if q2 == *q => "OK".to_string(), _ => fail(format!("Charge #{} -> {} does not convert back", i, v)) }
            }
            ["BACK", "hcount", i] => {
                let i: usize = match i.parse() { Ok(i) => i, Err(_) => return "SKIP".to_string() };
                let h = match t.hcounts.get(i) { Some(h) => h, None => return "SKIP".to_string() };
                let v: u8 = h.into();
                if v as usize != i { return fail(format!("VirtualHydrogen #{} converts to {}", i, v)) }
                "OK".to_string()
            }
            _ => "SKIP".to_string(),
        }
    }
}

impl<'a> Oracle<'a> {
    // ---------------- C13: ring-closure numbers are recycled and never run out early ----------------
    fn c13(&mut self, toks: &[&str]) -> String {
        match toks {
            ["POOL", rest @ ..] => {
                let mut pairs: Vec<(usize, usize)> = Vec::new();
                if !(rest.len() == 1 && rest[0] == "-") {
                    for x in rest.iter() {
                        let mut p = x.splitn(2, '-');
                        let a = p.next().and_then(|v| v.parse().ok());
                        let b = p.next().and_then(|v| v.parse().ok());
                        match (a, b) { (Some(a), Some(b)) => pairs.push((a, b)), _ => return "SKIP".to_string() }
                    }
                }
                let mut pool = purr::verif::JoinPool::new();
                let mut open: Vec<((usize, usize), usize)> = Vec::new(); // unordered pair -> number
                for (i, (a, b)) in pairs.iter().enumerate() {
                    let key = if a <= b { (*a, *b) } else { (*b, *a) };
                    let existing = open.iter().position(|(k, _)| *k == key);
                    let too_many = existing.is_none() && open.len() >= 99;
                    let r = catch_unwind(AssertUnwindSafe(|| pool.hit(*a, *b)));
                    let n = match r {
                        Ok(r) => rnum_s(self.t, &r).parse::<usize>().unwrap(),
                        Err(_) => {
                            if too_many { return "OK".to_string() } // more than 99 open at the same time: outside the property
                            return fail(format!("hit #{} ({},{}) panics with only {} closures open", i, a, b, open.len()))
                        }
                    };
                    match existing {
                        Some(j) => {
                            let (_, m) = open.remove(j);
                            if m != n { return fail(format!("hit #{} closes pair ({},{}) with number {}, it was opened with {}", i, a, b, n, m)) }
                        }
                        None => {
                            let mut want = 1;
                            while open.iter().any(|(_, m)| *m == want) { want += 1 }
                            if n != want { return fail(format!("hit #{} opens pair ({},{}) with number {}, the smallest number not open is {}", i, a, b, n, want)) }
                            open.push((key, n));
                        }
                    }
                }
                "OK".to_string()
            }
            ["WALK", rest @ ..] => {
                let g = match parse_graph(rest) { Some(g) => g, None => return "SKIP".to_string() };
                let mut rec = Rec::new(self.t);
                let r = catch_unwind(AssertUnwindSafe(|| purr::walk::walk(g, &mut rec)));
                let mut open: Vec<usize> = Vec::new();
                let mut max_open = 0;
                for (i, e) in rec.events.iter().enumerate() {
                    if let Ev::Join(_, n) = e {
                        if let Some(j) = open.iter().position(|m| m == n) { open.remove(j); }
                        else {
                            let mut want = 1;
                            while open.contains(&want) { want += 1 }
                            if *n != want { return fail(format!("event #{} opens ring number {}, the smallest number not open is {}", i, n, want)) }
                            open.push(*n);
                            if open.len() > max_open { max_open = open.len() }
                        }
                    }
                }
                match r {
                    Ok(Ok(())) => if !open.is_empty() { fail(format!("ring numbers {:?} are left open at the end of a successful traversal", open)) } else { "OK".to_string() },
                    Ok(Err(_)) => "OK".to_string(),
                    Err(_) => if max_open >= 99 { "OK".to_string() } else { fail(format!("traversal panics at {} with at most {} closures open", imp::last_panic(), max_open)) },
                }
            }
            _ => "SKIP".to_string(),
        }
    }
}

impl<'a> Oracle<'a> {
    // ---------------- C06: no input makes the library panic ----------------
    fn c06(&mut self, toks: &[&str]) -> String {
        let t = self.t;
        match toks {
            ["READ", h] => {
                let s = match unhex(h) { Some(s) => s, None => return "SKIP".to_string() };
                let resp = imp::do_read(t, &s);
                if resp.contains("panic") { return fail(format!("reading {:?} panics: {}", s, first_panic(&resp))) }
                "OK".to_string()
            }
            ["WALK", rest @ ..] => {
                let resp = imp::do_walk(t, rest);
                if resp.contains("panic") { return fail(format!("traversal panics: {}", first_panic(&resp))) }
                // building from the traversal's events, and the hydrogen queries on every atom
                if let Some(g) = parse_graph(rest) {
                    for (i, a) in g.iter().enumerate() {
                        if catch_unwind(AssertUnwindSafe(|| (a.subvalence(), a.suppressed_hydrogens()))).is_err() {
                            return fail(format!("hydrogen query panics on atom {} at {}", i, imp::last_panic()))
                        }
                    }
                }
                "OK".to_string()
            }
            ["EVS", rest @ ..] => {
                let evs: Option<Vec<Ev>> = if rest.len() == 1 && rest[0] == "-" { Some(vec![]) } else { rest.iter().map(|x| Ev::parse(x)).collect() };
                let evs = match evs { Some(e) => e, None => return "SKIP".to_string() };
                if imp::proto_violation(&evs).is_some() { return "SKIP".to_string() } // documented panics of the followers
                let resp = imp::do_evs(t, &evs);
                if resp.contains("panic") { return fail(format!("a follower panics on a protocol-conformant history: {}", resp)) }
                "OK".to_string()
            }
            ["VAL", k, bs] => {
                let resp = imp::do_val(t, k, bs);
                if resp.contains("panic") { return fail(format!("hydrogen query panics: {}", resp)) }
                "OK".to_string()
            }
            _ => "SKIP".to_string(),
        }
    }

    // ---------------- C08: event streams are protocol-conformant ----------------
    fn c08(&mut self, toks: &[&str]) -> String {
        let t = self.t;
        match toks {
            ["READ", h] => {
                let s = match unhex(h) { Some(s) => s, None => return "SKIP".to_string() };
                let mut rec = Rec::new(t);
                let _ = catch_unwind(AssertUnwindSafe(|| read(&s, &mut rec, None)));
                match imp::proto_violation(&rec.events) {
                    None => "OK".to_string(),
                    Some(i) => fail(format!("reading {:?}: event #{} ({}) violates the follower contract", s, i, rec.events[i].s())),
                }
            }
            ["WALK", rest @ ..] => {
                let g = match parse_graph(rest) { Some(g) => g, None => return "SKIP".to_string() };
                let orig = parse_graph(rest).unwrap();
                let mut rec = Rec::new(t);
                let r = catch_unwind(AssertUnwindSafe(|| purr::walk::walk(g, &mut rec)));
                if let Some(i) = imp::proto_violation(&rec.events) {
                    return fail(format!("traversal event #{} ({}) violates the follower contract", i, rec.events[i].s()))
                }
                if let Ok(Ok(())) = r {
                    // joins in matched pairs, one on each atom of a bond of the input graph
                    // replay the path to know the head (as a traversal-order atom index) at every join
                    let mut path: Vec<usize> = Vec::new();
                    let mut natoms = 0usize;
                    let mut open: Vec<(usize, usize, usize)> = Vec::new(); // (rnum, head, kind)
                    let mut pairs = 0usize;
                    for (i, e) in rec.events.iter().enumerate() {
                        match e {
                            Ev::Root(_) | Ev::Extend(_, _) => { path.push(natoms); natoms += 1 }
                            Ev::Pop(d) => { for _ in 0..*d { path.pop(); } }
                            Ev::Join(b, n) => {
                                let head = *path.last().unwrap();
                                if let Some(j) = open.iter().position(|(m, _, _)| m == n) {
                                    let (_, h0, b0) = open.remove(j);
                                    if h0 == head { return fail(format!("join event #{} closes ring number {} on the atom that opened it", i, n)) }
                                    let rev = |k: usize| match k { 6 => 7, 7 => 6, x => x };
                                    if rev(b0) != *b { return fail(format!("join event #{}: the two ends of ring closure {} carry kinds {} and {}", i, n, b0, b)) }
                                    pairs += 1;
                                } else { open.push((*n, head, *b)) }
                            }
                        }
                    }
                    if !open.is_empty() { return fail(format!("a successful traversal leaves ring closures {:?} unmatched", open.iter().map(|x| x.0).collect::<Vec<_>>())) }
                    let bonds: usize = orig.iter().map(|a| a.bonds.len()).sum();
                    let comps = rec.events.iter().filter(|e| matches!(e, Ev::Root(_))).count();
                    if natoms != orig.len() { return fail(format!("a successful traversal reports {} atoms of {}", natoms, orig.len())) }
                    if bonds != 2 * ((natoms - comps) + pairs) { return fail(format!("a successful traversal reports {} tree bonds and {} ring closures for {} half-bonds", natoms - comps, pairs, bonds)) }
                }
                "OK".to_string()
            }
            _ => "SKIP".to_string(),
        }
    }
}

fn norm_ev(e: &Ev) -> Ev {
    match e {
        Ev::Root(k) => Ev::Root(norm_kind_s(k)),
        Ev::Extend(b, k) => Ev::Extend(*b, norm_kind_s(k)),
        x => x.clone(),
    }
}

fn drive_follower<F: purr::walk::Follower>(f: &mut F, events: &[Ev]) -> Option<()> {
    for e in events {
        match e {
            Ev::Root(k) => f.root(parse_kind(k)?),
            Ev::Extend(b, k) => f.extend(bond_kind_at(*b)?, parse_kind(k)?),
            Ev::Join(b, r) => f.join(bond_kind_at(*b)?, rnum_at(*r)?),
            Ev::Pop(d) => f.pop(*d),
        }
    }
    Some(())
}

impl<'a> Oracle<'a> {
    /// write a conformant history, read the text back, compare histories and follower results
    fn roundtrip_history(&self, evs: &[Ev]) -> Result<String, String> {
        let t = self.t;
        let mut w = purr::write::Writer::new();
        if catch_unwind(AssertUnwindSafe(|| drive_follower(&mut w, evs))).is_err() {
            return Err(format!("the writer panics on a conformant history at {}", imp::last_panic()))
        }
        let text = w.write();
        let got = match read_events(t, &text) {
            Ok(g) => g,
            Err(v) => return Err(format!("writer output {:?} is refused by the reader ({})", text, v)),
        };
        let want: Vec<Ev> = evs.iter().map(norm_ev).collect();
        if got != want {
            let i = got.iter().zip(want.iter()).position(|(a, b)| a != b).unwrap_or(got.len().min(want.len()));
            return Err(format!("writer output {:?} replays event #{} as {} instead of {} ({} vs {} events)", text, i,
                got.get(i).map(|e| e.s()).unwrap_or_default(), want.get(i).map(|e| e.s()).unwrap_or_default(), got.len(), want.len()))
        }
        // the builder driven directly with the history vs through the text (up to the shorthands)
        let mut b1 = purr::graph::Builder::new();
        let r1 = catch_unwind(AssertUnwindSafe(|| drive_follower(&mut b1, &want)));
        let mut b2 = purr::graph::Builder::new();
        let r2 = catch_unwind(AssertUnwindSafe(|| read(&text, &mut b2, None)));
        if r1.is_err() || r2.is_err() { return Err(format!("the builder panics at {}", imp::last_panic())) }
        let g1 = imp::build_s(t, catch_unwind(AssertUnwindSafe(|| b1.build())));
        let g2 = imp::build_s(t, catch_unwind(AssertUnwindSafe(|| b2.build())));
        if g1 != g2 { return Err(format!("the builder reaches {} directly and {} through the text {:?}", g1, g2, text)) }
        // re-writing what was read reproduces the text character for character
        let mut w2 = purr::write::Writer::new();
        let _ = read(&text, &mut w2, None);
        let text2 = w2.write();
        if text2 != text { return Err(format!("re-writing {:?} gives {:?}", text, text2)) }
        Ok(text)
    }

    // ---------------- C09: writer and reader are mutually inverse on event histories ----------------
    fn c09(&mut self, toks: &[&str]) -> String {
        match toks {
            ["EVS", rest @ ..] => {
                let evs: Option<Vec<Ev>> = if rest.len() == 1 && rest[0] == "-" { Some(vec![]) } else { rest.iter().map(|x| Ev::parse(x)).collect() };
                let evs = match evs { Some(e) => e, None => return "SKIP".to_string() };
                if evs.is_empty() || imp::proto_violation(&evs).is_some() { return "SKIP".to_string() }
                match self.roundtrip_history(&evs) { Ok(_) => "OK".to_string(), Err(m) => fail(m) }
            }
            ["READ", h] => {
                let s = match unhex(h) { Some(s) => s, None => return "SKIP".to_string() };
                match read_events(self.t, &s) {
                    Ok(evs) => match self.roundtrip_history(&evs) { Ok(_) => "OK".to_string(), Err(m) => fail(format!("accepted string {:?}: {}", s, m)) },
                    Err(_) => "SKIP".to_string(),
                }
            }
            ["KTXT", k] => {
                let evs = vec![Ev::Root(k.to_string())];
                match self.roundtrip_history(&evs) { Ok(_) => "OK".to_string(), Err(m) => fail(m) }
            }
            _ => "SKIP".to_string(),
        }
    }
}

/// the definition of a well-formed simple graph, written from the property text
pub fn graph_defect(g: &[purr::graph::Atom]) -> Option<String> {
    let n = g.len();
    for (a, atom) in g.iter().enumerate() {
        for b in atom.bonds.iter() {
            if b.tid >= n { return Some(format!("bond {}->{}: target does not exist", a, b.tid)) }
            if b.tid == a { return Some(format!("atom {} is bonded to itself", a)) }
            if atom.bonds.iter().filter(|x| x.tid == b.tid).count() != 1 { return Some(format!("pair {}-{} is bonded twice", a, b.tid)) }
            let backs: Vec<&Bond> = g[b.tid].bonds.iter().filter(|x| x.tid == a).collect();
            if backs.len() != 1 { return Some(format!("bond {}->{} has {} counterparts", a, b.tid, backs.len())) }
            if backs[0].kind != b.kind.reverse() { return Some(format!("bond {}->{} and its counterpart have incompatible kinds", a, b.tid)) }
        }
    }
    None
}

impl<'a> Oracle<'a> {
    // ---------------- C11: traversal accepts exactly well-formed adjacency lists ----------------
    fn c11(&mut self, toks: &[&str]) -> String {
        let t = self.t;
        match toks {
            ["WALK", rest @ ..] => {
                let g = match parse_graph(rest) { Some(g) => g, None => return "SKIP".to_string() };
                let defect = graph_defect(&g);
                let mut rec = Rec::new(t);
                let r = catch_unwind(AssertUnwindSafe(|| purr::walk::walk(parse_graph(rest).unwrap(), &mut rec)));
                match r {
                    Err(_) => {
                        if defect.is_none() && imp::last_panic().contains("join_pool") { return "SKIP".to_string() } // more than 99 open closures (C06 / D17)
                        fail(format!("traversal panics at {}", imp::last_panic()))
                    }
                    Ok(Ok(())) => {
                        if let Some(d) = defect { return fail(format!("traversal succeeds on an ill-formed adjacency list: {}", d)) }
                        if g.is_empty() { return "OK".to_string() } // the empty molecule has no text form (C01's finding D19)
                        // what was handed to the follower must be readable and build (balanced molecule)
                        let mut w = purr::write::Writer::new();
                        let _ = purr::walk::walk(parse_graph(rest).unwrap(), &mut w);
                        let text = w.write();
                        let mut b = purr::graph::Builder::new();
                        match catch_unwind(AssertUnwindSafe(|| read(&text, &mut b, None))) {
                            Ok(Ok(())) => match b.build() {
                                Ok(g2) => if g2.len() != g.len() { fail(format!("written text {:?} builds {} atoms of {}", text, g2.len(), g.len())) } else { "OK".to_string() },
                                Err(e) => fail(format!("written text {:?} does not build: {:?}", text, e)),
                            },
                            other => fail(format!("written text {:?} is not readable: {:?}", text, other.map_err(|_| "panic"))),
                        }
                    }
                    Ok(Err(e)) => {
                        if defect.is_none() { return fail(format!("traversal rejects a well-formed adjacency list with {:?}", e)) }
                        // the error must identify a bond that really has that defect
                        use purr::walk::Error as E;
                        let n = g.len();
                        let has = |a: usize, tt: usize| a < n && g[a].bonds.iter().any(|x| x.tid == tt);
                        let cnt = |a: usize, tt: usize| if a < n { g[a].bonds.iter().filter(|x| x.tid == tt).count() } else { 0 };
                        let real = match &e {
                            E::UnknownTarget(a, tt) => has(*a, *tt) && *tt >= n,
                            E::Loop(a) => has(*a, *a),
                            E::HalfBond(a, tt) => has(*a, *tt) && *tt < n && cnt(*tt, *a) == 0,
                            E::DuplicateBond(a, tt) => cnt(*a, *tt) >= 2 || cnt(*tt, *a) >= 2,
                            E::IncompatibleBond(tt, a) => *a < n && *tt < n && g[*a].bonds.iter().any(|x| x.tid == *tt && g[*tt].bonds.iter().any(|y| y.tid == *a && y.kind != x.kind.reverse())),
                        };
                        if !real { return fail(format!("error {:?} does not identify a bond with that defect", e)) }
                        if !rec.events.is_empty() { return "OK".to_string() }
                        "OK".to_string()
                    }
                }
            }
            _ => "SKIP".to_string(),
        }
    }
}

impl<'a> Oracle<'a> {
    // ---------------- C04: the reader accepts exactly the documented grammar ----------------
    fn c04(&mut self, toks: &[&str]) -> String {
        match toks {
            ["READ", h] => {
                let s = match unhex(h) { Some(s) => s, None => return "SKIP".to_string() };
                let resp = imp::do_read(self.t, &s);
                if resp.contains("FOLLOWERDEP") { return fail(format!("the verdict for {:?} depends on the follower: {}", s, &resp[resp.find("FOLLOWERDEP").unwrap()..])) }
                let accepted = resp.starts_with("ok #");
                let want = crate::refsmiles::classify(&s) == crate::refsmiles::Verdict::Ok;
                if accepted && !want { return fail(format!("{:?} is accepted but is not a sentence of the documented grammar", s)) }
                if !accepted && want { return fail(format!("{:?} is a sentence of the documented grammar but is refused ({})", s, resp.split(' ').next().unwrap_or(""))) }
                "OK".to_string()
            }
            _ => "SKIP".to_string(),
        }
    }

    // ---------------- C05: syntax errors point at the first offending character ----------------
    fn c05(&mut self, toks: &[&str]) -> String {
        use crate::refsmiles::{classify, completion, Verdict};
        match toks {
            ["READ", h] => {
                let s = match unhex(h) { Some(s) => s, None => return "SKIP".to_string() };
                let mut rec = Rec::new(self.t);
                let r = catch_unwind(AssertUnwindSafe(|| read(&s, &mut rec, None)));
                let got = match r {
                    Ok(Ok(())) => return "SKIP".to_string(),
                    Ok(Err(purr::read::Error::Character(i))) => Verdict::Character(i),
                    Ok(Err(purr::read::Error::EndOfLine)) => Verdict::EndOfLine,
                    Err(_) => return fail(format!("reading {:?} panics", s)),
                };
                let want = classify(&s);
                if got != want { return fail(format!("{:?} is refused with {:?}; the first character that cannot continue a valid SMILES gives {:?}", s, got, want)) }
                // independent confirmation by brute force: the prefix before the cursor can be completed
                let chars: Vec<char> = s.chars().collect();
                let prefix: String = match got { Verdict::Character(i) => chars[..i].iter().collect(), _ => s.clone() };
                if !prefix.is_empty() && chars.len() <= 40 && completion(&prefix).is_none() {
                    return fail(format!("{:?}: no completion of the prefix {:?} before the reported cursor was found", s, prefix))
                }
                "OK".to_string()
            }
            _ => "SKIP".to_string(),
        }
    }

    // ---------------- C19: stack use is bounded by nesting ----------------
    fn c19(&mut self, toks: &[&str]) -> String {
        match toks {
            ["READ", h] => {
                let s = match unhex(h) { Some(s) => s, None => return "SKIP".to_string() };
                let mut cur = 0usize; let mut nesting = 0usize;
                for c in s.chars() { if c == '(' { cur += 1; if cur > nesting { nesting = cur } } else if c == ')' && cur > 0 { cur -= 1 } }
                let mut rec = Rec::new(self.t);
                purr::verif::reset_depth();
                let _ = catch_unwind(AssertUnwindSafe(|| read(&s, &mut rec, None)));
                let d = purr::verif::max_depth();
                if d > nesting + 1 { return fail(format!("reading a string of {} characters with parenthesis nesting {} uses {} nested read_smiles activations", s.chars().count(), nesting, d)) }
                "OK".to_string()
            }
            _ => "SKIP".to_string(),
        }
    }
}

/// what the property text of C10 says about a history, computed without the builder:
/// (indices of unmatched ring digits, problematic closures as (closing head, opening head))
pub fn closure_problems(evs: &[Ev]) -> (Vec<usize>, Vec<(usize, usize)>) {
    let rev = |k: usize| match k { 6 => 7, 7 => 6, x => x };
    let mut path: Vec<usize> = Vec::new();
    let mut natoms = 0usize;
    let mut bonded: Vec<(usize, usize)> = Vec::new();
    let mut open: Vec<(usize, usize, usize, usize)> = Vec::new(); // rnum, head, kind, join index
    let mut problems = Vec::new();
    let mut jidx = 0usize;
    for e in evs {
        match e {
            Ev::Root(_) => { path.push(natoms); natoms += 1 }
            Ev::Extend(_, _) => { let h = *path.last().unwrap(); bonded.push((h.min(natoms), h.max(natoms))); path.push(natoms); natoms += 1 }
            Ev::Pop(d) => { for _ in 0..*d { path.pop(); } }
            Ev::Join(b, n) => {
                let head = *path.last().unwrap();
                if let Some(j) = open.iter().position(|x| x.0 == *n) {
                    let (_, h0, k0, _) = open.remove(j);
                    let pair = (h0.min(head), h0.max(head));
                    let reconcilable = k0 == 0 || *b == 0 || k0 == rev(*b);
                    if h0 == head || bonded.contains(&pair) || !reconcilable { problems.push((head, h0)) } else { bonded.push(pair) }
                } else { open.push((*n, head, *b, jidx)) }
                jidx += 1;
            }
        }
    }
    (open.iter().map(|x| x.3).collect(), problems)
}

impl<'a> Oracle<'a> {
    fn check_build(&self, evs: &[Ev], what: &str) -> String {
        let t = self.t;
        let mut b = purr::graph::Builder::new();
        if catch_unwind(AssertUnwindSafe(|| drive_follower(&mut b, evs))).is_err() {
            return fail(format!("{}: the builder panics on a conformant history at {}", what, imp::last_panic()))
        }
        let (unmatched, problems) = closure_problems(evs);
        match b.build() {
            Ok(g) => {
                if let Some(d) = graph_defect(&g) { return fail(format!("{}: build succeeds with an ill-formed graph: {}", what, d)) }
                if !unmatched.is_empty() { return fail(format!("{}: build succeeds although ring digit #{} is unmatched", what, unmatched[0])) }
                if !problems.is_empty() { return fail(format!("{}: build succeeds although the closure between atoms {:?} is irreconcilable, a self bond or a duplicate", what, problems[0])) }
                let mut rec = Rec::new(t);
                match catch_unwind(AssertUnwindSafe(|| purr::walk::walk(g, &mut rec))) {
                    Ok(Ok(())) => "OK".to_string(),
                    Ok(Err(e)) => fail(format!("{}: the traversal refuses a successfully built graph with {:?}", what, e)),
                    Err(_) => if imp::last_panic().contains("join_pool") { "OK".to_string() } else { fail(format!("{}: the traversal panics on a built graph", what)) },
                }
            }
            Err(purr::graph::Error::Rnum(i)) => {
                if !unmatched.contains(&i) { return fail(format!("{}: build reports ring digit #{} as unmatched, unmatched digits are {:?}", what, i, unmatched)) }
                "OK".to_string()
            }
            Err(purr::graph::Error::Join(a, bb)) => {
                if !problems.contains(&(a, bb)) { return fail(format!("{}: build reports Join({}, {}), problematic closures are {:?}", what, a, bb, problems)) }
                "OK".to_string()
            }
        }
    }

    // ---------------- C10: a successful build is a well-formed simple graph; build errors are real ----------------
    fn c10(&mut self, toks: &[&str]) -> String {
        match toks {
            ["EVS", rest @ ..] => {
                let evs: Option<Vec<Ev>> = if rest.len() == 1 && rest[0] == "-" { Some(vec![]) } else { rest.iter().map(|x| Ev::parse(x)).collect() };
                let evs = match evs { Some(e) => e, None => return "SKIP".to_string() };
                if imp::proto_violation(&evs).is_some() { return "SKIP".to_string() }
                self.check_build(&evs, "history")
            }
            ["READ", h] => {
                let s = match unhex(h) { Some(s) => s, None => return "SKIP".to_string() };
                match read_events(self.t, &s) {
                    Ok(evs) => self.check_build(&evs, &format!("accepted string {:?}", s)),
                    Err(_) => "SKIP".to_string(),
                }
            }
            _ => "SKIP".to_string(),
        }
    }
}

fn first_panic(resp: &str) -> String {
    match resp.find("panic") { Some(i) => resp[i..].split(' ').next().unwrap_or("panic").to_string(), None => String::new() }
}

/// standard valences from the property text of C17, by element symbol
fn std_valences(sym: &str) -> &'static [u8] {
    match sym {
        "B" => &[3], "C" => &[4], "N" | "P" => &[3, 5], "O" => &[2], "S" => &[2, 4, 6],
        "F" | "Cl" | "Br" | "I" | "At" | "Ts" => &[1],
        _ => &[],
    }
}

fn h_spec(vs: &[u8], v: usize) -> usize {
    match vs.iter().find(|t| **t as usize >= v) { Some(t) => *t as usize - v, None => 0 }
}

/// (element symbol or "*", aromatic flag) of a kind, through Display only
fn element_and_flag(k: &AtomKind) -> (String, bool) {
    match k {
        AtomKind::Star => ("*".to_string(), false),
        AtomKind::Aliphatic(a) => (a.to_string(), false),
        AtomKind::Aromatic(a) => (capitalize(&a.to_string()), true),
        AtomKind::Bracket { symbol, .. } => match symbol {
            BracketSymbol::Star => ("*".to_string(), false),
            BracketSymbol::Element(e) => (e.to_string(), false),
            BracketSymbol::Aromatic(a) => (capitalize(&a.to_string()), true),
        },
    }
}

fn capitalize(s: &str) -> String {
    let mut c = s.chars();
    match c.next() { Some(f) => f.to_uppercase().collect::<String>() + c.as_str(), None => String::new() }
}

impl<'a> Oracle<'a> {
    // ---------------- C16: debracketing never changes what an atom means ----------------
    fn c16(&mut self, toks: &[&str]) -> String {
        match toks {
            ["DEB", k, bos] => {
                let bos: usize = match bos.parse() { Ok(v) => v, Err(_) => return "SKIP".to_string() };
                let orig = match parse_kind(k) { Some(x) => x, None => return "SKIP".to_string() };
                let hc = match &orig { AtomKind::Bracket { hcount: Some(h), .. } => { let v: u8 = h.into(); v as usize } _ => 0 };
                if bos + hc > 255 { return "SKIP".to_string() } // outside the property's quantifier
                let res = match catch_unwind(AssertUnwindSafe(|| parse_kind(k).unwrap().debracket(bos as u8))) {
                    Ok(r) => r,
                    Err(_) => return fail(format!("debracket({}) panics on {} although the sum fits in a byte", bos, k)),
                };
                let (e0, f0) = element_and_flag(&orig);
                let (e1, f1) = element_and_flag(&res);
                if e0 != e1 { return fail(format!("{}.debracket({}) = {}: element {} became {}", k, bos, kind_s(self.t, &res), e0, e1)) }
                if f0 != f1 { return fail(format!("{}.debracket({}) = {}: aromatic flag changed", k, bos, kind_s(self.t, &res))) }
                let bonds = |n: usize| (0..n).map(|_| Bond::new(BondKind::Single, 0)).collect::<Vec<_>>();
                let h0 = purr::graph::Atom { kind: orig, bonds: bonds(bos) }.suppressed_hydrogens();
                let unchanged_expected = match parse_kind(k).unwrap() {
                    AtomKind::Bracket { isotope, configuration, charge, map, .. } => isotope.is_some() || configuration.is_some() || charge.is_some() || map.is_some(),
                    _ => true,
                };
                if unchanged_expected && res != parse_kind(k).unwrap() {
                    return fail(format!("{}.debracket({}) = {}: must be returned unchanged", k, bos, kind_s(self.t, &res)))
                }
                let rs = kind_s(self.t, &res);
                let h1 = purr::graph::Atom { kind: res, bonds: bonds(bos) }.suppressed_hydrogens();
                if h0 != h1 { return fail(format!("{}.debracket({}) = {}: {} hydrogens became {}", k, bos, rs, h0, h1)) }
                "OK".to_string()
            }
            _ => "SKIP".to_string(),
        }
    }

    // ---------------- C17: hydrogen counts and subvalence follow the valence model ----------------
    fn c17(&mut self, toks: &[&str]) -> String {
        match toks {
            ["VAL", k, bs] => {
                let kind = match parse_kind(k) { Some(x) => x, None => return "SKIP".to_string() };
                let bonds = match imp::parse_bond_multi(bs) { Some(b) => b, None => return "SKIP".to_string() };
                // bond-order sum from the documented orders
                let sum: usize = bonds.iter().map(|b| match b.kind { BondKind::Double => 2, BondKind::Triple => 3, BondKind::Quadruple => 4, _ => 1 }).sum();
                let targets: Vec<u8> = kind.targets().to_vec();
                let (sym, _) = element_and_flag(&kind);
                let (want_h, hc): (usize, usize) = match &kind {
                    AtomKind::Star => (0, 0),
                    AtomKind::Aliphatic(_) => (h_spec(std_valences(&sym), sum), 0),
                    AtomKind::Aromatic(_) => (h_spec(std_valences(&sym), sum).saturating_sub(1), 0),
                    AtomKind::Bracket { hcount, .. } => { let v = match hcount { Some(h) => { let v: u8 = h.into(); v as usize } None => 0 }; (v, v) }
                };
                // charged bracket atoms with targets: those of the isoelectronic neutral element
                if let AtomKind::Bracket { symbol, charge: Some(q), .. } = &kind {
                    if !targets.is_empty() {
                        let z: i8 = q.into();
                        let el = sym.clone();
                        let an = PERIODIC.iter().position(|x| *x == el).map(|i| i as i32 + 1);
                        let iso = an.and_then(|a| PERIODIC.get((a - z as i32 - 1) as usize));
                        let want: &[u8] = match iso { Some(s) => match *s { "As" => &[3, 5], "Se" => &[2, 4, 6], "F" | "Cl" | "Br" | "I" | "At" | "Ts" => &[], x => std_valences(x) }, None => &[] };
                        if want != targets.as_slice() { return fail(format!("targets of {} are {:?}, isoelectronic neutral element {:?} has {:?}", k, targets, iso, want)) }
                        let _ = symbol;
                    }
                }
                let atom = purr::graph::Atom { kind, bonds };
                let sub = match catch_unwind(AssertUnwindSafe(|| atom.subvalence())) { Ok(v) => v as usize, Err(_) => return fail(format!("subvalence panics for {} with bond-order sum {}", k, sum)) };
                let want_sub = h_spec(&targets, sum + hc);
                if sub != want_sub { return fail(format!("subvalence of {} with bond-order sum {} is {}, valence model gives {}", k, sum, sub, want_sub)) }
                let h = match catch_unwind(AssertUnwindSafe(|| atom.suppressed_hydrogens())) { Ok(v) => v as usize, Err(_) => return fail(format!("suppressed_hydrogens panics for {} with bond-order sum {}", k, sum)) };
                if h != want_h { return fail(format!("hydrogen count of {} with bond-order sum {} is {}, valence model gives {}", k, sum, h, want_h)) }
                "OK".to_string()
            }
            _ => "SKIP".to_string(),
        }
    }
}

fn signed_value(s: &str) -> Option<i64> {
    let (sign, rest) = if let Some(r) = s.strip_prefix('+') { (1, r) } else if let Some(r) = s.strip_prefix('-') { (-1, r) } else { return None };
    if rest.is_empty() { return Some(sign) }
    if !rest.chars().all(|c| c.is_ascii_digit()) { return None }
    rest.parse::<i64>().ok().map(|v| sign * v)
}

/// canonical kind with the documented shorthands identified: AL1/AL2 read back as TH1/TH2, H0 as absent
pub fn norm_kind_s(k: &str) -> String {
    if k.starts_with('[') {
        let inner = &k[1..k.len() - 1];
        let mut f: Vec<String> = inner.split(',').map(|x| x.to_string()).collect();
        if f.len() == 6 {
            if f[2] == "0" { f[2] = "55".to_string() }
            if f[2] == "1" { f[2] = "56".to_string() }
            if f[3] == "0" { f[3] = "_".to_string() }
            return format!("[{}]", f.join(","));
        }
    }
    k.to_string()
}
