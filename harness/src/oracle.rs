//! Property-level oracles: each property stated directly over the public API of the
//! implementation (no model involved).  Used to search for a concrete failing input, and as a
//! guard against "model and code agree and both are wrong".
//!
//! `check` answers one request line with `OK`, `SKIP` (request not relevant to the property) or
//! `FAIL <message>`.

use std::collections::HashMap;
use std::convert::{TryFrom, TryInto};
use std::panic::{catch_unwind, AssertUnwindSafe};

use purr::feature::*;
use purr::graph::Bond;
use purr::read::read;

use crate::canon::*;
use crate::imp::{self, Rec};

/// the periodic table, transcribed independently of /repo (atomic-number order)
pub const PERIODIC: [&str; 118] = [
    "H", "He", "Li", "Be", "B", "C", "N", "O", "F", "Ne", "Na", "Mg", "Al", "Si", "P", "S", "Cl", "Ar", "K", "Ca",
    "Sc", "Ti", "V", "Cr", "Mn", "Fe", "Co", "Ni", "Cu", "Zn", "Ga", "Ge", "As", "Se", "Br", "Kr", "Rb", "Sr", "Y", "Zr",
    "Nb", "Mo", "Tc", "Ru", "Rh", "Pd", "Ag", "Cd", "In", "Sn", "Sb", "Te", "I", "Xe", "Cs", "Ba", "La", "Ce", "Pr", "Nd",
    "Pm", "Sm", "Eu", "Gd", "Tb", "Dy", "Ho", "Er", "Tm", "Yb", "Lu", "Hf", "Ta", "W", "Re", "Os", "Ir", "Pt", "Au", "Hg",
    "Tl", "Pb", "Bi", "Po", "At", "Rn", "Fr", "Ra", "Ac", "Th", "Pa", "U", "Np", "Pu", "Am", "Cm", "Bk", "Cf", "Es", "Fm",
    "Md", "No", "Lr", "Rf", "Db", "Sg", "Bh", "Hs", "Mt", "Ds", "Rg", "Cn", "Nh", "Fl", "Mc", "Lv", "Ts", "Og",
];

pub struct Oracle<'a> {
    pub t: &'a Tables,
    pub prop: String,
    /// C07: spelling -> (type, index) seen so far, to detect two values sharing a spelling
    seen: HashMap<(String, String), usize>,
}

fn fail(msg: String) -> String {
    format!("FAIL {}", msg)
}

/// read `s` into a recording follower; Ok(events) only if accepted
fn read_events(t: &Tables, s: &str) -> Result<Vec<Ev>, String> {
    let mut rec = Rec::new(t);
    let r = catch_unwind(AssertUnwindSafe(|| read(s, &mut rec, None)));
    match r {
        Ok(Ok(())) => Ok(rec.events),
        other => Err(imp::read_verdict_s(&other)),
    }
}

/// the standard spelling of each value, computed from the property text (not from /repo)
fn standard_spelling(ty: &str, i: usize) -> Option<String> {
    Some(match ty {
        "element" => PERIODIC.get(i)?.to_string(),
        "baro" => ["b", "c", "n", "o", "s", "p", "se", "as"].get(i)?.to_string(),
        "aro" => ["b", "c", "n", "o", "p", "s"].get(i)?.to_string(),
        "ali" => ["B", "C", "N", "O", "S", "P", "F", "Cl", "Br", "I", "At", "Ts"].get(i)?.to_string(),
        "cfg" => {
            // declaration order: AL1 AL2 OH1..30 SP1..3 TB1..20 TH1 TH2; @ / @@ stand for the TH and AL pairs
            match i {
                0 | 55 => "@".to_string(),
                1 | 56 => "@@".to_string(),
                2..=31 => format!("@OH{}", i - 1),
                32..=34 => format!("@SP{}", i - 31),
                35..=54 => format!("@TB{}", i - 34),
                _ => return None,
            }
        }
        "charge" => {
            let v = charge_value_of_index(i);
            if i >= 30 { return None }
            let sign = if v < 0 { "-" } else { "+" };
            if v.abs() == 1 { sign.to_string() } else { format!("{}{}", sign, v.abs()) }
        }
        "hcount" => match i { 0 => "".to_string(), 1 => "H".to_string(), 2..=9 => format!("H{}", i), _ => return None },
        "rnum" => if i < 10 { format!("{}", i) } else if i < 100 { format!("%{}", i) } else { return None },
        "bond" => ["", "-", "=", "#", "$", ":", "/", "\\"].get(i)?.to_string(),
        "number" => if i < 1000 { format!("{}", i) } else { return None },
        _ => return None,
    })
}

impl<'a> Oracle<'a> {
    pub fn new(t: &'a Tables, prop: &str) -> Self {
        Oracle { t, prop: prop.to_string(), seen: HashMap::new() }
    }

    pub fn check(&mut self, line: &str) -> String {
        let toks: Vec<&str> = line.trim().split(' ').collect();
        let r = catch_unwind(AssertUnwindSafe(|| match self.prop.as_str() {
            "C07" => self.c07(&toks),
            "C18" => self.c18(&toks),
            "C16" => self.c16(&toks),
            "C13" => self.c13(&toks),
            "C06" => self.c06(&toks),
            "C08" => self.c08(&toks),
            "C09" => self.c09(&toks),
            "C11" => self.c11(&toks),
            "C10" => self.c10(&toks),
            "C01" => self.c01(&toks),
            "C02" => self.c02(&toks),
            "C03" => self.c03(&toks),
            "C12" => self.c12(&toks),
            "C14" => self.c14(&toks),
            "C15" => self.c15(&toks),
            "C04" => self.c04(&toks),
            "C05" => self.c05(&toks),
            "C19" => self.c19(&toks),
            "C17" => self.c17(&toks),
            _ => "SKIP".to_string(),
        }));
        match r {
            Ok(s) => s,
            Err(_) => fail(format!("oracle panicked at {}", imp::last_panic())),
        }
    }

    // ---------------- C07: every feature value's text form reads back to the same value ----------------
    fn c07(&mut self, toks: &[&str]) -> String {
        let t = self.t;
        match toks {
            ["TXT", ty, i] => {
                let i: usize = match i.parse() { Ok(i) => i, Err(_) => return "SKIP".to_string() };
                let text = match unhex(&imp::do_txt(t, ty, i)) { Some(x) => x, None => return "SKIP".to_string() };
                // 1. standard spelling
                match standard_spelling(ty, i) {
                    Some(std) => if std != text {
                        return fail(format!("{} #{} is written {:?}, standard spelling is {:?}", ty, i, text, std))
                    },
                    None => return "SKIP".to_string(),
                }
                // 2. two different values never share a spelling (up to the documented shorthands)
                let class = match (*ty, i) { ("cfg", 0) => 55, ("cfg", 1) => 56, _ => i };
                if let Some(prev) = self.seen.insert((ty.to_string(), text.clone()), class) {
                    if prev != class {
                        return fail(format!("{} #{} and #{} share the spelling {:?}", ty, prev, i, text))
                    }
                }
                // 3. accepted in the corresponding position and reads back to the same value
                let (ctx, expect): (String, Ev) = match *ty {
                    "element" => (format!("[{}]", text), Ev::Root(format!("[_,E{},_,_,_,_]", i))),
                    "baro" => (format!("[{}]", text), Ev::Root(format!("[_,R{},_,_,_,_]", i))),
                    "aro" => (text.clone(), Ev::Root(format!("a{}", i))),
                    "ali" => (text.clone(), Ev::Root(format!("A{}", i))),
                    "cfg" => (format!("[C{}]", text), Ev::Root(format!("[_,E5,{},_,_,_]", class))),
                    "charge" => (format!("[C{}]", text), Ev::Root(format!("[_,E5,_,_,{},_]", charge_value_of_index(i)))),
                    "hcount" => (format!("[C{}]", text), Ev::Root(format!("[_,E5,_,{},_,_]", if i == 0 { "_".to_string() } else { i.to_string() }))),
                    "number" => (format!("[{}C:{}]", text, text), Ev::Root(format!("[{},E5,_,_,_,{}]", i, i))),
                    "rnum" => (format!("C{}", text), Ev::Join(0, i)),
                    "bond" => (format!("C{}C", text), Ev::Extend(i, "A1".to_string())),
                    _ => return "SKIP".to_string(),
                };
                match read_events(t, &ctx) {
                    Ok(evs) => {
                        let got = if *ty == "rnum" || *ty == "bond" { evs.get(1) } else { evs.get(0) };
                        if got != Some(&expect) {
                            return fail(format!("{} #{} written {:?}: {:?} reads back as {:?}, expected {}", ty, i, text, ctx, got.map(|e| e.s()), expect.s()))
                        }
                        "OK".to_string()
                    }
                    Err(v) => fail(format!("{} #{} written {:?}: {:?} is refused ({})", ty, i, text, ctx, v)),
                }
            }
            ["READ", h] => {
                let s = match unhex(h) { Some(s) => s, None => return "SKIP".to_string() };
                match read_events(t, &s) {
                    Ok(evs) => match self.roundtrip_history(&evs) { Ok(_) => "OK".to_string(), Err(m) => fail(format!("accepted string {:?}: {}", s, m)) },
                    Err(_) => "SKIP".to_string(),
                }
            }
            ["KTXT", k] => {
                // a whole atom kind: its text reads back to the same kind up to the documented shorthands
                let kind = match parse_kind(k) { Some(k) => k, None => return "SKIP".to_string() };
                let text = kind.to_string();
                let expect = norm_kind_s(k);
                match read_events(t, &text) {
                    Ok(evs) => match evs.as_slice() {
                        [Ev::Root(got)] if *got == expect => "OK".to_string(),
                        other => fail(format!("kind {} written {:?} reads back as {:?}, expected R:{}", k, text, other.iter().map(|e| e.s()).collect::<Vec<_>>(), expect)),
                    },
                    Err(v) => fail(format!("kind {} written {:?} is refused ({})", k, text, v)),
                }
            }
            _ => "SKIP".to_string(),
        }
    }

    // ---------------- C18: conversions exact, total on their range, inverse ----------------
    fn c18(&mut self, toks: &[&str]) -> String {
        let t = self.t;
        match toks {
            ["CONV", "charge", z] => {
                let z: i64 = match z.parse() { Ok(z) => z, Err(_) => return "SKIP".to_string() };
                if z < -128 || z > 127 { return "SKIP".to_string() }
                let in_range = z != 0 && -15 <= z && z <= 15;
                match Charge::try_from(z as i8) {
                    Ok(q) => {
                        if !in_range { return fail(format!("Charge::try_from({}) succeeds outside -15..15 \\ 0", z)) }
                        let back: i8 = (&q).into();
                        if back as i64 != z { return fail(format!("Charge::try_from({}) converts back to {}", z, back)) }
                        let shown = q.to_string();
                        let val = signed_value(&shown);
                        if val != Some(z) { return fail(format!("Charge::try_from({}) is shown as {:?}", z, shown)) }
                        "OK".to_string()
                    }
                    Err(_) => if in_range { fail(format!("Charge::try_from({}) fails inside its range", z)) } else { "OK".to_string() },
                }
            }
            ["CONV", "hcount", n] => {
                let n: u64 = match n.parse() { Ok(n) => n, Err(_) => return "SKIP".to_string() };
                if n > 255 { return "SKIP".to_string() }
                match VirtualHydrogen::try_from(n as u8) {
                    Ok(h) => {
                        if n > 9 { return fail(format!("VirtualHydrogen::try_from({}) succeeds outside 0..9", n)) }
                        let back: u8 = (&h).into();
                        if back as u64 != n { return fail(format!("VirtualHydrogen::try_from({}) converts back to {}", n, back)) }
                        let shown = h.to_string();
                        let want = match n { 0 => "".to_string(), 1 => "H".to_string(), _ => format!("H{}", n) };
                        if shown != want { return fail(format!("VirtualHydrogen {} is shown as {:?}", n, shown)) }
                        "OK".to_string()
                    }
                    Err(_) => if n <= 9 { fail(format!("VirtualHydrogen::try_from({}) fails inside its range", n)) } else { "OK".to_string() },
                }
            }
            ["CONV", "rnum", n] => {
                let n: u64 = match n.parse() { Ok(n) => n, Err(_) => return "SKIP".to_string() };
                if n > 65535 { return "SKIP".to_string() }
                match Rnum::try_from(n as u16) {
                    Ok(r) => {
                        if n > 99 { return fail(format!("Rnum::try_from({}) succeeds outside 0..99", n)) }
                        let shown = r.to_string();
                        let digits = shown.trim_start_matches('%');
                        if digits.parse::<u64>().ok() != Some(n) { return fail(format!("Rnum::try_from({}) is shown as {:?}", n, shown)) }
                        // injective: the value is the n-th in declaration order
                        if t.rnums.iter().position(|y| *y == r) != Some(n as usize) { return fail(format!("Rnum::try_from({}) is not the value R{}", n, n)) }
                        "OK".to_string()
                    }
                    Err(_) => if n <= 99 { fail(format!("Rnum::try_from({}) fails inside its range", n)) } else { "OK".to_string() },
                }
            }
            ["CONV", "number", n] => {
                let n: u64 = match n.parse() { Ok(n) => n, Err(_) => return "SKIP".to_string() };
                if n > 65535 { return "SKIP".to_string() }
                match Number::try_from(n as u16) {
                    Ok(x) => {
                        if n > 999 { return fail(format!("Number::try_from({}) succeeds outside 0..999", n)) }
                        if u16::from(&x) as u64 != n { return fail(format!("Number::try_from({}) converts back to {}", n, u16::from(&x))) }
                        if x.to_string() != n.to_string() { return fail(format!("Number {} is shown as {:?}", n, x.to_string())) }
                        "OK".to_string()
                    }
                    Err(_) => if n <= 999 { fail(format!("Number::try_from({}) fails inside its range", n)) } else { "OK".to_string() },
                }
            }
            ["CONV", "numstr", h] => {
                let s = match unhex(h) { Some(s) => s, None => return "SKIP".to_string() };
                let r: Result<Number, ()> = s.clone().try_into();
                match r {
                    Ok(x) => {
                        let v = u16::from(&x);
                        if v > 999 { return fail(format!("String {:?} converts to Number {} outside 0..999", s, v)) }
                        let body = s.strip_prefix('+').unwrap_or(&s);
                        if body.is_empty() || !body.chars().all(|c| c.is_ascii_digit()) || body.parse::<u64>().ok() != Some(v as u64) {
                            return fail(format!("String {:?} converts to Number {}", s, v))
                        }
                        "OK".to_string()
                    }
                    Err(_) => {
                        if !s.is_empty() && s.chars().all(|c| c.is_ascii_digit()) && s.parse::<u64>().map(|v| v < 1000).unwrap_or(false) {
                            fail(format!("digit string {:?} inside 0..999 is refused", s))
                        } else { "OK".to_string() }
                    }
                }
            }
            ["BACK", "rev", i] => {
                let i: usize = match i.parse() { Ok(i) => i, Err(_) => return "SKIP".to_string() };
                let b = match t.bond_kinds.get(i) { Some(b) => b, None => return "SKIP".to_string() };
                let r = b.reverse();
                if r.reverse() != *b { return fail(format!("reverse is not an involution on bond kind #{}", i)) }
                let directional = *b == BondKind::Up || *b == BondKind::Down;
                if (r != *b) != directional { return fail(format!("reverse of bond kind #{} is #{}", i, bond_s(t, &r))) }
                if *b == BondKind::Up && r != BondKind::Down { return fail("reverse(Up) is not Down".to_string()) }
                "OK".to_string()
            }
            ["BACK", "order", i] => {
                let i: usize = match i.parse() { Ok(i) => i, Err(_) => return "SKIP".to_string() };
                let b = match bond_kind_at(i) { Some(b) => b, None => return "SKIP".to_string() };
                let want = match b { BondKind::Double => 2, BondKind::Triple => 3, BondKind::Quadruple => 4, _ => 1 };
                let got = Bond::new(b, 0).order();
                if got != want { return fail(format!("order of bond kind #{} is {}, documented {}", i, got, want)) }
                "OK".to_string()
            }
            ["BACK", "baro2el", i] | ["CONV", "baro2aro", i] => {
                let i: usize = match i.parse() { Ok(i) => i, Err(_) => return "SKIP".to_string() };
                let a = match t.bracket_aromatics.get(i) { Some(a) => a, None => return "SKIP".to_string() };
                let e: Element = a.into();
                if e.to_string().to_lowercase() != a.to_string() { return fail(format!("BracketAromatic {} converts to Element {}", a, e)) }
                if let Ok(ar) = Aromatic::try_from(a) {
                    if ar.to_string() != a.to_string() { return fail(format!("BracketAromatic {} converts to Aromatic {}", a, ar)) }
                    let al: Aliphatic = (&ar).into();
                    if al.to_string().to_lowercase() != ar.to_string() { return fail(format!("Aromatic {} converts to Aliphatic {}", ar, al)) }
                } else if ["b", "c", "n", "o", "p", "s"].contains(&a.to_string().as_str()) {
                    return fail(format!("BracketAromatic {} has no Aromatic", a))
                }
                "OK".to_string()
            }
            ["CONV", "el2ali", i] => {
                let i: usize = match i.parse() { Ok(i) => i, Err(_) => return "SKIP".to_string() };
                let e = match t.elements.get(i) { Some(e) => e, None => return "SKIP".to_string() };
                let organic = ["B", "C", "N", "O", "S", "P", "F", "Cl", "Br", "I", "At", "Ts"].contains(&PERIODIC[i]);
                match Aliphatic::try_from(e) {
                    Ok(al) => if al.to_string() != PERIODIC[i] { fail(format!("Element #{} ({}) converts to Aliphatic {}", i, PERIODIC[i], al)) }
                              else if !organic { fail(format!("Element {} converts to an Aliphatic", PERIODIC[i])) } else { "OK".to_string() },
                    Err(_) => if organic { fail(format!("Element {} has no Aliphatic", PERIODIC[i])) } else { "OK".to_string() },
                }
            }
            ["BACK", "aro2ali", i] => {
                let i: usize = match i.parse() { Ok(i) => i, Err(_) => return "SKIP".to_string() };
                let a = match t.aromatics.get(i) { Some(a) => a, None => return "SKIP".to_string() };
                let al: Aliphatic = a.into();
                if al.to_string().to_lowercase() != a.to_string() { return fail(format!("Aromatic {} converts to Aliphatic {}", a, al)) }
                "OK".to_string()
            }
            ["BACK", "charge", i] => {
                let i: usize = match i.parse() { Ok(i) => i, Err(_) => return "SKIP".to_string() };
                let q = match t.charges.get(i) { Some(q) => q, None => return "SKIP".to_string() };
                let v: i8 = q.into();
                if v as i32 != charge_value_of_index(i) { return fail(format!("Charge #{} converts to {}", i, v)) }
                match Charge::try_from(v) { Ok(q2) if q2 == *q => "OK".to_string(), _ => fail(format!("Charge #{} -> {} does not convert back", i, v)) }
            }
            ["BACK", "hcount", i] => {
                let i: usize = match i.parse() { Ok(i) => i, Err(_) => return "SKIP".to_string() };
                let h = match t.hcounts.get(i) { Some(h) => h, None => return "SKIP".to_string() };
                let v: u8 = h.into();
                if v as usize != i { return fail(format!("VirtualHydrogen #{} converts to {}", i, v)) }
                "OK".to_string()
            }
            _ => "SKIP".to_string(),
        }
    }
}

impl<'a> Oracle<'a> {
    // ---------------- C13: ring-closure numbers are recycled and never run out early ----------------
    fn c13(&mut self, toks: &[&str]) -> String {
        match toks {
            ["POOL", rest @ ..] => {
                let mut pairs: Vec<(usize, usize)> = Vec::new();
                if !(rest.len() == 1 && rest[0] == "-") {
                    for x in rest.iter() {
                        let mut p = x.splitn(2, '-');
                        let a = p.next().and_then(|v| v.parse().ok());
                        let b = p.next().and_then(|v| v.parse().ok());
                        match (a, b) { (Some(a), Some(b)) => pairs.push((a, b)), _ => return "SKIP".to_string() }
                    }
                }
                let mut pool = purr::verif::JoinPool::new();
                let mut open: Vec<((usize, usize), usize)> = Vec::new(); // unordered pair -> number
                for (i, (a, b)) in pairs.iter().enumerate() {
                    let key = if a <= b { (*a, *b) } else { (*b, *a) };
                    let existing = open.iter().position(|(k, _)| *k == key);
                    let too_many = existing.is_none() && open.len() >= 99;
                    let r = catch_unwind(AssertUnwindSafe(|| pool.hit(*a, *b)));
                    let n = match r {
                        Ok(r) => rnum_s(self.t, &r).parse::<usize>().unwrap(),
                        Err(_) => {
                            if too_many { return "OK".to_string() } // more than 99 open at the same time: outside the property
                            return fail(format!("hit #{} ({},{}) panics with only {} closures open", i, a, b, open.len()))
                        }
                    };
                    match existing {
                        Some(j) => {
                            let (_, m) = open.remove(j);
                            if m != n { return fail(format!("hit #{} closes pair ({},{}) with number {}, it was opened with {}", i, a, b, n, m)) }
                        }
                        None => {
                            let mut want = 1;
                            while open.iter().any(|(_, m)| *m == want) { want += 1 }
                            if n != want { return fail(format!("hit #{} opens pair ({},{}) with number {}, the smallest number not open is {}", i, a, b, n, want)) }
                            open.push((key, n));
                        }
                    }
                }
                "OK".to_string()
            }
            ["WALK", rest @ ..] => {
                let g = match parse_graph(rest) { Some(g) => g, None => return "SKIP".to_string() };
                let mut rec = Rec::new(self.t);
                let r = catch_unwind(AssertUnwindSafe(|| purr::walk::walk(g, &mut rec)));
                let mut open: Vec<usize> = Vec::new();
                let mut max_open = 0;
                for (i, e) in rec.events.iter().enumerate() {
                    if let Ev::Join(_, n) = e {
                        if let Some(j) = open.iter().position(|m| m == n) { open.remove(j); }
                        else {
                            let mut want = 1;
                            while open.contains(&want) { want += 1 }
                            if *n != want { return fail(format!("event #{} opens ring number {}, the smallest number not open is {}", i, n, want)) }
                            open.push(*n);
                            if open.len() > max_open { max_open = open.len() }
                        }
                    }
                }
                match r {
                    Ok(Ok(())) => if !open.is_empty() { fail(format!("ring numbers {:?} are left open at the end of a successful traversal", open)) } else { "OK".to_string() },
                    Ok(Err(e)) => match parse_graph(rest) {
                        // writing must succeed whenever the graph is well-formed and fewer than 99 closures are open
                        Some(g2) if graph_defect(&g2).is_none() => fail(format!("traversal of a well-formed adjacency list fails with {:?} (at most {} closures open)", e, max_open)),
                        _ => "OK".to_string(),
                    },
                    Err(_) => if max_open >= 99 { "OK".to_string() } else { fail(format!("traversal panics at {} with at most {} closures open", imp::last_panic(), max_open)) },
                }
            }
            _ => "SKIP".to_string(),
        }
    }
}

impl<'a> Oracle<'a> {
    // ---------------- C06: no input makes the library panic ----------------
    fn c06(&mut self, toks: &[&str]) -> String {
        let t = self.t;
        match toks {
            ["READ", h] => {
                let s = match unhex(h) { Some(s) => s, None => return "SKIP".to_string() };
                let resp = imp::do_read(t, &s);
                if resp.contains("panic") { return fail(format!("reading {:?} panics: {}", s, first_panic(&resp))) }
                "OK".to_string()
            }
            ["WALK", rest @ ..] => {
                let resp = imp::do_walk(t, rest);
                if resp.contains("panic") {
                    let open = parse_graph(rest).and_then(|g| walk_panic_open(t, g));
                    return fail(format!("traversal panics: {} with {} ring closures open", first_panic(&resp), open.map(|n| n.to_string()).unwrap_or_else(|| "?".to_string())))
                }
                // the traversal driven into a Builder (then built) and into a Writer (then written), and the hydrogen
                // queries on every atom
                if let Some(g) = parse_graph(rest) {
                    let mut b = purr::graph::Builder::new();
                    let r = catch_unwind(AssertUnwindSafe(|| { let ok = purr::walk::walk(g, &mut b).is_ok(); let _ = b.build(); ok }));
                    if r.is_err() { return fail(format!("traversal into a Builder (and build) panics at {}", imp::last_panic())) }
                }
                if let Some(g) = parse_graph(rest) {
                    let mut w = purr::write::Writer::new();
                    let r = catch_unwind(AssertUnwindSafe(|| { let _ = purr::walk::walk(g, &mut w); w.write().len() }));
                    if r.is_err() { return fail(format!("traversal into a Writer (and write) panics at {}", imp::last_panic())) }
                }
                if let Some(g) = parse_graph(rest) {
                    for (i, a) in g.iter().enumerate() {
                        if catch_unwind(AssertUnwindSafe(|| (a.subvalence(), a.suppressed_hydrogens()))).is_err() {
                            return fail(format!("hydrogen query panics on atom {} at {}", i, imp::last_panic()))
                        }
                    }
                }
                "OK".to_string()
            }
            ["EVS", rest @ ..] => {
                let evs: Option<Vec<Ev>> = if rest.len() == 1 && rest[0] == "-" { Some(vec![]) } else { rest.iter().map(|x| Ev::parse(x)).collect() };
                let evs = match evs { Some(e) => e, None => return "SKIP".to_string() };
                if imp::proto_violation(&evs).is_some() { return "SKIP".to_string() } // documented panics of the followers
                let resp = imp::do_evs(t, &evs);
                if resp.contains("panic") { return fail(format!("a follower panics on a protocol-conformant history: {}", resp)) }
                "OK".to_string()
            }
            ["VAL", k, bs] => {
                let resp = imp::do_val(t, k, bs);
                if resp.contains("panic") { return fail(format!("hydrogen query panics: {}", resp)) }
                "OK".to_string()
            }
            _ => "SKIP".to_string(),
        }
    }

    // ---------------- C08: event streams are protocol-conformant ----------------
    fn c08(&mut self, toks: &[&str]) -> String {
        let t = self.t;
        match toks {
            ["READ", h] => {
                let s = match unhex(h) { Some(s) => s, None => return "SKIP".to_string() };
                let mut rec = Rec::new(t);
                let _ = catch_unwind(AssertUnwindSafe(|| read(&s, &mut rec, None)));
                match imp::proto_violation(&rec.events) {
                    None => "OK".to_string(),
                    Some(i) => fail(format!("reading {:?}: event #{} ({}) violates the follower contract", s, i, rec.events[i].s())),
                }
            }
            ["WALK", rest @ ..] => {
                let g = match parse_graph(rest) { Some(g) => g, None => return "SKIP".to_string() };
                let orig = parse_graph(rest).unwrap();
                let mut rec = Rec::new(t);
                let r = catch_unwind(AssertUnwindSafe(|| purr::walk::walk(g, &mut rec)));
                if let Some(i) = imp::proto_violation(&rec.events) {
                    return fail(format!("traversal event #{} ({}) violates the follower contract", i, rec.events[i].s()))
                }
                if let Ok(Ok(())) = r {
                    // joins in matched pairs, one on each atom of a bond of the input graph
                    // replay the path to know the head (as a traversal-order atom index) at every join
                    let mut path: Vec<usize> = Vec::new();
                    let mut natoms = 0usize;
                    let mut open: Vec<(usize, usize, usize)> = Vec::new(); // (rnum, head, kind)
                    let mut pairs = 0usize;
                    let dfs: Vec<usize> = if graph_defect(&orig).is_none() { dfs_order(&orig).0 } else { Vec::new() };
                    for (i, e) in rec.events.iter().enumerate() {
                        match e {
                            Ev::Root(_) | Ev::Extend(_, _) => { path.push(natoms); natoms += 1 }
                            Ev::Pop(d) => { for _ in 0..*d { path.pop(); } }
                            Ev::Join(b, n) => {
                                let head = *path.last().unwrap();
                                if let Some(j) = open.iter().position(|(m, _, _)| m == n) {
                                    let (_, h0, b0) = open.remove(j);
                                    if h0 == head { return fail(format!("join event #{} closes ring number {} on the atom that opened it", i, n)) }
                                    let rev = |k: usize| match k { 6 => 7, 7 => 6, x => x };
                                    if rev(b0) != *b { return fail(format!("join event #{}: the two ends of ring closure {} carry kinds {} and {}", i, n, b0, b)) }
                                    // one join on each atom of the bond: the two heads, taken back to the ids of the adjacency list
                                    // through the depth-first order the property defines, must be bonded there with these kinds
                                    if h0 < dfs.len() && head < dfs.len() {
                                        let (x, y) = (dfs[h0], dfs[head]);
                                        let fwd = orig[x].bonds.iter().find(|c| c.tid == y).map(|c| bond_s(t, &c.kind).parse::<usize>().unwrap_or(99));
                                        let back = orig[y].bonds.iter().find(|c| c.tid == x).map(|c| bond_s(t, &c.kind).parse::<usize>().unwrap_or(99));
                                        if fwd != Some(b0) || back != Some(*b) {
                                            return fail(format!("join event #{}: ring closure {} is opened on atom {} and closed on atom {} with kinds {} / {}, the adjacency list has {:?} / {:?} there", i, n, x, y, b0, b, fwd, back))
                                        }
                                    }
                                    pairs += 1;
                                } else { open.push((*n, head, *b)) }
                            }
                        }
                    }
                    if !open.is_empty() { return fail(format!("a successful traversal leaves ring closures {:?} unmatched", open.iter().map(|x| x.0).collect::<Vec<_>>())) }
                    let bonds: usize = orig.iter().map(|a| a.bonds.len()).sum();
                    let comps = rec.events.iter().filter(|e| matches!(e, Ev::Root(_))).count();
                    if natoms != orig.len() { return fail(format!("a successful traversal reports {} atoms of {}", natoms, orig.len())) }
                    if bonds != 2 * ((natoms - comps) + pairs) { return fail(format!("a successful traversal reports {} tree bonds and {} ring closures for {} half-bonds", natoms - comps, pairs, bonds)) }
                }
                "OK".to_string()
            }
            _ => "SKIP".to_string(),
        }
    }
}

fn norm_ev(e: &Ev) -> Ev {
    match e {
        Ev::Root(k) => Ev::Root(norm_kind_s(k)),
        Ev::Extend(b, k) => Ev::Extend(*b, norm_kind_s(k)),
        x => x.clone(),
    }
}

fn drive_follower<F: purr::walk::Follower>(f: &mut F, events: &[Ev]) -> Option<()> {
    for e in events {
        match e {
            Ev::Root(k) => f.root(parse_kind(k)?),
            Ev::Extend(b, k) => f.extend(bond_kind_at(*b)?, parse_kind(k)?),
            Ev::Join(b, r) => f.join(bond_kind_at(*b)?, rnum_at(*r)?),
            Ev::Pop(d) => f.pop(*d),
        }
    }
    Some(())
}

impl<'a> Oracle<'a> {
    /// write a conformant history, read the text back, compare histories and follower results
    fn roundtrip_history(&self, evs: &[Ev]) -> Result<String, String> {
        let t = self.t;
        let mut w = purr::write::Writer::new();
        if catch_unwind(AssertUnwindSafe(|| drive_follower(&mut w, evs))).is_err() {
            return Err(format!("the writer panics on a conformant history at {}", imp::last_panic()))
        }
        let text = w.write();
        let got = match read_events(t, &text) {
            Ok(g) => g,
            Err(v) => return Err(format!("writer output {:?} is refused by the reader ({})", text, v)),
        };
        let want: Vec<Ev> = evs.iter().map(norm_ev).collect();
        if got != want {
            let i = got.iter().zip(want.iter()).position(|(a, b)| a != b).unwrap_or(got.len().min(want.len()));
            return Err(format!("writer output {:?} replays event #{} as {} instead of {} ({} vs {} events)", text, i,
                got.get(i).map(|e| e.s()).unwrap_or_default(), want.get(i).map(|e| e.s()).unwrap_or_default(), got.len(), want.len()))
        }
        // the builder driven directly with the history vs through the text (up to the shorthands)
        let mut b1 = purr::graph::Builder::new();
        let r1 = catch_unwind(AssertUnwindSafe(|| drive_follower(&mut b1, &want)));
        let mut b2 = purr::graph::Builder::new();
        let r2 = catch_unwind(AssertUnwindSafe(|| read(&text, &mut b2, None)));
        if r1.is_err() || r2.is_err() { return Err(format!("the builder panics at {}", imp::last_panic())) }
        let g1 = imp::build_s(t, catch_unwind(AssertUnwindSafe(|| b1.build())));
        let g2 = imp::build_s(t, catch_unwind(AssertUnwindSafe(|| b2.build())));
        if g1 != g2 { return Err(format!("the builder reaches {} directly and {} through the text {:?}", g1, g2, text)) }
        // re-writing what was read reproduces the text character for character
        let mut w2 = purr::write::Writer::new();
        let _ = read(&text, &mut w2, None);
        let text2 = w2.write();
        if text2 != text { return Err(format!("re-writing {:?} gives {:?}", text, text2)) }
        Ok(text)
    }

    // ---------------- C09: writer and reader are mutually inverse on event histories ----------------
    fn c09(&mut self, toks: &[&str]) -> String {
        match toks {
            ["EVS", rest @ ..] => {
                let evs: Option<Vec<Ev>> = if rest.len() == 1 && rest[0] == "-" { Some(vec![]) } else { rest.iter().map(|x| Ev::parse(x)).collect() };
                let evs = match evs { Some(e) => e, None => return "SKIP".to_string() };
                if evs.is_empty() || imp::proto_violation(&evs).is_some() { return "SKIP".to_string() }
                match self.roundtrip_history(&evs) { Ok(_) => "OK".to_string(), Err(m) => fail(m) }
            }
            ["READ", h] => {
                let s = match unhex(h) { Some(s) => s, None => return "SKIP".to_string() };
                match read_events(self.t, &s) {
                    Ok(evs) => match self.roundtrip_history(&evs) { Ok(_) => "OK".to_string(), Err(m) => fail(format!("accepted string {:?}: {}", s, m)) },
                    Err(_) => "SKIP".to_string(),
                }
            }
            ["KTXT", k] => {
                let evs = vec![Ev::Root(k.to_string())];
                match self.roundtrip_history(&evs) { Ok(_) => "OK".to_string(), Err(m) => fail(m) }
            }
            _ => "SKIP".to_string(),
        }
    }
}

/// the definition of a well-formed simple graph, written from the property text
/// how many ring closures are open in an event list (a number is open after an odd number of occurrences)
pub fn open_closures(events: &[Ev]) -> usize {
    let mut open: Vec<usize> = Vec::new();
    for e in events {
        if let Ev::Join(_, n) = e {
            if let Some(p) = open.iter().position(|x| x == n) { open.remove(p); } else { open.push(*n) }
        }
    }
    open.len()
}

/// traverse `g` with a recording follower; Some(n) when the traversal panics, n = ring closures open in the events
/// handed over before the panic (the exhausted pool of D17 has n >= 99; anything lower is a different defect)
pub fn walk_panic_open(t: &Tables, g: Vec<purr::graph::Atom>) -> Option<usize> {
    let mut rec = Rec::new(t);
    match catch_unwind(AssertUnwindSafe(|| purr::walk::walk(g, &mut rec))) {
        Err(_) => Some(open_closures(&rec.events)),
        Ok(_) => None,
    }
}

pub fn graph_defect(g: &[purr::graph::Atom]) -> Option<String> {
    let n = g.len();
    for (a, atom) in g.iter().enumerate() {
        for b in atom.bonds.iter() {
            if b.tid >= n { return Some(format!("bond {}->{}: target does not exist", a, b.tid)) }
            if b.tid == a { return Some(format!("atom {} is bonded to itself", a)) }
            if atom.bonds.iter().filter(|x| x.tid == b.tid).count() != 1 { return Some(format!("pair {}-{} is bonded twice", a, b.tid)) }
            let backs: Vec<&Bond> = g[b.tid].bonds.iter().filter(|x| x.tid == a).collect();
            if backs.len() != 1 { return Some(format!("bond {}->{} has {} counterparts", a, b.tid, backs.len())) }
            if backs[0].kind != b.kind.reverse() { return Some(format!("bond {}->{} and its counterpart have incompatible kinds", a, b.tid)) }
        }
    }
    None
}

impl<'a> Oracle<'a> {
    // ---------------- C11: traversal accepts exactly well-formed adjacency lists ----------------
    fn c11(&mut self, toks: &[&str]) -> String {
        let t = self.t;
        match toks {
            ["WALK", rest @ ..] => {
                let g = match parse_graph(rest) { Some(g) => g, None => return "SKIP".to_string() };
                let defect = graph_defect(&g);
                let mut rec = Rec::new(t);
                let r = catch_unwind(AssertUnwindSafe(|| purr::walk::walk(parse_graph(rest).unwrap(), &mut rec)));
                match r {
                    Err(_) => {
                        if defect.is_none() && imp::last_panic().contains("join_pool") && open_closures(&rec.events) >= 99 { return "SKIP".to_string() } // at least 99 open closures (C06 / D17)
                        fail(format!("traversal panics at {}", imp::last_panic()))
                    }
                    Ok(Ok(())) => {
                        if let Some(d) = defect { return fail(format!("traversal succeeds on an ill-formed adjacency list: {}", d)) }
                        if g.is_empty() { return "OK".to_string() } // the empty molecule has no text form (C01's finding D19)
                        // what was handed to the follower must be readable and build (balanced molecule)
                        let mut w = purr::write::Writer::new();
                        let _ = purr::walk::walk(parse_graph(rest).unwrap(), &mut w);
                        let text = w.write();
                        let mut b = purr::graph::Builder::new();
                        match catch_unwind(AssertUnwindSafe(|| read(&text, &mut b, None))) {
                            Ok(Ok(())) => match b.build() {
                                Ok(g2) => if g2.len() != g.len() { fail(format!("written text {:?} builds {} atoms of {}", text, g2.len(), g.len())) } else {
                                    // what was handed to the follower is the molecule itself, not an altered one
                                    let (order, _) = dfs_order(&g);
                                    let mut pi = vec![0usize; g.len()];
                                    for (i, a) in order.iter().enumerate() { pi[*a] = i }
                                    match self.iso_under(&g, &g2, &pi) {
                                        Ok(()) => "OK".to_string(),
                                        Err(m) => match self.iso_search(&g, &g2) {
                                            Some(true) => "OK".to_string(),
                                            _ => fail(format!("a successful traversal hands the follower an altered molecule (written {:?}): {}", text, m)),
                                        },
                                    }
                                },
                                Err(e) => fail(format!("written text {:?} does not build: {:?}", text, e)),
                            },
                            other => fail(format!("written text {:?} is not readable: {:?}", text, other.map_err(|_| "panic"))),
                        }
                    }
                    Ok(Err(e)) => {
                        if defect.is_none() { return fail(format!("traversal rejects a well-formed adjacency list with {:?}", e)) }
                        // the error must identify a bond that really has that defect
                        use purr::walk::Error as E;
                        let n = g.len();
                        let has = |a: usize, tt: usize| a < n && g[a].bonds.iter().any(|x| x.tid == tt);
                        let cnt = |a: usize, tt: usize| if a < n { g[a].bonds.iter().filter(|x| x.tid == tt).count() } else { 0 };
                        let real = match &e {
                            E::UnknownTarget(a, tt) => has(*a, *tt) && *tt >= n,
                            E::Loop(a) => has(*a, *a),
                            E::HalfBond(a, tt) => has(*a, *tt) && *tt < n && cnt(*tt, *a) == 0,
                            E::DuplicateBond(a, tt) => cnt(*a, *tt) >= 2 || cnt(*tt, *a) >= 2,
                            E::IncompatibleBond(tt, a) => *a < n && *tt < n && g[*a].bonds.iter().any(|x| x.tid == *tt && g[*tt].bonds.iter().any(|y| y.tid == *a && y.kind != x.kind.reverse())),
                        };
                        if !real { return fail(format!("error {:?} does not identify a bond with that defect", e)) }
                        if !rec.events.is_empty() { return "OK".to_string() }
                        "OK".to_string()
                    }
                }
            }
            _ => "SKIP".to_string(),
        }
    }
}

impl<'a> Oracle<'a> {
    // ---------------- C04: the reader accepts exactly the documented grammar ----------------
    fn c04(&mut self, toks: &[&str]) -> String {
        match toks {
            ["READ", h] => {
                let s = match unhex(h) { Some(s) => s, None => return "SKIP".to_string() };
                let resp = imp::do_read(self.t, &s);
                if resp.contains("FOLLOWERDEP") { return fail(format!("the verdict for {:?} depends on the follower: {}", s, &resp[resp.find("FOLLOWERDEP").unwrap()..])) }
                let accepted = resp.starts_with("ok #");
                let want = crate::refsmiles::classify(&s) == crate::refsmiles::Verdict::Ok;
                if accepted && !want { return fail(format!("{:?} is accepted but is not a sentence of the documented grammar", s)) }
                if !accepted && want { return fail(format!("{:?} is a sentence of the documented grammar but is refused ({})", s, resp.split(' ').next().unwrap_or(""))) }
                "OK".to_string()
            }
            _ => "SKIP".to_string(),
        }
    }

    // ---------------- C05: syntax errors point at the first offending character ----------------
    fn c05(&mut self, toks: &[&str]) -> String {
        use crate::refsmiles::{classify, completion, Verdict};
        match toks {
            ["READ", h] => {
                let s = match unhex(h) { Some(s) => s, None => return "SKIP".to_string() };
                let mut rec = Rec::new(self.t);
                let r = catch_unwind(AssertUnwindSafe(|| read(&s, &mut rec, None)));
                let got = match r {
                    Ok(Ok(())) => return "SKIP".to_string(),
                    Ok(Err(purr::read::Error::Character(i))) => Verdict::Character(i),
                    Ok(Err(purr::read::Error::EndOfLine)) => Verdict::EndOfLine,
                    Err(_) => return fail(format!("reading {:?} panics", s)),
                };
                let want = classify(&s);
                if got != want { return fail(format!("{:?} is refused with {:?}; the first character that cannot continue a valid SMILES gives {:?}", s, got, want)) }
                // independent confirmation by brute force: the prefix before the cursor can be completed
                let chars: Vec<char> = s.chars().collect();
                let prefix: String = match got { Verdict::Character(i) => chars[..i].iter().collect(), _ => s.clone() };
                if !prefix.is_empty() && chars.len() <= 40 && completion(&prefix).is_none() {
                    return fail(format!("{:?}: no completion of the prefix {:?} before the reported cursor was found", s, prefix))
                }
                "OK".to_string()
            }
            _ => "SKIP".to_string(),
        }
    }

    // ---------------- C19: stack use is bounded by nesting ----------------
    fn c19(&mut self, toks: &[&str]) -> String {
        match toks {
            ["READ", h] => {
                let s = match unhex(h) { Some(s) => s, None => return "SKIP".to_string() };
                let mut cur = 0usize; let mut nesting = 0usize;
                for c in s.chars() { if c == '(' { cur += 1; if cur > nesting { nesting = cur } } else if c == ')' && cur > 0 { cur -= 1 } }
                let mut rec = Rec::new(self.t);
                purr::verif::reset_depth();
                let _ = catch_unwind(AssertUnwindSafe(|| read(&s, &mut rec, None)));
                let d = purr::verif::max_depth();
                if d > nesting + 1 { return fail(format!("reading a string of {} characters with parenthesis nesting {} uses {} nested read_smiles activations", s.chars().count(), nesting, d)) }
                "OK".to_string()
            }
            _ => "SKIP".to_string(),
        }
    }
}

/// what the property text of C10 says about a history, computed without the builder:
/// (indices of unmatched ring digits, problematic closures as (closing head, opening head))
pub fn closure_problems(evs: &[Ev]) -> (Vec<usize>, Vec<(usize, usize)>) {
    let rev = |k: usize| match k { 6 => 7, 7 => 6, x => x };
    let mut path: Vec<usize> = Vec::new();
    let mut natoms = 0usize;
    let mut bonded: Vec<(usize, usize)> = Vec::new();
    let mut open: Vec<(usize, usize, usize, usize)> = Vec::new(); // rnum, head, kind, join index
    let mut problems = Vec::new();
    let mut jidx = 0usize;
    for e in evs {
        match e {
            Ev::Root(_) => { path.push(natoms); natoms += 1 }
            Ev::Extend(_, _) => { let h = *path.last().unwrap(); bonded.push((h.min(natoms), h.max(natoms))); path.push(natoms); natoms += 1 }
            Ev::Pop(d) => { for _ in 0..*d { path.pop(); } }
            Ev::Join(b, n) => {
                let head = *path.last().unwrap();
                if let Some(j) = open.iter().position(|x| x.0 == *n) {
                    let (_, h0, k0, _) = open.remove(j);
                    let pair = (h0.min(head), h0.max(head));
                    let reconcilable = k0 == 0 || *b == 0 || k0 == rev(*b);
                    if h0 == head || bonded.contains(&pair) || !reconcilable { problems.push((head, h0)) } else { bonded.push(pair) }
                } else { open.push((*n, head, *b, jidx)) }
                jidx += 1;
            }
        }
    }
    (open.iter().map(|x| x.3).collect(), problems)
}

impl<'a> Oracle<'a> {
    fn check_build(&self, evs: &[Ev], what: &str) -> String {
        let t = self.t;
        let mut b = purr::graph::Builder::new();
        if catch_unwind(AssertUnwindSafe(|| drive_follower(&mut b, evs))).is_err() {
            return fail(format!("{}: the builder panics on a conformant history at {}", what, imp::last_panic()))
        }
        let (unmatched, problems) = closure_problems(evs);
        match b.build() {
            Ok(g) => {
                if let Some(d) = graph_defect(&g) { return fail(format!("{}: build succeeds with an ill-formed graph: {}", what, d)) }
                if !unmatched.is_empty() { return fail(format!("{}: build succeeds although ring digit #{} is unmatched", what, unmatched[0])) }
                if !problems.is_empty() { return fail(format!("{}: build succeeds although the closure between atoms {:?} is irreconcilable, a self bond or a duplicate", what, problems[0])) }
                let mut rec = Rec::new(t);
                match catch_unwind(AssertUnwindSafe(|| purr::walk::walk(g, &mut rec))) {
                    Ok(Ok(())) => "OK".to_string(),
                    Ok(Err(e)) => fail(format!("{}: the traversal refuses a successfully built graph with {:?}", what, e)),
                    Err(_) => if imp::last_panic().contains("join_pool") && open_closures(&rec.events) >= 99 { "OK".to_string() } else { fail(format!("{}: the traversal panics on a built graph at {} with {} closures open", what, imp::last_panic(), open_closures(&rec.events))) },
                }
            }
            Err(purr::graph::Error::Rnum(i)) => {
                if !unmatched.contains(&i) { return fail(format!("{}: build reports ring digit #{} as unmatched, unmatched digits are {:?}", what, i, unmatched)) }
                "OK".to_string()
            }
            Err(purr::graph::Error::Join(a, bb)) => {
                if !problems.contains(&(a, bb)) && !problems.contains(&(bb, a)) { return fail(format!("{}: build reports Join({}, {}), problematic closures are {:?}", what, a, bb, problems)) }
                "OK".to_string()
            }
        }
    }

    // ---------------- C10: a successful build is a well-formed simple graph; build errors are real ----------------
    fn c10(&mut self, toks: &[&str]) -> String {
        match toks {
            ["EVS", rest @ ..] => {
                let evs: Option<Vec<Ev>> = if rest.len() == 1 && rest[0] == "-" { Some(vec![]) } else { rest.iter().map(|x| Ev::parse(x)).collect() };
                let evs = match evs { Some(e) => e, None => return "SKIP".to_string() };
                if imp::proto_violation(&evs).is_some() { return "SKIP".to_string() }
                self.check_build(&evs, "history")
            }
            ["READ", h] => {
                let s = match unhex(h) { Some(s) => s, None => return "SKIP".to_string() };
                match read_events(self.t, &s) {
                    Ok(evs) => self.check_build(&evs, &format!("accepted string {:?}", s)),
                    Err(_) => "SKIP".to_string(),
                }
            }
            _ => "SKIP".to_string(),
        }
    }
}

// ------------------------------------------------------------------------------------------
// round-trip machinery shared by C01 / C03 / C12 / C14

/// canonical kind with the configuration blanked and H0 = absent (what C01's correspondence preserves)
fn constitution_kind(k: &str) -> String {
    if k.starts_with('[') {
        let inner = &k[1..k.len() - 1];
        let mut f: Vec<String> = inner.split(',').map(|x| x.to_string()).collect();
        if f.len() == 6 {
            f[2] = "_".to_string();
            if f[3] == "0" { f[3] = "_".to_string() }
            return format!("[{}]", f.join(","));
        }
    }
    k.to_string()
}

fn config_of(k: &str) -> Option<usize> {
    if k.starts_with('[') {
        let f: Vec<&str> = k[1..k.len() - 1].split(',').collect();
        if f.len() == 6 && f[2] != "_" { return f[2].parse().ok() }
    }
    None
}

fn hcount_of(k: &str) -> usize {
    if k.starts_with('[') {
        let f: Vec<&str> = k[1..k.len() - 1].split(',').collect();
        if f.len() == 6 && f[3] != "_" { return f[3].parse().unwrap_or(0) }
    }
    0
}

/// traversal order from the property text of C12: components start at the lowest-numbered unvisited
/// atom, children are visited in list order (depth first); returns (order, parent of each atom)
fn dfs_order(g: &[purr::graph::Atom]) -> (Vec<usize>, Vec<Option<usize>>) {
    let n = g.len();
    let mut seen = vec![false; n];
    let mut parent: Vec<Option<usize>> = vec![None; n];
    let mut order = Vec::new();
    for root in 0..n {
        if seen[root] { continue }
        // explicit stack of (atom, next bond index)
        seen[root] = true; order.push(root);
        let mut stack: Vec<(usize, usize)> = vec![(root, 0)];
        while let Some((a, i)) = stack.pop() {
            if i >= g[a].bonds.len() { continue }
            stack.push((a, i + 1));
            let t = g[a].bonds[i].tid;
            if t < n && !seen[t] { seen[t] = true; parent[t] = Some(a); order.push(t); stack.push((t, 0)) }
        }
    }
    (order, parent)
}

/// a Writer that also counts the ring closures open in what it has been handed
pub struct CountingWriter { pub w: purr::write::Writer, pub open: Vec<usize>, t: Tables }

impl purr::walk::Follower for CountingWriter {
    fn root(&mut self, k: AtomKind) { self.w.root(k) }
    fn extend(&mut self, b: BondKind, k: AtomKind) { self.w.extend(b, k) }
    fn pop(&mut self, d: usize) { self.w.pop(d) }
    fn join(&mut self, b: BondKind, r: Rnum) {
        let n: usize = rnum_s(&self.t, &r).parse().unwrap_or(usize::MAX);
        if let Some(p) = self.open.iter().position(|x| *x == n) { self.open.remove(p); } else { self.open.push(n) }
        self.w.join(b, r)
    }
}

/// is this round-trip failure the known exhaustion of ring numbers (D17: at least 99 closures open)?
pub fn is_pool_exhaustion(m: &str) -> bool {
    if !(m.starts_with("PANIC") && m.contains("join_pool")) { return false }
    match m.rsplit("open=").next().and_then(|x| x.trim().parse::<usize>().ok()) { Some(n) => n >= 99, None => false }
}

pub struct RoundTrip {
    pub text: String,
    pub g2: Vec<purr::graph::Atom>,
}

impl<'a> Oracle<'a> {
    /// walk -> write -> read -> build on the real code
    fn round_trip(&self, g: Vec<purr::graph::Atom>) -> Result<RoundTrip, String> {
        let mut cw = CountingWriter { w: purr::write::Writer::new(), open: Vec::new(), t: Tables::new() };
        match catch_unwind(AssertUnwindSafe(|| purr::walk::walk(g, &mut cw))) {
            Ok(Ok(())) => {}
            Ok(Err(e)) => return Err(format!("walk refuses the graph: {:?}", e)),
            Err(_) => return Err(format!("PANIC {} open={}", imp::last_panic(), cw.open.len())),
        }
        let w = cw.w;
        let text = w.write();
        let mut b = purr::graph::Builder::new();
        match catch_unwind(AssertUnwindSafe(|| read(&text, &mut b, None))) {
            Ok(Ok(())) => {}
            Ok(Err(e)) => return Err(format!("written text {:?} is refused by the reader: {:?}", text, e)),
            Err(_) => return Err(format!("reading the written text {:?} panics at {}", text, imp::last_panic())),
        }
        match b.build() {
            Ok(g2) => Ok(RoundTrip { text, g2 }),
            Err(e) => Err(format!("written text {:?} does not build: {:?}", text, e)),
        }
    }

    /// is `pi` (original id -> new id) an isomorphism in the sense of C01?
    fn iso_under(&self, g: &[purr::graph::Atom], g2: &[purr::graph::Atom], pi: &[usize]) -> Result<(), String> {
        let t = self.t;
        if g.len() != g2.len() { return Err(format!("{} atoms became {}", g.len(), g2.len())) }
        for a in 0..g.len() {
            let k1 = constitution_kind(&kind_s(t, &g[a].kind));
            let k2 = constitution_kind(&kind_s(t, &g2[pi[a]].kind));
            if k1 != k2 { return Err(format!("atom {} ({}) became {}", a, k1, k2)) }
            let mut b1: Vec<(usize, String)> = g[a].bonds.iter().map(|b| (pi[b.tid], bond_s(t, &b.kind))).collect();
            let mut b2: Vec<(usize, String)> = g2[pi[a]].bonds.iter().map(|b| (b.tid, bond_s(t, &b.kind))).collect();
            b1.sort(); b2.sort();
            if b1 != b2 { return Err(format!("the bonds of atom {} changed: {:?} became {:?} (targets in new numbering)", a, b1, b2)) }
        }
        Ok(())
    }

    /// bounded backtracking search for any isomorphism (used when the traversal-order candidate fails)
    fn iso_search(&self, g: &[purr::graph::Atom], g2: &[purr::graph::Atom]) -> Option<bool> {
        let t = self.t;
        let n = g.len();
        if n != g2.len() { return Some(false) }
        let sig = |a: &purr::graph::Atom| -> (String, usize) { (constitution_kind(&kind_s(t, &a.kind)), a.bonds.len()) };
        let s1: Vec<(String, usize)> = g.iter().map(sig).collect();
        let s2: Vec<(String, usize)> = g2.iter().map(sig).collect();
        let mut pi: Vec<Option<usize>> = vec![None; n];
        let mut used = vec![false; n];
        let mut steps = 0usize;
        fn consistent(t: &Tables, g: &[purr::graph::Atom], g2: &[purr::graph::Atom], pi: &[Option<usize>], a: usize) -> bool {
            let pa = pi[a].unwrap();
            for b in g[a].bonds.iter() {
                if let Some(pt) = pi[b.tid] {
                    if !g2[pa].bonds.iter().any(|c| c.tid == pt && bond_s(t, &c.kind) == bond_s(t, &b.kind)) { return false }
                }
            }
            true
        }
        fn rec(t: &Tables, g: &[purr::graph::Atom], g2: &[purr::graph::Atom], s1: &[(String, usize)], s2: &[(String, usize)],
               pi: &mut Vec<Option<usize>>, used: &mut Vec<bool>, a: usize, steps: &mut usize) -> Option<bool> {
            if a == g.len() { return Some(true) }
            for c in 0..g.len() {
                if used[c] || s1[a] != s2[c] { continue }
                *steps += 1;
                if *steps > 200000 { return None }
                pi[a] = Some(c); used[c] = true;
                if consistent(t, g, g2, pi, a) {
                    match rec(t, g, g2, s1, s2, pi, used, a + 1, steps) { Some(true) => return Some(true), None => return None, _ => {} }
                }
                pi[a] = None; used[c] = false;
            }
            Some(false)
        }
        rec(t, g, g2, &s1, &s2, &mut pi, &mut used, 0, &mut steps)
    }

    // ---------------- C01: round trip preserves the constitution ----------------
    fn c01_graph(&self, g: Vec<purr::graph::Atom>, what: &str) -> String {
        if g.is_empty() {
            // the empty adjacency list is well-formed
            return match self.round_trip(g) {
                Ok(_) => "OK".to_string(),
                Err(m) => fail(format!("the empty adjacency list: {}", m)),
            }
        }
        if graph_defect(&g).is_some() { return "SKIP".to_string() }
        let (order, _) = dfs_order(&g);
        let copy: Vec<purr::graph::Atom> = g.iter().map(|a| purr::graph::Atom { kind: parse_kind(&kind_s(self.t, &a.kind)).unwrap(), bonds: a.bonds.iter().map(|b| Bond::new(b.kind.clone(), b.tid)).collect() }).collect();
        let rt = match self.round_trip(copy) {
            Ok(rt) => rt,
            Err(m) => { if is_pool_exhaustion(&m) { return "SKIP".to_string() } return fail(format!("{}: {}", what, m)) }
        };
        let mut pi = vec![0usize; g.len()];
        for (i, a) in order.iter().enumerate() { pi[*a] = i }
        match self.iso_under(&g, &rt.g2, &pi) {
            Ok(()) => "OK".to_string(),
            Err(m) => match self.iso_search(&g, &rt.g2) {
                Some(true) => "OK".to_string(), // same molecule, different atom order: C12's concern, not C01's
                Some(false) => fail(format!("{}: written as {:?}, which builds a different molecule: {}", what, rt.text, m)),
                None => fail(format!("{}: written as {:?}; the atoms do not correspond in visit order ({}) and no other correspondence was found within the search limit", what, rt.text, m)),
            },
        }
    }

    fn c01(&mut self, toks: &[&str]) -> String {
        match toks {
            ["WALK", rest @ ..] => match parse_graph(rest) { Some(g) => self.c01_graph(g, "adjacency list"), None => "SKIP".to_string() },
            ["READ", h] => {
                let s = match unhex(h) { Some(s) => s, None => return "SKIP".to_string() };
                let mut b = purr::graph::Builder::new();
                match catch_unwind(AssertUnwindSafe(|| read(&s, &mut b, None))) {
                    Ok(Ok(())) => match b.build() { Ok(g) => self.c01_graph(g, &format!("graph of {:?}", s)), Err(_) => "SKIP".to_string() },
                    _ => "SKIP".to_string(),
                }
            }
            _ => "SKIP".to_string(),
        }
    }

    // ---------------- C12: writing preserves every atom's substituent order ----------------
    fn c12_graph(&self, g: Vec<purr::graph::Atom>, what: &str) -> String {
        let t = self.t;
        if g.is_empty() || graph_defect(&g).is_some() { return "SKIP".to_string() }
        let (order, parent) = dfs_order(&g);
        let copy: Vec<purr::graph::Atom> = g.iter().map(|a| purr::graph::Atom { kind: parse_kind(&kind_s(t, &a.kind)).unwrap(), bonds: a.bonds.iter().map(|b| Bond::new(b.kind.clone(), b.tid)).collect() }).collect();
        let rt = match self.round_trip(copy) { Ok(rt) => rt, Err(m) => { if is_pool_exhaustion(&m) { return "SKIP".to_string() } return fail(format!("{}: {}", what, m)) } };
        if rt.g2.len() != g.len() { return fail(format!("{}: {} atoms became {}", what, g.len(), rt.g2.len())) }
        let mut pi = vec![0usize; g.len()];
        for (i, a) in order.iter().enumerate() { pi[*a] = i }
        for a in 0..g.len() {
            let mut want: Vec<(String, usize)> = Vec::new();
            if let Some(p) = parent[a] { for b in g[a].bonds.iter() { if b.tid == p { want.push((bond_s(t, &b.kind), pi[p])) } } }
            for b in g[a].bonds.iter() { if Some(b.tid) != parent[a] { want.push((bond_s(t, &b.kind), pi[b.tid])) } }
            let got: Vec<(String, usize)> = rt.g2[pi[a]].bonds.iter().map(|b| (bond_s(t, &b.kind), b.tid)).collect();
            if got != want {
                return fail(format!("{}: written as {:?}; atom {} (re-read as atom {}) has bond list {:?}, expected the original with the arrival bond first: {:?}", what, rt.text, a, pi[a], got, want))
            }
        }
        "OK".to_string()
    }

    fn c12(&mut self, toks: &[&str]) -> String {
        match toks {
            ["WALK", rest @ ..] => match parse_graph(rest) { Some(g) => self.c12_graph(g, "adjacency list"), None => "SKIP".to_string() },
            ["READ", h] => {
                let s = match unhex(h) { Some(s) => s, None => return "SKIP".to_string() };
                let mut b = purr::graph::Builder::new();
                match catch_unwind(AssertUnwindSafe(|| read(&s, &mut b, None))) {
                    Ok(Ok(())) => match b.build() { Ok(g) => self.c12_graph(g, &format!("graph of {:?}", s)), Err(_) => "SKIP".to_string() },
                    _ => "SKIP".to_string(),
                }
            }
            _ => "SKIP".to_string(),
        }
    }

    // ---------------- C03: round trip preserves stereochemistry ----------------
    fn c03_graph(&self, g: Vec<purr::graph::Atom>, what: &str) -> String {
        let t = self.t;
        if g.is_empty() || graph_defect(&g).is_some() { return "SKIP".to_string() }
        let (order, _) = dfs_order(&g);
        let copy: Vec<purr::graph::Atom> = g.iter().map(|a| purr::graph::Atom { kind: parse_kind(&kind_s(t, &a.kind)).unwrap(), bonds: a.bonds.iter().map(|b| Bond::new(b.kind.clone(), b.tid)).collect() }).collect();
        let rt = match self.round_trip(copy) { Ok(rt) => rt, Err(m) => { if is_pool_exhaustion(&m) { return "SKIP".to_string() } return fail(format!("{}: {}", what, m)) } };
        if rt.g2.len() != g.len() { return "SKIP".to_string() } // C01's concern
        let mut pi = vec![0usize; g.len()];
        for (i, a) in order.iter().enumerate() { pi[*a] = i }
        let mut inv = vec![0usize; g.len()];
        for a in 0..g.len() { inv[pi[a]] = a }
        // directional bonds: where the re-read graph has the same bonds under the traversal-order bijection, a bond that is
        // `/` or `\` on either side must have kept its kind as seen from each of its two atoms
        let topo_same = (0..g.len()).all(|a| {
            let mut b1: Vec<usize> = g[a].bonds.iter().map(|b| pi[b.tid]).collect();
            let mut b2: Vec<usize> = rt.g2[pi[a]].bonds.iter().map(|b| b.tid).collect();
            b1.sort(); b2.sort();
            b1 == b2
        });
        if topo_same {
            for a in 0..g.len() {
                for b in g[a].bonds.iter() {
                    let k1 = bond_s(t, &b.kind);
                    if let Some(b2) = rt.g2[pi[a]].bonds.iter().find(|c| c.tid == pi[b.tid]) {
                        let k2 = bond_s(t, &b2.kind);
                        let dir = |k: &str| k == "6" || k == "7";
                        if (dir(&k1) || dir(&k2)) && k1 != k2 {
                            return fail(format!("{}: written as {:?}; the bond from atom {} to atom {} has kind #{} seen from atom {}, re-read as #{} (directional bonds must keep their direction relative to the two atoms)",
                                what, rt.text, a, b.tid, k1, a, k2))
                        }
                    }
                }
            }
        }
        if self.iso_under(&g, &rt.g2, &pi).is_err() { return "SKIP".to_string() } // not the traversal-order bijection: C01 / C12 decide
        const H: usize = usize::MAX;
        for a in 0..g.len() {
            let k1 = kind_s(t, &g[a].kind);
            let k2 = kind_s(t, &rt.g2[pi[a]].kind);
            let (c1, c2) = (config_of(&k1), config_of(&k2));
            if c1.is_none() { if c2.is_some() { return fail(format!("{}: atom {} gained a configuration", what, a)) } continue }
            // neighbour orders, implicit hydrogen first (graph convention), in original ids
            let mut o1: Vec<usize> = Vec::new();
            if hcount_of(&k1) >= 1 { o1.push(H) }
            for b in g[a].bonds.iter() { o1.push(b.tid) }
            let mut o2: Vec<usize> = Vec::new();
            if hcount_of(&k2) >= 1 { o2.push(H) }
            for b in rt.g2[pi[a]].bonds.iter() { o2.push(inv[b.tid]) }
            // parity of the permutation taking o1 to o2
            let mut perm: Vec<usize> = Vec::new();
            for x in o2.iter() { match o1.iter().position(|y| y == x) { Some(p) => perm.push(p), None => return "SKIP".to_string() } }
            let mut inversions = 0;
            for i in 0..perm.len() { for j in i + 1..perm.len() { if perm[i] > perm[j] { inversions += 1 } } }
            let odd = inversions % 2 == 1;
            let c1 = c1.unwrap();
            let flip = |c: usize| match c { 55 => 56, 56 => 55, 0 => 1, 1 => 0, x => x };
            let norm = |c: usize| match c { 0 => 55, 1 => 56, x => x }; // AL1/AL2 are written @ / @@ and read back as TH
            let is_mark = c1 == 55 || c1 == 56 || c1 == 0 || c1 == 1;
            if is_mark {
                let want = norm(if odd { flip(c1) } else { c1 });
                if c2 != Some(want) {
                    return fail(format!("{}: written as {:?}; centre {} has neighbour order {:?} and mark #{}, re-read order {:?} ({} permutation) with mark {:?}, expected #{}",
                        what, rt.text, a, o1, c1, o2, if odd { "odd" } else { "even" }, c2, want))
                }
            } else if o1 == o2 && c2 != Some(c1) {
                return fail(format!("{}: configuration #{} of atom {} became {:?} although its neighbour order is unchanged", what, c1, a, c2))
            }
        }
        "OK".to_string()
    }

    fn c03(&mut self, toks: &[&str]) -> String {
        match toks {
            ["WALK", rest @ ..] => match parse_graph(rest) { Some(g) => self.c03_graph(g, "adjacency list"), None => "SKIP".to_string() },
            ["READ", h] => {
                let s = match unhex(h) { Some(s) => s, None => return "SKIP".to_string() };
                let mut b = purr::graph::Builder::new();
                match catch_unwind(AssertUnwindSafe(|| read(&s, &mut b, None))) {
                    Ok(Ok(())) => match b.build() {
                        Ok(g) => {
                            // a directional bond of the built graph must point one way: `/` seen from one atom is `\` seen from the other
                            for (a, atom) in g.iter().enumerate() {
                                for bd in atom.bonds.iter() {
                                    if !bd.is_directional() || bd.tid >= g.len() { continue }
                                    let backs: Vec<&Bond> = g[bd.tid].bonds.iter().filter(|x| x.tid == a).collect();
                                    if backs.len() == 1 && backs[0].kind != bd.kind.reverse() {
                                        return fail(format!("{:?} builds a graph whose directional bond {}-{} is {:?} seen from atom {} and {:?} seen from atom {}: its direction relative to the two atoms is lost",
                                            s, a, bd.tid, bd.kind, a, backs[0].kind, bd.tid))
                                    }
                                }
                            }
                            self.c03_graph(g, &format!("graph of {:?}", s))
                        }
                        Err(_) => "SKIP".to_string(),
                    },
                    _ => "SKIP".to_string(),
                }
            }
            _ => "SKIP".to_string(),
        }
    }

    // ---------------- C14: written output is a deterministic fixed point ----------------
    fn c14_graph(&self, mk: &dyn Fn() -> Vec<purr::graph::Atom>, what: &str) -> String {
        let g = mk();
        if g.is_empty() || graph_defect(&g).is_some() { return "SKIP".to_string() }
        let rt = match self.round_trip(g) { Ok(rt) => rt, Err(m) => { if is_pool_exhaustion(&m) { return "SKIP".to_string() } return fail(format!("{}: {}", what, m)) } };
        // determinism: the same adjacency list written again, in this thread and in fresh threads
        for round in 0..3 {
            let g = mk();
            let text = if round == 0 {
                let mut w = purr::write::Writer::new();
                let _ = purr::walk::walk(g, &mut w);
                w.write()
            } else {
                std::thread::spawn(move || { let mut w = purr::write::Writer::new(); let _ = purr::walk::walk(g, &mut w); w.write() }).join().unwrap_or_default()
            };
            if text != rt.text { return fail(format!("{}: written as {:?} and as {:?} in another run", what, rt.text, text)) }
        }
        // fixed point: reading the output and writing the result again reproduces it
        let rt2 = match self.round_trip(rt.g2) { Ok(x) => x, Err(m) => return fail(format!("{}: the re-read graph of {:?}: {}", what, rt.text, m)) };
        if rt2.text != rt.text { return fail(format!("{}: written as {:?}; reading that and writing again gives {:?}", what, rt.text, rt2.text)) }
        "OK".to_string()
    }

    fn c14(&mut self, toks: &[&str]) -> String {
        match toks {
            ["WALK", rest @ ..] => {
                let owned: Vec<String> = rest.iter().map(|x| x.to_string()).collect();
                if parse_graph(rest).is_none() { return "SKIP".to_string() }
                let mk = move || { let v: Vec<&str> = owned.iter().map(|x| x.as_str()).collect(); parse_graph(&v).unwrap() };
                self.c14_graph(&mk, "adjacency list")
            }
            ["READ", h] => {
                let s = match unhex(h) { Some(s) => s, None => return "SKIP".to_string() };
                let s2 = s.clone();
                let mk = move || -> Vec<purr::graph::Atom> {
                    let mut b = purr::graph::Builder::new();
                    match catch_unwind(AssertUnwindSafe(|| read(&s2, &mut b, None))) { Ok(Ok(())) => b.build().unwrap_or_default(), _ => Vec::new() }
                };
                self.c14_graph(&mk, &format!("graph of {:?}", s))
            }
            _ => "SKIP".to_string(),
        }
    }
}

// ------------------------------------------------------------------------------------------
// soak: the whole pipeline on one (large) accepted string, with the graph-level claims of C02, C01, C12 and C14 checked
// at that size (all helpers here are loops, so the check itself needs no stack)

/// read -> build (compared with the independent interpreter: C02) -> walk -> write -> read -> build (isomorphic under
/// the depth-first order: C01; the arrival bond moved to the front and nothing else: C12) -> walk -> write (same text: C14)
/// a follower that only watches ring numbers (C13 at size): an opening join must carry the smallest number from 1
/// upward that is not open, a number is free again as soon as it is closed; head atoms (in traversal order) are kept
/// so that the two ends of every number can be compared with the graph afterwards
pub struct RingWatch {
    t: Tables,
    open: std::collections::BTreeMap<usize, usize>, // number -> head (traversal index) that opened it
    path: Vec<usize>,
    atoms: usize,
    pub pairs: Vec<(usize, usize)>,
    pub problem: Option<String>,
    pub max_open: usize,
}

impl RingWatch {
    pub fn new() -> Self { RingWatch { t: Tables::new(), open: Default::default(), path: Vec::new(), atoms: 0, pairs: Vec::new(), problem: None, max_open: 0 } }
}

impl purr::walk::Follower for RingWatch {
    fn root(&mut self, _k: AtomKind) { self.path.push(self.atoms); self.atoms += 1 }
    fn extend(&mut self, _b: BondKind, _k: AtomKind) { self.path.push(self.atoms); self.atoms += 1 }
    fn pop(&mut self, depth: usize) { for _ in 0..depth { self.path.pop(); } }
    fn join(&mut self, _b: BondKind, rnum: Rnum) {
        let n: usize = rnum_s(&self.t, &rnum).parse().unwrap_or(usize::MAX);
        let head = self.path.last().copied().unwrap_or(usize::MAX);
        if let Some(h0) = self.open.remove(&n) {
            self.pairs.push((h0, head));
        } else {
            let mut least = 1;
            while self.open.contains_key(&least) { least += 1 }
            if n != least && self.problem.is_none() {
                self.problem = Some(format!("ring closure on traversal atom {} is opened with number {} while {} is the smallest number not open ({} open)", head, n, least, self.open.len()));
            }
            self.open.insert(n, head);
            self.max_open = self.max_open.max(self.open.len());
        }
    }
}

pub fn soak_check(s: &str) -> Result<usize, String> {
    let t = Tables::new();
    let orc = Oracle::new(&t, "C01");
    let build = |s: &str, what: &str| -> Result<Vec<purr::graph::Atom>, String> {
        let mut b = purr::graph::Builder::new();
        read(s, &mut b, None).map_err(|e| format!("{}: {:?}", what, e))?;
        b.build().map_err(|e| format!("{} build: {:?}", what, e))
    };
    let g = build(s, "read")?;
    let atoms = g.len();
    // C02 at this size
    let chars: Vec<char> = s.chars().collect();
    if let Some(tks) = tokenise(&chars) {
        if let Some(Ok((ref_atoms, _, _))) = denote(&t, &chars, &tks) {
            if ref_atoms.len() != g.len() { return Err(format!("{} atom tokens, {} atoms built", ref_atoms.len(), g.len())) }
            for (i, a) in g.iter().enumerate() {
                let got: Vec<(usize, usize)> = a.bonds.iter().map(|x| (bond_s(&t, &x.kind).parse().unwrap(), x.tid)).collect();
                if got != ref_atoms[i].bonds {
                    let show = |v: &Vec<(usize, usize)>| if v.len() > 6 { format!("{:?}.. ({} bonds)", &v[..6], v.len()) } else { format!("{:?}", v) };
                    return Err(format!("atom {} has bond list {} (kind, target), the string denotes {}", i, show(&got), show(&ref_atoms[i].bonds)))
                }
                if kind_s(&t, &a.kind) != ref_atoms[i].kind { return Err(format!("atom {} is built as {}, its token denotes {}", i, kind_s(&t, &a.kind), ref_atoms[i].kind)) }
            }
        } else {
            return Err("the string builds but the independent interpreter finds an unmatched / irreconcilable / duplicate ring closure".to_string())
        }
    }
    // C13 at this size: ring numbers along the traversal, and the two ends of every number against the graph
    let (order, _) = dfs_order(&g);
    {
        let mut watch = RingWatch::new();
        purr::walk::walk(build(s, "third read")?, &mut watch).map_err(|e| format!("walk: {:?}", e))?;
        if let Some(p) = watch.problem { return Err(p) }
        for (h0, h1) in watch.pairs.iter() {
            if *h0 >= order.len() || *h1 >= order.len() { return Err(format!("a ring number joins traversal atoms {} and {} of {}", h0, h1, order.len())) }
            let (x, y) = (order[*h0], order[*h1]);
            if !g[x].bonds.iter().any(|b| b.tid == y) { return Err(format!("a ring number is written on atoms {} and {}, which are not bonded", x, y)) }
        }
    }
    // C01 at this size
    let mut pi = vec![0usize; g.len()];
    for (i, a) in order.iter().enumerate() { pi[*a] = i }
    let rt = orc.round_trip(build(s, "second read")?)?;
    orc.iso_under(&g, &rt.g2, &pi).map_err(|m| format!("round trip of {} atoms: {}", atoms, m))?;
    // C14 at this size
    let copy = build(&rt.text, "re-read")?;
    let rt2 = orc.round_trip(copy)?;
    if rt2.text != rt.text {
        let at = rt.text.chars().zip(rt2.text.chars()).position(|(a, b)| a != b).unwrap_or(rt.text.len().min(rt2.text.len()));
        return Err(format!("the written text ({} characters) is not a fixed point: writing its own graph differs from character {}", rt.text.len(), at))
    }
    Ok(atoms)
}

// ------------------------------------------------------------------------------------------
// C02: an independent interpreter of (accepted) SMILES strings, written from the property text

#[derive(Debug, Clone)]
enum Tok { Atom(usize, usize), Bond(usize, usize), Rnum(usize, usize, usize), Open, Close, Dot }

/// tokenise an accepted string (positions are character indices)
fn tokenise(chars: &[char]) -> Option<Vec<Tok>> {
    let mut out = Vec::new();
    let mut i = 0;
    while i < chars.len() {
        let c = chars[i];
        match c {
            '(' => { out.push(Tok::Open); i += 1 }
            ')' => { out.push(Tok::Close); i += 1 }
            '.' => { out.push(Tok::Dot); i += 1 }
            '-' => { out.push(Tok::Bond(1, i)); i += 1 }
            '=' => { out.push(Tok::Bond(2, i)); i += 1 }
            '#' => { out.push(Tok::Bond(3, i)); i += 1 }
            '$' => { out.push(Tok::Bond(4, i)); i += 1 }
            ':' => { out.push(Tok::Bond(5, i)); i += 1 }
            '/' => { out.push(Tok::Bond(6, i)); i += 1 }
            '\\' => { out.push(Tok::Bond(7, i)); i += 1 }
            '0'..='9' => { out.push(Tok::Rnum(c.to_digit(10).unwrap() as usize, i, i + 1)); i += 1 }
            '%' => {
                let d1 = chars.get(i + 1)?.to_digit(10)? as usize; let d2 = chars.get(i + 2)?.to_digit(10)? as usize;
                out.push(Tok::Rnum(10 * d1 + d2, i, i + 3)); i += 3
            }
            '[' => { let mut j = i; while j < chars.len() && chars[j] != ']' { j += 1 } if j >= chars.len() { return None } out.push(Tok::Atom(i, j + 1)); i = j + 1 }
            'C' if chars.get(i + 1) == Some(&'l') => { out.push(Tok::Atom(i, i + 2)); i += 2 }
            'B' if chars.get(i + 1) == Some(&'r') => { out.push(Tok::Atom(i, i + 2)); i += 2 }
            'A' | 'T' => { out.push(Tok::Atom(i, i + 2)); i += 2 }
            _ => { out.push(Tok::Atom(i, i + 1)); i += 1 }
        }
    }
    Some(out)
}

struct RefAtom { kind: String, bonds: Vec<(usize, usize)>, span: (usize, usize), pending: Vec<(usize, usize)> } // pending: (slot in bonds, rnum)

/// the graph a token sequence denotes: Ok(atoms, rnum spans, bond cursors) or Err(()) when a ring digit is
/// unmatched / irreconcilable / self / duplicate (the builder's own error cases, C10)
#[allow(clippy::type_complexity)]
fn denote(_t: &Tables, chars: &[char], toks: &[Tok]) -> Option<Result<(Vec<RefAtom>, Vec<(usize, usize)>, Vec<((usize, usize), usize)>), ()>> {
    let rev = |k: usize| match k { 6 => 7, 7 => 6, x => x };
    let mut atoms: Vec<RefAtom> = Vec::new();
    let mut rnums: Vec<(usize, usize)> = Vec::new();
    let mut bond_cursors: Vec<((usize, usize), usize)> = Vec::new();
    let mut open: Vec<(usize, usize, usize, usize, usize)> = Vec::new(); // rnum, atom, slot, kind, bond cursor
    let mut prev: Option<usize> = None;          // atom the next token attaches to
    let mut stack: Vec<Option<usize>> = Vec::new();
    let mut bond: Option<(usize, usize)> = None; // pending explicit bond (kind, cursor)
    let mut dot = true;                          // the next atom starts a new component
    let mut bad = false;
    for tk in toks {
        match tk {
            Tok::Open => { stack.push(prev) }
            Tok::Close => { prev = stack.pop()?; }
            Tok::Dot => { dot = true }
            Tok::Bond(k, p) => { bond = Some((*k, *p)) }
            Tok::Atom(a, b) => {
                let text: String = chars[*a..*b].iter().collect();
                // the atom's own attributes: the token read by the independent recogniser (refsmiles::atom_value), not by
                // the library
                let mut kind = crate::refsmiles::atom_value(&text)?;
                let id = atoms.len();
                let mut bonds = Vec::new();
                if !dot {
                    let p = prev?;
                    let (k, cur) = match bond { Some((k, c)) => (k, c), None => (0, *a) };
                    atoms[p].bonds.push((k, id));
                    bonds.push((rev(k), p));
                    bond_cursors.push(((p, id), cur)); bond_cursors.push(((id, p), cur));
                    // convention of C03: a non-root atom with a hydrogen has its @ / @@ mark adjusted
                    if hcount_of(&kind) >= 1 {
                        if let Some(c) = config_of(&kind) {
                            let f = match c { 55 => 56, 56 => 55, 0 => 1, 1 => 0, x => x };
                            let mut fs: Vec<String> = kind[1..kind.len() - 1].split(',').map(|x| x.to_string()).collect();
                            fs[2] = f.to_string();
                            kind = format!("[{}]", fs.join(","));
                        }
                    }
                }
                atoms.push(RefAtom { kind, bonds, span: (*a, *b), pending: Vec::new() });
                prev = Some(id); dot = false; bond = None;
            }
            Tok::Rnum(n, a, b) => {
                let me = prev?;
                let (k, cur) = match bond { Some((k, c)) => (k, c), None => (0, *a) };
                rnums.push((*a, *b));
                if let Some(j) = open.iter().position(|x| x.0 == *n) {
                    let (_, other, slot, k0, cur0) = open.remove(j);
                    let (ka, kb) = if k0 == 0 { (rev(k), k) } else if k == 0 { (k0, rev(k0)) } else if k0 == rev(k) { (k0, k) } else { bad = true; (0, 0) };
                    if other == me || atoms[me].bonds.iter().any(|x| x.1 == other && x.1 != usize::MAX) || atoms[other].bonds.iter().any(|x| x.1 == me) { bad = true }
                    if !bad {
                        atoms[other].bonds[slot] = (ka, me);
                        atoms[other].pending.retain(|x| x.0 != slot);
                        atoms[me].bonds.push((kb, other));
                        bond_cursors.push(((me, other), cur)); bond_cursors.push(((other, me), cur0));
                    }
                } else {
                    let slot = atoms[me].bonds.len();
                    atoms[me].bonds.push((k, usize::MAX));
                    atoms[me].pending.push((slot, *n));
                    open.push((*n, me, slot, k, cur));
                }
                bond = None;
            }
        }
    }
    if bad || !open.is_empty() { return Some(Err(())) }
    Some(Ok((atoms, rnums, bond_cursors)))
}

impl<'a> Oracle<'a> {
    // ---------------- C02: reading builds exactly the graph the string denotes ----------------
    fn c02(&mut self, toks: &[&str]) -> String {
        let t = self.t;
        match toks {
            ["READ", h] => {
                let s = match unhex(h) { Some(s) => s, None => return "SKIP".to_string() };
                if read_events(t, &s).is_err() { return "SKIP".to_string() }
                let chars: Vec<char> = s.chars().collect();
                let tks = match tokenise(&chars) { Some(x) => x, None => return "SKIP".to_string() };
                let den = match denote(t, &chars, &tks) { Some(x) => x, None => return "SKIP".to_string() };
                let mut b = purr::graph::Builder::new();
                let _ = read(&s, &mut b, None);
                match (b.build(), den) {
                    (Ok(g), Ok((atoms, _, _))) => {
                        if g.len() != atoms.len() { return fail(format!("{:?}: {} atom tokens, {} atoms built", s, atoms.len(), g.len())) }
                        for (i, a) in g.iter().enumerate() {
                            let k = kind_s(t, &a.kind);
                            if k != atoms[i].kind { return fail(format!("{:?}: atom {} is built as {}, the token {:?} denotes {}", s, i, k, chars[atoms[i].span.0..atoms[i].span.1].iter().collect::<String>(), atoms[i].kind)) }
                            let got: Vec<(usize, usize)> = a.bonds.iter().map(|x| (bond_s(t, &x.kind).parse().unwrap(), x.tid)).collect();
                            if got != atoms[i].bonds { return fail(format!("{:?}: atom {} has bond list {:?} (kind, target), the string denotes {:?}", s, i, got, atoms[i].bonds)) }
                        }
                        "OK".to_string()
                    }
                    (Err(_), Err(())) => "OK".to_string(),
                    (Ok(_), Err(())) => fail(format!("{:?}: builds although a ring-closure digit is unmatched, irreconcilable, a self bond or a duplicate", s)),
                    (Err(e), Ok(_)) => fail(format!("{:?}: denotes a graph but build fails with {:?}", s, e)),
                }
            }
            _ => "SKIP".to_string(),
        }
    }

    // ---------------- C15: the trace maps every atom, bond and ring digit to its cursor ----------------
    fn c15(&mut self, toks: &[&str]) -> String {
        match toks {
            ["READ", h] => {
                let s = match unhex(h) { Some(s) => s, None => return "SKIP".to_string() };
                match trace_check(self.t, &s, &format!("{:?}", s)) { None => "SKIP".to_string(), Some(Ok(())) => "OK".to_string(), Some(Err(m)) => fail(m) }
            }
            _ => "SKIP".to_string(),
        }
    }
}

/// C15 on one string: the trace of the real reader against the token positions and the bond cursors of the
/// independent interpreter (`label` names the string in messages); None when the string is not accepted
pub fn trace_check(t: &Tables, s: &str, label: &str) -> Option<Result<(), String>> {
    if read_events(t, s).is_err() { return None }
    let chars: Vec<char> = s.chars().collect();
    let tks = tokenise(&chars)?;
    let den = denote(t, &chars, &tks)?;
    let mut b = purr::graph::Builder::new();
    let mut trace = purr::read::Trace::new();
    if catch_unwind(AssertUnwindSafe(|| read(s, &mut b, Some(&mut trace)))).is_err() { return Some(Err(format!("{}: reading with a trace panics", label))) }
    // atoms and ring digits: from the tokens alone
    let atom_spans: Vec<(usize, usize)> = tks.iter().filter_map(|x| if let Tok::Atom(a, b) = x { Some((*a, *b)) } else { None }).collect();
    let rnum_spans: Vec<(usize, usize)> = tks.iter().filter_map(|x| if let Tok::Rnum(_, a, b) = x { Some((*a, *b)) } else { None }).collect();
    for (i, sp) in atom_spans.iter().enumerate() {
        match trace.atom(i) { Some(r) if (r.start, r.end) == *sp => {}, other => return Some(Err(format!("{}: atom {} is the token at {:?}, the trace says {:?}", label, i, sp, other))) }
    }
    for i in atom_spans.len()..atom_spans.len() + 3 { if trace.atom(i).is_some() { return Some(Err(format!("{}: the trace maps the non-existent atom {} to {:?}", label, i, trace.atom(i)))) } }
    for (k, sp) in rnum_spans.iter().enumerate() {
        match trace.rnum(k) { Some(r) if (r.start, r.end) == *sp => {}, other => return Some(Err(format!("{}: ring-closure token {} is at {:?}, the trace says {:?}", label, k, sp, other))) }
    }
    if trace.rnum(rnum_spans.len()).is_some() { return Some(Err(format!("{}: the trace has a ring-closure token past the last one", label))) }
    // bonds, in both directions, when the graph builds
    if let Ok((atoms, _, cursors)) = den {
        for ((a, bb), cur) in cursors.iter() {
            if trace.bond(*a, *bb) != Some(*cur) { return Some(Err(format!("{}: bond {}->{} is written at cursor {}, the trace says {:?}", label, a, bb, cur, trace.bond(*a, *bb)))) }
        }
        let n = atoms.len();
        if n <= 12 { for a in 0..n + 1 { for bb in 0..n + 1 {
            if trace.bond(a, bb).is_some() && !cursors.iter().any(|x| x.0 == (a, bb)) { return Some(Err(format!("{}: the trace reports a cursor for the non-existent bond {}->{}", label, a, bb))) }
        } } }
    }
    Some(Ok(()))
}

fn first_panic(resp: &str) -> String {
    match resp.find("panic") { Some(i) => resp[i..].split(' ').next().unwrap_or("panic").to_string(), None => String::new() }
}

/// standard valences from the property text of C17, by element symbol
fn std_valences(sym: &str) -> &'static [u8] {
    match sym {
        "B" => &[3], "C" => &[4], "N" | "P" => &[3, 5], "O" => &[2], "S" => &[2, 4, 6],
        "F" | "Cl" | "Br" | "I" | "At" | "Ts" => &[1],
        _ => &[],
    }
}

fn h_spec(vs: &[u8], v: usize) -> usize {
    match vs.iter().find(|t| **t as usize >= v) { Some(t) => *t as usize - v, None => 0 }
}

/// (element symbol or "*", aromatic flag) of a kind, through Display only
fn element_and_flag(k: &AtomKind) -> (String, bool) {
    match k {
        AtomKind::Star => ("*".to_string(), false),
        AtomKind::Aliphatic(a) => (a.to_string(), false),
        AtomKind::Aromatic(a) => (capitalize(&a.to_string()), true),
        AtomKind::Bracket { symbol, .. } => match symbol {
            BracketSymbol::Star => ("*".to_string(), false),
            BracketSymbol::Element(e) => (e.to_string(), false),
            BracketSymbol::Aromatic(a) => (capitalize(&a.to_string()), true),
        },
    }
}

fn capitalize(s: &str) -> String {
    let mut c = s.chars();
    match c.next() { Some(f) => f.to_uppercase().collect::<String>() + c.as_str(), None => String::new() }
}

impl<'a> Oracle<'a> {
    // ---------------- C16: debracketing never changes what an atom means ----------------
    fn c16(&mut self, toks: &[&str]) -> String {
        match toks {
            ["DEB", k, bos] => {
                let bos: usize = match bos.parse() { Ok(v) => v, Err(_) => return "SKIP".to_string() };
                let orig = match parse_kind(k) { Some(x) => x, None => return "SKIP".to_string() };
                let hc = match &orig { AtomKind::Bracket { hcount: Some(h), .. } => { let v: u8 = h.into(); v as usize } _ => 0 };
                if bos + hc > 255 { return "SKIP".to_string() } // outside the property's quantifier
                let res = match catch_unwind(AssertUnwindSafe(|| parse_kind(k).unwrap().debracket(bos as u8))) {
                    Ok(r) => r,
                    Err(_) => return fail(format!("debracket({}) panics on {} although the sum fits in a byte", bos, k)),
                };
                let (e0, f0) = element_and_flag(&orig);
                let (e1, f1) = element_and_flag(&res);
                if e0 != e1 { return fail(format!("{}.debracket({}) = {}: element {} became {}", k, bos, kind_s(self.t, &res), e0, e1)) }
                if f0 != f1 { return fail(format!("{}.debracket({}) = {}: aromatic flag changed", k, bos, kind_s(self.t, &res))) }
                let bonds = |n: usize| (0..n).map(|_| Bond::new(BondKind::Single, 0)).collect::<Vec<_>>();
                let h0 = purr::graph::Atom { kind: orig, bonds: bonds(bos) }.suppressed_hydrogens();
                let unchanged_expected = match parse_kind(k).unwrap() {
                    AtomKind::Bracket { isotope, configuration, charge, map, .. } => isotope.is_some() || configuration.is_some() || charge.is_some() || map.is_some(),
                    _ => true,
                };
                if unchanged_expected && res != parse_kind(k).unwrap() {
                    return fail(format!("{}.debracket({}) = {}: must be returned unchanged", k, bos, kind_s(self.t, &res)))
                }
                let rs = kind_s(self.t, &res);
                let h1 = purr::graph::Atom { kind: res, bonds: bonds(bos) }.suppressed_hydrogens();
                if h0 != h1 { return fail(format!("{}.debracket({}) = {}: {} hydrogens became {}", k, bos, rs, h0, h1)) }
                "OK".to_string()
            }
            _ => "SKIP".to_string(),
        }
    }

    // ---------------- C17: hydrogen counts and subvalence follow the valence model ----------------
    fn c17(&mut self, toks: &[&str]) -> String {
        match toks {
            ["VAL", k, bs] => {
                let kind = match parse_kind(k) { Some(x) => x, None => return "SKIP".to_string() };
                let bonds = match imp::parse_bond_multi(bs) { Some(b) => b, None => return "SKIP".to_string() };
                // bond-order sum from the documented orders
                let sum: usize = bonds.iter().map(|b| match b.kind { BondKind::Double => 2, BondKind::Triple => 3, BondKind::Quadruple => 4, _ => 1 }).sum();
                let targets: Vec<u8> = kind.targets().to_vec();
                let (sym, _) = element_and_flag(&kind);
                let (want_h, hc): (usize, usize) = match &kind {
                    AtomKind::Star => (0, 0),
                    AtomKind::Aliphatic(_) => (h_spec(std_valences(&sym), sum), 0),
                    AtomKind::Aromatic(_) => (h_spec(std_valences(&sym), sum).saturating_sub(1), 0),
                    AtomKind::Bracket { hcount, .. } => { let v = match hcount { Some(h) => { let v: u8 = h.into(); v as usize } None => 0 }; (v, v) }
                };
                // charged bracket atoms with targets: those of the isoelectronic neutral element
                if let AtomKind::Bracket { symbol, charge: Some(q), .. } = &kind {
                    if !targets.is_empty() {
                        let z: i8 = q.into();
                        let el = sym.clone();
                        let an = PERIODIC.iter().position(|x| *x == el).map(|i| i as i32 + 1);
                        let iso = an.and_then(|a| PERIODIC.get((a - z as i32 - 1) as usize));
                        let want: &[u8] = match iso { Some(s) => match *s { "As" => &[3, 5], "Se" => &[2, 4, 6], "F" | "Cl" | "Br" | "I" | "At" | "Ts" => &[], x => std_valences(x) }, None => &[] };
                        if want != targets.as_slice() { return fail(format!("targets of {} are {:?}, isoelectronic neutral element {:?} has {:?}", k, targets, iso, want)) }
                        let _ = symbol;
                    }
                }
                let atom = purr::graph::Atom { kind, bonds };
                let sub = match catch_unwind(AssertUnwindSafe(|| atom.subvalence())) { Ok(v) => v as usize, Err(_) => return fail(format!("subvalence panics for {} with bond-order sum {}", k, sum)) };
                let want_sub = h_spec(&targets, sum + hc);
                if sub != want_sub { return fail(format!("subvalence of {} with bond-order sum {} is {}, valence model gives {}", k, sum, sub, want_sub)) }
                let h = match catch_unwind(AssertUnwindSafe(|| atom.suppressed_hydrogens())) { Ok(v) => v as usize, Err(_) => return fail(format!("suppressed_hydrogens panics for {} with bond-order sum {}", k, sum)) };
                if h != want_h { return fail(format!("hydrogen count of {} with bond-order sum {} is {}, valence model gives {}", k, sum, h, want_h)) }
                "OK".to_string()
            }
            _ => "SKIP".to_string(),
        }
    }
}

fn signed_value(s: &str) -> Option<i64> {
    let (sign, rest) = if let Some(r) = s.strip_prefix('+') { (1, r) } else if let Some(r) = s.strip_prefix('-') { (-1, r) } else { return None };
    if rest.is_empty() { return Some(sign) }
    if !rest.chars().all(|c| c.is_ascii_digit()) { return None }
    rest.parse::<i64>().ok().map(|v| sign * v)
}

/// canonical kind with the documented shorthands identified: AL1/AL2 read back as TH1/TH2, H0 as absent
pub fn norm_kind_s(k: &str) -> String {
    if k.starts_with('[') {
        let inner = &k[1..k.len() - 1];
        let mut f: Vec<String> = inner.split(',').map(|x| x.to_string()).collect();
        if f.len() == 6 {
            if f[2] == "0" { f[2] = "55".to_string() }
            if f[2] == "1" { f[2] = "56".to_string() }
            if f[3] == "0" { f[3] = "_".to_string() }
            return format!("[{}]", f.join(","));
        }
    }
    k.to_string()
}
