//! Request generators, one per correspondence suite (DESIGN.md 3.3).
use std::io::Write;

use crate::canon::*;
use crate::rng::Rng;

pub fn generate<W: Write>(t: &Tables, suite: &str, tier: &str, seed: u64, out: &mut W) {
    let thorough = tier == "thorough";
    let mut rng = Rng::new(seed);
    match suite {
        "table" => table(t, out),
        "atom" => atom(t, thorough, &mut rng, out),
        "kinds" => kinds(t, thorough, &mut rng, out),
        "read" => read_suite(t, thorough, &mut rng, out),
        "events" => events(t, thorough, &mut rng, out),
        "graph" => graph(t, thorough, &mut rng, out),
        "pool" => pool(thorough, &mut rng, out),
        "val" => val(t, thorough, &mut rng, out),
        "depth" => depth(thorough, out),
        _ => { eprintln!("unknown suite {}", suite); std::process::exit(2) }
    }
}

/// S-table: exhaustive over every feature table and conversion domain.
fn table<W: Write>(_t: &Tables, out: &mut W) {
    for (ty, n) in [("element", 118), ("baro", 8), ("aro", 6), ("ali", 12), ("cfg", 57), ("charge", 30),
                    ("hcount", 10), ("rnum", 100), ("bond", 8), ("number", 1000)].iter() {
        for i in 0..*n { writeln!(out, "TXT {} {}", ty, i).unwrap() }
    }
    for z in -128..=127 { writeln!(out, "CONV charge {}", z).unwrap() }
    for n in 0..=255 { writeln!(out, "CONV hcount {}", n).unwrap() }
    for n in 0..=65535u32 { writeln!(out, "CONV rnum {}", n).unwrap() }
    for n in 0..=65535u32 { writeln!(out, "CONV number {}", n).unwrap() }
    // every digit string up to 5 characters, plus sign / junk forms
    for len in 1..=5u32 {
        for v in 0..10u32.pow(len) {
            let s = format!("{:0width$}", v, width = len as usize);
            writeln!(out, "CONV numstr {}", hex_str(&s)).unwrap();
        }
    }
    for s in ["", "+", "-", "+5", "-5", "+999", "+1000", " 5", "5 ", "1e2", "0x10", "٣", "65535", "65536", "99999", "999999"].iter() {
        writeln!(out, "CONV numstr {}", hex_str(s)).unwrap();
    }
    for i in 0..8 { writeln!(out, "CONV baro2aro {}", i).unwrap(); writeln!(out, "BACK baro2el {}", i).unwrap() }
    for i in 0..118 { writeln!(out, "CONV el2ali {}", i).unwrap() }
    for i in 0..30 { writeln!(out, "BACK charge {}", i).unwrap() }
    for i in 0..10 { writeln!(out, "BACK hcount {}", i).unwrap() }
    for i in 0..1000 { writeln!(out, "BACK number {}", i).unwrap() }
    for i in 0..6 { writeln!(out, "BACK aro2ali {}", i).unwrap(); writeln!(out, "BACK tgt_aro {}", i).unwrap() }
    for i in 0..12 { writeln!(out, "BACK tgt_ali {}", i).unwrap() }
    for i in 0..8 { writeln!(out, "BACK rev {}", i).unwrap(); writeln!(out, "BACK order {}", i).unwrap() }
    for l in 0..8 { for r in 0..8 { writeln!(out, "REC {} {}", l, r).unwrap() } }
}

fn read_req<W: Write>(out: &mut W, s: &str) {
    writeln!(out, "READ {}", hex_str(s)).unwrap()
}

pub fn config_spellings() -> Vec<String> {
    let mut v = vec!["@".to_string(), "@@".to_string()];
    for i in 1..=2 { v.push(format!("@TH{}", i)); v.push(format!("@AL{}", i)) }
    for i in 1..=3 { v.push(format!("@SP{}", i)) }
    for i in 1..=20 { v.push(format!("@TB{}", i)) }
    for i in 1..=30 { v.push(format!("@OH{}", i)) }
    v
}

/// S-atom: one atom token in context.
fn atom<W: Write>(t: &Tables, thorough: bool, rng: &mut Rng, out: &mut W) {
    let ascii: Vec<char> = (32u8..127).map(|c| c as char).collect();
    let letters: Vec<char> = ('A'..='Z').chain('a'..='z').collect();
    // exhaustive: every 1- and 2-character symbol candidate inside brackets, with every ASCII follow char
    for &c in ascii.iter() {
        read_req(out, &format!("[{}]", c));
        read_req(out, &format!("[{}", c));
        read_req(out, &format!("{}", c));
        for &d in ascii.iter() {
            read_req(out, &format!("[{}{}]", c, d));
            read_req(out, &format!("{}{}", c, d));
        }
    }
    for &c in letters.iter() { for &d in letters.iter() {
        read_req(out, &format!("[{}{}", c, d));
        for &e in ['H', '@', '+', '-', ':', ']', 'a', 'l', '1'].iter() { read_req(out, &format!("[{}{}{}]", c, d, e)) }
    } }
    // organic symbols followed by every ASCII char
    for sym in ["B", "C", "N", "O", "P", "S", "F", "Cl", "Br", "I", "At", "Ts", "b", "c", "n", "o", "p", "s", "*", "A", "T"].iter() {
        for &d in ascii.iter() { read_req(out, &format!("{}{}", sym, d)); read_req(out, &format!("C{}{}", sym, d)) }
    }
    // configuration spellings, each with every one-character corruption / truncation / extension
    let cfgs = config_spellings();
    let subs = ['0', '1', '2', '3', '9', '@', 'A', 'B', 'H', 'L', 'O', 'P', 'S', 'T', 'x', ']', '+'];
    for c in cfgs.iter() {
        for tail in ["]", "H]", "H2+]", "-:5]", ""].iter() { read_req(out, &format!("[C{}{}", c, tail)) }
        let cs: Vec<char> = c.chars().collect();
        for i in 0..=cs.len() {
            // truncation
            let pre: String = cs[..i].iter().collect();
            read_req(out, &format!("[C{}", pre));
            read_req(out, &format!("[C{}]", pre));
            for &x in subs.iter() {
                // substitution at i, insertion at i
                if i < cs.len() {
                    let mut m = cs.clone(); m[i] = x;
                    read_req(out, &format!("[C{}]", m.iter().collect::<String>()));
                }
                let mut m = cs.clone(); m.insert(i, x);
                read_req(out, &format!("[C{}]", m.iter().collect::<String>()));
            }
        }
        // multi-byte character after the prefix
        read_req(out, &format!("[C{}é]", c));
    }
    // charges: every spelling -16..16, doubled signs, leading zeros
    for z in -16i32..=16 {
        if z == 0 { continue }
        let sign = if z < 0 { '-' } else { '+' };
        read_req(out, &format!("[C{}{}]", sign, z.abs()));
        read_req(out, &format!("[C{}0{}]", sign, z.abs()));
        read_req(out, &format!("[C{}{}:3]", sign, z.abs()));
        read_req(out, &format!("[C{}{}", sign, z.abs()));
    }
    for s in ["+", "-", "++", "--", "+++", "---", "+-", "-+", "+0", "-0", "+1+", "++1", "+16", "+20", "+99", "+100"].iter() {
        read_req(out, &format!("[C{}]", s)); read_req(out, &format!("[C{}", s)); read_req(out, &format!("[CH{}]", s));
    }
    // hcount
    for h in 0..=10 { read_req(out, &format!("[CH{}]", h)); read_req(out, &format!("[C@H{}]", h)); read_req(out, &format!("[HH{}]", h)) }
    read_req(out, "[CH]"); read_req(out, "[CHH]"); read_req(out, "[H]"); read_req(out, "[HH]"); read_req(out, "[CH"); read_req(out, "[CH1"); 
    // isotope / map: all 0..=1000 plus leading zeros and overflow
    for n in 0..=1000 { read_req(out, &format!("[{}C]", n)); read_req(out, &format!("[C:{}]", n)) }
    for s in ["00", "000", "0000", "007", "0999", "1000", "9999"].iter() { read_req(out, &format!("[{}C]", s)); read_req(out, &format!("[C:{}]", s)) }
    for s in ["[C:]", "[C:", "[C:x]", "[C:1", "[C:1x]", "[C:é]", "[:1]", "[1]", "[1", "[", "[]", "[C]]", "[[C]"].iter() { read_req(out, s) }
    // non-ASCII numeric characters (Arabic-Indic, fullwidth, superscript, other scripts) at every digit position
    let weird = ['\u{663}', '\u{ff11}', '\u{b2}', '\u{0967}', '\u{1d7d9}', '\u{2460}', '\u{bd}', '\u{e9}'];
    for tpl in ["[13C]", "[C:12]", "[C:1]", "[CH3]", "[C+12]", "[C-3]", "[C@TB12]", "[C@OH25]", "[C@TH1]", "[C@SP3]", "[C@AL2]", "C1CC1",
                "C%12CC%12", "[12CH2+3:456]", "[123C:7]", "C=1CC=1", "[C@@H2+:0]"].iter() {
        let cs: Vec<char> = tpl.chars().collect();
        for i in 0..cs.len() {
            if cs[i].is_ascii_digit() || cs[i] == ':' || cs[i] == '%' || cs[i] == '+' {
                for &w in weird.iter() {
                    let mut m = cs.clone(); m[i] = w; read_req(out, &m.iter().collect::<String>());
                    let mut m = cs.clone(); m.insert(i + 1, w); read_req(out, &m.iter().collect::<String>());
                    let mut m = cs.clone(); m.insert(i, w); read_req(out, &m.iter().collect::<String>());
                }
            }
        }
    }
    // random full bracket atoms: all six fields
    let n = if thorough { 200000 } else { 20000 };
    for _ in 0..n {
        let mut s = String::from("[");
        if rng.chance(1, 2) { s.push_str(&rng.below(1000).to_string()) }
        match rng.below(10) {
            0 => s.push('*'),
            1 | 2 => s.push_str(&t.bracket_aromatics[rng.below(8)].to_string()),
            _ => s.push_str(&t.elements[rng.below(118)].to_string()),
        }
        if rng.chance(1, 2) { let c: &String = rng.pick(&cfgs[..]); s.push_str(c) }
        if rng.chance(1, 2) { let h = rng.below(10); s.push('H'); if h != 1 || rng.chance(1, 4) { s.push_str(&h.to_string()) } }
        if rng.chance(1, 2) {
            let z = rng.range(1, 15);
            s.push(if rng.chance(1, 2) { '+' } else { '-' });
            if z != 1 || rng.chance(1, 4) { s.push_str(&z.to_string()) }
        }
        if rng.chance(1, 2) { s.push(':'); s.push_str(&rng.below(1000).to_string()) }
        s.push(']');
        if rng.chance(1, 10) {
            // one random corruption
            let mut cs: Vec<char> = s.chars().collect();
            let i = rng.below(cs.len());
            match rng.below(3) { 0 => { cs.remove(i); } 1 => { cs[i] = *rng.pick(&ascii); } _ => { cs.insert(i, *rng.pick(&ascii)); } }
            s = cs.into_iter().collect();
        }
        read_req(out, &s);
    }
}

// ------------------------------------------------------------------------------------------
// random atom kinds (canonical form)

pub fn rand_bracket(rng: &mut Rng, stereo_bias: bool) -> String {
    let o = |rng: &mut Rng, p: usize, f: &dyn Fn(&mut Rng) -> String| -> String { if rng.chance(p, 10) { f(rng) } else { "_".to_string() } };
    let iso = o(rng, 2, &|r| r.below(1000).to_string());
    let sym = match rng.below(10) { 0 => "*".to_string(), 1 | 2 => format!("R{}", rng.below(8)), _ => format!("E{}", if rng.chance(1, 2) { [5usize, 6, 7, 14, 15, 0][rng.below(6)] } else { rng.below(118) }) };
    let cfg = if stereo_bias { if rng.chance(8, 10) { (55 + rng.below(2)).to_string() } else { o(rng, 5, &|r| r.below(57).to_string()) } } else { o(rng, 3, &|r| if r.chance(1, 2) { (55 + r.below(2)).to_string() } else { r.below(57).to_string() }) };
    let h = o(rng, 4, &|r| if r.chance(2, 3) { (r.below(3)).to_string() } else { r.below(10).to_string() });
    let q = o(rng, 3, &|r| { let z = r.range(1, 15) as i32; (if r.chance(1, 2) { z } else { -z }).to_string() });
    let m = o(rng, 2, &|r| r.below(1000).to_string());
    format!("[{},{},{},{},{},{}]", iso, sym, cfg, h, q, m)
}

pub fn rand_kind(rng: &mut Rng) -> String {
    match rng.below(10) {
        0 => "*".to_string(),
        1..=4 => format!("A{}", rng.below(12)),
        5 | 6 => format!("a{}", rng.below(6)),
        _ => rand_bracket(rng, false),
    }
}

/// S-kinds: KTXT over the product of bracket fields (stratified in quick, larger in thorough)
fn kinds<W: Write>(_t: &Tables, thorough: bool, rng: &mut Rng, out: &mut W) {
    for i in 0..12 { writeln!(out, "KTXT A{}", i).unwrap() }
    for i in 0..6 { writeln!(out, "KTXT a{}", i).unwrap() }
    writeln!(out, "KTXT *").unwrap();
    let syms: Vec<String> = std::iter::once("*".to_string()).chain((0..118).map(|i| format!("E{}", i))).chain((0..8).map(|i| format!("R{}", i))).collect();
    let cfgs: Vec<String> = std::iter::once("_".to_string()).chain((0..57).map(|i| i.to_string())).collect();
    let hs: Vec<String> = std::iter::once("_".to_string()).chain((0..10).map(|i| i.to_string())).collect();
    let qs: Vec<String> = std::iter::once("_".to_string()).chain((-15..=15).filter(|z| *z != 0).map(|i: i32| i.to_string())).collect();
    // every symbol x every configuration (hcount, charge varied cyclically)
    let mut k = 0usize;
    for sym in syms.iter() { for cfg in cfgs.iter() {
        k += 1;
        writeln!(out, "KTXT [_,{},{},{},{},_]", sym, cfg, hs[k % hs.len()], qs[k % qs.len()]).unwrap();
    } }
    // every configuration x hcount x charge on carbon
    for cfg in cfgs.iter() { for h in hs.iter() { for q in qs.iter() {
        writeln!(out, "KTXT [_,E5,{},{},{},_]", cfg, h, q).unwrap();
    } } }
    // all isotopes and maps on one symbol
    for n in 0..1000 { writeln!(out, "KTXT [{},E5,_,_,_,{}]", n, 999 - n).unwrap() }
    // every field present: the cross product of the narrowest and widest spellings of each field (one to three digit
    // isotope and map, one and two letter symbols, @ / @@ / two-digit TB and OH, H / Hn, + / ++ / two-digit charges)
    let isos = [0usize, 9, 10, 99, 100, 999];
    let full_syms = ["*", "E5", "E0", "E117", "E64", "E25", "R1", "R6", "R7"];
    let full_cfgs = [55usize, 56, 0, 1, 34, 35, 43, 44, 54, 2, 10, 11, 31];
    let full_hs = [0usize, 1, 2, 9];
    let full_qs = [1i32, -1, 2, -2, 9, 10, -10, 15, -15];
    if thorough {
        for iso in isos.iter() { for sym in full_syms.iter() { for cfg in full_cfgs.iter() { for h in full_hs.iter() { for q in full_qs.iter() { for m in isos.iter() {
            writeln!(out, "KTXT [{},{},{},{},{},{}]", iso, sym, cfg, h, q, m).unwrap();
        } } } } } }
    } else {
        // the widest corner in full, and a sample of the rest
        for iso in [100usize, 999].iter() { for sym in ["E117", "E64", "E25", "R6", "R7"].iter() { for cfg in [44usize, 54, 11, 31].iter() { for h in [2usize, 9].iter() { for q in [10i32, -10, 15, -15].iter() { for m in [100usize, 999].iter() {
            writeln!(out, "KTXT [{},{},{},{},{},{}]", iso, sym, cfg, h, q, m).unwrap();
        } } } } } }
        for _ in 0..6000 {
            writeln!(out, "KTXT [{},{},{},{},{},{}]", rng.pick(&isos), rng.pick(&full_syms), rng.pick(&full_cfgs), rng.pick(&full_hs), rng.pick(&full_qs), rng.pick(&isos)).unwrap();
        }
    }
    let n = if thorough { 300000 } else { 20000 };
    for _ in 0..n { writeln!(out, "KTXT {}", rand_bracket(rng, false)).unwrap() }
}

// ------------------------------------------------------------------------------------------
// S-read

const CORPUS_STRINGS: &[&str] = &[
    "", "C", "CC", "C=C", "C(C)C", "C1CC1", "C.C", "C(.C)C", "C%12CC%12", "C=1CC=1", "C/C=C/C", "C/C=C\\C", "F/C=C/F",
    "[13CH3]C%12(=O)CC%12", "C1CC[C@]1(F)Cl", "N[C@@H](C)C(=O)O", "C[C@SP1H](F)Cl", "[C@TB20]", "[C@OH14]", "[Cs]", "[C+5]", "[C+10]",
    "[C-10]", "[G]", "[C@TB0]", "[C@TB]", "[C@TBx", "[C@OH0]", "C%73CC%74", "C11", "C1C1", "C12CC12", "C1CC1C1CC1", "C(C", "C)", "()", "C()",
    "C(C))", "C((C))", "C(=)", "C=", "C.", ".C", "C..C", "C(.)", "C%", "C%1", "C%1x", "C-1", "C-%12", "C1", "C12", "c1ccccc1", "C#N", "C$C", "c:c",
    "CéC", "C\u{1F600}", "[C\u{1F600}]", "C%\u{661}2", "[\u{661}C]", "\u{0}", "C\u{0}", " C", "C ", "C\tC", "C\nC",
    "*", "[*]", "[*H]", "[*@H]", "**", "*1*1", "C1.C1", "C(C1)C1", "C1(C1)", "C=1C-1", "C/1CC\\1", "C/1CC/1", "C1CC=1", "C=1CC1",
];

fn rand_atom_text(t: &Tables, rng: &mut Rng) -> String {
    match rng.below(12) {
        0 => "*".to_string(),
        1..=5 => ["C", "N", "O", "S", "P", "F", "Cl", "Br", "I", "B", "At", "Ts"][rng.below(12)].to_string(),
        6 | 7 => ["c", "n", "o", "s", "p", "b"][rng.below(6)].to_string(),
        _ => {
            let sb = rng.chance(1, 3); let k = rand_bracket(rng, sb);
            let kind = parse_kind(&k).unwrap();
            let mut s = kind.to_string();
            let _ = t;
            // non-canonical spellings now and then
            if rng.chance(1, 8) { s = s.replace("@@", "@TH2") }
            if rng.chance(1, 8) { s = s.replace("+]", "+1]").replace("-]", "-1]") }
            s
        }
    }
}

fn rand_bond_text(rng: &mut Rng) -> &'static str {
    if rng.chance(6, 10) { "" } else { ["-", "=", "#", "$", ":", "/", "\\"][rng.below(7)] }
}

fn rand_rnum_text(rng: &mut Rng, n: usize) -> String {
    if n < 10 && rng.chance(9, 10) { n.to_string() } else { format!("%{:02}", n) }
}

/// grammar-directed random valid string: <smiles> ::= <atom> <body>*
fn rand_smiles(t: &Tables, rng: &mut Rng, budget: &mut usize, depth: usize, open_rings: &mut Vec<usize>) -> String {
    let mut s = rand_atom_text(t, rng);
    loop {
        if *budget == 0 { break }
        *budget -= 1;
        match rng.below(20) {
            0..=7 => { s.push_str(rand_bond_text(rng)); s.push_str(&rand_atom_text(t, rng)) }
            8 | 9 => if depth < 5 {
                s.push('(');
                match rng.below(6) { 0 => s.push('.'), 1 | 2 => s.push_str(rand_bond_text(rng)), _ => {} }
                s.push_str(&rand_smiles(t, rng, budget, depth + 1, open_rings));
                s.push(')');
            },
            10 => { s.push('.'); s.push_str(&rand_atom_text(t, rng)) }
            11..=14 => {
                // ring digit: close an open one or open a new one
                s.push_str(rand_bond_text(rng));
                if !open_rings.is_empty() && rng.chance(1, 2) {
                    let i = rng.below(open_rings.len());
                    let n = open_rings.remove(i);
                    s.push_str(&rand_rnum_text(rng, n));
                } else {
                    let n = if rng.chance(4, 5) { rng.below(10) } else { rng.below(100) };
                    if !open_rings.contains(&n) { open_rings.push(n) } else { open_rings.retain(|x| *x != n) }
                    s.push_str(&rand_rnum_text(rng, n));
                }
            }
            _ => if rng.chance(1, 3) { break },
        }
    }
    s
}

fn mutate(rng: &mut Rng, s: &str) -> String {
    let alphabet: Vec<char> = "CNOcn()[].=#$:/\\-+%@H0123456789*lrBFSPIsea \n\r\t\u{0}\u{e9}\u{663}\u{ff11}\u{b2}".chars().collect();
    let mut cs: Vec<char> = s.chars().collect();
    if cs.is_empty() { return alphabet[rng.below(alphabet.len())].to_string() }
    let i = rng.below(cs.len());
    match rng.below(4) {
        0 => { cs.remove(i); }
        1 => { cs[i] = *rng.pick(&alphabet); }
        2 => { cs.insert(i, *rng.pick(&alphabet)); }
        _ => { cs.truncate(i); }
    }
    cs.into_iter().collect()
}

fn enumerate_strings<W: Write>(alphabet: &[&str], max_len: usize, out: &mut W) {
    // all sequences of up to max_len alphabet tokens
    let n = alphabet.len();
    for len in 0..=max_len {
        let total = n.pow(len as u32);
        for mut v in 0..total {
            let mut s = String::new();
            for _ in 0..len { s.push_str(alphabet[v % n]); v /= n }
            read_req(out, &s);
        }
    }
}

/// every prefix of `s` followed by one probe character (line terminators, blanks, NUL, DEL, non-ASCII, a
/// letter and a punctuation mark that start nothing): the first offending character at every position
fn probe_prefixes<W: Write>(s: &str, out: &mut W) {
    const PROBES: &[char] = &['\n', '\r', '\t', ' ', '\u{0}', '\u{7f}', '\u{e9}', '\u{2028}', 'x', '!', ')', ']', '\u{feff}', '\u{200b}', '\u{a0}'];
    let cs: Vec<char> = s.chars().collect();
    for i in 0..=cs.len() {
        let p: String = cs[..i].iter().collect();
        for c in PROBES {
            let mut q = p.clone();
            q.push(*c);
            read_req(out, &q);
            if i < cs.len() { q.push(cs[i]); read_req(out, &q) }
        }
    }
}

fn read_suite<W: Write>(t: &Tables, thorough: bool, rng: &mut Rng, out: &mut W) {
    for s in CORPUS_STRINGS { read_req(out, s) }
    for s in CORPUS_STRINGS { probe_prefixes(s, out) }
    for s in ["[13C@TB12H2+2:7]C%12(=O)/C=C\\C%12", "[C@OH25H-15:123]=1.[nH+]$1", "[Cl@SP2-]", "[se@AL1]", "[Uue@@H9++]"] { probe_prefixes(s, out) }
    // characters a text pipeline may add, drop or normalise (byte-order mark, zero-width and no-break spaces, directional
    // marks, line and paragraph separators, NEL, VT, FF, replacement character, fullwidth and combining forms): before, after
    // and inside otherwise valid strings, once and doubled — none of them belongs to any sentence
    for ch in ['\u{feff}', '\u{200b}', '\u{200c}', '\u{200d}', '\u{2060}', '\u{a0}', '\u{202f}', '\u{200e}', '\u{200f}', '\u{2028}', '\u{2029}',
               '\u{85}', '\u{b}', '\u{c}', '\u{1}', '\u{1b}', '\u{fffd}', '\u{ffff}', '\u{10ffff}', '\u{301}', '\u{ff23}', '\u{430}', '\u{421}'] {
        for v in ["C", "C1CC1", "[13CH4]", "C(=O)O", "c1ccccc1", "[Na+].[Cl-]"] {
            let cs: Vec<char> = v.chars().collect();
            read_req(out, &format!("{}{}", ch, v));
            read_req(out, &format!("{}{}{}", ch, ch, v));
            read_req(out, &format!("{}{}", v, ch));
            let mid: String = cs[..1].iter().chain(std::iter::once(&ch)).chain(cs[1..].iter()).collect();
            read_req(out, &mid);
        }
        read_req(out, &ch.to_string());
    }
    // every combination of bond symbols on the two ends of a ring closure (8 x 8), on distant, adjacent and dot-separated
    // atoms, with one- and two-digit numbers, and with the closing digit after a branch
    let syms = ["", "-", "=", "#", "$", ":", "/", "\\"];
    for l in syms.iter() { for r in syms.iter() {
        read_req(out, &format!("C{}1CC{}1", l, r));
        read_req(out, &format!("C{}1C{}1", l, r));
        read_req(out, &format!("C{}%12C.C{}%12", l, r));
        read_req(out, &format!("C{}1(C(C)C){}1", l, r));
        read_req(out, &format!("N{}1C(O{}1)C", l, r));
        read_req(out, &format!("C{}1{}2CC{}2C{}1", l, r, r, l));
    } }
    // a stereocentre in every role: root, chain atom, ring opener, ring closer, with two digits, with 0 / 1 / 2 hydrogens,
    // both marks, and with a directional ring closure crossing a dot
    for mark in ["@", "@@", "@TH1", "@TH2", "@AL1", "@AL2", "@SP1", "@TB5", "@OH7"].iter() { for h in ["", "H", "H0", "H2", "H3"].iter() {
        let c = format!("[C{}{}]", mark, h);
        for s in [format!("{}(F)(Cl)Br", c), format!("N{}(F)(Cl)Br", c), format!("{}1(F)CC1", c), format!("F{}1(Cl)CC1", c),
                  format!("C1C{}1(F)Cl", c), format!("C1CC{}1F", c), format!("C12C{}12F", c), format!("{}12CC1C2", c),
                  format!("F{}(Cl)(Br)I", c), format!("C({}(F)Cl)Br", c), format!("F/C=C/{}(Cl)Br", c), format!("C/1.{}\\1F", c),
                  format!("O.N{}(F)Cl", c), format!("C1CC1{}%12.F%12", c)].iter() {
            read_req(out, s);
        }
    } }
    let a14 = ["C", "N", "c", "(", ")", ".", "=", "/", "1", "2", "%", "[", "]", "*"];
    let a6 = ["C", "(", ")", ".", "1", "="];
    let a8 = ["C", "[", "]", "@", "H", "+", "2", ":"];
    if thorough {
        enumerate_strings(&a14, 5, out);
        enumerate_strings(&a6, 7, out);
        enumerate_strings(&a8, 6, out);
    } else {
        enumerate_strings(&a14, 4, out);
        enumerate_strings(&a6, 6, out);
        enumerate_strings(&a8, 5, out);
    }
    let n = if thorough { 200000 } else { 40000 };
    for i in 0..n {
        let mut budget = if i % 50 == 0 { 200 } else { rng.range(1, 30) };
        let mut rings = Vec::new();
        let mut s = rand_smiles(t, rng, &mut budget, 0, &mut rings);
        // close what is still open most of the time (valid rings)
        if rng.chance(4, 5) { for n in rings.drain(..) { s.push_str(&rand_rnum_text(rng, n)) } }
        read_req(out, &s);
        if rng.chance(1, 2) { let m = mutate(rng, &s); read_req(out, &m) }
        if i % 100 == 7 && s.chars().count() <= 40 { probe_prefixes(&s, out) }
    }
}

// ------------------------------------------------------------------------------------------
// S-events

fn rand_history(rng: &mut Rng, len: usize, small: bool) -> Vec<String> {
    let mut evs = Vec::new();
    let mut n = 0usize; // path length
    let kind = |rng: &mut Rng| if small { ["*", "A1", "A7", "[_,E5,55,1,_,_]"][rng.below(4)].to_string() } else { rand_kind(rng) };
    for _ in 0..len {
        if n == 0 { evs.push(format!("R:{}", kind(rng))); n = 1; continue }
        match rng.below(10) {
            0 => { evs.push(format!("R:{}", kind(rng))); n += 1 }
            1..=4 => { evs.push(format!("X:{}:{}", rng.below(8), kind(rng))); n += 1 }
            5 | 6 | 7 => { evs.push(format!("J:{}:{}", if rng.chance(1, 2) { 0 } else { rng.below(8) }, if small || rng.chance(3, 4) { rng.below(4) } else { rng.below(100) })) }
            _ => if n >= 2 { let d = rng.range(1, n - 1); evs.push(format!("P:{}", d)); n -= d },
        }
    }
    evs
}

fn events<W: Write>(_t: &Tables, thorough: bool, rng: &mut Rng, out: &mut W) {
    // all histories of up to 5 events over a small alphabet (conformant and not)
    let alpha = ["R:*", "R:A1", "X:0:*", "X:2:A1", "X:6:[_,E5,55,1,_,_]", "J:0:1", "J:6:1", "J:7:1", "J:2:2", "P:1", "P:2", "P:0"];
    let maxlen = if thorough { 5 } else { 4 };
    for len in 0..=maxlen {
        let total = alpha.len().pow(len as u32);
        for mut v in 0..total {
            let mut evs = Vec::new();
            for _ in 0..len { evs.push(alpha[v % alpha.len()].to_string()); v /= alpha.len() }
            writeln!(out, "EVS {}", join_sp(&evs)).unwrap();
        }
    }
    // all 64 kind pairs on the two ends of a closure, same / adjacent / distant atoms
    for l in 0..8 { for r in 0..8 {
        writeln!(out, "EVS R:* J:{}:1 X:0:* X:0:* J:{}:1", l, r).unwrap();
        writeln!(out, "EVS R:* J:{}:1 X:0:* J:{}:1", l, r).unwrap();
        writeln!(out, "EVS R:* J:{}:1 J:{}:1", l, r).unwrap();
        writeln!(out, "EVS R:* J:{}:1 X:0:* X:0:* J:{}:1 J:0:1 X:0:* J:0:1", l, r).unwrap();
    } }
    // long paths and deep pops around the byte boundary (and, thorough, one across 16 bits): a chain, a pop of depth d,
    // then an extension and a ring closure that must attach to the right atom
    let mut deep: Vec<(usize, usize)> = Vec::new();
    for d in [1usize, 2, 127, 128, 254, 255, 256, 257, 298, 299] { deep.push((300, d)) }
    if thorough { deep.push((66000, 65536)) }
    for (len, d) in deep {
        let mut evs = vec!["R:*".to_string(), "J:0:7".to_string()];
        for _ in 1..len { evs.push("X:0:A1".to_string()) }
        evs.push(format!("P:{}", d));
        evs.push("X:2:A4".to_string());
        evs.push("J:0:7".to_string());
        evs.push("X:0:A5".to_string());
        writeln!(out, "EVS {}", join_sp(&evs)).unwrap();
        // the same with every ring number open along the way (0..=99) and closed after the pop
        if len == 300 {
            let mut evs = vec!["R:*".to_string()];
            for i in 1..len { evs.push("X:0:A1".to_string()); if i <= 100 { evs.push(format!("J:0:{}", i - 1)) } }
            evs.push(format!("P:{}", d));
            for i in 0..100 { evs.push(format!("J:0:{}", 99 - i)) }
            writeln!(out, "EVS {}", join_sp(&evs)).unwrap();
        }
    }
    let n = if thorough { 200000 } else { 20000 };
    for i in 0..n {
        let len = if i % 40 == 0 { 200 } else { rng.range(1, 25) };
        let small = rng.chance(1, 2); let mut evs = rand_history(rng, len, small);
        if rng.chance(1, 10) && !evs.is_empty() {
            // malformed stream: drop / duplicate / reorder one event, or an illegal pop
            let i = rng.below(evs.len());
            match rng.below(3) { 0 => { evs.remove(i); } 1 => { evs.insert(i, format!("P:{}", rng.below(5))); } _ => { let e = evs[i].clone(); evs.insert(0, e); } }
        }
        writeln!(out, "EVS {}", join_sp(&evs)).unwrap();
    }
}

// ------------------------------------------------------------------------------------------
// S-graph

#[derive(Clone)]
struct GAtom { kind: String, bonds: Vec<(usize, usize)> } // (bond kind index, tid)

fn graph_req<W: Write>(out: &mut W, g: &[GAtom]) {
    if g.is_empty() { writeln!(out, "WALK -").unwrap(); return }
    let parts: Vec<String> = g.iter().map(|a| format!("{}/{}", a.kind, a.bonds.iter().map(|(b, t)| format!("{}:{}", b, t)).collect::<Vec<_>>().join(","))).collect();
    writeln!(out, "WALK {}", parts.join(" ")).unwrap();
}

fn rev_kind(b: usize) -> usize { match b { 6 => 7, 7 => 6, x => x } }

fn add_edge(g: &mut Vec<GAtom>, a: usize, b: usize, k: usize) {
    g[a].bonds.push((k, b));
    g[b].bonds.push((rev_kind(k), a));
}

fn rand_graph_kind(rng: &mut Rng) -> String {
    match rng.below(10) {
        0 | 1 => "*".to_string(),
        2..=4 => format!("A{}", rng.below(12)),
        5 => format!("a{}", rng.below(6)),
        6 | 7 => rand_bracket(rng, true),
        _ => rand_bracket(rng, false),
    }
}

fn rand_wellformed(rng: &mut Rng, n: usize, rings: usize, comps: usize) -> Vec<GAtom> {
    let mut g: Vec<GAtom> = (0..n).map(|_| GAtom { kind: rand_graph_kind(rng), bonds: vec![] }).collect();
    let bk = |rng: &mut Rng| if rng.chance(1, 2) { 0 } else { rng.below(8) };
    // random forest with `comps` components
    for i in 1..n {
        if i < comps { continue }
        let p = rng.below(i);
        let k = bk(rng);
        add_edge(&mut g, p, i, k);
    }
    // extra ring edges between non-adjacent atoms
    for _ in 0..rings {
        if n < 3 { break }
        let a = rng.below(n); let b = rng.below(n);
        if a == b || g[a].bonds.iter().any(|(_, t)| *t == b) { continue }
        let k = bk(rng);
        add_edge(&mut g, a, b, k);
    }
    // shuffle each bond list, then relabel the atoms
    for a in g.iter_mut() { rng.shuffle(&mut a.bonds) }
    let mut perm: Vec<usize> = (0..n).collect();
    rng.shuffle(&mut perm);
    let mut h: Vec<GAtom> = vec![GAtom { kind: String::new(), bonds: vec![] }; n];
    for (i, a) in g.into_iter().enumerate() {
        h[perm[i]] = GAtom { kind: a.kind, bonds: a.bonds.into_iter().map(|(k, t)| (k, perm[t])).collect() };
    }
    h
}

/// several independent components, each with its own rings (the ring edges of `rand_wellformed` are drawn over all
/// atoms and so usually merge its components), the atoms then renumbered at random so that the components interleave
fn rand_components(rng: &mut Rng) -> Vec<GAtom> {
    let c = rng.range(2, 4);
    let mut g: Vec<GAtom> = Vec::new();
    for _ in 0..c {
        let size = rng.range(1, 9);
        let rings = match rng.below(4) { 0 => 0, 1 => 1, 2 => 2, _ => rng.below(6) };
        let part = rand_wellformed(rng, size, rings, 1);
        let off = g.len();
        for a in part.into_iter() { g.push(GAtom { kind: a.kind, bonds: a.bonds.into_iter().map(|(k, t)| (k, t + off)).collect() }) }
    }
    let n = g.len();
    let mut perm: Vec<usize> = (0..n).collect();
    if rng.chance(1, 2) { rng.shuffle(&mut perm) }
    let mut h: Vec<GAtom> = vec![GAtom { kind: String::new(), bonds: vec![] }; n];
    for (i, a) in g.into_iter().enumerate() {
        h[perm[i]] = GAtom { kind: a.kind, bonds: a.bonds.into_iter().map(|(k, t)| (k, perm[t])).collect() };
    }
    h
}

fn mutate_graph(rng: &mut Rng, g: &mut Vec<GAtom>) {
    let n = g.len();
    if n == 0 { return }
    let with_bonds: Vec<usize> = (0..n).filter(|i| !g[*i].bonds.is_empty()).collect();
    if with_bonds.is_empty() { g[0].bonds.push((0, rng.below(n + 2))); return }
    let a = *rng.pick(&with_bonds);
    let i = rng.below(g[a].bonds.len());
    match rng.below(8) {
        5 => {                                                           // duplicate a whole bond: both halves, each at a random place
            let (k, t) = g[a].bonds[i];
            let j = rng.below(g[a].bonds.len() + 1);
            g[a].bonds.insert(j, (k, t));
            if t < n && t != a {
                if let Some(p) = g[t].bonds.iter().position(|(_, x)| *x == a) {
                    let back = g[t].bonds[p];
                    let j2 = rng.below(g[t].bonds.len() + 1);
                    g[t].bonds.insert(j2, back);
                }
            }
        }
        6 => {                                                           // give both halves the same directional kind
            let (_, t) = g[a].bonds[i];
            let k = 6 + rng.below(2);
            g[a].bonds[i].0 = k;
            if t < n { if let Some(p) = g[t].bonds.iter().position(|(_, x)| *x == a) { g[t].bonds[p].0 = k } }
        }
        7 => {                                                           // retarget both halves to a third atom: two half bonds
            let (_, t) = g[a].bonds[i];
            let c = rng.below(n);
            g[a].bonds[i].1 = c;
            if t < n { if let Some(p) = g[t].bonds.iter().position(|(_, x)| *x == a) { g[t].bonds[p].1 = c } }
        }
        0 => { g[a].bonds.remove(i); }                                   // drop a half-bond
        1 => { g[a].bonds[i].1 = rng.below(n + 2); }                     // retarget
        2 => { let b = g[a].bonds[i]; let j = rng.below(g[a].bonds.len() + 1); g[a].bonds.insert(j, b); } // duplicate
        3 => { g[a].bonds[i].0 = (g[a].bonds[i].0 + 1 + rng.below(7)) % 8; } // re-kind
        _ => { let b = rng.below(n); g[a].bonds.push((rng.below(8), b)); } // add a half-bond
    }
}

fn all_small_graphs<W: Write>(n: usize, kinds: &[usize], out: &mut W, garbage: bool) {
    // every assignment of a bond list to each atom where lists are sequences over (kind, target) of length <= 2 (garbage)
    // or every symmetric simple graph x bond kinds x bond-list orders (well-formed)
    if garbage {
        let mut opts: Vec<Vec<(usize, usize)>> = vec![vec![]];
        let halves: Vec<(usize, usize)> = kinds.iter().flat_map(|k| (0..=n).map(move |t| (*k, t))).collect();
        for h in halves.iter() { opts.push(vec![*h]) }
        for h in halves.iter() { for h2 in halves.iter() { opts.push(vec![*h, *h2]) } }
        let total = opts.len().pow(n as u32);
        for mut v in 0..total {
            let mut g = Vec::new();
            for _ in 0..n { g.push(GAtom { kind: "*".to_string(), bonds: opts[v % opts.len()].clone() }); v /= opts.len() }
            graph_req(out, &g);
        }
    } else {
        let pairs: Vec<(usize, usize)> = (0..n).flat_map(|a| (a + 1..n).map(move |b| (a, b))).collect();
        let choices = kinds.len() + 1; // none or one of kinds
        let total = choices.pow(pairs.len() as u32);
        for mut v in 0..total {
            let mut g: Vec<GAtom> = (0..n).map(|_| GAtom { kind: "*".to_string(), bonds: vec![] }).collect();
            for (a, b) in pairs.iter() { let c = v % choices; v /= choices; if c > 0 { add_edge(&mut g, *a, *b, kinds[c - 1]) } }
            // all orders of each bond list: enumerate permutations per atom (product)
            let perms: Vec<Vec<Vec<(usize, usize)>>> = g.iter().map(|a| permutations(&a.bonds)).collect();
            let mut idx = vec![0usize; n];
            loop {
                let h: Vec<GAtom> = (0..n).map(|i| GAtom { kind: g[i].kind.clone(), bonds: perms[i][idx[i]].clone() }).collect();
                graph_req(out, &h);
                let mut k = 0;
                while k < n { idx[k] += 1; if idx[k] < perms[k].len() { break } idx[k] = 0; k += 1 }
                if k == n { break }
            }
        }
    }
}

fn permutations<T: Clone>(v: &[T]) -> Vec<Vec<T>> {
    if v.len() <= 1 { return vec![v.to_vec()] }
    let mut out = Vec::new();
    for i in 0..v.len() {
        let mut rest = v.to_vec();
        let x = rest.remove(i);
        for mut p in permutations(&rest) { p.insert(0, x.clone()); out.push(p) }
    }
    out
}

fn stereo_family<W: Write>(out: &mut W) {
    // a centre with 4 (or 3 + H) neighbours at every arrival index, both marks, as root / chain atom / ring-closing atom
    for mark in [55usize, 56] { for h in ["_", "1", "0"] { for arrival in 0..4usize { for ring in [false, true] { for cfg_other in [false, true] {
        let deg = if h == "1" { 3 } else { 4 };
        if arrival >= deg { continue }
        let cfg = if cfg_other { 33 + arrival } else { mark };
        // atom 0 = entry neighbour, atom 1 = centre, others = substituents
        let mut g: Vec<GAtom> = vec![GAtom { kind: "A1".to_string(), bonds: vec![] }, GAtom { kind: format!("[_,E5,{},{},_,_]", cfg, h), bonds: vec![] }];
        let mut subs = Vec::new();
        for i in 0..deg - 1 { g.push(GAtom { kind: format!("A{}", 6 + i), bonds: vec![] }); subs.push(2 + i) }
        // centre bond list: substituents in order with the entry bond inserted at `arrival`
        let mut order: Vec<usize> = subs.clone();
        order.insert(arrival, 0);
        for t in order.iter() { g[1].bonds.push((0, *t)) }
        g[0].bonds.push((0, 1));
        for s_ in subs.iter() { g[*s_].bonds.push((0, 1)) }
        if ring { let a = subs[0]; let b = subs[1]; g[a].bonds.push((0, b)); g[b].bonds.push((0, a)); }
        graph_req(out, &g);
        // the same with the centre as root (atom ids swapped)
        let mut h2 = g.clone();
        h2.swap(0, 1);
        for a in h2.iter_mut() { for b in a.bonds.iter_mut() { b.1 = match b.1 { 0 => 1, 1 => 0, x => x } } }
        graph_req(out, &h2);
    } } } } }
    // directional bonds on tree and ring edges, both directions
    for k in [6usize, 7] {
        graph_req(out, &vec![GAtom { kind: "A6".to_string(), bonds: vec![(k, 1)] }, GAtom { kind: "A1".to_string(), bonds: vec![(rev_kind(k), 0), (2, 2)] },
                             GAtom { kind: "A1".to_string(), bonds: vec![(2, 1), (k, 3)] }, GAtom { kind: "A6".to_string(), bonds: vec![(rev_kind(k), 2)] }]);
        graph_req(out, &vec![GAtom { kind: "A1".to_string(), bonds: vec![(k, 2), (0, 1)] }, GAtom { kind: "A1".to_string(), bonds: vec![(0, 0), (0, 2)] },
                             GAtom { kind: "A1".to_string(), bonds: vec![(0, 1), (rev_kind(k), 0)] }]);
    }
}

/// an atom of high degree that is not the root: every degree around the thresholds of small-slice special cases, the
/// arrival bond at several positions of its bond list, neighbours all distinguishable (isotope labels), with and
/// without ring closures among its bonds
fn hub_family<W: Write>(thorough: bool, out: &mut W) {
    let degs: &[usize] = if thorough { &[5, 9, 16, 17, 20, 21, 31, 32, 33, 34, 35, 40, 63, 64, 65, 100, 130, 260] } else { &[5, 17, 21, 32, 33, 34, 35, 40, 65, 130, 255, 256, 257] };
    for deg in degs.iter().copied() {
        let mut arrivals = vec![0usize, 1, 4, 7, deg / 2, deg - 1];
        arrivals.retain(|a| *a < deg);
        arrivals.dedup();
        for arrival in arrivals {
            for rings in [false, true] {
                // atom 0 = entry neighbour (root), atom 1 = hub, atoms 2.. = substituents labelled by isotope
                let mut g: Vec<GAtom> = vec![GAtom { kind: "[900,*,_,_,_,_]".to_string(), bonds: vec![(0, 1)] }, GAtom { kind: "[901,*,_,_,_,_]".to_string(), bonds: vec![] }];
                let mut order: Vec<usize> = (2..deg + 1).collect();
                order.insert(arrival, 0);
                for t in order.iter() { g[1].bonds.push((0, *t)) }
                for i in 2..deg + 1 { g.push(GAtom { kind: format!("[{},*,_,_,_,_]", i), bonds: vec![(0, 1)] }) }
                if rings {
                    // every third substituent pair is joined, so ring closures and branches alternate in the hub's list
                    let mut i = 2;
                    while i + 1 <= deg { add_edge(&mut g, i, i + 1, 0); i += 3 }
                }
                graph_req(out, &g);
            }
        }
    }
}

fn graph<W: Write>(_t: &Tables, thorough: bool, rng: &mut Rng, out: &mut W) {
    graph_req(out, &[]);
    hub_family(thorough, out);
    // garbage at the extremes: target ids at and beyond integer widths, and atoms with hundreds of identical, self or
    // dangling half-bonds
    for big in [255usize, 256, 65535, 65536, 4294967295, 4294967296, usize::MAX - 1, usize::MAX] {
        graph_req(out, &vec![GAtom { kind: "*".to_string(), bonds: vec![(0, big)] }]);
        graph_req(out, &vec![GAtom { kind: "*".to_string(), bonds: vec![(0, 1)] }, GAtom { kind: "*".to_string(), bonds: vec![(0, 0), (0, big)] }]);
        graph_req(out, &vec![GAtom { kind: "*".to_string(), bonds: vec![(0, 1), (6, big)] }, GAtom { kind: "*".to_string(), bonds: vec![(0, 0)] }]);
    }
    for m in [300usize, 1000] {
        graph_req(out, &vec![GAtom { kind: "*".to_string(), bonds: vec![(0, 1); m] }, GAtom { kind: "*".to_string(), bonds: vec![(0, 0); m] }]);
        graph_req(out, &vec![GAtom { kind: "*".to_string(), bonds: vec![(0, 0); m] }]);
        graph_req(out, &vec![GAtom { kind: "*".to_string(), bonds: vec![(0, 1); m] }, GAtom { kind: "*".to_string(), bonds: vec![(0, 0)] }]);
        graph_req(out, &vec![GAtom { kind: "*".to_string(), bonds: vec![(0, 7); m] }]);
    }
    // exhaustive small graphs
    all_small_graphs(1, &[0], out, true);
    all_small_graphs(2, &[0, 6], out, true);
    if thorough { all_small_graphs(3, &[0], out, true) }
    all_small_graphs(2, &[0, 1, 6, 7], out, false);
    all_small_graphs(3, &[0, 2, 6], out, false);
    all_small_graphs(4, &[0, 6], out, false);
    if thorough { all_small_graphs(5, &[0], out, false) }
    stereo_family(out);
    let n = if thorough { 200000 } else { 15000 };
    for i in 0..n {
        let size = if i % 100 == 0 { rng.range(50, 300) } else { rng.range(1, 14) };
        let rings = match rng.below(4) { 0 => 0, 1 => 1, 2 => rng.below(4), _ => rng.below(size + 1) };
        let comps = if rng.chance(1, 4) { rng.range(1, 3) } else { 1 };
        let mut g = if i % 5 == 3 { rand_components(rng) } else { rand_wellformed(rng, size, rings, comps) };
        if rng.chance(1, 3) { mutate_graph(rng, &mut g) }
        if rng.chance(1, 30) { mutate_graph(rng, &mut g); mutate_graph(rng, &mut g) }
        graph_req(out, &g);
    }
    // a small ring system followed by a larger one and vice versa, as separate components (numbers must restart correctly)
    for first in [1usize, 2, 3] { for second in [1usize, 2, 3] {
        // component 1: `first` fused three-membered rings sharing atom 0; component 2: `second` of them
        let mut g: Vec<GAtom> = Vec::new();
        for m in [first, second] {
            let base = g.len();
            g.push(GAtom { kind: "A1".to_string(), bonds: vec![] });
            for r in 0..m {
                let x = g.len();
                g.push(GAtom { kind: "A1".to_string(), bonds: vec![] });
                g.push(GAtom { kind: "A1".to_string(), bonds: vec![] });
                add_edge(&mut g, base, x + 1, 0); add_edge(&mut g, base, x, 0); add_edge(&mut g, x, x + 1, 0);
                let _ = r;
            }
        }
        graph_req(out, &g);
    } }
    // ring-rich graphs: many simultaneously open closures (a ladder / complete-ish graph), long runs of sequential rings then fused
    for m in [10usize, 40, 98, 99, 100, 101, 120] {
        // hub-less comb: atoms 0..m in a chain, plus atoms m+1..2m+1 each bonded to i and to the last atom => many open closures
        let n = m + 2;
        let mut g: Vec<GAtom> = (0..n).map(|_| GAtom { kind: "*".to_string(), bonds: vec![] }).collect();
        // ring bonds from atom i to the last atom are listed first, so they open before the chain continues
        for i in 0..m { if i + 1 != n - 1 { add_edge(&mut g, i, n - 1, 0) } }
        for i in 0..n - 1 { if !(g[i].bonds.iter().any(|(_, t)| *t == i + 1)) { add_edge(&mut g, i, i + 1, 0) } }
        graph_req(out, &g);
    }
    for runs in [5usize, 120, 300] {
        // `runs` sequential three-membered rings in one chain, then a fused bicycle
        let mut g: Vec<GAtom> = Vec::new();
        let mut last: Option<usize> = None;
        for _ in 0..runs {
            let b = g.len();
            for _ in 0..3 { g.push(GAtom { kind: "A1".to_string(), bonds: vec![] }) }
            if let Some(l) = last { add_edge(&mut g, l, b, 0) }
            add_edge(&mut g, b, b + 2, 0); add_edge(&mut g, b, b + 1, 0); add_edge(&mut g, b + 1, b + 2, 0);
            last = Some(b + 2);
        }
        let b = g.len();
        for _ in 0..4 { g.push(GAtom { kind: "A1".to_string(), bonds: vec![] }) }
        add_edge(&mut g, last.unwrap(), b, 0);
        add_edge(&mut g, b, b + 3, 0); add_edge(&mut g, b, b + 2, 0); add_edge(&mut g, b, b + 1, 0); add_edge(&mut g, b + 1, b + 2, 0); add_edge(&mut g, b + 2, b + 3, 0);
        graph_req(out, &g);
    }
}

// ------------------------------------------------------------------------------------------
// S-pool

fn pool<W: Write>(thorough: bool, rng: &mut Rng, out: &mut W) {
    writeln!(out, "POOL -").unwrap();
    writeln!(out, "POOL 0-1 1-0 2-3 4-5").unwrap();
    writeln!(out, "POOL 0-1 1-3 2-4 3-1 1-0 3-5").unwrap();
    // all open/close interleavings of up to k pairs: sequences over pair ids where each id appears at most twice
    let k = if thorough { 6 } else { 5 };
    fn rec<W: Write>(seq: &mut Vec<usize>, counts: &mut Vec<usize>, k: usize, maxlen: usize, out: &mut W) {
        if !seq.is_empty() {
            let s: Vec<String> = seq.iter().enumerate().map(|(pos, id)| {
                // the second hit of a pair is made from the other side
                let first = seq[..pos].iter().filter(|x| *x == id).count() == 0;
                if first { format!("{}-{}", 2 * id, 2 * id + 1) } else { format!("{}-{}", 2 * id + 1, 2 * id) }
            }).collect();
            writeln!(out, "POOL {}", s.join(" ")).unwrap();
        }
        if seq.len() == maxlen { return }
        // canonical: a new id may only be the smallest unused one
        let used = counts.iter().filter(|c| **c > 0).count();
        for id in 0..k.min(used + 1) {
            if counts[id] < 2 { counts[id] += 1; seq.push(id); rec(seq, counts, k, maxlen, out); seq.pop(); counts[id] -= 1 }
        }
    }
    rec(&mut Vec::new(), &mut vec![0; k], k, 2 * k, out);
    // long sequential runs then fused
    for n in [10usize, 98, 99, 100, 1000, 10000] {
        let mut s = Vec::new();
        for i in 0..n { s.push(format!("{}-{}", 2 * i, 2 * i + 1)); s.push(format!("{}-{}", 2 * i + 1, 2 * i)) }
        s.push("1-2".to_string()); s.push("3-4".to_string()); s.push("2-1".to_string()); s.push("5-6".to_string());
        writeln!(out, "POOL {}", s.join(" ")).unwrap();
    }
    // many simultaneously open
    for n in [98usize, 99, 100, 101, 150] {
        let mut s = Vec::new();
        for i in 0..n { s.push(format!("{}-{}", 2 * i, 2 * i + 1)) }
        for i in (0..n).rev() { s.push(format!("{}-{}", 2 * i + 1, 2 * i)) }
        s.push("0-1".to_string());
        writeln!(out, "POOL {}", s.join(" ")).unwrap();
    }
    let n = if thorough { 50000 } else { 5000 };
    for _ in 0..n {
        let len = rng.range(1, 60);
        let ids = rng.range(1, 12);
        let mut s = Vec::new();
        for _ in 0..len {
            let a = rng.below(ids); let b = rng.below(ids);
            s.push(format!("{}-{}", a, b));
        }
        writeln!(out, "POOL {}", s.join(" ")).unwrap();
    }
}

// ------------------------------------------------------------------------------------------
// S-val

fn val<W: Write>(_t: &Tables, thorough: bool, rng: &mut Rng, out: &mut W) {
    let syms: Vec<String> = std::iter::once("*".to_string()).chain((0..118).map(|i| format!("E{}", i))).chain((0..8).map(|i| format!("R{}", i))).collect();
    let hs: Vec<String> = std::iter::once("_".to_string()).chain((0..10).map(|i| i.to_string())).collect();
    let qs: Vec<String> = std::iter::once("_".to_string()).chain((-15..=15).filter(|z| *z != 0).map(|i: i32| i.to_string())).collect();
    let interesting = ["E4", "E5", "E6", "E7", "E14", "E15", "E32", "E33", "E8", "E16", "R0", "R1", "R2", "R3", "R4", "R5", "R6", "R7", "*", "E0", "E54"];
    // bond lists realising a bond-order sum in several ways
    let sums: Vec<usize> = if thorough { (0..=300).collect() } else { (0..=12).chain([20, 100, 200, 254, 255, 256, 257, 258, 259, 260, 300].iter().cloned()).collect() };
    for sym in syms.iter() { for h in hs.iter() { for q in qs.iter() {
        if !interesting.contains(&sym.as_str()) && !(h == "_" && q == "_") && !thorough { continue }
        for &sum in sums.iter() {
            if sum > 12 && !interesting.contains(&sym.as_str()) { continue }
            writeln!(out, "VAL [_,{},_,{},{},_] {}", sym, h, q, if sum == 0 { "-".to_string() } else { format!("1*{}", sum) }).unwrap();
        }
    } } }
    for i in 0..12 { for sum in 0..=600usize { 
        writeln!(out, "VAL A{} {}", i, if sum == 0 { "-".to_string() } else { format!("1*{}", sum) }).unwrap();
        if sum % 2 == 0 && sum > 0 { writeln!(out, "VAL A{} 2*{}", i, sum / 2).unwrap() }
        if sum >= 9 { writeln!(out, "VAL A{} 0*{},2*1,3*1,4*1", i, sum - 9).unwrap() }
    } }
    for i in 0..6 { for sum in 0..=600usize { writeln!(out, "VAL a{} {}", i, if sum == 0 { "-".to_string() } else { format!("5*{}", sum) }).unwrap() } }
    for sum in [0usize, 1, 255, 256, 1000, 20000] { writeln!(out, "VAL * {}", if sum == 0 { "-".to_string() } else { format!("3*{}", sum) }).unwrap() }
    for b in 0..8 { writeln!(out, "VAL A1 {}*1", b).unwrap(); writeln!(out, "VAL A1 {}*64", b).unwrap() }
    // the byte boundary approached with every bond order and every hydrogen count: k bonds of one kind (kinds 1..4 have
    // orders 1..4) with k*order + h in 240..=270, the same with a few bonds of another order mixed in, and bond counts
    // around 63/64, 85, 127/128 and 255/256 whatever the sum
    for sym in ["E5", "E6", "E15", "*", "R1"].iter() { for h in hs.iter() {
        let hv: usize = h.parse().unwrap_or(0);
        for order in 1..=4usize {
            for k in 0..=300usize {
                let total = k * order + hv;
                let near_sum = (240..=270).contains(&total);
                let near_count = [62usize, 63, 64, 65, 84, 85, 86, 127, 128, 129, 254, 255, 256, 257].contains(&k);
                if !(near_sum || near_count) || k == 0 { continue }
                writeln!(out, "VAL [_,{},_,{},_,_] {}*{}", sym, h, order, k).unwrap();
                if near_sum && order > 1 { writeln!(out, "VAL [_,{},_,{},_,_] {}*{},1*{}", sym, h, order, k, (order + 1) / 2).unwrap() }
            }
        }
    } }
    for kind in ["A1", "A4", "A5", "a1", "a5", "*"].iter() { for order in 1..=4usize { for k in 55..=70usize {
        writeln!(out, "VAL {} {}*{}", kind, order, k).unwrap();
        writeln!(out, "VAL {} {}*{}", kind, order, k * 4 / order).unwrap();
    } } }
    // debracket: every symbol x hcount x bond-order sum that fits a byte x presence of each other field
    for sym in syms.iter() { for h in hs.iter() {
        let hv: usize = h.parse().unwrap_or(0);
        let boss: Vec<usize> = if interesting.contains(&sym.as_str()) || thorough { (0..=255 - hv).collect() } else { (0..=8).chain([255 - hv].iter().cloned()).collect() };
        for bos in boss { writeln!(out, "DEB [_,{},_,{},_,_] {}", sym, h, bos).unwrap() }
        for bos in 0..=6 {
            writeln!(out, "DEB [12,{},_,{},_,_] {}", sym, h, bos).unwrap();
            writeln!(out, "DEB [_,{},55,{},_,_] {}", sym, h, bos).unwrap();
            writeln!(out, "DEB [_,{},_,{},1,_] {}", sym, h, bos).unwrap();
            writeln!(out, "DEB [_,{},_,{},_,7] {}", sym, h, bos).unwrap();
        }
    } }
    for i in 0..12 { for bos in [0usize, 1, 4, 255] { writeln!(out, "DEB A{} {}", i, bos).unwrap() } }
    for i in 0..6 { for bos in [0usize, 1, 4, 255] { writeln!(out, "DEB a{} {}", i, bos).unwrap() } }
    writeln!(out, "DEB * 3").unwrap();
    let n = if thorough { 100000 } else { 10000 };
    for _ in 0..n {
        let k = rand_kind(rng);
        let mut parts = Vec::new();
        for b in 0..8 { if rng.chance(1, 3) { parts.push(format!("{}*{}", b, if rng.chance(1, 20) { rng.range(1, 400) } else { rng.range(1, 4) })) } }
        writeln!(out, "VAL {} {}", k, if parts.is_empty() { "-".to_string() } else { parts.join(",") }).unwrap();
        writeln!(out, "DEB {} {}", rand_bracket(rng, false), rng.below(12)).unwrap();
    }
}

// ------------------------------------------------------------------------------------------
// S-depth: size families with constant nesting

pub fn family(name: &str, n: usize) -> String {
    match name {
        "chain" => "C".repeat(n),
        "dots" => { let mut s = String::from("C"); for _ in 1..n { s.push_str(".C") } s }
        "branches" => { let mut s = String::from("C"); for _ in 1..n { s.push_str("(C)") } s }
        "ringlist" => { let mut s = String::from("C1CC1"); for _ in 1..n / 3 { s.push_str(".C1CC1") } s }
        "ringchain" => { let mut s = String::new(); for _ in 0..n / 3 { s.push_str("C1CC1") } s }
        "digits" => { let mut s = String::from("C"); for i in 0..n { s.push_str(&format!("%{:02}", 10 + i % 80)); } for i in 0..n { s.push_str(&format!("%{:02}", 10 + i % 80)); } s }
        "branchchain" => { let mut s = String::from("C("); for _ in 0..n.saturating_sub(2) { s.push('C') } s.push_str(")C"); s }
        "macrocycle" => { let mut s = String::from("C1"); for _ in 0..n.saturating_sub(2) { s.push('C') } s.push_str("C1"); s }
        "comb" => { let mut s = String::new(); for _ in 0..n / 2 { s.push_str("C(N)") } s.push('O'); s }
        "ringtail" => { let mut s = "C".repeat(n.saturating_sub(6)); s.push_str("C=1CCC(C/%12)C=1.C\\%12"); s }
        "bondchain" => { let mut s = String::from("C"); for i in 1..n { s.push_str(["=C", "-C", "#C", "C"][i % 4]) } s }
        // every atom directly followed by a ring-closure digit, ring numbers re-used while another is open (valid: 4-atom blocks
        // 0-1, 1-2, 2-3, 0-2, 1-3, chained); no parentheses, no dots
        "ladder" => "C1C2C1C2".repeat((n / 4).max(1)),
        "singlechain" => { let mut s = String::from("C"); for _ in 1..n { s.push_str("-C") } s }
        "dirchain" => { let mut s = String::from("C"); for i in 1..n { s.push_str(if i % 2 == 1 { "/C" } else { "=C" }) } s }
        // two ring closures open at the same time whose atom ids straddle 16 bits: 1-5 (opened at atom 5, closed at atom 1
        // after its branch) and 0-(n-1) (opened at the last atom, closed at atom 0 after its branch)
        "farrings" => { let mut s = String::from("C(C(CCCC2"); for _ in 0..n.saturating_sub(7) { s.push('C') } s.push_str("C1)2)1"); s }
        // the same with the inner ring between atom 1 and atom j = (n - 1) mod 2^16: the two open pairs (0, n-1) and (1, j)
        // differ exactly by a carry across 16 bits (n = 65542 gives the pairs 0-65541 and 1-5)
        "straddle" => {
            let j = ((n - 1) & 0xffff).max(3).min(n - 3);
            let mut s = String::from("C(C(");
            for _ in 0..j - 2 { s.push('C') }
            s.push_str("C2");
            for _ in 0..n - 2 - j { s.push('C') }
            s.push_str("C1)2)1");
            s
        }
        "nested" => { let mut s = String::from("C"); for _ in 1..n { s.push_str("(C") } for _ in 1..n { s.push(')') } s }
        "nested2" => { let mut s = String::new(); for _ in 0..n { s.push_str("C(C)(") } s.push('C'); for _ in 0..n { s.push(')') } s }
        _ => String::new(),
    }
}

fn depth<W: Write>(thorough: bool, out: &mut W) {
    let sizes: &[usize] = if thorough { &[1, 2, 3, 10, 100, 1000, 5000, 12000] } else { &[1, 2, 3, 10, 100, 1000, 5000] };
    for fam in ["chain", "dots", "branches", "ringlist", "ringchain", "digits", "ladder"] {
        for &n in sizes { read_req(out, &family(fam, n)) }
    }
    for fam in ["nested", "nested2"] { for &n in [1usize, 2, 3, 10, 50, 200].iter() { read_req(out, &family(fam, n)) } }
}
