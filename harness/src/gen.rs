//! Request generators, one per correspondence suite (DESIGN.md 3.3).
use std::io::Write;

use crate::canon::*;
use crate::rng::Rng;

pub fn generate<W: Write>(t: &Tables, suite: &str, tier: &str, seed: u64, out: &mut W) {
    let thorough = tier == "thorough";
    let mut rng = Rng::new(seed);
    match suite {
        "table" => table(t, out),
        "atom" => atom(t, thorough, &mut rng, out),
        _ => { eprintln!("unknown suite {}", suite); std::process::exit(2) }
    }
}

/// S-table: exhaustive over every feature table and conversion domain.
fn table<W: Write>(_t: &Tables, out: &mut W) {
    for (ty, n) in [("element", 118), ("baro", 8), ("aro", 6), ("ali", 12), ("cfg", 57), ("charge", 30),
                    ("hcount", 10), ("rnum", 100), ("bond", 8), ("number", 1000)].iter() {
        for i in 0..*n { writeln!(out, "TXT {} {}", ty, i).unwrap() }
    }
    for z in -128..=127 { writeln!(out, "CONV charge {}", z).unwrap() }
    for n in 0..=255 { writeln!(out, "CONV hcount {}", n).unwrap() }
    for n in 0..=65535u32 { writeln!(out, "CONV rnum {}", n).unwrap() }
    for n in 0..=65535u32 { writeln!(out, "CONV number {}", n).unwrap() }
    // every digit string up to 5 characters, plus sign / junk forms
    for len in 1..=5u32 {
        for v in 0..10u32.pow(len) {
            let s = format!("{:0width$}", v, width = len as usize);
            writeln!(out, "CONV numstr {}", hex_str(&s)).unwrap();
        }
    }
    for s in ["", "+", "-", "+5", "-5", "+999", "+1000", " 5", "5 ", "1e2", "0x10", "٣", "65535", "65536", "99999", "999999"].iter() {
        writeln!(out, "CONV numstr {}", hex_str(s)).unwrap();
    }
    for i in 0..8 { writeln!(out, "CONV baro2aro {}", i).unwrap(); writeln!(out, "BACK baro2el {}", i).unwrap() }
    for i in 0..118 { writeln!(out, "CONV el2ali {}", i).unwrap() }
    for i in 0..30 { writeln!(out, "BACK charge {}", i).unwrap() }
    for i in 0..10 { writeln!(out, "BACK hcount {}", i).unwrap() }
    for i in 0..1000 { writeln!(out, "BACK number {}", i).unwrap() }
    for i in 0..6 { writeln!(out, "BACK aro2ali {}", i).unwrap(); writeln!(out, "BACK tgt_aro {}", i).unwrap() }
    for i in 0..12 { writeln!(out, "BACK tgt_ali {}", i).unwrap() }
    for i in 0..8 { writeln!(out, "BACK rev {}", i).unwrap(); writeln!(out, "BACK order {}", i).unwrap() }
    for l in 0..8 { for r in 0..8 { writeln!(out, "REC {} {}", l, r).unwrap() } }
}

fn read_req<W: Write>(out: &mut W, s: &str) {
    writeln!(out, "READ {}", hex_str(s)).unwrap()
}

pub fn config_spellings() -> Vec<String> {
    let mut v = vec!["@".to_string(), "@@".to_string()];
    for i in 1..=2 { v.push(format!("@TH{}", i)); v.push(format!("@AL{}", i)) }
    for i in 1..=3 { v.push(format!("@SP{}", i)) }
    for i in 1..=20 { v.push(format!("@TB{}", i)) }
    for i in 1..=30 { v.push(format!("@OH{}", i)) }
    v
}

/// S-atom: one atom token in context.
fn atom<W: Write>(t: &Tables, thorough: bool, rng: &mut Rng, out: &mut W) {
    let ascii: Vec<char> = (32u8..127).map(|c| c as char).collect();
    let letters: Vec<char> = ('A'..='Z').chain('a'..='z').collect();
    // exhaustive: every 1- and 2-character symbol candidate inside brackets, with every ASCII follow char
    for &c in ascii.iter() {
        read_req(out, &format!("[{}]", c));
        read_req(out, &format!("[{}", c));
        read_req(out, &format!("{}", c));
        for &d in ascii.iter() {
            read_req(out, &format!("[{}{}]", c, d));
            read_req(out, &format!("{}{}", c, d));
        }
    }
    for &c in letters.iter() { for &d in letters.iter() {
        read_req(out, &format!("[{}{}", c, d));
        for &e in ['H', '@', '+', '-', ':', ']', 'a', 'l', '1'].iter() { read_req(out, &format!("[{}{}{}]", c, d, e)) }
    } }
    // organic symbols followed by every ASCII char
    for sym in ["B", "C", "N", "O", "P", "S", "F", "Cl", "Br", "I", "At", "Ts", "b", "c", "n", "o", "p", "s", "*", "A", "T"].iter() {
        for &d in ascii.iter() { read_req(out, &format!("{}{}", sym, d)); read_req(out, &format!("C{}{}", sym, d)) }
    }
    // configuration spellings, each with every one-character corruption / truncation / extension
    let cfgs = config_spellings();
    let subs = ['0', '1', '2', '3', '9', '@', 'A', 'B', 'H', 'L', 'O', 'P', 'S', 'T', 'x', ']', '+'];
    for c in cfgs.iter() {
        for tail in ["]", "H]", "H2+]", "-:5]", ""].iter() { read_req(out, &format!("[C{}{}", c, tail)) }
        let cs: Vec<char> = c.chars().collect();
        for i in 0..=cs.len() {
            // truncation
            let pre: String = cs[..i].iter().collect();
            read_req(out, &format!("[C{}", pre));
            read_req(out, &format!("[C{}]", pre));
            for &x in subs.iter() {
                // substitution at i, insertion at i
                if i < cs.len() {
                    let mut m = cs.clone(); m[i] = x;
                    read_req(out, &format!("[C{}]", m.iter().collect::<String>()));
                }
                let mut m = cs.clone(); m.insert(i, x);
                read_req(out, &format!("[C{}]", m.iter().collect::<String>()));
            }
        }
        // multi-byte character after the prefix
        read_req(out, &format!("[C{}é]", c));
    }
    // charges: every spelling -16..16, doubled signs, leading zeros
    for z in -16i32..=16 {
        if z == 0 { continue }
        let sign = if z < 0 { '-' } else { '+' };
        read_req(out, &format!("[C{}{}]", sign, z.abs()));
        read_req(out, &format!("[C{}0{}]", sign, z.abs()));
        read_req(out, &format!("[C{}{}:3]", sign, z.abs()));
        read_req(out, &format!("[C{}{}", sign, z.abs()));
    }
    for s in ["+", "-", "++", "--", "+++", "---", "+-", "-+", "+0", "-0", "+1+", "++1", "+16", "+20", "+99", "+100"].iter() {
        read_req(out, &format!("[C{}]", s)); read_req(out, &format!("[C{}", s)); read_req(out, &format!("[CH{}]", s));
    }
    // hcount
    for h in 0..=10 { read_req(out, &format!("[CH{}]", h)); read_req(out, &format!("[C@H{}]", h)); read_req(out, &format!("[HH{}]", h)) }
    read_req(out, "[CH]"); read_req(out, "[CHH]"); read_req(out, "[H]"); read_req(out, "[HH]"); read_req(out, "[CH"); read_req(out, "[CH1"); 
    // isotope / map: all 0..=1000 plus leading zeros and overflow
    for n in 0..=1000 { read_req(out, &format!("[{}C]", n)); read_req(out, &format!("[C:{}]", n)) }
    for s in ["00", "000", "0000", "007", "0999", "1000", "9999"].iter() { read_req(out, &format!("[{}C]", s)); read_req(out, &format!("[C:{}]", s)) }
    for s in ["[C:]", "[C:", "[C:x]", "[C:1", "[C:1x]", "[C:é]", "[:1]", "[1]", "[1", "[", "[]", "[C]]", "[[C]"].iter() { read_req(out, s) }
    // random full bracket atoms: all six fields
    let n = if thorough { 200000 } else { 20000 };
    for _ in 0..n {
        let mut s = String::from("[");
        if rng.chance(1, 2) { s.push_str(&rng.below(1000).to_string()) }
        match rng.below(10) {
            0 => s.push('*'),
            1 | 2 => s.push_str(&t.bracket_aromatics[rng.below(8)].to_string()),
            _ => s.push_str(&t.elements[rng.below(118)].to_string()),
        }
        if rng.chance(1, 2) { let c: &String = rng.pick(&cfgs[..]); s.push_str(c) }
        if rng.chance(1, 2) { let h = rng.below(10); s.push('H'); if h != 1 || rng.chance(1, 4) { s.push_str(&h.to_string()) } }
        if rng.chance(1, 2) {
            let z = rng.range(1, 15);
            s.push(if rng.chance(1, 2) { '+' } else { '-' });
            if z != 1 || rng.chance(1, 4) { s.push_str(&z.to_string()) }
        }
        if rng.chance(1, 2) { s.push(':'); s.push_str(&rng.below(1000).to_string()) }
        s.push(']');
        if rng.chance(1, 10) {
            // one random corruption
            let mut cs: Vec<char> = s.chars().collect();
            let i = rng.below(cs.len());
            match rng.below(3) { 0 => { cs.remove(i); } 1 => { cs[i] = *rng.pick(&ascii); } _ => { cs.insert(i, *rng.pick(&ascii)); } }
            s = cs.into_iter().collect();
        }
        read_req(out, &s);
    }
}
