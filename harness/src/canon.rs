//! Canonical text form of every observable (DESIGN.md 3.7) and its parser.
//! The grammar is shared with /verif/lean/Driver.lean.

use std::convert::TryFrom;

use purr::feature::*;
use purr::graph::{Atom, Bond};

use crate::tables;

pub struct Tables {
    pub elements: Vec<Element>,
    pub configurations: Vec<Configuration>,
    pub charges: Vec<Charge>,
    pub hcounts: Vec<VirtualHydrogen>,
    pub rnums: Vec<Rnum>,
    pub bond_kinds: Vec<BondKind>,
    pub bracket_aromatics: Vec<BracketAromatic>,
    pub aromatics: Vec<Aromatic>,
    pub aliphatics: Vec<Aliphatic>,
}

impl Tables {
    pub fn new() -> Self {
        Tables {
            elements: tables::elements(),
            configurations: tables::configurations(),
            charges: tables::charges(),
            hcounts: tables::hcounts(),
            rnums: tables::rnums(),
            bond_kinds: tables::bond_kinds(),
            bracket_aromatics: tables::bracket_aromatics(),
            aromatics: tables::aromatics(),
            aliphatics: tables::aliphatics(),
        }
    }
}

fn pos<T: PartialEq>(v: &[T], x: &T) -> usize {
    v.iter().position(|y| y == x).expect("value in table")
}

pub fn hex_str(s: &str) -> String {
    if s.is_empty() {
        "-".to_string()
    } else {
        s.chars().map(|c| (c as u32).to_string()).collect::<Vec<_>>().join(".")
    }
}

pub fn unhex(t: &str) -> Option<String> {
    if t == "-" {
        return Some(String::new());
    }
    let mut out = String::new();
    for part in t.split('.') {
        let n: u32 = part.parse().ok()?;
        out.push(std::char::from_u32(n)?);
    }
    Some(out)
}

/// index of a charge in declaration order -> its integer value (the protocol prints values)
pub fn charge_value_of_index(i: usize) -> i32 {
    if i < 15 { i as i32 - 15 } else { i as i32 - 14 }
}

pub fn charge_index_of_value(v: i32) -> Option<usize> {
    if v >= -15 && v <= -1 { Some((v + 15) as usize) } else if v >= 1 && v <= 15 { Some((v + 14) as usize) } else { None }
}

pub fn sym_s(t: &Tables, s: &BracketSymbol) -> String {
    match s {
        BracketSymbol::Star => "*".to_string(),
        BracketSymbol::Element(e) => format!("E{}", pos(&t.elements, e)),
        BracketSymbol::Aromatic(a) => format!("R{}", pos(&t.bracket_aromatics, a)),
    }
}

pub fn kind_s(t: &Tables, k: &AtomKind) -> String {
    match k {
        AtomKind::Star => "*".to_string(),
        AtomKind::Aliphatic(a) => format!("A{}", pos(&t.aliphatics, a)),
        AtomKind::Aromatic(a) => format!("a{}", pos(&t.aromatics, a)),
        AtomKind::Bracket { isotope, symbol, configuration, hcount, charge, map } => {
            let o = |x: Option<String>| x.unwrap_or_else(|| "_".to_string());
            format!(
                "[{},{},{},{},{},{}]",
                o(isotope.as_ref().map(|n| u16::from(n).to_string())),
                sym_s(t, symbol),
                o(configuration.as_ref().map(|c| pos(&t.configurations, c).to_string())),
                o(hcount.as_ref().map(|h| pos(&t.hcounts, h).to_string())),
                o(charge.as_ref().map(|q| charge_value_of_index(pos(&t.charges, q)).to_string())),
                o(map.as_ref().map(|n| u16::from(n).to_string()))
            )
        }
    }
}

pub fn bond_s(t: &Tables, b: &BondKind) -> String {
    pos(&t.bond_kinds, b).to_string()
}

pub fn rnum_s(t: &Tables, r: &Rnum) -> String {
    pos(&t.rnums, r).to_string()
}

pub fn graph_s(t: &Tables, g: &[Atom]) -> String {
    if g.is_empty() {
        return "-".to_string();
    }
    g.iter()
        .map(|a| {
            format!(
                "{}/{}",
                kind_s(t, &a.kind),
                a.bonds.iter().map(|b| format!("{}:{}", bond_s(t, &b.kind), b.tid)).collect::<Vec<_>>().join(",")
            )
        })
        .collect::<Vec<_>>()
        .join(" ")
}

// ---------- parsing (constructs fresh Rust values from indices) ----------

pub fn element_at(i: usize) -> Option<Element> {
    let mut v = tables::elements();
    if i < v.len() { Some(v.swap_remove(i)) } else { None }
}
pub fn configuration_at(i: usize) -> Option<Configuration> {
    let mut v = tables::configurations();
    if i < v.len() { Some(v.swap_remove(i)) } else { None }
}
pub fn charge_at(i: usize) -> Option<Charge> {
    let mut v = tables::charges();
    if i < v.len() { Some(v.swap_remove(i)) } else { None }
}
pub fn hcount_at(i: usize) -> Option<VirtualHydrogen> {
    let mut v = tables::hcounts();
    if i < v.len() { Some(v.swap_remove(i)) } else { None }
}
pub fn rnum_at(i: usize) -> Option<Rnum> {
    let mut v = tables::rnums();
    if i < v.len() { Some(v.swap_remove(i)) } else { None }
}
pub fn bond_kind_at(i: usize) -> Option<BondKind> {
    let mut v = tables::bond_kinds();
    if i < v.len() { Some(v.swap_remove(i)) } else { None }
}
pub fn bracket_aromatic_at(i: usize) -> Option<BracketAromatic> {
    let mut v = tables::bracket_aromatics();
    if i < v.len() { Some(v.swap_remove(i)) } else { None }
}
pub fn aromatic_at(i: usize) -> Option<Aromatic> {
    let mut v = tables::aromatics();
    if i < v.len() { Some(v.swap_remove(i)) } else { None }
}
pub fn aliphatic_at(i: usize) -> Option<Aliphatic> {
    let mut v = tables::aliphatics();
    if i < v.len() { Some(v.swap_remove(i)) } else { None }
}

fn parse_opt<T>(t: &str, f: impl Fn(&str) -> Option<T>) -> Option<Option<T>> {
    if t == "_" { Some(None) } else { f(t).map(Some) }
}

pub fn parse_sym(t: &str) -> Option<BracketSymbol> {
    if t == "*" {
        Some(BracketSymbol::Star)
    } else if let Some(r) = t.strip_prefix('E') {
        element_at(r.parse().ok()?).map(BracketSymbol::Element)
    } else if let Some(r) = t.strip_prefix('R') {
        bracket_aromatic_at(r.parse().ok()?).map(BracketSymbol::Aromatic)
    } else {
        None
    }
}

pub fn parse_kind(t: &str) -> Option<AtomKind> {
    if t == "*" {
        Some(AtomKind::Star)
    } else if let Some(r) = t.strip_prefix('A') {
        aliphatic_at(r.parse().ok()?).map(AtomKind::Aliphatic)
    } else if let Some(r) = t.strip_prefix('a') {
        aromatic_at(r.parse().ok()?).map(AtomKind::Aromatic)
    } else if t.starts_with('[') && t.ends_with(']') {
        let inner = &t[1..t.len() - 1];
        let f: Vec<&str> = inner.split(',').collect();
        if f.len() != 6 {
            return None;
        }
        let number = |x: &str| -> Option<Number> { Number::try_from(x.parse::<u16>().ok()?).ok() };
        Some(AtomKind::Bracket {
            isotope: parse_opt(f[0], number)?,
            symbol: parse_sym(f[1])?,
            configuration: parse_opt(f[2], |x| configuration_at(x.parse().ok()?))?,
            hcount: parse_opt(f[3], |x| hcount_at(x.parse().ok()?))?,
            charge: parse_opt(f[4], |x| charge_at(charge_index_of_value(x.parse().ok()?)?))?,
            map: parse_opt(f[5], number)?,
        })
    } else {
        None
    }
}

pub fn parse_bond(t: &str) -> Option<BondKind> {
    bond_kind_at(t.parse().ok()?)
}

pub fn parse_atom(t: &str) -> Option<Atom> {
    let mut it = t.splitn(2, '/');
    let k = parse_kind(it.next()?)?;
    let bs = it.next()?;
    let mut bonds = Vec::new();
    if !bs.is_empty() {
        for x in bs.split(',') {
            let mut p = x.splitn(2, ':');
            let b = parse_bond(p.next()?)?;
            let tid: usize = p.next()?.parse().ok()?;
            bonds.push(Bond::new(b, tid));
        }
    }
    Some(Atom { kind: k, bonds })
}

pub fn parse_graph(ts: &[&str]) -> Option<Vec<Atom>> {
    if ts.len() == 1 && ts[0] == "-" {
        return Some(Vec::new());
    }
    ts.iter().map(|t| parse_atom(t)).collect()
}

#[derive(Debug, Clone, PartialEq)]
pub enum Ev {
    Root(String),
    Extend(usize, String),
    Join(usize, usize),
    Pop(usize),
}

impl Ev {
    pub fn s(&self) -> String {
        match self {
            Ev::Root(k) => format!("R:{}", k),
            Ev::Extend(b, k) => format!("X:{}:{}", b, k),
            Ev::Join(b, r) => format!("J:{}:{}", b, r),
            Ev::Pop(d) => format!("P:{}", d),
        }
    }
    pub fn parse(t: &str) -> Option<Ev> {
        let p: Vec<&str> = t.split(':').collect();
        match p.as_slice() {
            ["R", k] => Some(Ev::Root(k.to_string())),
            ["X", b, k] => Some(Ev::Extend(b.parse().ok()?, k.to_string())),
            ["J", b, r] => Some(Ev::Join(b.parse().ok()?, r.parse().ok()?)),
            ["P", d] => Some(Ev::Pop(d.parse().ok()?)),
            _ => None,
        }
    }
}

pub fn join_sp(v: &[String]) -> String {
    if v.is_empty() { "-".to_string() } else { v.join(" ") }
}
