// generated once by tools (declaration order of the enums in /repo/src/feature); checked at start-up against `as usize`
use purr::feature::*;

pub fn elements() -> Vec<Element> {
    vec![
        Element::H, Element::He, Element::Li, Element::Be, Element::B, Element::C, Element::N, Element::O, Element::F, Element::Ne,
        Element::Na, Element::Mg, Element::Al, Element::Si, Element::P, Element::S, Element::Cl, Element::Ar, Element::K, Element::Ca,
        Element::Sc, Element::Ti, Element::V, Element::Cr, Element::Mn, Element::Fe, Element::Co, Element::Ni, Element::Cu, Element::Zn,
        Element::Ga, Element::Ge, Element::As, Element::Se, Element::Br, Element::Kr, Element::Rb, Element::Sr, Element::Y, Element::Zr,
        Element::Nb, Element::Mo, Element::Tc, Element::Ru, Element::Rh, Element::Pd, Element::Ag, Element::Cd, Element::In, Element::Sn,
        Element::Sb, Element::Te, Element::I, Element::Xe, Element::Cs, Element::Ba, Element::La, Element::Ce, Element::Pr, Element::Nd,
        Element::Pm, Element::Sm, Element::Eu, Element::Gd, Element::Tb, Element::Dy, Element::Ho, Element::Er, Element::Tm, Element::Yb,
        Element::Lu, Element::Hf, Element::Ta, Element::W, Element::Re, Element::Os, Element::Ir, Element::Pt, Element::Au, Element::Hg,
        Element::Tl, Element::Pb, Element::Bi, Element::Po, Element::At, Element::Rn, Element::Fr, Element::Ra, Element::Ac, Element::Th,
        Element::Pa, Element::U, Element::Np, Element::Pu, Element::Am, Element::Cm, Element::Bk, Element::Cf, Element::Es, Element::Fm,
        Element::Md, Element::No, Element::Lr, Element::Rf, Element::Db, Element::Sg, Element::Bh, Element::Hs, Element::Mt, Element::Ds,
        Element::Rg, Element::Cn, Element::Nh, Element::Fl, Element::Mc, Element::Lv, Element::Ts, Element::Og,
    ]
}

pub fn configurations() -> Vec<Configuration> {
    vec![
        Configuration::AL1, Configuration::AL2, Configuration::OH1, Configuration::OH2, Configuration::OH3, Configuration::OH4, Configuration::OH5, Configuration::OH6, Configuration::OH7, Configuration::OH8,
        Configuration::OH9, Configuration::OH10, Configuration::OH11, Configuration::OH12, Configuration::OH13, Configuration::OH14, Configuration::OH15, Configuration::OH16, Configuration::OH17, Configuration::OH18,
        Configuration::OH19, Configuration::OH20, Configuration::OH21, Configuration::OH22, Configuration::OH23, Configuration::OH24, Configuration::OH25, Configuration::OH26, Configuration::OH27, Configuration::OH28,
        Configuration::OH29, Configuration::OH30, Configuration::SP1, Configuration::SP2, Configuration::SP3, Configuration::TB1, Configuration::TB2, Configuration::TB3, Configuration::TB4, Configuration::TB5,
        Configuration::TB6, Configuration::TB7, Configuration::TB8, Configuration::TB9, Configuration::TB10, Configuration::TB11, Configuration::TB12, Configuration::TB13, Configuration::TB14, Configuration::TB15,
        Configuration::TB16, Configuration::TB17, Configuration::TB18, Configuration::TB19, Configuration::TB20, Configuration::TH1, Configuration::TH2,
    ]
}

pub fn charges() -> Vec<Charge> {
    vec![
        Charge::MinusFifteen, Charge::MinusFourteen, Charge::MinusThirteen, Charge::MinusTwelve, Charge::MinusEleven,
        Charge::MinusTen, Charge::MinusNine, Charge::MinusEight, Charge::MinusSeven, Charge::MinusSix,
        Charge::MinusFive, Charge::MinusFour, Charge::MinusThree, Charge::MinusTwo, Charge::MinusOne,
        Charge::One, Charge::Two, Charge::Three, Charge::Four, Charge::Five,
        Charge::Six, Charge::Seven, Charge::Eight, Charge::Nine, Charge::Ten,
        Charge::Eleven, Charge::Twelve, Charge::Thirteen, Charge::Fourteen, Charge::Fifteen,
    ]
}

pub fn hcounts() -> Vec<VirtualHydrogen> {
    vec![
        VirtualHydrogen::H0, VirtualHydrogen::H1, VirtualHydrogen::H2, VirtualHydrogen::H3, VirtualHydrogen::H4, VirtualHydrogen::H5, VirtualHydrogen::H6, VirtualHydrogen::H7, VirtualHydrogen::H8, VirtualHydrogen::H9,
    ]
}

pub fn rnums() -> Vec<Rnum> {
    vec![
        Rnum::R0, Rnum::R1, Rnum::R2, Rnum::R3, Rnum::R4, Rnum::R5, Rnum::R6, Rnum::R7, Rnum::R8, Rnum::R9,
        Rnum::R10, Rnum::R11, Rnum::R12, Rnum::R13, Rnum::R14, Rnum::R15, Rnum::R16, Rnum::R17, Rnum::R18, Rnum::R19,
        Rnum::R20, Rnum::R21, Rnum::R22, Rnum::R23, Rnum::R24, Rnum::R25, Rnum::R26, Rnum::R27, Rnum::R28, Rnum::R29,
        Rnum::R30, Rnum::R31, Rnum::R32, Rnum::R33, Rnum::R34, Rnum::R35, Rnum::R36, Rnum::R37, Rnum::R38, Rnum::R39,
        Rnum::R40, Rnum::R41, Rnum::R42, Rnum::R43, Rnum::R44, Rnum::R45, Rnum::R46, Rnum::R47, Rnum::R48, Rnum::R49,
        Rnum::R50, Rnum::R51, Rnum::R52, Rnum::R53, Rnum::R54, Rnum::R55, Rnum::R56, Rnum::R57, Rnum::R58, Rnum::R59,
        Rnum::R60, Rnum::R61, Rnum::R62, Rnum::R63, Rnum::R64, Rnum::R65, Rnum::R66, Rnum::R67, Rnum::R68, Rnum::R69,
        Rnum::R70, Rnum::R71, Rnum::R72, Rnum::R73, Rnum::R74, Rnum::R75, Rnum::R76, Rnum::R77, Rnum::R78, Rnum::R79,
        Rnum::R80, Rnum::R81, Rnum::R82, Rnum::R83, Rnum::R84, Rnum::R85, Rnum::R86, Rnum::R87, Rnum::R88, Rnum::R89,
        Rnum::R90, Rnum::R91, Rnum::R92, Rnum::R93, Rnum::R94, Rnum::R95, Rnum::R96, Rnum::R97, Rnum::R98, Rnum::R99,
    ]
}

pub fn bond_kinds() -> Vec<BondKind> {
    vec![
        BondKind::Elided, BondKind::Single, BondKind::Double, BondKind::Triple, BondKind::Quadruple, BondKind::Aromatic, BondKind::Up, BondKind::Down,
    ]
}

pub fn bracket_aromatics() -> Vec<BracketAromatic> {
    vec![
        BracketAromatic::B, BracketAromatic::C, BracketAromatic::N, BracketAromatic::O, BracketAromatic::S, BracketAromatic::P, BracketAromatic::Se, BracketAromatic::As,
    ]
}

pub fn aromatics() -> Vec<Aromatic> {
    vec![
        Aromatic::B, Aromatic::C, Aromatic::N, Aromatic::O, Aromatic::P, Aromatic::S,
    ]
}

pub fn aliphatics() -> Vec<Aliphatic> {
    vec![
        Aliphatic::B, Aliphatic::C, Aliphatic::N, Aliphatic::O, Aliphatic::S, Aliphatic::P, Aliphatic::F, Aliphatic::Cl, Aliphatic::Br, Aliphatic::I,
        Aliphatic::At, Aliphatic::Ts,
    ]
}

/// discriminants in declaration order (consumes fresh values; the enums are not Copy)
pub fn check_orders() -> Result<(), String> {
    macro_rules! chk { ($f:ident, $n:expr) => {{
        let v = $f();
        if v.len() != $n { return Err(format!("{}: {} values, expected {}", stringify!($f), v.len(), $n)) }
        for (i, x) in v.into_iter().enumerate() {
            if x as usize != i { return Err(format!("{}: index {} out of declaration order", stringify!($f), i)) }
        }
    }} }
    chk!(elements, 118); chk!(configurations, 57); chk!(charges, 30); chk!(hcounts, 10); chk!(rnums, 100);
    chk!(bond_kinds, 8); chk!(bracket_aromatics, 8); chk!(aromatics, 6); chk!(aliphatics, 12);
    Ok(())
}
