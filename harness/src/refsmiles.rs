//! Reference recogniser for the documented SMILES grammar, written from the property text of C04 /
//! C05 (not from the reader): a deterministic left-to-right automaton whose every state can still be
//! completed, so the first character without a transition is the first character that cannot continue
//! any valid SMILES.  Element symbols come from the independent periodic table in oracle.rs.

use crate::oracle::PERIODIC;

#[derive(Debug, Clone, PartialEq)]
pub enum Verdict {
    Ok,
    /// the input is a viable prefix but incomplete
    EndOfLine,
    /// index (in characters) of the first offending character
    Character(usize),
}

struct Cur<'a> {
    s: &'a [char],
    i: usize,
}

impl<'a> Cur<'a> {
    fn peek(&self) -> Option<char> { self.s.get(self.i).cloned() }
    fn pop(&mut self) { self.i += 1 }
    fn fail<T>(&self) -> Result<T, Verdict> {
        if self.i >= self.s.len() { Err(Verdict::EndOfLine) } else { Err(Verdict::Character(self.i)) }
    }
}

fn is_bond(c: char) -> bool { matches!(c, '-' | '=' | '#' | '$' | ':' | '/' | '\\') }

const ORGANIC: [&str; 12] = ["B", "C", "N", "O", "S", "P", "F", "Cl", "Br", "I", "At", "Ts"];
const AROMATIC_ORGANIC: [char; 6] = ['b', 'c', 'n', 'o', 'p', 's'];
const BRACKET_AROMATIC: [&str; 8] = ["b", "c", "n", "o", "s", "p", "se", "as"];

/// longest-match symbol from `table` at the cursor: a listed second letter is taken, otherwise the
/// one-letter symbol if there is one, otherwise the second character is the offender
fn symbol(c: &mut Cur, table: &[&str]) -> Result<bool, Verdict> {
    let first = match c.peek() { Some(x) => x, None => return Ok(false) };
    let one = table.iter().any(|s| s.chars().count() == 1 && s.chars().next() == Some(first));
    let two: Vec<char> = table.iter().filter(|s| s.chars().count() == 2 && s.chars().next() == Some(first)).map(|s| s.chars().nth(1).unwrap()).collect();
    if !one && two.is_empty() { return Ok(false) }
    c.pop();
    match c.peek() {
        Some(d) if two.contains(&d) => { c.pop(); Ok(true) }
        _ => if one { Ok(true) } else { c.fail() },
    }
}

fn digits_upto(c: &mut Cur, max: usize) -> usize {
    let mut n = 0;
    while n < max { match c.peek() { Some(d) if d.is_ascii_digit() => { c.pop(); n += 1 } _ => break } }
    n
}

/// a number 1..=max written with no leading zero, at most two digits
fn family_number(c: &mut Cur, max: u32) -> Result<(), Verdict> {
    let d = match c.peek() { Some(d) if d.is_ascii_digit() && d != '0' => d.to_digit(10).unwrap(), _ => return c.fail() };
    if d > max { return c.fail() }
    c.pop();
    if let Some(e) = c.peek() {
        if let Some(ev) = e.to_digit(10) {
            if e.is_ascii_digit() && d * 10 + ev <= max { c.pop(); }
        }
    }
    Ok(())
}

fn bracket(c: &mut Cur) -> Result<(), Verdict> {
    // '[' already consumed
    digits_upto(c, 3);
    let mut elements: Vec<&str> = PERIODIC.to_vec();
    elements.extend(BRACKET_AROMATIC.iter());
    if c.peek() == Some('*') { c.pop() } else if !symbol(c, &elements)? { return c.fail() }
    if c.peek() == Some('@') {
        c.pop();
        match c.peek() {
            Some('@') => c.pop(),
            Some('T') => { c.pop(); match c.peek() { Some('H') => { c.pop(); family_number(c, 2)? } Some('B') => { c.pop(); family_number(c, 20)? } _ => return c.fail() } }
            Some('A') => { c.pop(); if c.peek() == Some('L') { c.pop(); family_number(c, 2)? } else { return c.fail() } }
            Some('S') => { c.pop(); if c.peek() == Some('P') { c.pop(); family_number(c, 3)? } else { return c.fail() } }
            Some('O') => { c.pop(); if c.peek() == Some('H') { c.pop(); family_number(c, 30)? } else { return c.fail() } }
            _ => {}
        }
    }
    if c.peek() == Some('H') { c.pop(); digits_upto(c, 1); }
    match c.peek() {
        Some(sign) if sign == '+' || sign == '-' => {
            c.pop();
            match c.peek() {
                Some(x) if x == sign => c.pop(),
                Some(d) if d.is_ascii_digit() && d != '0' => {
                    c.pop();
                    if d == '1' { if let Some(e) = c.peek() { if ('0'..='5').contains(&e) { c.pop() } } }
                }
                _ => {}
            }
        }
        _ => {}
    }
    if c.peek() == Some(':') {
        c.pop();
        if digits_upto(c, 3) == 0 { return c.fail() }
    }
    if c.peek() == Some(']') { c.pop(); Ok(()) } else { c.fail() }
}

/// Ok(true) = an atom was consumed; Ok(false) = no atom starts here
fn atom(c: &mut Cur) -> Result<bool, Verdict> {
    match c.peek() {
        Some('*') => { c.pop(); Ok(true) }
        Some('[') => { c.pop(); bracket(c)?; Ok(true) }
        Some(x) if AROMATIC_ORGANIC.contains(&x) => { c.pop(); Ok(true) }
        Some(_) => symbol(c, &ORGANIC),
        None => Ok(false),
    }
}

fn rnum(c: &mut Cur) -> Result<bool, Verdict> {
    match c.peek() {
        Some(d) if d.is_ascii_digit() => { c.pop(); Ok(true) }
        Some('%') => {
            c.pop();
            for _ in 0..2 { match c.peek() { Some(d) if d.is_ascii_digit() => c.pop(), _ => return c.fail() } }
            Ok(true)
        }
        _ => Ok(false),
    }
}

pub fn classify(s: &str) -> Verdict {
    let chars: Vec<char> = s.chars().collect();
    let mut c = Cur { s: &chars, i: 0 };
    let mut depth = 0usize;
    // an atom is required at the start
    match atom(&mut c) { Ok(true) => {} Ok(false) => return c.fail::<()>().unwrap_err(), Err(v) => return v }
    loop {
        match c.peek() {
            None => return if depth == 0 { Verdict::Ok } else { Verdict::EndOfLine },
            Some('(') => {
                c.pop();
                depth += 1;
                match c.peek() { Some('.') => c.pop(), Some(b) if is_bond(b) => c.pop(), _ => {} }
                match atom(&mut c) { Ok(true) => {} Ok(false) => return c.fail::<()>().unwrap_err(), Err(v) => return v }
            }
            Some(')') => { if depth == 0 { return Verdict::Character(c.i) } c.pop(); depth -= 1 }
            Some('.') => {
                c.pop();
                match atom(&mut c) { Ok(true) => {} Ok(false) => return c.fail::<()>().unwrap_err(), Err(v) => return v }
            }
            Some(b) if is_bond(b) => {
                c.pop();
                match atom(&mut c) {
                    Ok(true) => {}
                    Err(v) => return v,
                    Ok(false) => match rnum(&mut c) { Ok(true) => {} Ok(false) => return c.fail::<()>().unwrap_err(), Err(v) => return v },
                }
            }
            Some(_) => match atom(&mut c) {
                Ok(true) => {}
                Err(v) => return v,
                Ok(false) => match rnum(&mut c) { Ok(true) => {} Ok(false) => return Verdict::Character(c.i), Err(v) => return v },
            },
        }
    }
}

/// brute-force confirmation that a prefix is viable: some completion from a fixed list is accepted
pub fn completion(prefix: &str) -> Option<String> {
    let depth = prefix.chars().filter(|c| *c == '(').count();
    let mut tails: Vec<String> = vec!["".into(), "C".into(), "]".into(), "C]".into(), "1".into(), "11".into(), "1]".into(), "H1]".into(), "L1]".into(), "P1]".into(), "B1]".into()];
    for x in 'a'..='z' { tails.push(format!("{}", x)); tails.push(format!("{}]", x)) }
    for t in tails.iter() {
        for d in 0..=depth {
            let cand = format!("{}{}{}", prefix, t, ")".repeat(d));
            if classify(&cand) == Verdict::Ok { return Some(cand) }
        }
    }
    None
}


// ------------------------------------------------------------------------------------------
// the VALUE of an atom token, read independently of the library (for the C02 / C15 oracles): the kind in the
// harness's canonical syntax (A<i> / a<i> / * / [isotope,symbol,configuration,hcount,charge,map] with `_` for absent)

/// index of a configuration label in declaration order: AL1 AL2 OH1..OH30 SP1..SP3 TB1..TB20 TH1 TH2
fn cfg_index(family: &str, n: u32) -> Option<usize> {
    Some(match family {
        "AL" if (1..=2).contains(&n) => n as usize - 1,
        "OH" if (1..=30).contains(&n) => 1 + n as usize,
        "SP" if (1..=3).contains(&n) => 31 + n as usize,
        "TB" if (1..=20).contains(&n) => 34 + n as usize,
        "TH" if (1..=2).contains(&n) => 54 + n as usize,
        _ => return None,
    })
}

fn take_number(cs: &[char], i: &mut usize, max_digits: usize) -> Option<u32> {
    let start = *i;
    while *i < cs.len() && *i - start < max_digits && cs[*i].is_ascii_digit() { *i += 1 }
    if *i == start { return None }
    cs[start..*i].iter().collect::<String>().parse().ok()
}

/// None when `tok` is not exactly one atom token of the documented grammar
pub fn atom_value(tok: &str) -> Option<String> {
    if classify(tok) != Verdict::Ok { return None }
    let cs: Vec<char> = tok.chars().collect();
    if tok == "*" { return Some("*".to_string()) }
    if cs[0] != '[' {
        if let Some(i) = ORGANIC.iter().position(|x| *x == tok) { return Some(format!("A{}", i)) }
        if cs.len() == 1 { if let Some(i) = AROMATIC_ORGANIC.iter().position(|x| *x == cs[0]) { return Some(format!("a{}", i)) } }
        return None
    }
    if *cs.last()? != ']' { return None }
    let mut i = 1;
    let iso = take_number(&cs, &mut i, 3);
    // symbol: longest match among the 118 elements, the bracket aromatics and `*`
    let sym;
    if cs[i] == '*' { sym = "*".to_string(); i += 1 } else {
        let two: String = cs[i..(i + 2).min(cs.len())].iter().collect();
        let one: String = cs[i..i + 1].iter().collect();
        let find = |x: &str| -> Option<String> {
            if let Some(p) = PERIODIC.iter().position(|e| *e == x) { return Some(format!("E{}", p)) }
            if let Some(p) = BRACKET_AROMATIC.iter().position(|e| *e == x) { return Some(format!("R{}", p)) }
            None
        };
        if two.chars().count() == 2 && find(&two).is_some() { sym = find(&two)?; i += 2 } else { sym = find(&one)?; i += 1 }
    }
    let mut cfg: Option<usize> = None;
    if cs[i] == '@' {
        i += 1;
        if cs[i] == '@' { cfg = Some(56); i += 1 }
        else if cs[i].is_ascii_uppercase() && cs[i] != 'H' {
            let fam: String = cs[i..i + 2].iter().collect();
            i += 2;
            let n = take_number(&cs, &mut i, 2)?;
            cfg = Some(cfg_index(&fam, n)?);
        } else { cfg = Some(55) }
    }
    let mut h: Option<u32> = None;
    if cs[i] == 'H' { i += 1; h = Some(take_number(&cs, &mut i, 1).unwrap_or(1)) }
    let mut q: Option<i32> = None;
    if cs[i] == '+' || cs[i] == '-' {
        let sign = if cs[i] == '+' { 1 } else { -1 };
        let c0 = cs[i];
        i += 1;
        if cs[i] == c0 { q = Some(2 * sign); i += 1 }
        else if cs[i].is_ascii_digit() { q = Some(sign * take_number(&cs, &mut i, 2)? as i32) }
        else { q = Some(sign) }
    }
    let mut m: Option<u32> = None;
    if cs[i] == ':' { i += 1; m = Some(take_number(&cs, &mut i, 3)?) }
    if cs[i] != ']' || i + 1 != cs.len() { return None }
    let o = |x: Option<String>| x.unwrap_or_else(|| "_".to_string());
    Some(format!("[{},{},{},{},{},{}]", o(iso.map(|x| x.to_string())), sym, o(cfg.map(|x| x.to_string())), o(h.map(|x| x.to_string())),
        o(q.map(|x| x.to_string())), o(m.map(|x| x.to_string()))))
}
