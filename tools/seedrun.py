#!/usr/bin/env python3
"""tools/seedrun.py [seed names ...]  — regression run of the machinery against the stored seeded changes.
For every seeded/<name>/ (default: all): applies patch.diff to /repo, runs the quick check of the property the
change breaks (meta.json: breaks_property), undoes the patch, restores evidence/, and reports whether the check
caught it (exit 1 + VIOLATION line) and with what replay.  Never leaves /repo modified."""
import json, os, subprocess, sys, glob
ROOT = os.path.dirname(os.path.dirname(os.path.abspath(__file__)))
names = sys.argv[1:] or sorted(os.path.basename(d) for d in glob.glob(os.path.join(ROOT, 'seeded', 'C*')))
def sh(cmd, cwd=None):
    r = subprocess.run(cmd, shell=True, cwd=cwd, stdout=subprocess.PIPE, stderr=subprocess.STDOUT, text=True)
    return r.returncode, r.stdout
assert sh('git -C /repo status --porcelain')[1].strip() == '', '/repo is not clean'
missed = []
for n in names:
    d = os.path.join(ROOT, 'seeded', n)
    meta = json.load(open(os.path.join(d, 'meta.json')))
    prop = meta['breaks_property']
    rc, o = sh('git -C /repo apply ' + os.path.join(d, 'patch.diff'))
    if rc != 0:
        print(n, 'PATCH DOES NOT APPLY', o[:200]); missed.append(n); continue
    try:
        rc, o = sh('./check %s quick' % prop, ROOT)
        lines = [l for l in o.split('\n') if l.startswith('VIOLATION')]
        kind = 'no line'
        if lines:
            kind = 'no-failing-input-found' if lines[0].endswith('no-failing-input-found') else 'failing input'
        print('%-5s %s exit=%d %s' % (n, prop, rc, kind))
        if rc != 1 or not lines:
            missed.append(n)
    finally:
        sh('git -C /repo checkout -- .')
        sh('git -C %s checkout -- evidence' % ROOT)
print('missed:', missed)
sys.exit(1 if missed else 0)
