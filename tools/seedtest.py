#!/usr/bin/env python3
"""tools/seedtest.py <seed-dir-name> <target-property> [properties to run ...]
Confirms a seeded change produced by a sub-agent in /tmp/seed/<name> (suite passes with it, demo fails with /
passes without), stores it under /verif/seeded/<name>/, applies it to /repo, runs the checks, undoes it."""
import json, os, shutil, subprocess, sys, time
name = sys.argv[1]; target = sys.argv[2]
props = sys.argv[3:] or [target]
W = '/tmp/seed/' + name
OUT = os.path.join(W, 'OUT')
DEST = '/verif/seeded/' + name
def sh(cmd, cwd=None, timeout=3000):
    e = dict(os.environ); e['CARGO_NET_OFFLINE'] = 'true'
    r = subprocess.run(cmd, shell=True, cwd=cwd, stdout=subprocess.PIPE, stderr=subprocess.STDOUT, text=True, env=e, timeout=timeout)
    return r.returncode, r.stdout
os.makedirs(DEST, exist_ok=True)
for f in ('patch.diff', 'demo.rs', 'notes.md'):
    if os.path.exists(os.path.join(OUT, f)): shutil.copy(os.path.join(OUT, f), os.path.join(DEST, f))
ran = []
# confirmation in the scratch worktree (change applied there)
rc_lib, o = sh('cargo test --offline --lib 2>&1 | grep "test result"', W); ran.append(('with change: cargo test --offline --lib', o.strip()))
rc_doc, o2 = sh('cargo test --offline --doc 2>&1 | grep "test result"', W); ran.append(('with change: cargo test --offline --doc', o2.strip()))
suite_ok = 'FAILED' not in o and 'FAILED' not in o2 and ' 0 failed' in o
rc_demo_with, o = sh('cargo test --offline --test demo 2>&1 | grep -E "test result|SIGABRT|SIGSEGV|overflowed its stack|process didn.t exit successfully" | head -4', W); ran.append(('with change: cargo test --offline --test demo', o.strip()))
demo_fails_with = 'FAILED' in o or ('failed' in o and ' 0 failed' not in o) or 'SIGABRT' in o or 'SIGSEGV' in o or 'overflowed its stack' in o
sh('git diff -- src > /tmp/seed/%s.mine.diff && git apply -R /tmp/seed/%s.mine.diff' % (name, name), W)
rc_demo_without, o = sh('cargo test --offline --test demo 2>&1 | grep -E "test result" | head -3', W); ran.append(('without change: cargo test --offline --test demo', o.strip()))
demo_passes_without = ' 0 failed' in o and 'FAILED' not in o
sh('git apply /tmp/seed/%s.mine.diff' % name, W)
confirmed = suite_ok and demo_fails_with and demo_passes_without
results = {}
if confirmed:
    rc, o = sh('git -C /repo apply ' + os.path.join(DEST, 'patch.diff'))
    if rc != 0:
        results['apply'] = o
    else:
        try:
            for p in props:
                t0 = time.time()
                rc, o = sh('./check %s quick' % p, '/verif')
                lines = [l for l in o.split('\n') if l.startswith('VIOLATION') or l.startswith('BROKEN')]
                results[p] = {'exit': rc, 'lines': lines, 'wall_s': round(time.time() - t0, 1)}
                if rc != 0:
                    for l in lines:
                        if 'replay=' in l:
                            rp = l.split('replay=')[1].split(' ')[0]
                            try:
                                body = json.load(open(os.path.join('/verif', rp)))
                                results[p]['replay'] = {k: body.get(k) for k in ('kind', 'request', 'suite', 'oracle_message', 'field', 'theorem_or_suite', 'count')}
                            except Exception as e:
                                results[p]['replay'] = str(e)
        finally:
            sh('git -C /repo checkout -- .')
            sh('git -C /verif checkout -- evidence')
meta = {'seed': name, 'breaks_property': target, 'confirmed': confirmed, 'suite_passes_with_change': suite_ok,
        'demo_fails_with_change': demo_fails_with, 'demo_passes_without_change': demo_passes_without,
        'what_i_ran': ran, 'checks': results,
        'needs_to_manifest': open(os.path.join(DEST, 'notes.md')).read()[:1500] if os.path.exists(os.path.join(DEST, 'notes.md')) else ''}
json.dump(meta, open(os.path.join(DEST, 'meta.json'), 'w'), indent=1)
print(json.dumps({k: meta[k] for k in ('seed', 'confirmed', 'suite_passes_with_change', 'demo_fails_with_change', 'demo_passes_without_change')}))
for p, r in results.items():
    print(p, r if isinstance(r, str) else (r['exit'], r['lines'], r.get('replay', {}).get('oracle_message', '') if isinstance(r.get('replay'), dict) else ''))
print('repo status:', sh('git -C /repo status --short')[1].strip() or 'clean')
