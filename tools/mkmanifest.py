#!/usr/bin/env python3
"""Regenerates /verif/MANIFEST.json from the table below (claimed checks) — run after editing."""
import json, os, subprocess
ROOT = os.path.dirname(os.path.dirname(os.path.abspath(__file__)))

NOTE = ("Trusted: Lean 4.33.0 kernel (axioms propext, Classical.choice, Quot.sound only; no sorry, native_decide or own axioms), "
        "the hand-written Lean model under lean/Purr/Model, the harness crate and line protocol, the Lean compiler for executing the model. "
        "Modelled rather than verified: Vec/HashMap/BinaryHeap/String as lists, u8/u16/usize as Nat, panics as a result value. ")

CLAIMS = {
 'C01': ("STAGE 3 (C01.roundtrip, Lemmas/RtcRing.lean rtc): for EVERY well-formed adjacency list, rings included (any size, numbering, bond order, number of components, all atom and bond kinds), on which the traversal succeeds (it fails only by needing a 100th open ring number, known finding D17) the complete round trip "
         "walk, write, read, build yields a graph isomorphic to the original along the visit order (Spec.Iso). Proof: simulation between the recursive traversal walkRec and the builder with a state invariant (node edges = processed half-bonds, resolved unless the pool holds the pair open; pool open iff exactly one half-bond processed; builder's open table = pool), "
         "T-wr for the text leg, builder commutes with the C07 shorthands. Stated about walk itself, the explicit-stack loop mirroring walk.rs (roundtrip_walk): Lemmas/LoopRecL.lean proves loop = recursion in both directions (walk ends ok iff walkRec succeeds, same events) and Lemmas/WalkPanicL.lean that the loop terminates and reaches no internal panic; the only excluded case is D17. walkRec is also compared with the real walk on every run (field EVR). "
         "STAGE 1, for EVERY adjacency list with an atom that passes validation and every accepted string: the traversal's events are written without a panic, the reader ACCEPTS the text and "
         "replays exactly the traversal's events (no atom, bond, charge or ring closure lost, duplicated, retargeted or relabelled between the traversal's event stream and the re-read one — via T-wr), so building from the text equals building "
         "from the traversal's events (text eliminated); whatever is built is a well-formed simple graph (C10) that the traversal accepts (C11). "
         "Additionally the isomorphism itself is decided on every run by the oracle (walk, write, read, build on the real code; isomorphism test along the traversal order with a bounded backtracking fallback) and the S-graph/S-read correspondence. "
         "Known findings D17 (>99 open ring closures) and D19 (empty graph writes the empty string) are listed.",
         "Lean 4 proof that text is eliminated from the round trip (T-wr + conformance + builder invariant) + isomorphism oracle on the real round trip", "4.1"),
 'C02': ("BUILD = DENOTE (reading_builds_denotation, Lemmas/DenoteL.lean build_eq_denote): for EVERY string and every history of follower calls on which the builder succeeds, the adjacency list returned IS the declarative denotation Spec.denote (Purr/Spec/Denote.lean; no builder, no placeholders): "
         "one atom per atom token in order of appearance with the written attributes (mark adjusted per C03 for non-root atoms with a hydrogen); each atom's bond list read off the events in written order — preceding atom first (kind reversed), then ring digits, branches and chain successor as they appear; "
         "every bond on both ends; a ring digit pairs with the nearest preceding open digit of the same number (one left-to-right scan) and the two ends get the reconciled kinds (an elided side takes the other side's kind, a directional kind is reversed); a dot creates no bond. "
         "Proof: prefix invariant (node i lists exactly the half-bonds contributed so far, an unpartnered digit being its placeholder) preserved by all five kinds of step. The reader side (tokens left to right, each once) is C07/C08/C09. "
         "Additionally the oracle's independent SMILES interpreter is compared with Builder::build() on every accepted string, incl. bond-list order.",
         "Lean 4 proof that the incremental builder computes a declarative denotation (prefix invariant over all histories) + differential comparison with an independent SMILES interpreter", "4.2"),
 'C03': ("STAGE 3 (stereo_roundtrip): for EVERY well-formed adjacency list, rings included, on which the traversal succeeds (D17 excepted) the complete round trip gives every atom its original kind (up to the C07 shorthands, which commute with flipping) with the @/@@ mark flipped iff the bond it was "
         "entered through sits at an odd index of its bond list, component roots keep theirs, the re-read bond list is the original with exactly that bond moved to the front, and every bond (ring closures included) keeps its kind as seen from each end, so directional bonds keep their direction; stated about walk itself (stereo_walk, via loop = recursion, LoopRecL). STAGE 1, for every atom kind, bond list and entry position: the walker hands a child entered through bond index j to the follower with its @/@@ mark flipped iff j + hasH is odd; the builder's "
         "extend flips iff hasH; the composition flips iff j is odd, i.e. iff moving the entry bond to the front is an odd permutation of the neighbour order (hydrogen counted first in the graph, after the preceding atom in text); flipping is an "
         "involution that only exchanges @ and @@ and touches no other field, so every other configuration is carried unchanged; ring closures and extend record directional bonds with mutually reversed kinds. "
         "Additionally: geometric oracle on the real round trip (signed permutation between original and re-read neighbour orders, hydrogen included) and S-graph correspondence over a stereo family (root / chain / ring-closing centre x arrival index 0-3 x +-H x both marks).",
         "Lean 4 proof of the local parity law (walker, builder and their composition, all kinds and positions) + geometric permutation-parity oracle", "4.3"),
 'C04': ("accepts_iff_grammar (Purr/Props/C04.lean; Lemmas/GrammarEqL.lean read_eq_classify, ~2000 lines): for EVERY string the reader accepts it IFF it is a sentence of the documented grammar Spec.classify — a deterministic character-level automaton with a parenthesis counter "
         "(Purr/Spec/Automaton.lean), written from the property text and the OpenSMILES token tables with the element symbols taken from an independent periodic table, not from the reader: organic-subset atoms, *, bracket atoms with isotope < 1000, 118 elements / 8 aromatics / *, "
         "configurations @ @@ TH1-2 AL1-2 SP1-3 TB1-20 OH1-30, hydrogen count, charge -15..+15, map < 1000; bonds, ring numbers 0-99, dots, parenthesised branches. Proof token by token (every token reader consumes exactly what the automaton runs through and fails where it has no move; "
         "the reader's hand-typed symbol tables equal the periodic table by exhaustive kernel evaluation). Also: the verdict is a function of the string alone (followers cannot influence it; the correspondence runs four followers), completeness on the writer's image (T-wr), closure under rewrite. "
         "SECOND FORMALISATION (accepts_iff_productions, Spec/Bnf.lean + Lemmas/BnfL.lean): the five productions written in the comments of src/read/read.rs (<smiles>, <body>, <branch>, <split>, <union>) as an inductive derivation relation over the terminals <atom> <bond> <rnum>, "
         "with <body>* free to stop anywhere and every optional part a free choice; for EVERY string the reader accepts it IFF it has such a derivation (both directions), hence productions and automaton have the same sentences (productions_iff_automaton). "
         "Additionally the real reader's verdict is compared with Spec.classify executed by the Lean driver (field G) and with the harness's reference recogniser on every run.",
         "Lean 4 proof that the reader model accepts exactly an independently written grammar automaton (for all strings) + differential correspondence of the real reader with model and automaton", "4.4"),
 'C05': ("character_is_first_offending / end_of_line_is_viable_incomplete (Purr/Props/C05.lean): for EVERY refused string, if the reader reports Character(i) then i is inside the string, the first i characters can be extended to a string the reader accepts, and NO string beginning with the first i+1 characters is accepted; "
         "EndOfLine is reported exactly when the whole input can be extended to an accepted string but is not accepted itself. Proof: reader verdict and cursor = those of the documented grammar automaton for every string (read_eq_classify, Lemmas/GrammarEqL.lean), "
         "and for the automaton the error position is the first character without a move while every reachable configuration has an explicit completion (Lemmas/AutomatonL.lean). Cursors count characters, so multi-byte characters shift nothing. "
         "Additionally the real reader's verdict and cursor are compared with the automaton (field G) and with the harness's reference recogniser plus brute-force completion on every run.",
         "Lean 4 proof that the reported cursor is the first character that cannot continue any accepted string (reader = grammar automaton; automaton configurations completable) + differential comparison of cursors", "4.5"),
 'C06': ("Theorems in Purr/Props/C06.lean: the expect/unreachable!/overflow sites of the code are explicit panic outcomes of the model, and the theorems show them unreachable; the three groups of sites the model does not carry as an outcome "
         "(expect(number) after at most three digits, unreachable!(TB1X/OH1X/OH2X), the expects of read_rnum.rs) are shown unreachable separately (number_sites_unreachable, configuration_sites_unreachable, Lemmas/ExpectL.lean): "
         "reading any string never reaches a panic site of the token readers or of read (read_no_panic, by induction over the reader transducer); the string writer never panics on the events "
         "of the reader or of the traversal of any adjacency list (via C08); hydrogen queries cannot overflow (subvalence <= 6, hydrogens <= 9 for any degree). Termination of every model function is "
         "Lean's own obligation. The graph builder and the trace never panic on the events of the reader (and the builder not on those of the traversal). The traversal of ANY adjacency list reaches no internal panic site "
         "(expect(chain head), lookups) and its loop terminates: walk_only_panics_on_rnum — the only panic left is the exhausted ring-number pool (Lemmas/WalkPanicL.lean: stack/chain order invariant + strictly decreasing potential). "
         "The correspondence harness additionally runs the real code under catch_unwind on every suite and treats a panic where the model has none as a disagreement. Two known findings are listed in known_findings.json (D17: more than 99 open ring closures, D18: stack "
         "exhaustion on ~10^5 nested parentheses); they are false of the code, hence not provable.",
         "Lean 4 proof that panic outcomes of the model are unreachable (reader, writer, builder, trace, traversal loop incl. termination, hydrogen queries) + differential correspondence with catch_unwind on all suites", "4.6"),
 'C08': ("Theorems in Purr/Props/C08.lean: reader_conformant — for EVERY string, valid or not, the emitted history satisfies the follower contract (invariant: protocol path length = sum of the transducer's "
         "chain-length stack, every entry below the top >= 1; proved by induction over the reader transducer); walker_conformant — for EVERY adjacency list, including garbage, the traversal's history up to its error "
         "satisfies the contract (invariant: protocol path length = base + chain length, pop depth = number of chain entries unwound < chain length); conformant_writer_safe — a conformant history never drives the writer "
         "into its documented panics. conformant_builder_safe — nor the builder; walker_joins_paired — on EVERY well-formed adjacency list the traversal's joins come in matched pairs, one on each atom of the bond, with reconcilable kinds: "
         "the builder driven by the traversal's events ends with no unmatched ring number, no rejected pair, and every bond (ring bonds included) recorded on both atoms (corollary of the round-trip core rtc; walker_joins_paired_walk states it about walk itself). The pairing is also checked by the online oracle on the real event stream.",
         "Lean 4 proof (protocol invariants by induction over reader transducer and traversal loop, for all inputs) + differential correspondence of event streams", "4.8"),
 'C07': ("Theorems in Purr/Props/C07.lean: for every value of every feature type and every bracket atom with any combination of its six fields, "
         "the reader applied to text(v) ++ rest returns norm(v) and rest, for every continuation rest whose first character cannot extend the token "
         "(follow-set side conditions made explicit); text is injective up to the documented shorthands (AL/TH pair, H0 = absent), and norm identifies nothing else; "
         "element symbols equal an independent transcription of the periodic table, configurations/charges/ring numbers are family prefix + decimal. "
         "Tie to the code: every Display row and every reader row compared exhaustively (all table values; every 1-2 character symbol candidate with every ASCII "
         "follow character; every configuration spelling with every one-character corruption; all charge spellings) on every run.",
         "Lean 4 proof (T-tok: reader inverts text for every token class and every bracket-field combination) + exhaustive differential correspondence of the tables", "4.7"),
 'C09': ("Theorem read_write (Purr/Props/C09.lean), T-wr at full strength: for EVERY protocol-conformant non-empty history of root/extend/join/pop calls (any interleaving, any atom kind incl. all bracket-field combinations, "
         "any bond kind, any ring number, any legal pop depth) the writer does not panic and the reader accepts its text and replays exactly the same calls up to the C07 shorthands. Proof: compositional link invariant over the "
         "writer's segment stack (each segment is a string that, read from body / after-open / start mode with any continuation that cannot extend its last token, emits exactly its events and lengthens the chain by one), "
         "built on T-tok (C07) for every token class; follow-set side conditions discharged once per adjacent token pair. Corollaries: every accepted string's history is conformant and non-empty, so read(write(read s)) replays it; "
         "re-writing what was read from writer output reproduces it character for character; any follower (fold over events) gets the same result directly or through the text. "
         "Tie: writer text, builder result and protocol verdict of the real code compared with the model on exhaustive small and random histories, and on strings.",
         "Lean 4 proof (writer/reader inverse theorem by a compositional link invariant over the writer's segment stack) + differential correspondence on event histories", "4.9"),
 'C10': ("Theorems in Purr/Props/C10.lean, for EVERY protocol-conformant history (hence every accepted string): the builder never panics (invariant: path length = stack length, stack ids in range, every open ring number "
         "points at a node that still carries its placeholder); build_ok_wellformed — whenever build succeeds the graph is WellFormed (independent predicate of C11): invariant 'the resolved bonds form a well-formed simple graph', "
         "preserved by root / extend / opening join / closing join (proved on a pointwise view of the node list; the closing case uses the self/duplicate check of fix D9, the 64-row reconcile table and the placeholder invariant); "
         "hence validate accepts it and walk never rejects it (with C11); reconcile equals its specification on all 64 pairs and always yields mutually reversed kinds; a Join(a,b) error is only recorded by a closing digit, "
         "with a = current head and b = the atom that opened the number. SECOND SENTENCE OF THE PROPERTY (Lemmas/BuildErrL.lean): build_join_error_is_real — an error Join(a,c) was recorded, in a state without earlier errors, by a closing digit written at head a "
         "for a ring opened on c, and that closure cannot be made: a = c, a and c already bonded, or the two written kinds irreconcilable (JoinDefect); build_rnum_error_is_real — an error Rnum(i) names the i-th ring-closure digit of the history, "
         "no later digit carries its number and that number has been written an odd number of times (an opening that is never answered); build_succeeds_iff — for every conformant history build returns a graph IFF no step meets a JoinDefect and every ring number "
         "is written an even number of times (invariants: errors are exactly the defects met; every placeholder is the record of an unanswered opening digit; parity of each number = open or not). "
         "For the traversal's own events (C08's pairing clause): walk_joins_balanced — every ring number is written an even number of times and no closing digit meets a defect; walk_join_pairs_are_bonds — the two atoms a ring number is written on are bonded in the graph (Lemmas/JoinPairL.lean). "
         "WITHOUT BUILDER STATE IN THE STATEMENT (Lemmas/JoinReasonL.lean: HistDefect, equivalent to JoinDefect under the prefix invariant): build_join_error_is_a_written_closure — the pair (a, c) and the reason are read off the written events alone "
         "(Spec.replay gives the head atom a; Spec.scan the open digit the closing digit pairs with, written at head c; the reason is a = c, an earlier event already contributing a bond between them (Spec.contribH), or irreconcilable written kinds); "
         "build_succeeds_iff_written — build succeeds IFF no ring digit of the history meets such a written-history defect and every number is written an even number of times; walk_joins_balanced_written / walk_join_pairs_are_bonds_written — the same for the traversal's events; the Join error is the FIRST written-history defect; "
         "unmatched_iff_odd (Lemmas/ScanParityL.lean) — for every history a number is open at the end of the pairing scan iff it has been written an odd number of times, so build_succeeds_iff_nothing_open: build succeeds IFF no digit meets a defect and the scan ends with nothing open; "
         "walk_closing_digit_joins_bonded_atoms / walk_joins_paired_on_events — C08's pairing clause on the event stream of walk itself, with the open digit's being a join concluded rather than assumed. "
         "Still decided on every run as well by an oracle that recomputes unmatched digits and problematic closures from the history without the builder.",
         "Lean 4 proof (builder invariant: resolved bonds form a well-formed simple graph, by induction over conformant histories) + differential correspondence of builder results", "4.10"),
 'C11': ("Theorems in Purr/Props/C11.lean, for EVERY adjacency list: validate g = none iff WellFormed g (independent definition in Purr/Spec/WellFormed.lean: targets exist, no self bond, no pair bonded twice, "
         "exactly one counterpart of compatible kind); walk reports success only on well-formed lists and on an ill-formed list returns an error having emitted NO event (never hands the follower an unbalanced molecule); "
         "the returned error identifies a bond that really has that defect (ErrorReal, one clause per variant); conversely a well-formed list is never rejected with an error (traversal invariant: every stack entry is a real half-bond). "
         "The full converse 'well-formed => Ok' is false of the code beyond 99 simultaneously open ring closures (panic, known finding D17 under C06), so the theorem states Ok-or-panic; below that bound C13's theorems apply. "
         "Tie: verdict, events and writer text of walk compared with the model on exhaustive small graphs (garbage included) and single-defect mutations.",
         "Lean 4 proof (validate decides an independent well-formedness predicate; traversal invariant) + differential correspondence on exhaustive small graphs and mutations", "4.11"),
 'C12': ("STAGE 3 (substituent_order): for EVERY well-formed adjacency list, rings included, on which the traversal succeeds (D17 excepted), after the complete round trip walk, write, read, build every atom's re-read bond list is its original list in the original order, renumbered (injectively) by visit "
         "position, with only the bond it was entered through moved to the front; component roots unchanged; ring-closure digits and branches stay interleaved as listed; stated about walk itself (substituent_order_walk, via loop = recursion, LoopRecL). STAGE 1: a newly reached atom's other bonds are scheduled in exactly the order of its bond list and only the bond(s) back to the atom it was entered from are taken out; a component root "
         "schedules its whole list; on re-reading, the builder records the arrival bond first and appends every later bond / ring digit at the end of the head's list, in place. Additionally: order oracle on the real "
         "round trip (each re-read bond list must equal the original with the arrival bond moved to the front, under the depth-first order defined by the property text) and S-graph correspondence over every order of every bond list of all small graphs. "
         "THE ARRIVAL BOND PINNED DOWN (substituent_order_pinned, components_start_at_lowest_unvisited; Lemmas/OrderL.lean, RelabelledP): an atom that starts a component keeps its whole list (when a component starts no visited atom has a bond to an unvisited one, so nothing can be an arrival bond); "
         "for every other atom the one bond moved to the front leads to an atom visited earlier; at every root event every lower-numbered atom has been visited and everything visited later has a higher number. "
         "THE VISIT ORDER IS THE TEXTBOOK DEPTH-FIRST PREORDER (visit_order_is_depth_first; Spec/Dfs.lean, Lemmas/DfsL.lean): the order under which all these theorems renumber the atoms equals Spec.dfsOrder — defined from the adjacency list and the atoms seen so far only "
         "(start atoms tried as 0, 1, ...; a bond list gone through in list order; a bond to a new atom visits it and everything under it before the next bond is looked at), i.e. 'components start at the lowest-numbered unvisited atom and children are visited in list order' said outright — "
         "and it is the order in which the atom events reach the follower. "
         "THE FIRST SENTENCE ABOUT THE TEXT ITSELF (written_order): what the written text denotes (Spec.denote of C02: bond lists read off the text in written order) is at every atom the original list with only the arrival bond moved to the front — no builder in the statement. "
         "arrival_bond_is_the_attachment (Lemmas/DenoteFirstL.lean): the bond written first IS the arrival bond — an atom the text attaches to head atom hd has its one bond to hd first, then the rest of its list in order; "
         "substituent_order_walk_depth_first: the same about walk itself with the order identified as Spec.dfsOrder; visit_order_unique: any fuel on which the textbook search finishes gives that order.",
         "Lean 4 proof of the scheduling-order lemmas of traversal and builder + exact bond-list order oracle on the real round trip", "4.12"),
 'C13': ("Theorems in Purr/Props/C13.lean about the ring-number pool, for every sequence of hits (every reachable interleaving of openings and closings): the pool invariant "
         "(open and returned numbers partition 1..counter-1, no duplicates, one entry per unordered pair) holds in every reachable state; an opening hit returns the least number >= 1 not currently open; "
         "a closing hit returns the number its pair was opened with and that number is free at once; an opening number never exceeds the count of open closures plus one, hence "
         "no_early_exhaustion: as long as at most 99 closures are open at the same time every number is in 1..99 and the conversion to Rnum cannot fail, for any total number of rings. "
         "LIFT TO WHOLE TRAVERSALS (walk_never_out_early, Lemmas/PoolWalkL.lean): for EVERY adjacency list, if walk gives up for lack of a ring number then at least 99 ring closures are open in the events it has already handed to the follower "
         "(invariant: the numbers open in the emitted events are exactly the pool's open numbers); with C06 walk_only_panics_on_rnum and C11 this is: on a well-formed graph writing succeeds unless 99 closures are open at once. "
         "walk_opens_with_least_number: along the events of walk on EVERY adjacency list, each ring-closure event whose number is not open at that point carries the least number >= 1 not open in what was handed over so far, and a number is free again as soon as it is closed. "
         "Tie: JoinPool driven directly through the cfg hook and through walk on ring-rich graphs.",
         "Lean 4 proof (invariant by induction over hit sequences; least-free-number and recycling theorems) + differential correspondence of JoinPool and walk", "4.13"),
 'C19': ("Theorems in Purr/Props/C19.lean: depth_le_nesting — for EVERY string the number of simultaneously live read_smiles activations (= length of the reader transducer's stack on the repaired tree) is at most "
         "parenthesis nesting + 1, independent of length; depth_flat — any input without parentheses (chains, dot lists with or without rings, ring digit lists) is read at depth 1 whatever its size; one level of branches at depth 2. "
         "Proof by induction over the transducer with shape lemmas (every token consumed is parenthesis-free). PARTIAL BY NATURE: a theorem bounds activations, not bytes; the tie is the purr_verif hook's activation counter compared "
         "with the model depth on every generated string (a count ABOVE the model's is a disagreement; the theorem bounds the model's count, so a count below it keeps the property and is only reported in evidence), plus soak runs of read->build->walk->write on 2*10^5 (thorough 10^6) atom families in a child process with the default and a 2 MiB stack. walk, Writer and Builder are loops "
         "over explicit Vecs (reviewed fact about the code, exercised by the soak).",
         "Lean 4 proof bounding recursion depth by nesting for all inputs + exact differential comparison with an activation-counter hook + child-process soak at 10^6 atoms", "4.19"),
 'C14': ("Determinism: the model is a pure function (stated), and no model result depends on map iteration order — pool lookup is invariant under permutation of the entries given the key-uniqueness invariant (pool_find_perm). The hash seed itself "
         "cannot be exhibited by a theorem: every well-formed input is written in fresh threads (fresh RandomState) by the oracle and must give identical bytes. FIXED POINT (graph_fixed_point, Lemmas/FixL.lean rtc_fix): for EVERY well-formed adjacency list, rings included, on which the traversal succeeds (D17 excepted), "
         "the written text t is accepted, builds g', THE TRAVERSAL OF g' SUCCEEDS (it runs in lockstep with the first, so it needs no ring number the first did not need) and writing it reproduces t character for character (the complete second cycle read, build, walk, write, with nothing assumed about it); proof: lockstep of the traversals of g and of the re-read graph, which is g renumbered by visit position with arrival bonds first, pools equal up to key renumbering, parity compensations cancel. "
         "Also for every accepted string that builds (string_fixed_point) and at the text level (read-then-write of the events, T-wr). Stated about walk itself on both cycles (graph_fixed_point_walk, via loop = recursion, LoopRecL). Additionally the rewrite(rewrite x) = rewrite x oracle runs on the real code.",
         "Lean 4 proof (graph-level fixed point of the full round trip by lockstep simulation; order-independence of keyed lookups) + repeated-run / rewrite-twice oracle", "4.14"),
 'C15': ("Theorems in Purr/Props/C15.lean for EVERY string: the trace never panics on the reader's calls; the i-th atom range (a,b) satisfies a < b <= |s| and reading an atom at s.drop a succeeds and stops exactly at s.drop b "
         "(slicing the input there gives the token); the table has exactly one entry per atom event (ids past the last atom map to nothing); the k-th ring-closure token likewise; bond_cursor_is_bond_token: every cursor of the bond table is the position of a bond token — "
         "reading a bond there yields the written bond symbol, or nothing when elided, and is followed by the target atom or ring-closure token (so an elided bond maps to the first character of its target token and each end of a ring closure reports its own digit); "
         "INDEX SIDE (trace_atom_is_its_token, trace_rnum_is_its_token, Lemmas/TraceIdxL.lean): entry i of the atom table is the token of the i-th atom the reader reported, that token reads as exactly the reported kind, and atom i of the built graph carries it; entry k of the ring table is the k-th join's token and reads as its number. "
         "IN STRING ORDER (trace_atoms_in_string_order, Lemmas/TokOrderL.lean): for i < j the token of atom i ends at or before the start of the token of atom j (numbered in order of appearance, ranges never overlap). "
         "OWN END (bond_cursor_is_own_end, Lemmas/TraceEndsL.lean): the entry (x,y) -> c points at a bond token of kind b that is followed either by the trace's own range of the later of the atoms x, y, which the reader attached with exactly kind b (chain / branch bond, both directions), "
         "or by the trace's own range of the k-th ring-closure token, which was written while x was the head atom and whose join carried exactly kind b (ring closure: each direction its own digit). "
         "trace_matches_built_graph: for every accepted string that builds, the trace has as many atoms as the built graph and an entry for (x,y) iff atom x has a bond to atom y (builder/trace lock-step over the same events, Lemmas/TraceBondL.lean). "
         "THE LAST CLAUSE (build errors can be shown at the right place): rnum_error_points_at_its_token — if building what was read fails with Rnum(i), entry i of the ring table exists, is a non-empty range inside the string and its token reads as the number r of the i-th ring digit reported, no later digit carries r and the string carries r an odd number of times (the last, unanswered occurrence); "
         "trace_rnums_in_string_order — ring-table entries are in string order and do not overlap, so entry k is THE k-th ring token; "
         "join_error_points_at_its_atoms — if it fails with Join(a, c), both atoms have an entry in the atom table, each the exact range of the token of the a-th / c-th atom the reader reported. "
         "Additionally the complete trace dump of the real Trace (all atom ranges, every bond key in both directions, ring digits) is compared with the model on every string, and an oracle recomputes spans and bond cursors from an independent tokeniser.",
         "Lean 4 proof that recorded ranges and bond cursors are exactly token positions (located-event invariant over the reader) and that the trace's keys are the built graph's bonds (lock-step invariant) + full trace-dump correspondence", "4.15"),
 'C16': ("Theorem debracket_sound (Purr/Props/C16.lean): for every atom kind and every bond-order sum (an unbounded Nat), whenever debracket returns, the result has the same "
         "element or wildcard, the same aromatic flag and the same hydrogen count at that sum; kinds with isotope/configuration/charge/map and unbracketed kinds are "
         "returned unchanged; debracket returns whenever the sum plus hydrogen count fits a byte. Tie: symbol x hcount x sum x field-presence compared with the code.",
         "Lean 4 proof over the valence model + differential correspondence over the field product", "4.16"),
 'C17': ("Theorems in Purr/Props/C17.lean: hydrogen counts of organic, aromatic, bracket and wildcard atoms equal the valence model written from the property text "
         "(independent spec Purr/Spec/ValenceSpec.lean) for every bond list of any length; subvalence is the same distance computed from the kind's own targets; "
         "charged targets are those of the isoelectronic neutral element; no wrap-around: subvalence <= 6 and 0 beyond the largest target for any degree. "
         "Tie: VAL requests with sums beyond 255 and degrees up to 600 compared with the code.",
         "Lean 4 proof against an independent valence specification + differential correspondence incl. sums > 255", "4.17"),
 'C18': ("Theorems in Purr/Props/C18.lean state and prove, for every integer, that each conversion succeeds exactly on its documented range, is inverse and injective, "
         "that the integer is the number shown in the text form, that no public constructor yields a Number >= 1000, that reverse is an involution moving only Up/Down, "
         "the order table, and that symbol conversions keep the element. Every row of the Rust tables is tied to the model by exhaustive enumeration of all i8/u8/u16 and "
         "all digit strings <= 5 chars on every run.",
         "Lean 4 proof over a hand-written model + exhaustive differential correspondence of every table row", "4.18"),
}

ALL = ['C%02d' % i for i in range(1, 20)]

def main():
    hooks_commit = subprocess.run(['git', '-C', '/repo', 'log', '--format=%h %s'], capture_output=True, text=True).stdout
    hook = [l.split(' ')[0] for l in hooks_commit.split('\n') if 'verification hooks' in l]
    m = {
        'version': 1,
        'setup_cmd': 'cd /verif/harness && CARGO_NET_OFFLINE=true cargo build --release --offline && cd /verif/lean && lake build Purr purrdriver Purr.Props.C01 Purr.Props.C02 Purr.Props.C03 Purr.Props.C04 Purr.Props.C05 Purr.Props.C06 Purr.Props.C07 Purr.Props.C08 Purr.Props.C09 Purr.Props.C10 Purr.Props.C11 Purr.Props.C12 Purr.Props.C13 Purr.Props.C14 Purr.Props.C15 Purr.Props.C16 Purr.Props.C17 Purr.Props.C18 Purr.Props.C19',
        'hooks': {
            'guard': 'purr_verif',
            'enable': 'the harness crate /verif/harness has a path dependency on /repo and its .cargo/config.toml sets rustflags = ["--cfg", "purr_verif"]; '
                      'every ./check run does `cargo build --release --offline` there, which recompiles /repo\'s working tree with the hooks on',
            'baseline_off_cmd': 'cd /repo && cargo test --workspace --no-fail-fast --offline',
            'source_commits': hook,
            'add_only': True,
        },
        'engines': [
            {'name': 'purrmodel', 'path': 'lean', 'serves_properties': sorted(CLAIMS),
             'kind_free_text': 'Lean 4 project: executable model of the library (Purr/Model), specifications (Purr/Spec), lemmas (Purr/Lemmas), property theorems (Purr/Props), line-protocol driver (Driver.lean, lean_exe purrdriver)'},
            {'name': 'purrh', 'path': 'harness', 'serves_properties': sorted(CLAIMS),
             'kind_free_text': 'Rust harness linking /repo in-process: request generators, implementation runner under catch_unwind, property-level oracles'},
        ],
        'checks': [],
        'notes': 'Single entry point ./check <property> quick|thorough [--replay file]; see DESIGN.md. known_findings.json lists fixed and open findings.',
        'not_applicable': [],
    }
    for pid in ALL:
        if pid in CLAIMS:
            text, tech, ref = CLAIMS[pid]
            m['checks'].append({
                'property_id': pid, 'quick_cmd': './check %s quick' % pid, 'thorough_cmd': './check %s thorough' % pid,
                'evidence_file': 'evidence/%s.json' % pid, 'replay_cmd_template': './check %s --replay {path}' % pid,
                'engine': 'purrmodel', 'level_claimed': {'category': 'proof', 'text': text, 'design_ref': ref},
                'level_note': NOTE, 'technique': tech})
        else:
            m['not_applicable'].append({'property_id': pid, 'reason': 'check under construction (model and correspondence exist; property theorems not yet registered) — see DESIGN.md section 8'})
    json.dump(m, open(os.path.join(ROOT, 'MANIFEST.json'), 'w'), indent=1)

if __name__ == '__main__':
    main()
