#!/bin/sh
# One-off measurement (not a registered check): which lines of /repo/src do the quick correspondence suites execute?
# Builds the harness with -C instrument-coverage (nightly toolchain, for its llvm-tools) in a scratch directory
# outside /verif, runs every suite's requests through the implementation side, prints the llvm-cov report and the
# lines never executed, and removes the scratch directory.
set -e
D=$(mktemp -d /tmp/purrcov.XXXXXX)
T=$(dirname "$(rustc +nightly --print target-libdir)")/bin
cd "$(dirname "$0")/../harness"
CARGO_NET_OFFLINE=true RUSTFLAGS="--cfg purr_verif -C instrument-coverage" CARGO_TARGET_DIR=$D/target \
  cargo +nightly build --release --offline >/dev/null 2>&1
B=$D/target/release/purrh
for s in atom depth events graph kinds pool read table val; do
  LLVM_PROFILE_FILE=$D/gen-$s.profraw $B gen $s ${1:-quick} 1 > $D/$s.req
  LLVM_PROFILE_FILE=$D/imp-$s.profraw $B impl < $D/$s.req > /dev/null
done
$T/llvm-profdata merge -sparse $D/imp-*.profraw -o $D/imp.profdata
$T/llvm-cov report $B -instr-profile=$D/imp.profdata --ignore-filename-regex='(harness|registry|rustc|rustup)' | awk '{print $1, $8, $9, $10}'
echo "--- lines never executed"
$T/llvm-cov show $B -instr-profile=$D/imp.profdata --ignore-filename-regex='(harness|registry|rustc|rustup)' --show-line-counts 2>/dev/null \
  | grep -E "^\s+[0-9]+\|\s+0\||^/repo" | grep -B1 -E "\|\s+0\|" | grep -v "^--"
rm -rf "$D"
