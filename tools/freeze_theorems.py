#!/usr/bin/env python3
"""tools/freeze_theorems.py — pins the property theorems by name: writes tools/theorems.json with, for every property, the
theorems its Props module states now.  ./check requires each of them to be present (and to pass the axiom audit) on every
run, so a theorem that is deleted, renamed or commented out is a failed obligation.  Re-run after adding theorems."""
import json, os, re, sys
ROOT = os.path.dirname(os.path.dirname(os.path.abspath(__file__)))
sys.path.insert(0, os.path.join(ROOT, 'tools'))
from propconf import PROPS
def strip_comments(src):
    out, depth, i = [], 0, 0
    while i < len(src):
        if src.startswith('/-', i): depth += 1; i += 2; continue
        if src.startswith('-/', i) and depth > 0: depth -= 1; i += 2; continue
        if depth == 0: out.append(src[i])
        i += 1
    return re.sub(r'--.*', '', ''.join(out))
res = {}
for prop, conf in sorted(PROPS.items()):
    names = []
    for m in conf['lean']:
        src = strip_comments(open(os.path.join(ROOT, 'lean', m.replace('.', '/') + '.lean')).read())
        ns = re.search(r'^namespace (\S+)', src, flags=re.M)
        prefix = (ns.group(1) + '.') if ns else ''
        names += [prefix + t for t in re.findall(r'^theorem (\S+)', src, flags=re.M)]
    res[prop] = names
json.dump(res, open(os.path.join(ROOT, 'tools', 'theorems.json'), 'w'), indent=1)
print({k: len(v) for k, v in res.items()})
