#!/bin/sh
# runs the thorough tier of every property in turn; one summary line each in $1 (default /tmp/thorough.log)
cd "$(dirname "$0")/.."
LOG=${1:-/tmp/thorough.log}
: > "$LOG"
for p in C01 C02 C03 C04 C05 C06 C07 C08 C09 C10 C11 C12 C13 C14 C15 C16 C17 C18 C19; do
  /usr/bin/time -f "$p wall=%es maxrss=%MKB" ./check $p thorough 2>&1 | grep -v KNOWN | tail -3 >> "$LOG"
done
echo ALLDONE >> "$LOG"
