#!/usr/bin/env python3
"""tools/harmless.py [names ...] — the other half of testing the machinery: behaviour-preserving refactorings.
For every harmless/<name>/patch.diff (default: all): applies it to /repo, runs the quick check of EVERY property,
undoes the patch, restores evidence/, and reports every VIOLATION line (each one is a false alarm to be explained:
the refactoring really changed behaviour — then it is not harmless and belongs in seeded/ — or the machinery
demands more than the property).  `--import <name>` first copies /tmp/seed/<name>/OUT/{patch.diff,notes.md}.
Never leaves /repo modified."""
import json, os, subprocess, sys, glob, shutil
ROOT = os.path.dirname(os.path.dirname(os.path.abspath(__file__)))
args = sys.argv[1:]
if args and args[0] == '--import':
    for n in args[1:]:
        d = os.path.join(ROOT, 'harmless', n)
        os.makedirs(d, exist_ok=True)
        for f in ('patch.diff', 'notes.md'):
            shutil.copy(os.path.join('/tmp/seed', n, 'OUT', f), os.path.join(d, f))
    args = args[1:]
names = args or sorted(os.path.basename(d) for d in glob.glob(os.path.join(ROOT, 'harmless', '*')) if os.path.isdir(d))
PROPS = ['C%02d' % i for i in range(1, 20)]
def sh(cmd, cwd=None):
    r = subprocess.run(cmd, shell=True, cwd=cwd, stdout=subprocess.PIPE, stderr=subprocess.STDOUT, text=True)
    return r.returncode, r.stdout
assert sh('git -C /repo status --porcelain')[1].strip() == '', '/repo is not clean'
alarms = {}
for n in names:
    d = os.path.join(ROOT, 'harmless', n)
    rc, o = sh('git -C /repo apply ' + os.path.join(d, 'patch.diff'))
    if rc != 0:
        print(n, 'PATCH DOES NOT APPLY', o[:200]); alarms[n] = ['patch does not apply']; continue
    res = {}
    try:
        for p in PROPS:
            rc, o = sh('./check %s quick' % p, ROOT)
            lines = [l for l in o.split('\n') if l.startswith('VIOLATION')]
            res[p] = {'exit': rc, 'lines': lines}
            if rc != 0 or lines:
                detail = ''
                for l in lines:
                    path = l.split('replay=')[1].split()[0]
                    try:
                        rp = json.load(open(os.path.join(ROOT, path)))
                        detail = json.dumps({k: rp.get(k) for k in ('theorem_or_suite', 'request', 'field', 'implementation_output', 'model_output', 'message', 'detail') if rp.get(k)})[:700]
                    except Exception as e:
                        detail = str(e)
                alarms.setdefault(n, []).append('%s exit=%d %s %s' % (p, rc, ' '.join(lines), detail))
        print('%-4s %s' % (n, 'quiet on all 19 properties' if n not in alarms else 'ALARMS: ' + '; '.join(alarms[n])))
    finally:
        sh('git -C /repo checkout -- .')
        sh('git -C %s checkout -- evidence' % ROOT)
    json.dump({'refactoring': n, 'checks': res, 'quiet': n not in alarms}, open(os.path.join(d, 'meta.json'), 'w'), indent=1)
print('alarms:', json.dumps(alarms, indent=1) if alarms else '{}')
sys.exit(1 if alarms else 0)
