"""Per-property configuration of ./check: Lean modules holding the property theorems, the
correspondence suites (with the request filter and the response fields the property's theorems
rely on), and the text that goes into evidence."""

ASSUME_COMMON = [
    'the Lean model in lean/Purr/Model is hand-written; its agreement with /repo is what the correspondence suites check on this run',
    'harness generators, canonical forms and the line protocol are trusted',
]

def nontrivial_read(rq, resp):
    # a READ request is non-trivial when at least one event was produced or the error is not at position 0
    return ' # EV - ' not in resp or not resp.startswith('char:0')

PROPS = {
    'C07': {
        'lean': ['Purr.Props.C07'],
        'suites': [
            {'name': 'table', 'requests': r'TXT ', 'exhaustive': True},
            {'name': 'atom', 'fields': ['V', 'EV', 'W'], 'nontrivial': nontrivial_read},
            {'name': 'kinds', 'nontrivial': nontrivial_read},
        ],
        'rule': 'table: every value of every feature type (exhaustive); atom: every 1-2 character bracket symbol candidate x ASCII follow '
                'character, every configuration spelling with every one-character corruption, all charges, hydrogen counts, isotopes and '
                'maps 0-1000, random six-field bracket atoms; kinds: the product of bracket fields. distinct = distinct request lines; '
                'non-trivial = not refused at position 0 with no event',
        'assumptions': ASSUME_COMMON,
    },
    'C18': {
        'lean': ['Purr.Props.C18'],
        'suites': [
            {'name': 'table', 'requests': r'(CONV|BACK|REC|TXT (charge|hcount|rnum|number|bond)) ', 'exhaustive': True},
        ],
        'rule': 'exhaustive enumeration: all i8 -> Charge, all u8 -> VirtualHydrogen, all u16 -> Rnum and Number, every digit string of '
                'length <= 5 plus sign/junk forms -> Number, every enum value back to its integer, all 64 reconcile pairs, reverse/order '
                'of all 8 bond kinds, all symbol conversions; distinct = distinct request lines (all non-trivial: each is one table row)',
        'assumptions': ASSUME_COMMON,
    },
}
