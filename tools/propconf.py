"""Per-property configuration of ./check: Lean modules holding the property theorems, the
correspondence suites (with the request filter and the response fields the property's theorems
rely on), and the text that goes into evidence."""

ASSUME_COMMON = [
    'the Lean model in lean/Purr/Model is hand-written; its agreement with /repo is what the correspondence suites check on this run',
    'harness generators, canonical forms and the line protocol are trusted',
]

def nontrivial_read(rq, resp):
    # a READ request is non-trivial when at least one event was produced or the error is not at position 0
    return ' # EV - ' not in resp or not resp.startswith('char:0')

PROPS = {
    'C01': {
        'lean': ['Purr.Props.C01'],
        'suites': [
            {'name': 'graph', 'fields': ['V', 'EV', 'W', 'EVR'], 'nontrivial': lambda rq, resp: resp.startswith('ok') and ' # EV - ' not in resp},
            {'name': 'read', 'fields': ['V', 'EV', 'W', 'B'], 'nontrivial': nontrivial_read},
            {'name': 'kinds'},
        ],
        'rule': 'graph: all symmetric simple graphs <= 4 atoms x bond kinds x every bond-list order, random well-formed graphs up to 300 atoms '
                '(trees, fused / spiro / bridged rings, several components, all atom kinds incl. six-field bracket atoms, all eight bond kinds), '
                'ring-rich graphs; read: accepted strings whose graph builds; kinds: the text of every atom-kind family. The oracle re-reads what '
                'was written and tests isomorphism. non-trivial = accepted, at least one atom. soak: three size families of 10^5 (thorough 10^6) atoms, '
                'i.e. atom indices beyond 16 bits, through read -> build -> walk -> write -> read -> build with the isomorphism tested at that size',
        'soak': {'quick': [('chain', 100000), ('comb', 100000), ('ringlist', 100000), ('straddle', 65542), ('chain', 65535), ('chain', 65536), ('chain', 65537), ('macrocycle', 65537)],
                 'thorough': [('chain', 1000000), ('comb', 1000000), ('ringlist', 1000000), ('macrocycle', 300000), ('straddle', 65542), ('straddle', 200000)]},
        'assumptions': ASSUME_COMMON,
    },
    'C02': {
        'lean': ['Purr.Props.C02'],
        'suites': [
            {'name': 'read', 'fields': ['V', 'EV', 'B'], 'nontrivial': nontrivial_read},
            {'name': 'atom', 'fields': ['V', 'EV', 'B'], 'nontrivial': nontrivial_read},
        ],
        'rule': 'read: bounded-exhaustive strings over SMILES sub-alphabets and grammar-directed random strings with nested branches, dots in '
                'branches, re-used ring numbers, several digits per atom, explicit / elided / directional kinds on either end of a closure; atom: every '
                'token family. Events and the built graph (or build error) are compared. non-trivial = not refused at position 0. soak: the built graph '
                'compared with the independent interpreter at 10^5 (thorough 10^6) atoms (atom indices beyond 16 bits)',
        'soak': {'quick': [('chain', 100000), ('comb', 100000), ('ringlist', 100000), ('straddle', 65542), ('chain', 65535), ('chain', 65536), ('chain', 65537), ('macrocycle', 65537)],
                 'thorough': [('chain', 1000000), ('comb', 1000000), ('ringlist', 1000000), ('macrocycle', 300000), ('straddle', 65542), ('straddle', 200000)]},
        'assumptions': ASSUME_COMMON,
    },
    'C03': {
        'lean': ['Purr.Props.C03'],
        'suites': [
            {'name': 'graph', 'fields': ['V', 'EV', 'W', 'EVR'], 'nontrivial': lambda rq, resp: ',55,' in rq or ',56,' in rq or ':6' in rq or ':7' in rq or '6:' in rq or '7:' in rq},
            {'name': 'read', 'fields': ['V', 'EV', 'B'], 'nontrivial': lambda rq, resp: ',55,' in resp or ',56,' in resp},
        ],
        'rule': 'graph: a stereo family (centre as root / chain atom / ring-closing atom x arrival index 0-3 x with / without virtual hydrogen x both '
                'marks x TH and other configurations), directional bonds on tree and ring-closure edges in both directions, random graphs with a '
                'stereo-biased kind generator; read: strings with @ / @@ atoms. non-trivial = a tetrahedral mark or a directional bond is present',
        'assumptions': ASSUME_COMMON,
    },
    'C12': {
        'lean': ['Purr.Props.C12'],
        'suites': [
            {'name': 'graph', 'fields': ['V', 'EV', 'W', 'EVR'], 'nontrivial': lambda rq, resp: resp.startswith('ok') and ' # EV - ' not in resp},
            {'name': 'read', 'fields': ['V', 'B'], 'nontrivial': nontrivial_read},
        ],
        'rule': 'graph: all small graphs x every order of every bond list (every position of the arrival bond, every mixture of ring-closure and '
                'tree bonds at one atom up to degree 3; random graphs up to degree 8 and 300 atoms; a hub family: a non-root atom of degree 5..130 '
                '(thorough ..260, around the powers of two and 20/21/32/33) with the arrival bond at positions 0, 1, 4, 7, middle and last, all neighbours '
                'distinguishable, with and without ring closures among its bonds); read: accepted strings. non-trivial = accepted',
        'assumptions': ASSUME_COMMON,
    },
    'C14': {
        'lean': ['Purr.Props.C14'],
        'suites': [
            {'name': 'graph', 'fields': ['V', 'W', 'EVR'], 'nontrivial': lambda rq, resp: resp.startswith('ok') and ' # EV - ' not in resp},
            {'name': 'read', 'fields': ['V', 'W'], 'nontrivial': nontrivial_read},
        ],
        'rule': 'the S-graph and S-read sets; every well-formed input is additionally written in three fresh threads (fresh HashMap seeds) and '
                'rewritten twice by the oracle. non-trivial = accepted. soak: the fixed point at 10^5 (thorough 10^6) atoms',
        'soak': {'quick': [('chain', 100000), ('comb', 100000), ('ringlist', 100000), ('straddle', 65542), ('chain', 65535), ('chain', 65536), ('chain', 65537), ('macrocycle', 65537)],
                 'thorough': [('chain', 1000000), ('comb', 1000000), ('ringlist', 1000000), ('macrocycle', 300000), ('straddle', 65542), ('straddle', 200000)]},
        'assumptions': ASSUME_COMMON + ['hash-seed independence is a runtime fact: measured by repeated runs in fresh threads, not proved'],
    },
    'C15': {
        'lean': ['Purr.Props.C15'],
        'suites': [
            {'name': 'read', 'fields': ['V', 'T'], 'nontrivial': nontrivial_read},
            {'name': 'atom', 'fields': ['V', 'T'], 'nontrivial': nontrivial_read},
        ],
        'rule': 'every S-read and S-atom string is read with a Trace; the complete dump (every atom range up to two ids past the end, every key '
                'of the bond table in both directions, every ring-closure range) is compared with the model, accepted or not. non-trivial = at '
                'least one atom read. soak: four families of 10^5 (thorough 10^6) atoms whose cursors lie beyond 16 bits (ring closure after a long '
                'chain, alternating bond symbols, dot-separated rings, branches), every atom range, ring-closure range and bond cursor in both '
                'directions compared with the independent interpreter',
        'soak': {'quick': [('trace:ringtail', 100000), ('trace:bondchain', 100000), ('trace:ringlist', 100000), ('trace:comb', 100000), ('trace:branchchain', 100000)],
                 'thorough': [('trace:ringtail', 1000000), ('trace:bondchain', 1000000), ('trace:ringlist', 1000000), ('trace:comb', 1000000), ('trace:branchchain', 1000000)]},
        'assumptions': ASSUME_COMMON,
    },
    'C04': {
        'lean': ['Purr.Props.C04'],
        'suites': [
            {'name': 'read', 'fields': ['V', 'G'], 'nontrivial': nontrivial_read},
            {'name': 'atom', 'fields': ['V', 'G', 'EV'], 'nontrivial': nontrivial_read},
        ],
        'rule': 'read: corpus, every string <= 4 over a 14-letter SMILES alphabet, <= 6 over 6 letters, <= 5 over 8 bracket letters (thorough one '
                'longer), grammar-directed random strings and single-character mutations, multi-byte characters; atom: every member of each finite '
                'token family and its one-character corruptions (exhaustive). Each string is also run through Writer, Builder and Builder+Trace '
                '(follower independence). non-trivial = not refused at position 0',
        'assumptions': ASSUME_COMMON,
    },
    'C05': {
        'lean': ['Purr.Props.C05'],
        'suites': [
            {'name': 'read', 'fields': ['V', 'G'], 'nontrivial': lambda rq, resp: not resp.startswith('ok')},
            {'name': 'atom', 'fields': ['V', 'G'], 'nontrivial': lambda rq, resp: not resp.startswith('ok')},
        ],
        'rule': 'the same string sets as C04; only the verdict (Character(i) / EndOfLine) is compared. non-trivial = refused strings',
        'assumptions': ASSUME_COMMON,
    },
    'C19': {
        'lean': ['Purr.Props.C19'],
        'suites': [
            # D (live read_smiles activations, the hook) is one-sided: C19.depth_le_nesting bounds the MODEL's count, so an
            # implementation whose count is not above the model's has the property; only a count above the model's is a disagreement
            {'name': 'depth', 'fields': ['V', 'D'], 'le_fields': ['D'], 'nontrivial': lambda rq, resp: True},
            {'name': 'read', 'fields': ['V', 'D'], 'le_fields': ['D'], 'nontrivial': nontrivial_read},
        ],
        'soak': {'quick': [('chain', 200000), ('dots', 200000), ('branches', 100000), ('ringlist', 200000), ('ringchain', 290),
                           ('branchchain', 300000), ('macrocycle', 300000), ('comb', 200000), ('singlechain', 300000), ('dirchain', 300000),
                           ('trace:branchchain', 300000), ('trace:chain', 300000), ('trace:macrocycle', 300000), ('trace:dots', 200000), ('trace:branches', 100000),
                           ('trace:ladder', 300000)],
                 'thorough': [('chain', 1000000), ('dots', 1000000), ('branches', 500000), ('ringlist', 1000000), ('ringchain', 290), ('digits', 300000),
                              ('branchchain', 1000000), ('macrocycle', 1000000), ('comb', 1000000), ('singlechain', 1000000), ('dirchain', 1000000),
                              ('trace:branchchain', 1000000), ('trace:chain', 1000000), ('trace:macrocycle', 1000000), ('trace:dots', 1000000), ('trace:branches', 500000),
                              ('trace:ladder', 1000000)]},
        'rule': 'depth: six size families with constant nesting (chain, dot list, branches on one atom, dot-separated rings, ring chain, ring digit '
                'list) at 1..5000 (thorough 12000) atoms and two nested families up to depth 200: the activation counter of the hook is compared '
                'with the model depth on every string (above the model = disagreement, below = reported only); read: the same comparison on the S-read strings; soak: read -> build -> walk -> write -> '
                're-read of each family at 10^5..10^6 atoms in a child process, in the main thread and in a 2 MiB thread, exit status observed',
        'assumptions': ASSUME_COMMON + ['frame size per activation is a measured constant, not part of the theorem'],
    },
    'C06': {
        'lean': ['Purr.Props.C06'],
        'suites': [
            {'name': 'read', 'panic_only': True, 'nontrivial': nontrivial_read},
            {'name': 'atom', 'panic_only': True, 'nontrivial': nontrivial_read},
            {'name': 'graph', 'panic_only': True, 'nontrivial': lambda rq, resp: True},
            {'name': 'events', 'panic_only': True, 'nontrivial': lambda rq, resp: True},
            {'name': 'val', 'requests': r'VAL ', 'panic_only': True},
            {'name': 'depth', 'panic_only': True},
        ],
        'soak': {'quick': [('nested', 100000), ('chain', 100000), ('dots', 200000), ('branches', 100000), ('ringlist', 200000),
                           ('branchchain', 300000), ('macrocycle', 300000), ('singlechain', 300000), ('trace:ladder', 300000)],
                 'thorough': [('nested', 100000), ('chain', 1000000), ('dots', 1000000), ('branches', 500000), ('ringlist', 1000000),
                              ('branchchain', 1000000), ('macrocycle', 1000000), ('comb', 1000000), ('singlechain', 1000000), ('dirchain', 1000000), ('trace:ladder', 1000000)]},
        'rule': 'every suite of the harness with the panic behaviour of every response field compared (a panic of the real code where the model has none is a '
                'disagreement): bounded-exhaustive and random strings incl. multi-byte and control characters, all small adjacency lists '
                'incl. garbage (dangling, self, duplicate, asymmetric bonds), random well-formed and mutated graphs up to 300 atoms, ring-rich '
                'graphs up to 120 open closures, conformant and malformed event histories, hydrogen queries at sums beyond 255, size families '
                'up to 5000 (thorough 12000) atoms. distinct = distinct request lines',
        'assumptions': ASSUME_COMMON + ['aborts (stack exhaustion) cannot be caught in-process: a dying implementation process is reported with the request it died on'],
    },
    'C08': {
        'lean': ['Purr.Props.C08'],
        'suites': [
            {'name': 'read', 'fields': ['V', 'EV', 'P', 'W'], 'nontrivial': nontrivial_read},
            {'name': 'graph', 'fields': ['V', 'EV', 'P', 'W'], 'nontrivial': lambda rq, resp: ' # EV - ' not in resp},
            {'name': 'events', 'fields': ['W', 'P'], 'nontrivial': lambda rq, resp: True},
        ],
        'rule': 'read: corpus, all strings <= 4 over a 14-letter SMILES alphabet, <= 6 over 6 letters, <= 5 over bracket letters, grammar-directed '
                'random strings and their mutations (valid and invalid: the partial stream before the error is compared); graph: all small '
                'graphs incl. garbage, random well-formed / mutated graphs; events: all histories <= 4 events over 12 event shapes, random '
                'histories up to 200 events and a malformed stream. non-trivial = at least one event emitted',
        'assumptions': ASSUME_COMMON,
    },
    'C07': {
        'lean': ['Purr.Props.C07'],
        'suites': [
            {'name': 'table', 'requests': r'TXT ', 'exhaustive': True},
            {'name': 'atom', 'fields': ['V', 'EV', 'W'], 'nontrivial': nontrivial_read},
            {'name': 'kinds', 'nontrivial': nontrivial_read},
        ],
        'rule': 'table: every value of every feature type (exhaustive); atom: every 1-2 character bracket symbol candidate x ASCII follow '
                'character, every configuration spelling with every one-character corruption, all charges, hydrogen counts, isotopes and '
                'maps 0-1000, random six-field bracket atoms; kinds: the product of bracket fields. distinct = distinct request lines; '
                'non-trivial = not refused at position 0 with no event',
        'assumptions': ASSUME_COMMON,
    },
    'C09': {
        'lean': ['Purr.Props.C09'],
        'suites': [
            {'name': 'events', 'fields': ['W', 'B', 'P'], 'nontrivial': lambda rq, resp: True},
            {'name': 'read', 'fields': ['V', 'EV', 'W', 'B'], 'nontrivial': nontrivial_read},
            {'name': 'kinds'},
        ],
        'rule': 'events: all histories <= 4 events over 12 event shapes, all 64 bond-kind pairs on ring closures, random conformant histories up to '
                '200 events (nested pops, roots inside branches, joins with any number and kind) plus a malformed stream; read: bounded-exhaustive '
                'and random strings (the reader side of the inverse); kinds: the text of atom kinds over the product of bracket fields. '
                'non-trivial = distinct request lines',
        'assumptions': ASSUME_COMMON,
    },
    'C10': {
        'lean': ['Purr.Props.C10'],
        'suites': [
            {'name': 'events', 'fields': ['B', 'P'], 'nontrivial': lambda rq, resp: True},
            {'name': 'read', 'fields': ['V', 'EV', 'B'], 'nontrivial': nontrivial_read},
        ],
        'rule': 'events: all histories <= 4 events over 12 event shapes (opening and closing ring numbers on the same, adjacent and distant atoms), '
                'all 64 pairs of bond kinds on the two ends of a closure in four settings, random conformant histories up to 200 events; '
                'read: accepted strings of the S-read sets. The builder result (graph, Join(a,b) or Rnum(i)) is compared. distinct = request lines',
        'assumptions': ASSUME_COMMON,
    },
    'C11': {
        'lean': ['Purr.Props.C11'],
        'suites': [
            {'name': 'graph', 'fields': ['V', 'EV', 'W'], 'nontrivial': lambda rq, resp: not resp.startswith('ok # EV - ')},
        ],
        'rule': 'all adjacency lists of 1-2 atoms (thorough 3) whose bond lists are any sequence of <= 2 half-bonds over the given kinds and '
                'targets 0..n (garbage included), all symmetric simple graphs on <= 4 atoms (thorough 5) x bond kinds x every order of every bond '
                'list, a stereo/directional family, random well-formed graphs up to 300 atoms with a third of them hit by one drop / retarget / '
                'duplicate / re-kind / add mutation of a half-bond (on tree edges, ring-closing edges and between components) and some by three. '
                'distinct = distinct request lines',
        'assumptions': ASSUME_COMMON,
    },
    'C13': {
        'lean': ['Purr.Props.C13'],
        'suites': [
            {'name': 'pool', 'exhaustive': False},
            {'name': 'graph', 'fields': ['V', 'EV'], 'nontrivial': lambda rq, resp: ' J:' in resp},
        ],
        'rule': 'pool: every open/close interleaving of up to 5 (thorough 6) pairs (canonical pair naming), sequential runs of 10..10^4 '
                'rings followed by fused ones, 98..150 simultaneously open closures, random hit sequences; graph: all small graphs, '
                'random well-formed ring systems, ring-rich combs with up to 120 open closures, 5/120/300 sequential rings then a fused '
                'bicycle. non-trivial (graph) = the traversal emitted at least one join; distinct = distinct request lines. soak: ring numbers '
                'watched along traversals of 10^5 (thorough 10^6) atoms (smallest free number at every opening, both ends of a number bonded '
                'in the graph), including two closures open at once whose atom ids straddle 16 bits',
        'soak': {'quick': [('straddle', 65542), ('straddle', 100000), ('ringlist', 100000), ('macrocycle', 100000)],
                 'thorough': [('straddle', 65542), ('straddle', 131078), ('straddle', 1000000), ('ringlist', 1000000), ('macrocycle', 1000000)]},
        'assumptions': ASSUME_COMMON,
    },
    'C16': {
        'lean': ['Purr.Props.C16'],
        'suites': [
            {'name': 'val', 'requests': r'DEB ', 'exhaustive': False},
        ],
        'rule': 'every bracket symbol (127) x hydrogen count (absent, 0-9) x bond-order sum (all sums that fit a byte for the 21 symbols '
                'that can be debracketed or have valence targets, 0-8 and the byte limit for the rest; thorough: all sums for all symbols) '
                'x presence of isotope / configuration / charge / map; unbracketed kinds; random bracket atoms. distinct = distinct request lines',
        'assumptions': ASSUME_COMMON,
    },
    'C17': {
        'lean': ['Purr.Props.C17'],
        'suites': [
            {'name': 'val', 'requests': r'VAL ', 'exhaustive': False},
        ],
        'rule': 'bracket atoms: symbol x hydrogen count x charge x bond-order sum 0-12 and 20..300 (beyond 255); organic symbols x sums 0-600 '
                'realised as single, double and mixed bond lists; every bond kind; random kinds with random bond multisets up to degree 400. '
                'distinct = distinct request lines',
        'assumptions': ASSUME_COMMON,
    },
    'C18': {
        'lean': ['Purr.Props.C18'],
        'suites': [
            {'name': 'table', 'requests': r'(CONV|BACK|REC|TXT (charge|hcount|rnum|number|bond)) ', 'exhaustive': True},
        ],
        'rule': 'exhaustive enumeration: all i8 -> Charge, all u8 -> VirtualHydrogen, all u16 -> Rnum and Number, every digit string of '
                'length <= 5 plus sign/junk forms -> Number, every enum value back to its integer, all 64 reconcile pairs, reverse/order '
                'of all 8 bond kinds, all symbol conversions; distinct = distinct request lines (all non-trivial: each is one table row)',
        'assumptions': ASSUME_COMMON,
    },
}
