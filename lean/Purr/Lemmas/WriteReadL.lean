/-
  T-wr: the reader inverts the string writer on protocol-conformant histories (helper lemmas).
  A string `seg` is a *link* for events `E` from mode `m` if reading `seg ++ rest` from `m`
  emits exactly `E`, returns to body mode and lengthens the current chain by `n` — for every
  continuation `rest` whose first character cannot extend `seg`'s last token.
-/
import Purr.Lemmas.TokenL
import Purr.Lemmas.ReaderL
import Purr.Model.Writer
import Purr.Props.C07
namespace Purr

def Event.norm : Event → Event
  | .root k => .root k.norm
  | .extend b k => .extend b k.norm
  | e => e

def pre (E : List Event) (r : List Event × Verdict) : List Event × Verdict := (E ++ r.1, r.2)
@[simp] theorem pre_nil (r) : pre [] r = r := rfl
@[simp] theorem pre_pre (E F r) : pre E (pre F r) = pre (E ++ F) r := by simp [pre]

/-- characters with which an atom's text may start -/
def AtomStart (c : Char) : Prop :=
  c ≠ '(' ∧ c ≠ ')' ∧ c ≠ '.' ∧ c ≠ 'l' ∧ c ≠ 'r' ∧ c ≠ '%' ∧ isDigit c = false ∧ C07.NotBondChar c

theorem atom_text_head (k : AtomKind) : ∃ c t, k.text = c :: t ∧ AtomStart c := by
  cases k with
  | star => exact ⟨'*', [], rfl, by unfold AtomStart C07.NotBondChar; decide⟩
  | aliphatic a => cases a <;> exact ⟨_, _, rfl, by unfold AtomStart C07.NotBondChar; decide⟩
  | aromatic a => cases a <;> exact ⟨_, _, rfl, by unfold AtomStart C07.NotBondChar; decide⟩
  | bracket b => exact ⟨'[', _, rfl, by unfold AtomStart C07.NotBondChar; decide⟩

theorem rnum_text_head (r : Rnum) : ∃ c t, r.text = c :: t ∧ (c = '%' ∨ isDigit c = true) ∧ c ≠ 'l' ∧ c ≠ 'r' := by
  unfold Rnum.text
  split
  · rename_i h
    exact ⟨_, _, rfl, Or.inr (isDigit_digitChar' h), digitChar_ne ⟨r.val, h⟩ 'l' (by simp), digitChar_ne ⟨r.val, h⟩ 'r' (by simp)⟩
  · exact ⟨_, _, rfl, Or.inl rfl, by decide, by decide⟩

/-! ### one-step unfoldings of `run` on written tokens -/

theorem run_needRoot_text (k : AtomKind) (stack : List Nat) (rest : Str) (h : Starts NoLR rest) :
    run .needRoot stack (k.text ++ rest) = pre [.root k.norm] (run .body (bump stack) rest) := by
  rw [run.eq_def]; simp only []
  have := readAtom_text k rest h
  split <;> simp_all [pre]

theorem run_needAtom_text (b : BondKind) (k : AtomKind) (stack : List Nat) (rest : Str) (h : Starts NoLR rest) :
    run (.needAtom b) stack (k.text ++ rest) = pre [.extend b k.norm] (run .body (bump stack) rest) := by
  rw [run.eq_def]; simp only []
  have := readAtom_text k rest h
  split <;> simp_all [pre]

theorem readBond_text_atom (b : BondKind) (k : AtomKind) (rest : Str) :
    readBond (b.text ++ (k.text ++ rest)) = (b, k.text ++ rest) := by
  obtain ⟨c, t, hk, hc⟩ := atom_text_head k
  apply C07.bond_roundtrip
  intro _
  rw [hk]; exact Starts.cons hc.2.2.2.2.2.2.2

theorem readBond_text_rnum (b : BondKind) (r : Rnum) (rest : Str) :
    readBond (b.text ++ (r.text ++ rest)) = (b, r.text ++ rest) := by
  obtain ⟨c, t, hr, hc, _⟩ := rnum_text_head r
  apply C07.bond_roundtrip
  intro _
  rw [hr]; apply Starts.cons
  unfold C07.NotBondChar
  rcases hc with rfl | hd
  · decide
  · refine ⟨?_, ?_, ?_, ?_, ?_, ?_, ?_⟩ <;> (intro h; subst h; revert hd; decide)


/-- a string that starts neither with `(` nor with `.` goes to `unionStep` -/
theorem bodyStep_union {c : Char} {t : Str} (h1 : c ≠ '(') (h2 : c ≠ '.') : bodyStep (c :: t) = unionStep (c :: t) := by
  unfold bodyStep
  split
  · rename_i heq; cases heq; exact absurd rfl h1
  · rename_i heq; cases heq; exact absurd rfl h2
  · rfl

/-- first character of `b.text ++ more` when `more` starts with an atom or ring-number character -/
theorem bond_text_cons (b : BondKind) {c : Char} {t : Str} (hc : c ≠ '(' ∧ c ≠ '.') :
    ∃ c' t', b.text ++ (c :: t) = c' :: t' ∧ c' ≠ '(' ∧ c' ≠ '.' := by
  cases b <;> first
    | exact ⟨c, t, rfl, hc.1, hc.2⟩
    | exact ⟨_, _, rfl, by decide, by decide⟩

theorem unionStep_atom (b : BondKind) (k : AtomKind) (rest : Str) (h : Starts NoLR rest) :
    unionStep (b.text ++ (k.text ++ rest)) = .atom b k.norm rest := by
  unfold unionStep
  rw [readBond_text_atom]
  simp only [readAtom_text k rest h]

theorem readAtom_rnum_absent (r : Rnum) (rest : Str) : readAtom (r.text ++ rest) = .absent := by
  obtain ⟨c, t, hr, hc, _⟩ := rnum_text_head r
  rw [hr]
  have hne : c ≠ '[' ∧ c ≠ '*' ∧ c ≠ 'b' ∧ c ≠ 'c' ∧ c ≠ 'n' ∧ c ≠ 'o' ∧ c ≠ 'p' ∧ c ≠ 's' ∧ c ≠ 'A' ∧ c ≠ 'B' ∧
      c ≠ 'C' ∧ c ≠ 'N' ∧ c ≠ 'O' ∧ c ≠ 'P' ∧ c ≠ 'S' ∧ c ≠ 'F' ∧ c ≠ 'I' ∧ c ≠ 'T' := by
    rcases hc with rfl | hd
    · decide
    · refine ⟨?_, ?_, ?_, ?_, ?_, ?_, ?_, ?_, ?_, ?_, ?_, ?_, ?_, ?_, ?_, ?_, ?_, ?_⟩ <;>
        (intro h; subst h; revert hd; decide)
  obtain ⟨h1, h2, h3, h4, h5, h6, h7, h8, h9, h10, h11, h12, h13, h14, h15, h16, h17, h18⟩ := hne
  simp [readAtom, readOrganic, readBracket, h1, h2, h3, h4, h5, h6, h7, h8, h9, h10, h11, h12, h13, h14, h15, h16, h17, h18]

theorem unionStep_ring (b : BondKind) (r : Rnum) (rest : Str) :
    unionStep (b.text ++ (r.text ++ rest)) = .ring b r rest := by
  unfold unionStep
  rw [readBond_text_rnum]
  simp only [readAtom_rnum_absent r rest, C07.rnum_roundtrip r rest]

theorem bodyStep_atom (b : BondKind) (k : AtomKind) (rest : Str) (h : Starts NoLR rest) :
    bodyStep (b.text ++ (k.text ++ rest)) = .atom b k.norm rest := by
  obtain ⟨c, t, hk, hc⟩ := atom_text_head k
  obtain ⟨c', t', he, h1, h2⟩ := bond_text_cons b (c := c) (t := t ++ rest) ⟨hc.1, hc.2.2.1⟩
  have : b.text ++ (k.text ++ rest) = c' :: t' := by rw [hk]; simpa using he
  rw [this, bodyStep_union h1 h2, ← this]
  exact unionStep_atom b k rest h

theorem bodyStep_ring (b : BondKind) (r : Rnum) (rest : Str) :
    bodyStep (b.text ++ (r.text ++ rest)) = .ring b r rest := by
  obtain ⟨c, t, hr, hc, _⟩ := rnum_text_head r
  have hc' : c ≠ '(' ∧ c ≠ '.' := by
    rcases hc with rfl | hd
    · decide
    · constructor <;> (intro h; subst h; revert hd; decide)
  obtain ⟨c', t', he, h1, h2⟩ := bond_text_cons b (c := c) (t := t ++ rest) hc'
  have : b.text ++ (r.text ++ rest) = c' :: t' := by rw [hr]; simpa using he
  rw [this, bodyStep_union h1 h2, ← this]
  exact unionStep_ring b r rest

theorem bodyStep_close_paren (rest : Str) : bodyStep (')' :: rest) = .close rest := by
  rw [bodyStep_union (by decide) (by decide)]
  simp [unionStep, readBond, readAtom, readOrganic, readBracket, readRnum]

theorem bodyStep_nil : bodyStep [] = .eoi := by
  simp [bodyStep, unionStep, readBond, readAtom, readOrganic, readBracket, readRnum]

/-! ### body-mode steps of `run` on written text -/

theorem run_body_atom (b : BondKind) (k : AtomKind) (stack : List Nat) (rest : Str) (h : Starts NoLR rest) :
    run .body stack (b.text ++ (k.text ++ rest)) = pre [.extend b k.norm] (run .body (bump stack) rest) := by
  rw [run.eq_def]; simp only []
  have := bodyStep_atom b k rest h
  split <;> simp_all [pre]

theorem run_body_ring (b : BondKind) (r : Rnum) (stack : List Nat) (rest : Str) :
    run .body stack (b.text ++ (r.text ++ rest)) = pre [.join b r] (run .body stack rest) := by
  rw [run.eq_def]; simp only []
  have := bodyStep_ring b r rest
  split <;> simp_all [pre]

theorem run_body_open (stack : List Nat) (rest : Str) :
    run .body stack ('(' :: rest) = run .afterOpen (0 :: stack) rest := by
  rw [run.eq_def]; simp only []
  have : bodyStep ('(' :: rest) = .openParen rest := rfl
  split <;> simp_all

theorem run_body_dot (stack : List Nat) (rest : Str) :
    run .body stack ('.' :: rest) = run .needRoot stack rest := by
  rw [run.eq_def]; simp only []
  have : bodyStep ('.' :: rest) = .dot rest := rfl
  split <;> simp_all

theorem run_body_close (l l' : Nat) (st : List Nat) (rest : Str) :
    run .body (l :: l' :: st) (')' :: rest) = pre [.pop l] (run .body (l' :: st) rest) := by
  rw [run.eq_def]; simp only []
  have := bodyStep_close_paren rest
  split <;> simp_all [pre]

theorem run_body_nil (l : Nat) : run .body [l] [] = ([], .ok) := by
  rw [run.eq_def]; simp only []
  have := bodyStep_nil
  split <;> simp_all

theorem run_afterOpen_dot (stack : List Nat) (rest : Str) :
    run .afterOpen stack ('.' :: rest) = run .needRoot stack rest := by
  rw [run.eq_def]; simp only []

theorem run_afterOpen_atom (b : BondKind) (k : AtomKind) (stack : List Nat) (rest : Str) (h : Starts NoLR rest) :
    run .afterOpen stack (b.text ++ (k.text ++ rest)) = pre [.extend b k.norm] (run .body (bump stack) rest) := by
  obtain ⟨c, t, hk, hc⟩ := atom_text_head k
  obtain ⟨c', t', he, h1, h2⟩ := bond_text_cons b (c := c) (t := t ++ rest) ⟨hc.1, hc.2.2.1⟩
  have hs : b.text ++ (k.text ++ rest) = c' :: t' := by rw [hk]; simpa using he
  rw [run.eq_def]; simp only []
  split
  · rename_i heq; rw [hs] at heq; cases heq; exact absurd rfl h2
  · rw [readBond_text_atom]
    exact run_needAtom_text b k stack rest h


/-! ### links -/

/-- `seg` read from mode `m` emits `E`, returns to body mode, and lengthens the current chain by `n` -/
def LinkN (m : Mode) (seg : Str) (E : List Event) (n : Nat) : Prop :=
  ∀ l st rest, Starts NoLR rest →
    run m (l :: st) (seg ++ rest) = pre E (run .body ((l + n) :: st) rest)

def StartsOK (seg : Str) : Prop := ∃ c r, seg = c :: r ∧ NoLR c

theorem StartsOK.starts {seg} (h : StartsOK seg) (rest : Str) : Starts NoLR (seg ++ rest) := by
  obtain ⟨c, r, rfl, hc⟩ := h; exact Starts.cons hc

theorem StartsOK.append {seg} (h : StartsOK seg) (more : Str) : StartsOK (seg ++ more) := by
  obtain ⟨c, r, rfl, hc⟩ := h; exact ⟨c, r ++ more, rfl, hc⟩

theorem AtomStart.noLR {c} (h : AtomStart c) : NoLR c := ⟨h.2.2.2.1, h.2.2.2.2.1⟩

theorem atom_startsOK (k : AtomKind) : StartsOK k.text := by
  obtain ⟨c, t, hk, hc⟩ := atom_text_head k; exact ⟨c, t, hk, hc.noLR⟩

theorem bond_atom_startsOK (b : BondKind) (k : AtomKind) : StartsOK (b.text ++ k.text) := by
  obtain ⟨c, t, hk, hc⟩ := atom_text_head k
  cases b
  · exact ⟨c, t, by simp [BondKind.text, hk], hc.noLR⟩
  all_goals exact ⟨_, _, rfl, by unfold NoLR; decide⟩

theorem bond_rnum_starts (b : BondKind) (r : Rnum) (rest : Str) : Starts NoLR (b.text ++ (r.text ++ rest)) := by
  obtain ⟨c, t, hr, _, h1, h2⟩ := rnum_text_head r
  cases b
  · simp only [BondKind.text, List.nil_append, hr, List.cons_append]; exact Starts.cons ⟨h1, h2⟩
  all_goals exact Starts.cons (by unfold NoLR; decide)

theorem link_root_first (k : AtomKind) : LinkN .needRoot k.text [.root k.norm] 1 := by
  intro l st rest h
  rw [run_needRoot_text k _ rest h]; rfl

theorem link_root_body (k : AtomKind) : LinkN .body ('.' :: k.text) [.root k.norm] 1 := by
  intro l st rest h
  simp only [List.cons_append]
  rw [run_body_dot, run_needRoot_text k _ rest h]; rfl

theorem link_root_open (k : AtomKind) : LinkN .afterOpen ('.' :: k.text) [.root k.norm] 1 := by
  intro l st rest h
  simp only [List.cons_append]
  rw [run_afterOpen_dot, run_needRoot_text k _ rest h]; rfl

theorem link_extend_body (b : BondKind) (k : AtomKind) : LinkN .body (b.text ++ k.text) [.extend b k.norm] 1 := by
  intro l st rest h
  rw [List.append_assoc, run_body_atom b k _ rest h]; rfl

theorem link_extend_open (b : BondKind) (k : AtomKind) : LinkN .afterOpen (b.text ++ k.text) [.extend b k.norm] 1 := by
  intro l st rest h
  rw [List.append_assoc, run_afterOpen_atom b k _ rest h]; rfl

/-- appending a ring closure to a segment -/
theorem link_join {m seg E n} (hl : LinkN m seg E n) (b : BondKind) (r : Rnum) :
    LinkN m (seg ++ b.text ++ r.text) (E ++ [.join b r]) n := by
  intro l st rest h
  have := hl l st (b.text ++ (r.text ++ rest)) (bond_rnum_starts b r rest)
  simp only [List.append_assoc] at this ⊢
  rw [this, run_body_ring, pre_pre]

theorem link_comp {m s1 E1 a s2 E2 b} (h1 : LinkN m s1 E1 a) (h2 : LinkN .body s2 E2 b) (ok : StartsOK s2) :
    LinkN m (s1 ++ s2) (E1 ++ E2) (a + b) := by
  intro l st rest h
  have e1 := h1 l st (s2 ++ rest) (ok.starts rest)
  have e2 := h2 (l + a) st rest h
  simp only [List.append_assoc]
  rw [e1, e2, pre_pre]; simp [Nat.add_assoc]

/-- wrapping: `s0 ( inner )` where `inner` is a chain of length `d` read from just after `(` -/
theorem link_pop {m s0 E0 inner Ein d} (h0 : LinkN m s0 E0 1) (hin : LinkN .afterOpen inner Ein d) :
    LinkN m (s0 ++ '(' :: inner ++ [')']) (E0 ++ Ein ++ [.pop d]) 1 := by
  intro l st rest h
  have e0 := h0 l st ('(' :: inner ++ [')'] ++ rest) (Starts.cons (by unfold NoLR; decide))
  have ein := hin 0 ((l + 1) :: st) (')' :: rest) (Starts.cons (by unfold NoLR; decide))
  simp only [List.append_assoc, List.cons_append, List.nil_append] at e0 ein ⊢
  rw [e0, run_body_open, ein]
  simp only [Nat.zero_add]
  rw [run_body_close, pre_pre, pre_pre]
  simp [List.append_assoc]

def Seg (seg : Str) (E : List Event) : Prop :=
  LinkN .body seg E 1 ∧ LinkN .afterOpen seg E 1 ∧ StartsOK seg

/-- writer stack (innermost first) with the events each segment denotes -/
inductive WInv : List Str → List (List Event) → Prop
  | first {s E} : LinkN .needRoot s E 1 → WInv [s] [E]
  | cons {s E st Es} : Seg s E → WInv st Es → WInv (s :: st) (E :: Es)

theorem WInv.length {st Es} (h : WInv st Es) : st.length = Es.length := by
  induction h <;> simp_all

/-- the innermost `d` segments (1 ≤ d < length) form a chain link -/
theorem WInv.chain : ∀ {st Es} (_ : WInv st Es) (d : Nat), 1 ≤ d → d < st.length →
    LinkN .afterOpen ((st.take d).reverse.flatten) ((Es.take d).reverse.flatten) d ∧
    LinkN .body ((st.take d).reverse.flatten) ((Es.take d).reverse.flatten) d ∧
    StartsOK ((st.take d).reverse.flatten)
  | _, _, .first _, d, h1, h2 => by simp at h2; omega
  | _, _, .cons (s := s) (E := E) (st := st) (Es := Es) hs hr, d, h1, h2 => by
    cases d with
    | zero => omega
    | succ d =>
      cases d with
      | zero =>
        simp; exact ⟨hs.2.1, hs.1, hs.2.2⟩
      | succ d =>
        have ih := hr.chain (d + 1) (by omega) (by simp at h2; omega)
        simp only [List.take_succ_cons, List.reverse_cons, List.flatten_append, List.flatten_cons, List.flatten_nil,
          List.append_nil]
        refine ⟨?_, ?_, ?_⟩
        · have := link_comp ih.1 hs.1 hs.2.2; simpa using this
        · have := link_comp ih.2.1 hs.1 hs.2.2; simpa using this
        · exact ih.2.2.append s

def evs (Es : List (List Event)) : List Event := Es.reverse.flatten

theorem seg_root (k : AtomKind) : Seg ('.' :: k.text) [.root k.norm] :=
  ⟨link_root_body k, link_root_open k, ⟨'.', k.text, rfl, by unfold NoLR; decide⟩⟩

theorem seg_extend (b : BondKind) (k : AtomKind) : Seg (b.text ++ k.text) [.extend b k.norm] :=
  ⟨link_extend_body b k, link_extend_open b k, bond_atom_startsOK b k⟩

theorem seg_join {s E} (h : Seg s E) (b r) : Seg (s ++ b.text ++ r.text) (E ++ [.join b r]) := by
  refine ⟨link_join h.1 b r, link_join h.2.1 b r, ?_⟩
  have := (h.2.2.append b.text).append r.text
  simpa using this

theorem WInv.drop : ∀ {st Es} (_ : WInv st Es) (d : Nat), d < st.length → WInv (st.drop d) (Es.drop d)
  | _, _, h, 0, _ => by simpa using h
  | _, _, .first _, d + 1, h2 => by simp at h2
  | _, _, .cons _ hr, d + 1, h2 => by
    simp only [List.drop_succ_cons]; exact hr.drop d (by simp at h2; omega)

theorem evs_split (Es : List (List Event)) (d : Nat) :
    evs Es = evs (Es.drop d) ++ (Es.take d).reverse.flatten := by
  unfold evs
  rw [show Es.reverse = (Es.drop d).reverse ++ (Es.take d).reverse by
        rw [← List.reverse_append, List.take_append_drop]]
  simp

/-- one writer step preserves the invariant and appends the (normalised) event -/
theorem wstep_inv {st Es} (h : WInv st Es) (e : Event) (n') (hp : stepProto (some st.length) e = some (some n')) :
    ∃ st' Es', wstep st e = some st' ∧ WInv st' Es' ∧ evs Es' = evs Es ++ [e.norm] ∧ st'.length = n' := by
  cases e with
  | root k =>
    cases h with
    | first hl =>
      exact ⟨_, [[.root k.norm], _], rfl, .cons (seg_root k) (.first hl), by simp [evs, Event.norm],
        by simp [stepProto] at hp ⊢; omega⟩
    | cons hs hr =>
      exact ⟨_, [.root k.norm] :: _, rfl, .cons (seg_root k) (.cons hs hr), by simp [evs, Event.norm],
        by simp [stepProto] at hp ⊢; omega⟩
  | extend b k =>
    exact ⟨_, [.extend b k.norm] :: Es, rfl, .cons (seg_extend b k) h, by simp [evs, Event.norm],
      by simp [stepProto] at hp ⊢; omega⟩
  | join b r =>
    cases h with
    | first hl =>
      exact ⟨_, [_ ++ [.join b r]], rfl, .first (link_join hl b r), by simp [evs, Event.norm],
        by simp [stepProto] at hp ⊢; omega⟩
    | cons hs hr =>
      exact ⟨_, (_ ++ [.join b r]) :: _, rfl, .cons (seg_join hs b r) hr, by simp [evs, Event.norm],
        by simp [stepProto] at hp ⊢; omega⟩
  | pop d =>
    simp only [stepProto] at hp
    split at hp <;> simp at hp
    rename_i hd
    obtain ⟨hd1, hd2⟩ := hd
    have hch := h.chain d hd1 hd2
    have hdr := h.drop d hd2
    have hlen := h.length
    subst hp
    have hge : ¬ d ≥ st.length := by omega
    simp only [wstep, hge, if_false]
    generalize hst : st.drop d = std at hdr
    generalize hEs : Es.drop d = Esd at hdr
    have hsplit := evs_split Es d
    rw [hEs] at hsplit
    have hl : std.length = st.length - d := by rw [← hst]; simp
    cases hdr with
    | @first s0 E0 hl0 =>
      refine ⟨_, [E0 ++ (Es.take d).reverse.flatten ++ [.pop d]], rfl, ?_, ?_, ?_⟩
      · have := link_pop hl0 hch.1
        simpa [List.append_assoc] using WInv.first this
      · rw [hsplit]; simp [evs, Event.norm]
      · simp at hl ⊢; omega
    | @cons s0 E0 st0 Es0 hs hr =>
      refine ⟨_, (E0 ++ (Es.take d).reverse.flatten ++ [.pop d]) :: Es0, rfl, ?_, ?_, ?_⟩
      · have h1 := link_pop hs.1 hch.1
        have h2 := link_pop hs.2.1 hch.1
        have : Seg (s0 ++ '(' :: (st.take d).reverse.flatten ++ [')']) (E0 ++ (Es.take d).reverse.flatten ++ [.pop d]) :=
          ⟨h1, h2, by simpa using (hs.2.2.append ('(' :: (st.take d).reverse.flatten ++ [')']))⟩
        simpa [List.append_assoc] using WInv.cons this hr
      · rw [hsplit]; simp [evs, Event.norm]
      · simp at hl ⊢; omega

/-- lift over a whole history, from a non-empty writer state -/
theorem wfold_inv : ∀ (es : List Event) {st Es} (_ : WInv st Es) (n),
    protoRun (some st.length) es = some (some n) →
    ∃ st' Es', wrun st es = some st' ∧ WInv st' Es' ∧ evs Es' = evs Es ++ es.map Event.norm
  | [], st, Es, h, n, _ => ⟨st, Es, rfl, h, by simp⟩
  | e :: es, st, Es, h, n, hp => by
    simp only [protoRun] at hp
    split at hp
    · rename_i s' hs'
      cases s' with
      | none => cases e <;> simp [stepProto] at hs'
      | some n' =>
        obtain ⟨st1, Es1, hw1, h1, he1, hl1⟩ := wstep_inv h e n' hs'
        rw [← hl1] at hp
        obtain ⟨st2, Es2, hw2, h2, he2⟩ := wfold_inv es h1 n hp
        exact ⟨st2, Es2, by simp [wrun, hw1, hw2], h2, by rw [he2, he1]; simp⟩
    · cases hp

/-- reading the concatenation of all segments -/
theorem WInv.read : ∀ {st Es} (_ : WInv st Es), ∃ m, LinkN .needRoot (st.reverse.flatten) (evs Es) m
  | _, _, .first hl => ⟨1, by simpa [evs] using hl⟩
  | _, _, .cons (s := s) (E := E) hs hr => by
    obtain ⟨m, hm⟩ := hr.read
    exact ⟨m + 1, by simpa [evs] using link_comp hm hs.1 hs.2.2⟩

end Purr
