/-
  The round-trip core (RTC), general case: graphs with rings.

  The simulation between the recursive traversal and the graph builder is stated with a ghost function
  `proc x` — the half-bonds atom `x` has processed so far, in the order the builder recorded them — and a
  purely state-based invariant `RInv` (no reasoning about depth-first ancestors is needed):

    * the builder's node for `x` lists exactly `proc x`, each bond resolved to the visit position of its
      partner unless the pool currently holds the pair open, in which case it is the placeholder with the
      pool's number;
    * the pool holds a pair open iff exactly one of its two half-bonds has been processed;
    * the builder's table of open ring numbers agrees with the pool.

  At the end every half-bond has been processed, so no pair is open and every edge is resolved.
-/
import Purr.Lemmas.RtcCor
import Purr.Lemmas.PoolL
namespace Purr
open Purr.Spec

/-! ### abstract edges: builder-internal fields of a placeholder erased -/

inductive AEdge
  | id (k : BondKind) (t : Nat)
  | opn (k : BondKind) (n : Nat)
  deriving DecidableEq, Repr

def eraseE (e : Edge) : AEdge :=
  match e.target with
  | .id t => .id e.kind t
  | .rnum _ _ r => .opn e.kind r.val

def AEdge.isOpn (n : Nat) : AEdge → Bool
  | .opn _ m => m == n
  | .id _ _ => false

theorem isOpenFor_iff (r : Rnum) (e : Edge) : isOpenFor r e = (eraseE e).isOpn r.val := by
  unfold isOpenFor eraseE
  cases h : e.target with
  | id t => simp [AEdge.isOpn]
  | rnum a b r' =>
    simp only [AEdge.isOpn]
    apply Bool.eq_iff_iff.mpr
    simp only [beq_iff_eq]
    constructor
    · intro h'; rw [h']
    · intro h'; cases r; cases r'; simp_all

theorem eraseE_id {e : Edge} {k : BondKind} {t : Nat} (h : eraseE e = .id k t) : e = ⟨k, .id t⟩ := by
  unfold eraseE at h
  cases e with
  | mk kind target =>
    cases target with
    | id t' => simp at h; simp [h]
    | rnum a b r => simp at h

theorem eraseE_kind {e : Edge} {k : BondKind} {n : Nat} (h : eraseE e = .opn k n) : e.kind = k := by
  unfold eraseE at h
  split at h <;> simp at h
  exact h.1

/-- closing the first placeholder for `r`, when its position is known -/
theorem closeEdge_split (r : Rnum) (k : BondKind) (sid : Nat) : ∀ (es1 : List Edge) (e : Edge) (es2 : List Edge),
    (∀ e' ∈ es1, isOpenFor r e' = false) → isOpenFor r e = true →
    closeEdge r k sid (es1 ++ e :: es2) = es1 ++ ⟨k, .id sid⟩ :: es2
  | [], e, es2, _, he => by simp [closeEdge, he]
  | e' :: es1, e, es2, h1, he => by
    have h' : isOpenFor r e' = false := h1 e' (by simp)
    simp only [List.cons_append, closeEdge, h', Bool.false_eq_true, if_false]
    rw [closeEdge_split r k sid es1 e es2 (fun x hx => h1 x (by simp [hx])) he]

theorem find_split (r : Rnum) : ∀ (es1 : List Edge) (e : Edge) (es2 : List Edge),
    (∀ e' ∈ es1, isOpenFor r e' = false) → isOpenFor r e = true →
    (es1 ++ e :: es2).find? (isOpenFor r) = some e
  | [], e, es2, _, he => by simp [he]
  | e' :: es1, e, es2, h1, he => by
    have h' : isOpenFor r e' = false := h1 e' (by simp)
    simp only [List.cons_append, List.find?_cons, h']
    exact find_split r es1 e es2 (fun x hx => h1 x (by simp [hx])) he

/-! ### the builder's `join`, on the view -/

theorem bstep_join_open_view {s : BState} {sid : Nat} {rest : List Nat} {aes : List Edge} (b : BondKind) (r : Rnum)
    (hst : s.stack = sid :: rest) (hv : view s.graph sid = some aes) (hop : s.opens.lookup r = none) :
    ∃ s1, bstep s (.join b r) = some s1 ∧ s1.stack = s.stack ∧ s1.graph.length = s.graph.length ∧
      s1.opens = (r, sid) :: s.opens ∧ s1.errors = s.errors ∧
      view s1.graph = upd (view s.graph) sid (aes ++ [⟨b, .rnum s.rid sid r⟩]) ∧
      s1.graph.map Node.kind = s.graph.map Node.kind := by
  obtain ⟨n, hn, hne⟩ := view_some hv
  have hlt : sid < s.graph.length := by
    apply Nat.lt_of_not_le; intro hge
    rw [List.getElem?_eq_none_iff.mpr hge] at hn; cases hn
  refine ⟨{ s with opens := (r, sid) :: s.opens, graph := addEdge s.graph sid ⟨b, .rnum s.rid sid r⟩, rid := s.rid + 1 },
    by simp only [bstep, hst, hlt, if_true, hop], rfl, by simp [length_addEdge], rfl, rfl, ?_, ?_⟩
  · simp only; rw [view_addEdge hn, hne]
  · simp only; rw [addEdge_kinds]

theorem bstep_join_close_view {s : BState} {sid tid : Nat} {rest : List Nat} {aes es1 es2 : List Edge} {e : Edge}
    (b : BondKind) (r : Rnum) (left right : BondKind)
    (hst : s.stack = sid :: rest) (hv : view s.graph sid = some aes) (hop : s.opens.lookup r = some tid)
    (hvt : view s.graph tid = some (es1 ++ e :: es2)) (h1 : ∀ e' ∈ es1, isOpenFor r e' = false) (he : isOpenFor r e = true)
    (hne : sid ≠ tid) (hno : ∀ e' ∈ es1 ++ e :: es2, e'.target ≠ .id sid) (hrec : reconcile e.kind b = some (left, right)) :
    ∃ s1, bstep s (.join b r) = some s1 ∧ s1.stack = s.stack ∧ s1.graph.length = s.graph.length ∧
      s1.opens = s.opens.filter (fun p => p.1 != r) ∧ s1.errors = s.errors ∧
      view s1.graph = upd (upd (view s.graph) tid (es1 ++ ⟨left, .id sid⟩ :: es2)) sid (aes ++ [⟨right, .id tid⟩]) ∧
      s1.graph.map Node.kind = s.graph.map Node.kind := by
  obtain ⟨n, hn, hne'⟩ := view_some hv
  obtain ⟨tn, htn, htne⟩ := view_some hvt
  have hlt : sid < s.graph.length := by
    apply Nat.lt_of_not_le; intro hge
    rw [List.getElem?_eq_none_iff.mpr hge] at hn; cases hn
  have hfind : tn.edges.find? (isOpenFor r) = some e := by rw [htne]; exact find_split r es1 e es2 h1 he
  have hhas : hasIdEdge tn sid = false := by
    unfold hasIdEdge
    rw [List.any_eq_false]
    intro e' he'
    rw [htne] at he'
    simpa using hno e' he'
  have hcond : ¬ (sid = tid ∨ hasIdEdge tn sid = true) := by simp [hne, hhas]
  have hmod : (s.graph.modify tid (fun n => { n with edges := closeEdge r left sid n.edges }))[sid]? = some n := by
    rw [List.getElem?_modify]; simp [Ne.symm hne, hn]
  refine ⟨⟨s.stack, addEdge (s.graph.modify tid (fun n => { n with edges := closeEdge r left sid n.edges })) sid ⟨right, .id tid⟩,
      s.opens.filter (fun p => p.1 != r), s.errors, s.rid + 1⟩, ?_, rfl, by simp [length_addEdge], rfl, rfl, ?_, ?_⟩
  · simp only [bstep, hst, hlt, if_true, hop, htn, hfind, hcond, if_false, hrec]
  · simp only
    rw [view_addEdge hmod, view_modify htn, htne, closeEdge_split r left sid es1 e es2 h1 he, hne']
  · simp only
    rw [addEdge_kinds, modify_kinds]

end Purr

namespace Purr
open Purr.Spec

/-! ### the pool, as a finite map on unordered pairs -/

theorem Pool.find_symm (p : Pool) (x y : Nat) : p.find (x, y) = p.find (y, x) := by
  unfold Pool.find
  have : (fun e : (Nat × Nat) × Nat => pairEq e.1 (x, y)) = (fun e => pairEq e.1 (y, x)) := by
    funext e
    apply Bool.eq_iff_iff.mpr
    rw [pairEq_iff, pairEq_iff]
    constructor <;> (intro h; rcases h with ⟨a, b⟩ | ⟨a, b⟩ <;> simp_all)
  rw [this]

theorem hit_ok {p p' : Pool} {ab : Nat × Nat} {r : Rnum} (h : p.hit ab = .ok r p') : p.hitNat ab = (r.val, p') := by
  unfold Pool.hit at h
  generalize p.hitNat ab = q at h
  obtain ⟨n, p1⟩ := q
  simp only at h
  split at h
  · rename_i r' hr
    cases h
    unfold Rnum.ofNat? at hr
    split at hr
    · cases hr; rfl
    · cases hr
  · cases h

/-- opening: the pool afterwards -/
theorem find_after_open {p : Pool} {ab : Nat × Nat} (hf : p.find ab = none) (q : Nat × Nat) :
    (p.hitNat ab).2.find q = if pairEq ab q then some (p.hitNat ab).1 else p.find q := by
  simp only [Pool.hitNat, hf]
  cases hm : minOf p.replaced with
  | none =>
    simp only [Pool.find, List.find?_cons]
    by_cases h : pairEq ab q = true <;> simp [h]
  | some m =>
    simp only [Pool.find, List.find?_cons]
    by_cases h : pairEq ab q = true <;> simp [h]

theorem find_filter_aux (ab q : Nat × Nat) : ∀ (l : List ((Nat × Nat) × Nat)),
    (l.filter (fun e => !pairEq e.1 ab)).find? (fun e => pairEq e.1 q) =
      if pairEq ab q then none else l.find? (fun e => pairEq e.1 q)
  | [] => by simp
  | e :: l => by
    have ih := find_filter_aux ab q l
    by_cases h1 : pairEq e.1 ab = true
    · rw [List.filter_cons_of_neg (by simp [h1]), ih]
      by_cases h2 : pairEq ab q = true
      · simp [h2]
      · simp only [h2, Bool.false_eq_true, if_false, List.find?_cons]
        have : pairEq e.1 q = false := by
          cases h3 : pairEq e.1 q with
          | false => rfl
          | true =>
            have := pairEq_trans (by rw [pairEq_symm]; exact h1) h3
            exact absurd this h2
        simp [this]
    · rw [List.filter_cons_of_pos (by simp [h1]), List.find?_cons, ih]
      by_cases h2 : pairEq ab q = true
      · have : pairEq e.1 q = false := by
          cases h3 : pairEq e.1 q with
          | false => rfl
          | true =>
            have := pairEq_trans h3 (by rw [pairEq_symm]; exact h2)
            exact absurd this h1
        simp [h2, this]
      · simp [h2, List.find?_cons]

/-- closing: the pool afterwards -/
theorem find_after_close {p : Pool} {ab : Nat × Nat} {n : Nat} (hf : p.find ab = some n) (q : Nat × Nat) :
    (p.hitNat ab).2.find q = if pairEq ab q then none else p.find q := by
  have h1 : (p.hitNat ab).2.borrowed = p.borrowed.filter (fun e => !pairEq e.1 ab) := by
    simp only [Pool.hitNat, hf]
  unfold Pool.find
  rw [h1, find_filter_aux]
  by_cases h : pairEq ab q = true <;> simp [h]

theorem hitNat_close_fst {p : Pool} {ab : Nat × Nat} {n : Nat} (hf : p.find ab = some n) : (p.hitNat ab).1 = n := by
  simp only [Pool.hitNat, hf]

/-- two pairs with the same open number are the same pair -/
theorem find_inj {p : Pool} (hi : p.Inv) {ab q : Nat × Nat} {n : Nat} (h1 : p.find ab = some n) (h2 : p.find q = some n) :
    pairEq ab q = true := by
  obtain ⟨e, he, hke, hen⟩ := find_some h1
  obtain ⟨f, hf, hkf, hfn⟩ := find_some h2
  have : e = f := eq_of_nodup_map hi.nodupOpen he hf (by rw [hen, hfn])
  subst this
  exact pairEq_trans (by rw [pairEq_symm]; exact hke) hkf

theorem find_mem_opens {p : Pool} {ab : Nat × Nat} {n : Nat} (h : p.find ab = some n) : n ∈ p.opens := by
  obtain ⟨e, he, _, hen⟩ := find_some h
  exact List.mem_map.mpr ⟨e, he, hen⟩

theorem pairEq_mk (a t x y : Nat) : pairEq (a, t) (x, y) = true ↔ (a = x ∧ t = y) ∨ (a = y ∧ t = x) := by
  rw [pairEq_iff]

end Purr

namespace Purr
open Purr.Spec

/-! ### the simulation invariant -/

/-- the builder's (abstract) edge for a processed half-bond of `x`, under the current pool -/
def edgeP (ord : List Nat) (pool : Pool) (x : Nat) (b : Bond) : AEdge :=
  match pool.find (x, b.tid) with
  | some n => .opn b.kind n
  | none => .id b.kind (pos ord b.tid)

/-- `x` has processed its half-bond to `y` -/
def PH (proc : Nat → List Bond) (x y : Nat) : Prop := ∃ b ∈ proc x, b.tid = y

def setProc (proc : Nat → List Bond) (x : Nat) (v : List Bond) : Nat → List Bond := fun z => if z = x then v else proc z

structure RInv (g : Graph) (ord : List Nat) (pool : Pool) (s : BState) (proc : Nat → List Bond) : Prop where
  nd : ord.Nodup
  len : s.graph.length = ord.length
  pinv : pool.Inv
  errs : s.errors = []
  real : ∀ x, ∀ b ∈ proc x, x ∈ ord ∧ b.tid ∈ ord ∧ ∃ atomX, g[x]? = some atomX ∧ b ∈ atomX.bonds
  uniq : ∀ x, ((proc x).map Bond.tid).Nodup
  vw : ∀ x ∈ ord, ∃ es, view s.graph (pos ord x) = some es ∧ es.map eraseE = (proc x).map (edgeP ord pool x)
  j2 : ∀ x y, pool.find (x, y) = none ↔ (PH proc x y ↔ PH proc y x)
  o1 : ∀ x, ∀ b ∈ proc x, ∀ n, pool.find (x, b.tid) = some n → ∀ r : Rnum, r.val = n → s.opens.lookup r = some (pos ord x)
  o2 : ∀ r : Rnum, r.val ∉ pool.opens → s.opens.lookup r = none

theorem RInv.of_eq {g ord pool s s' proc} (h : RInv g ord pool s proc) (hg : s'.graph = s.graph) (ho : s'.opens = s.opens)
    (he : s'.errors = s.errors) : RInv g ord pool s' proc :=
  ⟨h.nd, by rw [hg]; exact h.len, h.pinv, by rw [he]; exact h.errs, h.real, h.uniq, by rw [hg]; exact h.vw, h.j2,
   by rw [ho]; exact h.o1, by rw [ho]; exact h.o2⟩

theorem RInv.proc_nil {g ord pool s proc} (h : RInv g ord pool s proc) {x : Nat} (hx : x ∉ ord) : proc x = [] := by
  cases hp : proc x with
  | nil => rfl
  | cons b bs => exact absurd (h.real x b (by rw [hp]; simp)).1 hx

theorem PH_nil {proc : Nat → List Bond} {x : Nat} (h : proc x = []) (y : Nat) : ¬ PH proc x y := by
  intro ⟨b, hb, _⟩; rw [h] at hb; cases hb

theorem edgeP_append {ord : List Nat} {pool : Pool} {x : Nat} {b : Bond} (h : b.tid ∈ ord) (more : List Nat) :
    edgeP (ord ++ more) pool x b = edgeP ord pool x b := by
  unfold edgeP; rw [pos_append_of_mem h]

theorem map_edgeP_append {ord : List Nat} {pool : Pool} {x : Nat} {bs : List Bond} (h : ∀ b ∈ bs, b.tid ∈ ord) (more : List Nat) :
    bs.map (edgeP (ord ++ more) pool x) = bs.map (edgeP ord pool x) :=
  List.map_congr_left (fun b hb => edgeP_append (h b hb) more)

/-- changing the pool at the pair `{a, t}` only -/
theorem map_edgeP_pool {ord : List Nat} {pool pool' : Pool} {x : Nat} {bs : List Bond}
    (h : ∀ b ∈ bs, pool'.find (x, b.tid) = pool.find (x, b.tid)) :
    bs.map (edgeP ord pool' x) = bs.map (edgeP ord pool x) :=
  List.map_congr_left (fun b hb => by unfold edgeP; rw [h b hb])

theorem PH_snoc {proc : Nat → List Bond} {a : Nat} {b : Bond} (x y : Nat) :
    PH (setProc proc a (proc a ++ [b])) x y ↔ PH proc x y ∨ (x = a ∧ y = b.tid) := by
  unfold PH setProc
  by_cases hx : x = a
  · subst hx
    simp only [if_true, List.mem_append, List.mem_singleton]
    constructor
    · rintro ⟨b', hb' | hb', ht⟩
      · exact Or.inl ⟨b', hb', ht⟩
      · subst hb'; refine Or.inr ⟨?_, ht.symm⟩; first | rfl | trivial
    · rintro (⟨b', hb', ht⟩ | ⟨_, ht⟩)
      · exact ⟨b', Or.inl hb', ht⟩
      · exact ⟨b, Or.inr rfl, ht.symm⟩
  · simp [hx]

theorem lookup_filter_ne {r r' : Rnum} (h : r' ≠ r) : ∀ (l : List (Rnum × Nat)),
    (l.filter (fun p => p.1 != r)).lookup r' = l.lookup r'
  | [] => rfl
  | (k, v) :: l => by
    by_cases hk : k = r
    · subst hk
      rw [List.filter_cons_of_neg (by simp), lookup_filter_ne h l]
      simp only [List.lookup_cons]
      have : (r' == k) = false := by simpa using h
      rw [this]
    · rw [List.filter_cons_of_pos (by simpa using hk)]
      simp only [List.lookup_cons]
      rw [lookup_filter_ne h l]

theorem lookup_filter_self (r : Rnum) : ∀ (l : List (Rnum × Nat)), (l.filter (fun p => p.1 != r)).lookup r = none
  | [] => rfl
  | (k, v) :: l => by
    by_cases hk : k = r
    · subst hk
      rw [List.filter_cons_of_neg (by simp)]; exact lookup_filter_self k l
    · rw [List.filter_cons_of_pos (by simpa using hk)]
      simp only [List.lookup_cons]
      have : (r == k) = false := by simpa using (Ne.symm hk)
      rw [this]; exact lookup_filter_self r l

theorem Rnum.ext' {r r' : Rnum} (h : r.val = r'.val) : r = r' := by
  cases r; cases r'; simp_all

end Purr

namespace Purr
open Purr.Spec

theorem nodup_snoc {ord : List Nat} {x : Nat} (hnd : ord.Nodup) (hx : x ∉ ord) : (ord ++ [x]).Nodup := by
  rw [List.nodup_append]
  exact ⟨hnd, by simp, by intro y hy z hz; simp at hz; subst hz; exact fun e => hx (e ▸ hy)⟩

/-- a new component root -/
theorem RInv.root {g ord pool s proc} (h : RInv g ord pool s proc) {id : Nat} (hid : id ∉ ord) {s1 : BState}
    (hlen1 : s1.graph.length = s.graph.length + 1) (hop : s1.opens = s.opens) (herr : s1.errors = s.errors)
    (hview : view s1.graph = upd (view s.graph) s.graph.length []) :
    RInv g (ord ++ [id]) pool s1 proc := by
  refine ⟨nodup_snoc h.nd hid, by rw [hlen1, h.len]; simp, h.pinv, by rw [herr]; exact h.errs, ?_, h.uniq, ?_, h.j2, ?_,
    by rw [hop]; exact h.o2⟩
  · intro x b hb
    obtain ⟨h1, h2, h3⟩ := h.real x b hb
    exact ⟨by simp [h1], by simp [h2], h3⟩
  · intro x hx
    by_cases hxo : x ∈ ord
    · obtain ⟨es, hv, hes⟩ := h.vw x hxo
      refine ⟨es, ?_, ?_⟩
      · rw [pos_append_of_mem hxo, hview, upd_other _ _ (by rw [h.len]; exact Nat.ne_of_lt (pos_lt_of_mem hxo))]; exact hv
      · rw [hes, map_edgeP_append (fun b hb => (h.real x b hb).2.1)]
    · have : x = id := by simpa [hxo] using hx
      subst this
      refine ⟨[], ?_, by rw [h.proc_nil hxo]; rfl⟩
      rw [pos_snoc_new hxo, hview, ← h.len, upd_same]
  · intro x b hb n hf r hr
    rw [hop, pos_append_of_mem (h.real x b hb).1]
    exact h.o1 x b hb n hf r hr

/-- a tree edge `a → t` to a new atom `t`, entered through `back` -/
theorem RInv.extend {g ord pool s proc} (h : RInv g ord pool s proc) {a t : Nat} (ha : a ∈ ord) (ht : t ∉ ord)
    {b back : Bond} (hb : b.tid = t) (hbk : back.tid = a) (hnew : ¬ PH proc a t)
    (hreal_b : ∃ atomA, g[a]? = some atomA ∧ b ∈ atomA.bonds) (hreal_k : ∃ atomT, g[t]? = some atomT ∧ back ∈ atomT.bonds)
    {s1 : BState} (hlen1 : s1.graph.length = s.graph.length + 1) (hop : s1.opens = s.opens) (herr : s1.errors = s.errors)
    {aes : List Edge} (hva : view s.graph (pos ord a) = some aes)
    (hview : view s1.graph = upd (upd (view s.graph) s.graph.length [⟨back.kind, .id (pos ord a)⟩]) (pos ord a)
      (aes ++ [⟨b.kind, .id s.graph.length⟩])) :
    RInv g (ord ++ [t]) pool s1 (setProc (setProc proc a (proc a ++ [b])) t [back]) := by
  have hat : a ≠ t := fun e => ht (e ▸ ha)
  have hpt : proc t = [] := h.proc_nil ht
  have hnt : ∀ y, ¬ PH proc t y := PH_nil hpt
  have hfat : pool.find (a, t) = none := (h.j2 a t).mpr ⟨fun h' => absurd h' hnew, fun h' => absurd h' (hnt a)⟩
  have hfta : pool.find (t, a) = none := by rw [Pool.find_symm]; exact hfat
  have hpa : pos ord a < ord.length := pos_lt_of_mem ha
  -- the new ghost function, pointwise
  have hP_t : setProc (setProc proc a (proc a ++ [b])) t [back] t = [back] := by simp [setProc]
  have hP_a : setProc (setProc proc a (proc a ++ [b])) t [back] a = proc a ++ [b] := by simp [setProc, hat]
  have hP_o : ∀ x, x ≠ a → x ≠ t → setProc (setProc proc a (proc a ++ [b])) t [back] x = proc x := by
    intro x h1 h2; simp [setProc, h1, h2]
  have hPH : ∀ x y, PH (setProc (setProc proc a (proc a ++ [b])) t [back]) x y ↔
      PH proc x y ∨ (x = a ∧ y = t) ∨ (x = t ∧ y = a) := by
    intro x y
    by_cases hxt : x = t
    · subst hxt
      unfold PH; rw [hP_t]
      constructor
      · rintro ⟨b', hb', h'⟩
        rw [List.mem_singleton] at hb'; subst hb'
        exact Or.inr (Or.inr ⟨rfl, by rw [← h', hbk]⟩)
      · rintro (h' | ⟨h', _⟩ | ⟨_, h'⟩)
        · exact absurd h' (hnt y)
        · exact absurd h'.symm hat
        · exact ⟨back, List.mem_singleton.mpr rfl, by rw [hbk, h']⟩
    · have : PH (setProc (setProc proc a (proc a ++ [b])) t [back]) x y ↔ PH (setProc proc a (proc a ++ [b])) x y := by
        unfold PH; simp [setProc, hxt]
      rw [this, PH_snoc, hb]
      constructor
      · rintro (h' | h'); exact Or.inl h'; exact Or.inr (Or.inl h')
      · rintro (h' | h' | ⟨h', _⟩); exact Or.inl h'; exact Or.inr h'; exact absurd h' hxt
  refine ⟨nodup_snoc h.nd ht, by rw [hlen1, h.len]; simp, h.pinv, by rw [herr]; exact h.errs, ?_, ?_, ?_, ?_, ?_,
    by rw [hop]; exact h.o2⟩
  · -- real
    intro x b' hb'
    by_cases hxt : x = t
    · subst hxt; rw [hP_t] at hb'; simp only [List.mem_singleton] at hb'; subst hb'
      exact ⟨by simp, by rw [hbk]; simp [ha], hreal_k⟩
    · by_cases hxa : x = a
      · subst hxa; rw [hP_a] at hb'
        rcases List.mem_append.mp hb' with h' | h'
        · obtain ⟨h1, h2, h3⟩ := h.real x b' h'; exact ⟨by simp [h1], by simp [h2], h3⟩
        · simp only [List.mem_singleton] at h'; subst h'
          exact ⟨by simp [ha], by rw [hb]; simp, hreal_b⟩
      · rw [hP_o x hxa hxt] at hb'
        obtain ⟨h1, h2, h3⟩ := h.real x b' hb'; exact ⟨by simp [h1], by simp [h2], h3⟩
  · -- uniq
    intro x
    by_cases hxt : x = t
    · subst hxt; rw [hP_t]; simp
    · by_cases hxa : x = a
      · subst hxa; rw [hP_a]
        rw [List.map_append, List.nodup_append]
        refine ⟨h.uniq x, by simp, ?_⟩
        intro y hy z hz
        simp only [List.map_cons, List.map_nil, List.mem_singleton] at hz
        subst hz
        intro e
        obtain ⟨b', hb', hbt⟩ := List.mem_map.mp hy
        exact hnew ⟨b', hb', by rw [hbt, e, hb]⟩
      · rw [hP_o x hxa hxt]; exact h.uniq x
  · -- view
    intro x hx
    by_cases hxt : x = t
    · subst hxt
      refine ⟨[⟨back.kind, .id (pos ord a)⟩], ?_, ?_⟩
      · rw [pos_snoc_new ht, hview, ← h.len, upd_other _ _ (by rw [h.len]; exact Nat.ne_of_gt hpa), upd_same]
      · rw [hP_t]
        simp only [List.map_cons, List.map_nil, eraseE, edgeP, hbk, hfta]
        rw [pos_append_of_mem ha]
    · have hxo : x ∈ ord := by simpa [hxt] using hx
      by_cases hxa : x = a
      · subst hxa
        obtain ⟨es, hv, hes⟩ := h.vw x hxo
        rw [hva] at hv; cases hv
        refine ⟨aes ++ [⟨b.kind, .id s.graph.length⟩], ?_, ?_⟩
        · rw [pos_append_of_mem ha, hview, upd_same]
        · rw [hP_a, List.map_append, List.map_append, hes, map_edgeP_append (fun b' hb' => (h.real x b' hb').2.1)]
          simp only [List.map_cons, List.map_nil, eraseE, edgeP, hb, hfat]
          rw [pos_snoc_new ht, h.len]
      · obtain ⟨es, hv, hes⟩ := h.vw x hxo
        refine ⟨es, ?_, ?_⟩
        · rw [pos_append_of_mem hxo, hview, upd_other _ _ (fun e => hxa (pos_inj hxo ha e)),
            upd_other _ _ (by rw [h.len]; exact Nat.ne_of_lt (pos_lt_of_mem hxo))]
          exact hv
        · rw [hP_o x hxa hxt, hes, map_edgeP_append (fun b' hb' => (h.real x b' hb').2.1)]
  · -- j2
    intro x y
    rw [hPH x y, hPH y x]
    by_cases hxy : (x = a ∧ y = t) ∨ (x = t ∧ y = a)
    · have hf : pool.find (x, y) = none := by
        rcases hxy with ⟨rfl, rfl⟩ | ⟨rfl, rfl⟩
        · exact hfat
        · exact hfta
      have h1 : PH proc x y ∨ (x = a ∧ y = t) ∨ (x = t ∧ y = a) := Or.inr hxy
      have h2 : PH proc y x ∨ (y = a ∧ x = t) ∨ (y = t ∧ x = a) := by
        rcases hxy with ⟨rfl, rfl⟩ | ⟨rfl, rfl⟩
        · exact Or.inr (Or.inr ⟨rfl, rfl⟩)
        · exact Or.inr (Or.inl ⟨rfl, rfl⟩)
      simp [hf, h1, h2]
    · have hyx : ¬ ((y = a ∧ x = t) ∨ (y = t ∧ x = a)) := by
        intro h'; apply hxy
        rcases h' with ⟨h1, h2⟩ | ⟨h1, h2⟩
        · exact Or.inr ⟨h2, h1⟩
        · exact Or.inl ⟨h2, h1⟩
      rw [h.j2 x y]
      simp only [hxy, hyx, or_false]
  · -- o1
    intro x b' hb' n hf r hr
    rw [hop]
    by_cases hxt : x = t
    · subst hxt; rw [hP_t] at hb'; simp only [List.mem_singleton] at hb'; subst hb'
      rw [hbk, hfta] at hf; cases hf
    · by_cases hxa : x = a
      · subst hxa; rw [hP_a] at hb'
        rcases List.mem_append.mp hb' with h' | h'
        · rw [pos_append_of_mem ha]; exact h.o1 x b' h' n hf r hr
        · simp only [List.mem_singleton] at h'; subst h'
          rw [hb, hfat] at hf; cases hf
      · rw [hP_o x hxa hxt] at hb'
        rw [pos_append_of_mem (h.real x b' hb').1]; exact h.o1 x b' hb' n hf r hr

end Purr

namespace Purr
open Purr.Spec

theorem pairEq_at_self {a t x y : Nat} (hxa : x ≠ a) (hxt : x ≠ t) : pairEq (a, t) (x, y) = false := by
  cases h : pairEq (a, t) (x, y) with
  | false => rfl
  | true =>
    rw [pairEq_mk] at h
    rcases h with ⟨h1, _⟩ | ⟨_, h2⟩
    · exact absurd h1.symm hxa
    · exact absurd h2.symm hxt

/-- a ring bond `a → t` met first from `a`: the pool opens it, the builder records a placeholder -/
theorem RInv.opn {g ord pool s proc} (h : RInv g ord pool s proc) {a t : Nat} (ha : a ∈ ord) (ht : t ∈ ord) (hat : a ≠ t)
    {b : Bond} (hb : b.tid = t) (hnew : ¬ PH proc a t) (hreal_b : ∃ atomA, g[a]? = some atomA ∧ b ∈ atomA.bonds)
    (hf : pool.find (a, t) = none) {r : Rnum} (hr : r.val = (pool.hitNat (a, t)).1)
    {s1 : BState} (hlen1 : s1.graph.length = s.graph.length) (hop : s1.opens = (r, pos ord a) :: s.opens)
    (herr : s1.errors = s.errors) {aes : List Edge} (hva : view s.graph (pos ord a) = some aes) {rid : Nat}
    (hview : view s1.graph = upd (view s.graph) (pos ord a) (aes ++ [⟨b.kind, .rnum rid (pos ord a) r⟩])) :
    RInv g ord (pool.hitNat (a, t)).2 s1 (setProc proc a (proc a ++ [b])) := by
  have hnta : ¬ PH proc t a := fun h' => hnew (((h.j2 a t).mp hf).mpr h')
  have hfind : ∀ q, (pool.hitNat (a, t)).2.find q = if pairEq (a, t) q then some r.val else pool.find q := by
    intro q; rw [find_after_open hf, hr]
  have hfresh := hit_open_spec h.pinv hf
  simp only at hfresh
  obtain ⟨_, hnotin, _, hopens⟩ := hfresh
  have hP_a : setProc proc a (proc a ++ [b]) a = proc a ++ [b] := by simp [setProc]
  have hP_o : ∀ x, x ≠ a → setProc proc a (proc a ++ [b]) x = proc x := by intro x h1; simp [setProc, h1]
  -- old processed bonds are not at the pair {a, t}
  have hold : ∀ x, ∀ b' ∈ proc x, pairEq (a, t) (x, b'.tid) = false := by
    intro x b' hb'
    cases hp : pairEq (a, t) (x, b'.tid) with
    | false => rfl
    | true =>
      rw [pairEq_mk] at hp
      rcases hp with ⟨h1, h2⟩ | ⟨h1, h2⟩
      · subst h1; exact absurd ⟨b', hb', h2.symm⟩ hnew
      · subst h2; exact absurd ⟨b', hb', h1.symm⟩ hnta
  refine ⟨h.nd, by rw [hlen1, h.len], inv_hit h.pinv _, by rw [herr]; exact h.errs, ?_, ?_, ?_, ?_, ?_, ?_⟩
  · intro x b' hb'
    by_cases hxa : x = a
    · subst hxa; rw [hP_a] at hb'
      rcases List.mem_append.mp hb' with h' | h'
      · exact h.real x b' h'
      · simp only [List.mem_singleton] at h'; subst h'; exact ⟨ha, by rw [hb]; exact ht, hreal_b⟩
    · rw [hP_o x hxa] at hb'; exact h.real x b' hb'
  · intro x
    by_cases hxa : x = a
    · subst hxa; rw [hP_a, List.map_append, List.nodup_append]
      refine ⟨h.uniq x, by simp, ?_⟩
      intro y hy z hz
      simp only [List.map_cons, List.map_nil, List.mem_singleton] at hz
      subst hz
      intro e
      obtain ⟨b', hb', hbt⟩ := List.mem_map.mp hy
      exact hnew ⟨b', hb', by rw [hbt, e, hb]⟩
    · rw [hP_o x hxa]; exact h.uniq x
  · intro x hx
    by_cases hxa : x = a
    · subst hxa
      obtain ⟨es, hv, hes⟩ := h.vw x hx
      rw [hva] at hv; cases hv
      refine ⟨aes ++ [⟨b.kind, .rnum rid (pos ord x) r⟩], by rw [hview, upd_same], ?_⟩
      rw [hP_a, List.map_append, List.map_append, hes]
      congr 1
      · exact (map_edgeP_pool (fun b' hb' => by rw [hfind, hold x b' hb']; rfl)).symm
      · simp only [List.map_cons, List.map_nil, eraseE, edgeP, hb, hfind]
        have : pairEq (x, t) (x, t) = true := by rw [pairEq_mk]; exact Or.inl ⟨rfl, rfl⟩
        simp [this]
    · obtain ⟨es, hv, hes⟩ := h.vw x hx
      refine ⟨es, by rw [hview, upd_other _ _ (fun e => hxa (pos_inj hx ha e))]; exact hv, ?_⟩
      rw [hP_o x hxa, hes]
      exact (map_edgeP_pool (fun b' hb' => by rw [hfind, hold x b' hb']; rfl)).symm
  · intro x y
    rw [PH_snoc, PH_snoc, hb, hfind]
    by_cases hp : pairEq (a, t) (x, y) = true
    · rw [if_pos hp]
      rw [pairEq_mk] at hp
      rcases hp with ⟨h1, h2⟩ | ⟨h1, h2⟩
      · subst h1; subst h2
        have : ¬ (PH proc t a ∨ (t = a ∧ a = t)) := by
          rintro (h' | ⟨h', _⟩); exact hnta h'; exact hat h'.symm
        simp [this]
      · subst h1; subst h2
        have : ¬ (PH proc t a ∨ (t = a ∧ a = t)) := by
          rintro (h' | ⟨h', _⟩); exact hnta h'; exact hat h'.symm
        simp [this]
    · have hp' : pairEq (a, t) (x, y) = false := by simpa using hp
      rw [hp']
      simp only [Bool.false_eq_true, if_false]
      rw [h.j2 x y]
      have h1 : ¬ (x = a ∧ y = t) := by
        rintro ⟨rfl, rfl⟩; rw [pairEq_mk] at hp; exact hp (Or.inl ⟨rfl, rfl⟩)
      have h2 : ¬ (y = a ∧ x = t) := by
        rintro ⟨rfl, rfl⟩; rw [pairEq_mk] at hp; exact hp (Or.inr ⟨rfl, rfl⟩)
      simp only [h1, h2, or_false]
  · intro x b' hb' n hfn r' hr'
    rw [hop, List.lookup_cons]
    rw [hfind] at hfn
    by_cases hxa : x = a
    · subst hxa; rw [hP_a] at hb'
      rcases List.mem_append.mp hb' with h' | h'
      · rw [hold x b' h'] at hfn
        simp only [Bool.false_eq_true, if_false] at hfn
        have hne : (r' == r) = false := by
          simp only [beq_eq_false_iff_ne]
          intro e; subst e
          exact hnotin (hr ▸ hr' ▸ find_mem_opens hfn)
        rw [hne]; exact h.o1 x b' h' n hfn r' hr'
      · simp only [List.mem_singleton] at h'; subst h'
        have : pairEq (x, t) (x, b'.tid) = true := by rw [pairEq_mk]; exact Or.inl ⟨rfl, hb.symm⟩
        rw [if_pos this] at hfn
        cases hfn
        have : r' = r := Rnum.ext' hr'
        subst this; simp
    · rw [hP_o x hxa] at hb'
      rw [hold x b' hb'] at hfn
      simp only [Bool.false_eq_true, if_false] at hfn
      have hne : (r' == r) = false := by
        simp only [beq_eq_false_iff_ne]
        intro e; subst e
        exact hnotin (hr ▸ hr' ▸ find_mem_opens hfn)
      rw [hne]; exact h.o1 x b' hb' n hfn r' hr'
  · intro r' hr'
    rw [hopens] at hr'
    simp only [List.mem_cons, not_or] at hr'
    rw [hop, List.lookup_cons]
    have hne : (r' == r) = false := by
      simp only [beq_eq_false_iff_ne]
      intro e; subst e; exact hr'.1 hr
    rw [hne]; exact h.o2 r' hr'.2

end Purr

namespace Purr
open Purr.Spec

theorem reconcile_rev_self (k : BondKind) : reconcile k.reverse k = some (k.reverse, k) := by
  cases k <;> rfl

theorem mem_split_tid {l : List Bond} {back : Bond} (hm : back ∈ l) (hnd : (l.map Bond.tid).Nodup) :
    ∃ l1 l2, l = l1 ++ back :: l2 ∧ (∀ o ∈ l1, o.tid ≠ back.tid) ∧ (∀ o ∈ l2, o.tid ≠ back.tid) := by
  obtain ⟨l1, l2, rfl⟩ := List.append_of_mem hm
  refine ⟨l1, l2, rfl, ?_, ?_⟩
  · intro o ho e
    rw [List.map_append, List.nodup_append] at hnd
    exact hnd.2.2 o.tid (List.mem_map.mpr ⟨o, ho, rfl⟩) back.tid (by simp) e
  · intro o ho e
    rw [List.map_append, List.map_cons, List.nodup_append] at hnd
    have := (List.nodup_cons.mp hnd.2.1).1
    exact this (List.mem_map.mpr ⟨o, ho, e⟩)

/-- a ring bond `a → t` already opened from `t`: the pool closes it, the builder resolves both ends -/
theorem RInv.cls {g ord pool s proc} (h : RInv g ord pool s proc) {a t : Nat} (ha : a ∈ ord) (ht : t ∈ ord) (hat : a ≠ t)
    {b : Bond} (hb : b.tid = t) (hnew : ¬ PH proc a t) (hreal_b : ∃ atomA, g[a]? = some atomA ∧ b ∈ atomA.bonds)
    {n : Nat} (hf : pool.find (a, t) = some n)
    {back : Bond} {l1 l2 : List Bond} (hpt : proc t = l1 ++ back :: l2) (hbk : back.tid = a)
    (hl1 : ∀ o ∈ l1, o.tid ≠ a) (hl2 : ∀ o ∈ l2, o.tid ≠ a)
    {s1 : BState} (hlen1 : s1.graph.length = s.graph.length) {r : Rnum} (hr : r.val = n)
    (hop : s1.opens = s.opens.filter (fun p => p.1 != r)) (herr : s1.errors = s.errors)
    {aes es1 es2 : List Edge} (hes1 : es1.map eraseE = l1.map (edgeP ord pool t)) (hes2 : es2.map eraseE = l2.map (edgeP ord pool t))
    (hview : view s1.graph = upd (upd (view s.graph) (pos ord t) (es1 ++ ⟨back.kind, .id (pos ord a)⟩ :: es2)) (pos ord a)
      (aes ++ [⟨b.kind, .id (pos ord t)⟩]))
    (hva : view s.graph (pos ord a) = some aes) :
    RInv g ord (pool.hitNat (a, t)).2 s1 (setProc proc a (proc a ++ [b])) := by
  have hfta : pool.find (t, a) = some n := by rw [Pool.find_symm]; exact hf
  have hPHta : PH proc t a := ⟨back, by rw [hpt]; simp, hbk⟩
  have hfind : ∀ q, (pool.hitNat (a, t)).2.find q = if pairEq (a, t) q then none else pool.find q := by
    intro q; rw [find_after_close hf]
  have hopens := mem_opens_filter h.pinv hf
  have hP_a : setProc proc a (proc a ++ [b]) a = proc a ++ [b] := by simp [setProc]
  have hP_o : ∀ x, x ≠ a → setProc proc a (proc a ++ [b]) x = proc x := by intro x h1; simp [setProc, h1]
  have hpos : pos ord t ≠ pos ord a := fun e => hat (pos_inj ht ha e).symm
  -- processed bonds at the pair {a, t}: only `back` at `t`
  have hold : ∀ x, ∀ b' ∈ proc x, pairEq (a, t) (x, b'.tid) = true → x = t ∧ b'.tid = a := by
    intro x b' hb' hp
    rw [pairEq_mk] at hp
    rcases hp with ⟨h1, h2⟩ | ⟨h1, h2⟩
    · subst h1; exact absurd ⟨b', hb', h2.symm⟩ hnew
    · exact ⟨h2.symm, h1.symm⟩
  have hold_a : ∀ b' ∈ proc a, pairEq (a, t) (a, b'.tid) = false := by
    intro b' hb'
    cases hp : pairEq (a, t) (a, b'.tid) with
    | false => rfl
    | true => exact absurd (hold a b' hb' hp).1 hat
  have hold_l : ∀ o : Bond, o.tid ≠ a → pairEq (a, t) (t, o.tid) = false := by
    intro o ho
    cases hp : pairEq (a, t) (t, o.tid) with
    | false => rfl
    | true =>
      rw [pairEq_mk] at hp
      rcases hp with ⟨h1, _⟩ | ⟨h1, _⟩
      · exact absurd h1 hat
      · exact absurd h1.symm ho
  -- numbers other than `n` are unaffected
  have hne_n : ∀ q m, pool.find q = some m → pairEq (a, t) q = false → m ≠ n := by
    intro q m hq hp e
    subst e
    have := find_inj h.pinv hf hq
    rw [hp] at this; cases this
  refine ⟨h.nd, by rw [hlen1, h.len], inv_hit h.pinv _, by rw [herr]; exact h.errs, ?_, ?_, ?_, ?_, ?_, ?_⟩
  · intro x b' hb'
    by_cases hxa : x = a
    · subst hxa; rw [hP_a] at hb'
      rcases List.mem_append.mp hb' with h' | h'
      · exact h.real x b' h'
      · simp only [List.mem_singleton] at h'; subst h'; exact ⟨ha, by rw [hb]; exact ht, hreal_b⟩
    · rw [hP_o x hxa] at hb'; exact h.real x b' hb'
  · intro x
    by_cases hxa : x = a
    · subst hxa; rw [hP_a, List.map_append, List.nodup_append]
      refine ⟨h.uniq x, by simp, ?_⟩
      intro y hy z hz
      simp only [List.map_cons, List.map_nil, List.mem_singleton] at hz
      subst hz
      intro e
      obtain ⟨b', hb', hbt⟩ := List.mem_map.mp hy
      exact hnew ⟨b', hb', by rw [hbt, e, hb]⟩
    · rw [hP_o x hxa]; exact h.uniq x
  · intro x hx
    by_cases hxa : x = a
    · subst hxa
      obtain ⟨es, hv, hes⟩ := h.vw x hx
      rw [hva] at hv; cases hv
      refine ⟨aes ++ [⟨b.kind, .id (pos ord t)⟩], by rw [hview, upd_same], ?_⟩
      rw [hP_a, List.map_append, List.map_append, hes]
      congr 1
      · exact (map_edgeP_pool (fun b' hb' => by rw [hfind, hold_a b' hb']; rfl)).symm
      · simp only [List.map_cons, List.map_nil, eraseE, edgeP, hb, hfind]
        have : pairEq (x, t) (x, t) = true := by rw [pairEq_mk]; exact Or.inl ⟨rfl, rfl⟩
        simp [this]
    · by_cases hxt : x = t
      · subst hxt
        refine ⟨es1 ++ ⟨back.kind, .id (pos ord a)⟩ :: es2, by rw [hview, upd_other _ _ hpos, upd_same], ?_⟩
        rw [hP_o x hxa, hpt]
        simp only [List.map_append, List.map_cons]
        rw [hes1, hes2]
        congr 1
        · exact (map_edgeP_pool (fun o ho => by rw [hfind, hold_l o (hl1 o ho)]; rfl)).symm
        · congr 1
          · simp only [eraseE, edgeP, hbk, hfind]
            have : pairEq (a, x) (x, a) = true := by rw [pairEq_mk]; exact Or.inr ⟨rfl, rfl⟩
            simp [this]
          · exact (map_edgeP_pool (fun o ho => by rw [hfind, hold_l o (hl2 o ho)]; rfl)).symm
      · obtain ⟨es, hv, hes⟩ := h.vw x hx
        refine ⟨es, ?_, ?_⟩
        · rw [hview, upd_other _ _ (fun e => hxa (pos_inj hx ha e)), upd_other _ _ (fun e => hxt (pos_inj hx ht e))]; exact hv
        · rw [hP_o x hxa, hes]
          exact (map_edgeP_pool (fun b' _ => by rw [hfind, pairEq_at_self hxa hxt]; rfl)).symm
  · intro x y
    rw [PH_snoc, PH_snoc, hb, hfind]
    by_cases hp : pairEq (a, t) (x, y) = true
    · rw [if_pos hp]
      rw [pairEq_mk] at hp
      rcases hp with ⟨h1, h2⟩ | ⟨h1, h2⟩
      · subst h1; subst h2
        have h1 : PH proc a t ∨ (a = a ∧ t = t) := Or.inr ⟨rfl, rfl⟩
        have h2 : PH proc t a ∨ (t = a ∧ a = t) := Or.inl hPHta
        simp [h1, h2]
      · subst h1; subst h2
        have h1 : PH proc a t ∨ (a = a ∧ t = t) := Or.inr ⟨rfl, rfl⟩
        have h2 : PH proc t a ∨ (t = a ∧ a = t) := Or.inl hPHta
        simp [h1, h2]
    · have hp' : pairEq (a, t) (x, y) = false := by simpa using hp
      rw [hp']
      simp only [Bool.false_eq_true, if_false]
      rw [h.j2 x y]
      have h1 : ¬ (x = a ∧ y = t) := by
        rintro ⟨rfl, rfl⟩; rw [pairEq_mk] at hp; exact hp (Or.inl ⟨rfl, rfl⟩)
      have h2 : ¬ (y = a ∧ x = t) := by
        rintro ⟨rfl, rfl⟩; rw [pairEq_mk] at hp; exact hp (Or.inr ⟨rfl, rfl⟩)
      simp only [h1, h2, or_false]
  · intro x b' hb' m hfm r' hr'
    rw [hfind] at hfm
    by_cases hp : pairEq (a, t) (x, b'.tid) = true
    · rw [if_pos hp] at hfm; cases hfm
    · have hp' : pairEq (a, t) (x, b'.tid) = false := by simpa using hp
      rw [hp'] at hfm
      simp only [Bool.false_eq_true, if_false] at hfm
      have hb'' : b' ∈ proc x := by
        by_cases hxa : x = a
        · subst hxa; rw [hP_a] at hb'
          rcases List.mem_append.mp hb' with h' | h'
          · exact h'
          · simp only [List.mem_singleton] at h'; subst h'
            rw [pairEq_mk] at hp; exact absurd (Or.inl ⟨rfl, hb.symm⟩) hp
        · rw [hP_o x hxa] at hb'; exact hb'
      have hmn : m ≠ n := hne_n _ m hfm hp'
      have hrr : r' ≠ r := fun e => hmn (by rw [← hr', e, hr])
      rw [hop, lookup_filter_ne hrr]
      exact h.o1 x b' hb'' m hfm r' hr'
  · intro r' hr'
    rw [hop]
    by_cases hrr : r' = r
    · subst hrr; exact lookup_filter_self r' _
    · rw [lookup_filter_ne hrr]
      apply h.o2
      intro hmem
      apply hr'
      have h1 : (pool.hitNat (a, t)).2.opens = (pool.borrowed.filter (fun e => !pairEq e.1 (a, t))).map (·.2) := by
        simp only [Pool.hitNat, hf, Pool.opens]
      rw [h1, hopens]
      exact ⟨hmem, fun e => hrr (Rnum.ext' (by rw [e, hr]))⟩

end Purr

namespace Purr
open Purr.Spec

/-- the part of the arrival-first bond list that is processed once the prefix `pre` of the bond list is done -/
def procAt (p : Option Nat) (bonds pre : List Bond) : List Bond :=
  (match p with | none => [] | some q => bondsTo bonds q) ++ keep p pre

theorem procAt_all (p : Option Nat) (bonds : List Bond) : procAt p bonds bonds = arrivalFirst p bonds := by
  cases p with
  | none => simp [procAt, arrivalFirst, keep_none]
  | some q => rfl

theorem keep_append (p : Option Nat) (l1 l2 : List Bond) : keep p (l1 ++ l2) = keep p l1 ++ keep p l2 := by
  unfold keep; rw [List.filter_append]

theorem procAt_snoc_other {p : Option Nat} {bonds pre : List Bond} {b : Bond} (h : p ≠ some b.tid) :
    procAt p bonds (pre ++ [b]) = procAt p bonds pre ++ [b] := by
  unfold procAt
  rw [keep_append, keep_cons_other h, List.append_assoc]
  rfl

theorem procAt_snoc_parent {p : Option Nat} {bonds pre : List Bond} {b : Bond} (h : p = some b.tid) :
    procAt p bonds (pre ++ [b]) = procAt p bonds pre := by
  unfold procAt
  rw [keep_append, keep_cons_parent h]
  simp [keep]

/-- the bond being processed has not been processed before -/
theorem notPH_current {proc : Nat → List Bond} {a : Nat} {p : Option Nat} {pre bs : List Bond} {b : Bond} {bonds : List Bond}
    (hpa : proc a = procAt p bonds pre) (hbonds : bonds = pre ++ b :: bs) (hp : p ≠ some b.tid)
    (hu : (bondsTo bonds b.tid).length = 1) : ¬ PH proc a b.tid := by
  rintro ⟨b', hb', ht⟩
  rw [hpa] at hb'
  unfold procAt at hb'
  rcases List.mem_append.mp hb' with h' | h'
  · cases p with
    | none => cases h'
    | some q =>
      simp only at h'
      unfold bondsTo at h'
      have := (List.mem_filter.mp h').2
      simp only [beq_iff_eq] at this
      exact hp (by rw [← this, ht])
  · have hb'pre : b' ∈ pre := (keep_subset h').1
    obtain ⟨l1, l2, rfl⟩ := List.append_of_mem hb'pre
    rw [hbonds] at hu
    unfold bondsTo at hu
    simp only [List.filter_append, List.filter_cons, ht, beq_self_eq_true, if_true, List.length_append, List.length_cons] at hu
    omega

end Purr

namespace Purr
open Purr.Spec

/-- what the simulation establishes for an atom created during it: all its bonds are processed, arrival first -/
def Done (g : Graph) (G : List Node) (ord : List Nat) (proc : Nat → List Bond) (x : Nat) : Prop :=
  ∃ q atomX back, (q ∈ ord ∧ pos ord q < pos ord x) ∧ g[x]? = some atomX ∧ bondsTo atomX.bonds q = [back] ∧
    proc x = arrivalFirst (some q) atomX.bonds ∧
    kindAt G (pos ord x) = some (enterKind q atomX.kind atomX.bonds).invert

theorem Done.lift {g : Graph} {G G' : List Node} {ord : List Nat} {proc proc' : Nat → List Bond} {x : Nat}
    (h : Done g G ord proc x) (hx : x ∈ ord) (more : List Nat) (hp : proc' x = proc x)
    (hk : kindAt G' (pos ord x) = kindAt G (pos ord x)) : Done g G' (ord ++ more) proc' x := by
  obtain ⟨q, atomX, back, hq, hg, hb, hpx, hkx⟩ := h
  exact ⟨q, atomX, back, ⟨by simp [hq.1], by rw [pos_append_of_mem hq.1, pos_append_of_mem hx]; exact hq.2⟩, hg, hb, by rw [hp, hpx],
    by rw [pos_append_of_mem hx, hk, hkx]⟩

/-- RTC, general case: the simulation between the recursive traversal and the graph builder. -/
theorem kids_simR (g : Graph) (hw : WellFormed g) : ∀ (fuel : Nat) (ord : List Nat) (pool : Pool) (a : Nat) (p : Option Nat)
    (bs : List Bond) (cur : Nat) (es : List (Event × Nat)) (ord' : List Nat) (pool' : Pool) (c : Nat),
    kids g fuel ord pool a p bs cur = some (es, ord', pool', c) → a ∈ ord →
    ∀ (atomA : Atom) (pre : List Bond), g[a]? = some atomA → atomA.bonds = pre ++ bs →
    ∀ (s : BState) (C S : List Nat) (proc : Nat → List Bond), RInv g ord pool s proc →
      s.stack = C ++ pos ord a :: S → C.length = cur → proc a = procAt p atomA.bonds pre →
      ∃ s' new proc', brun s (es.map (·.1)) = some s' ∧ ord' = ord ++ new ∧
        (∃ C', s'.stack = C' ++ pos ord a :: S ∧ C'.length = c) ∧
        RInv g ord' pool' s' proc' ∧ proc' a = procAt p atomA.bonds (pre ++ bs) ∧
        (∀ x ∈ ord, x ≠ a → proc' x = proc x) ∧
        (∀ x ∈ new, Done g s'.graph ord' proc' x) := by
  intro fuel
  induction fuel with
  | zero => intro ord pool a p bs cur es ord' pool' c h; simp [kids] at h
  | succ f ih =>
    intro ord pool a p bs cur es ord' pool' c h ha atomA pre hga hbonds s C S proc hinv hs hc hpa
    cases bs with
    | nil =>
      simp only [kids, Option.some.injEq, Prod.mk.injEq] at h
      obtain ⟨rfl, rfl, rfl, rfl⟩ := h
      exact ⟨s, [], proc, by simp [brun], by simp, ⟨C, hs, hc⟩, by simpa using hinv, by simpa using hpa, fun _ _ _ => rfl, by simp⟩
    | cons b bs =>
      have hbonds' : atomA.bonds = (pre ++ [b]) ++ bs := by rw [hbonds]; simp
      have hb_in : b ∈ atomA.bonds := by rw [hbonds]; simp
      obtain ⟨hne, huniq, tatom, htat, back, hback, hkback⟩ := hw a atomA hga b hb_in
      have hbt : back.tid = a := by
        have : back ∈ bondsTo tatom.bonds a := by rw [hback]; simp
        unfold bondsTo at this
        simpa using (List.mem_filter.mp this).2
      have hback_in : back ∈ tatom.bonds := by
        have : back ∈ bondsTo tatom.bonds a := by rw [hback]; simp
        unfold bondsTo at this
        exact (List.mem_filter.mp this).1
      simp only [kids] at h
      split at h
      · -- the bond back to the parent
        rename_i hp
        obtain ⟨s', new, proc', h1, h2, h3, h4, h5, h6, h7⟩ :=
          ih ord pool a p bs cur es ord' pool' c h ha atomA (pre ++ [b]) hga hbonds' s C S proc hinv hs hc
            (by rw [procAt_snoc_parent hp]; exact hpa)
        exact ⟨s', new, proc', h1, h2, h3, h4, by rw [h5]; simp, h6, h7⟩
      · rename_i hp
        have hnew : ¬ PH proc a b.tid := notPH_current hpa hbonds hp huniq
        have hat : a ≠ b.tid := fun e => hne e.symm
        -- after the optional pop
        have hpop := brun_popEv s C (pos ord a :: S) cur hs hc
        have hinv0 : RInv g ord pool { s with stack := pos ord a :: S } proc := hinv.of_eq rfl rfl rfl
        obtain ⟨aes, hva, haes⟩ := hinv.vw a ha
        split at h
        · -- a ring bond
          rename_i hvis
          have htn : b.tid ∈ ord := by simpa using hvis
          split at h
          · rename_i r pool1 hhit
            have hnat := hit_ok hhit
            have hp1 : pool1 = (pool.hitNat (a, b.tid)).2 := by rw [hnat]
            have hr1 : r.val = (pool.hitNat (a, b.tid)).1 := by rw [hnat]
            split at h
            · rename_i es2 ord2 pool2 c2 h2
              simp only [Option.some.injEq, Prod.mk.injEq] at h
              obtain ⟨rfl, rfl, rfl, rfl⟩ := h
              -- one builder step, by cases on the pool
              have hstep : ∃ s1, bstep { s with stack := pos ord a :: S } (.join b.kind r) = some s1 ∧
                  s1.stack = pos ord a :: S ∧ RInv g ord pool1 s1 (setProc proc a (proc a ++ [b])) := by
                cases hf : pool.find (a, b.tid) with
                | none =>
                  have hfresh := hit_open_spec hinv.pinv hf
                  simp only at hfresh
                  have hlk : s.opens.lookup r = none := hinv.o2 r (by rw [hr1]; exact hfresh.2.1)
                  obtain ⟨s1, hb1, hst1, hlen1, hop1, herr1, hview1, _⟩ :=
                    bstep_join_open_view (s := { s with stack := pos ord a :: S }) b.kind r rfl hva hlk
                  refine ⟨s1, hb1, hst1, ?_⟩
                  rw [hp1]
                  exact hinv0.opn ha htn hat rfl hnew ⟨atomA, hga, hb_in⟩ hf hr1 hlen1 hop1 herr1 hva hview1
                | some n =>
                  have hrn : r.val = n := by rw [hr1, hitNat_close_fst hf]
                  have hPHta : PH proc b.tid a := by
                    apply Classical.byContradiction; intro hno
                    have := (hinv.j2 a b.tid).mpr ⟨fun h' => absurd h' hnew, fun h' => absurd h' hno⟩
                    rw [hf] at this; cases this
                  obtain ⟨back', hback'_in, hback't⟩ := hPHta
                  obtain ⟨_, _, atomT, hgT, hbkT⟩ := hinv.real b.tid back' hback'_in
                  have : atomT = tatom := by rw [htat] at hgT; exact (Option.some.inj hgT).symm
                  subst this
                  have hbb : back' = back := by
                    have : back' ∈ bondsTo atomT.bonds a := by
                      unfold bondsTo; exact List.mem_filter.mpr ⟨hbkT, by simpa using hback't⟩
                    rw [hback] at this; simpa using this
                  subst hbb
                  obtain ⟨l1, l2, hsplit, hl1, hl2⟩ := mem_split_tid hback'_in (hinv.uniq b.tid)
                  rw [hbt] at hl1 hl2
                  obtain ⟨tes, hvt, htes⟩ := hinv.vw b.tid htn
                  rw [hsplit, List.map_append, List.map_cons] at htes
                  obtain ⟨es1, rest, rfl, hes1, hrest⟩ := List.map_eq_append_iff.mp htes
                  obtain ⟨e, es2', rfl, he, hes2⟩ := List.map_eq_cons_iff.mp hrest
                  have hfta : pool.find (b.tid, a) = some n := by rw [Pool.find_symm]; exact hf
                  have he' : eraseE e = .opn back'.kind n := by
                    rw [he]; simp only [edgeP, hbt, hfta]
                  have h1 : ∀ e' ∈ es1, isOpenFor r e' = false := by
                    intro e' he'm
                    rw [isOpenFor_iff]
                    have : eraseE e' ∈ l1.map (edgeP ord pool b.tid) := by rw [← hes1]; exact List.mem_map_of_mem he'm
                    obtain ⟨o, ho, hoe⟩ := List.mem_map.mp this
                    rw [← hoe]
                    unfold edgeP
                    cases hfo : pool.find (b.tid, o.tid) with
                    | none => rfl
                    | some m =>
                      simp only [AEdge.isOpn]
                      cases hmn : (m == r.val) with
                      | false => rfl
                      | true =>
                        simp only [beq_iff_eq] at hmn
                        have := find_inj hinv.pinv hf (by rw [hfo, hmn, hrn])
                        rw [pairEq_mk] at this
                        rcases this with ⟨h', _⟩ | ⟨h', _⟩
                        · exact absurd h' hat
                        · exact absurd h'.symm (hl1 o ho)
                  have he1 : isOpenFor r e = true := by
                    rw [isOpenFor_iff, he']; simp [AEdge.isOpn, hrn]
                  have hno : ∀ e' ∈ es1 ++ e :: es2', e'.target ≠ .id (pos ord a) := by
                    intro e' he'm htgt
                    have : eraseE e' ∈ (proc b.tid).map (edgeP ord pool b.tid) := by
                      rw [hsplit, List.map_append, List.map_cons, ← hes1, ← he, ← hes2, ← List.map_cons, ← List.map_append]
                      exact List.mem_map_of_mem he'm
                    obtain ⟨o, ho, hoe⟩ := List.mem_map.mp this
                    have he'id : eraseE e' = .id e'.kind (pos ord a) := by
                      unfold eraseE; rw [htgt]
                    rw [he'id] at hoe
                    unfold edgeP at hoe
                    cases hfo : pool.find (b.tid, o.tid) with
                    | some m => rw [hfo] at hoe; cases hoe
                    | none =>
                      rw [hfo] at hoe
                      simp only [AEdge.id.injEq] at hoe
                      have : o.tid = a := pos_inj (hinv.real b.tid o ho).2.1 ha hoe.2
                      rw [this, hfta] at hfo; cases hfo
                  have hlk : s.opens.lookup r = some (pos ord b.tid) := hinv.o1 b.tid back' hback'_in n (by rw [hbt]; exact hfta) r hrn
                  have hrec : reconcile e.kind b.kind = some (back'.kind, b.kind) := by
                    rw [eraseE_kind he', hkback]; exact reconcile_rev_self b.kind
                  have hposne : pos ord a ≠ pos ord b.tid := fun e => hat (pos_inj ha htn e)
                  obtain ⟨s1, hb1, hst1, hlen1, hop1, herr1, hview1, _⟩ :=
                    bstep_join_close_view (s := { s with stack := pos ord a :: S }) b.kind r back'.kind b.kind rfl hva hlk hvt h1 he1
                      hposne hno hrec
                  refine ⟨s1, hb1, hst1, ?_⟩
                  rw [hp1]
                  exact hinv0.cls ha htn hat rfl hnew ⟨atomA, hga, hb_in⟩ hf hsplit hbt hl1 hl2 hlen1 hrn hop1 herr1 hes1 hes2 hview1 hva
              obtain ⟨s1, hb1, hst1, hinv1⟩ := hstep
              have hpa1 : setProc proc a (proc a ++ [b]) a = procAt p atomA.bonds (pre ++ [b]) := by
                rw [procAt_snoc_other hp, ← hpa]; simp [setProc]
              obtain ⟨s', new, proc', h1, h2', h3, h4, h5, h6, h7⟩ :=
                ih ord pool1 a p bs 0 es2 ord2 pool2 c2 h2 ha atomA (pre ++ [b]) hga hbonds' s1 [] S _ hinv1
                  (by rw [hst1]; rfl) rfl hpa1
              refine ⟨s', new, proc', ?_, h2', h3, h4, by rw [h5]; simp, ?_, h7⟩
              · simp only [List.map_append, List.map_cons]
                rw [brun_append, hpop]
                simp only [Option.bind_some, brun, hb1]
                exact h1
              · intro x hx hxa
                rw [h6 x hx hxa]; simp [setProc, hxa]
            · cases h
          · cases h
        · -- a tree edge
          rename_i hvis
          have htn : b.tid ∉ ord := by simpa using hvis
          split at h
          · cases h
          · rename_i child hchild
            have : tatom = child := by rw [hchild] at htat; exact (Option.some.inj htat).symm
            subst this
            split at h
            · cases h
            · rename_i es1 ord1 pool1 d1 h1
              split at h
              · cases h
              · rename_i es2 ord2 pool2 c2 h2
                simp only [Option.some.injEq, Prod.mk.injEq] at h
                obtain ⟨rfl, rfl, rfl, rfl⟩ := h
                -- extend
                obtain ⟨s1, hb1, hst1, hlen1, hop1, herr1, hview1, hkind1⟩ :=
                  bstep_extend_view (s := { s with stack := pos ord a :: S }) b.kind (enterKind a tatom.kind tatom.bonds) rfl hva
                simp only at hst1 hlen1 hop1 herr1 hview1 hkind1
                have hg0 : s.graph.length = ord.length := hinv.len
                have hinv1 := hinv0.extend ha htn (b := b) (back := back) rfl hbt hnew ⟨atomA, hga, hb_in⟩ ⟨tatom, htat, hback_in⟩
                  hlen1 hop1 herr1 hva (by rw [hview1, hkback])
                have hpos_t : pos (ord ++ [b.tid]) b.tid = ord.length := pos_snoc_new htn
                have hpos_a : pos (ord ++ [b.tid]) a = pos ord a := pos_append_of_mem ha _
                -- the child's subtree
                obtain ⟨s2, new1, proc2, hrun1, hord1, ⟨C1, hst2, hC1⟩, hinv2, hp2t, hfr1, hdone1⟩ :=
                  ih (ord ++ [b.tid]) pool b.tid (some a) tatom.bonds 0 es1 ord1 pool1 d1 h1 (by simp) tatom [] htat rfl
                    s1 [] (pos ord a :: S) _ hinv1 (by rw [hst1, hpos_t, hg0]; rfl) rfl
                    (by simp [setProc, procAt, hback, keep])
                simp only [List.nil_append] at hp2t
                have ha1 : a ∈ ord1 := by rw [hord1]; simp [ha]
                have ht1 : b.tid ∈ ord1 := by rw [hord1]; simp
                have hpos_a1 : pos ord1 a = pos ord a := by rw [hord1, List.append_assoc]; exact pos_append_of_mem ha _
                have hp2a : proc2 a = procAt p atomA.bonds (pre ++ [b]) := by
                  rw [hfr1 a (by simp [ha]) hat, procAt_snoc_other hp, ← hpa]; simp [setProc, hat]
                -- the remaining bonds of a
                obtain ⟨s3, new2, proc3, hrun2, hord2, ⟨C2, hst3, hC2⟩, hinv3, hp3a, hfr2, hdone2⟩ :=
                  ih ord1 pool1 a p bs (1 + d1) es2 ord2 pool2 c2 h2 ha1 atomA (pre ++ [b]) hga hbonds' s2 (C1 ++ [ord.length]) S proc2 hinv2
                    (by rw [hst2, hpos_t, hpos_a1]; simp) (by simp [hC1]; omega) hp2a
                have hord2' : ord2 = ord ++ (b.tid :: new1 ++ new2) := by rw [hord2, hord1]; simp
                have hnd1 : ord1.Nodup := hinv2.nd
                have hrun : brun s ((popEv cur ++ (Event.extend b.kind (enterKind a tatom.kind tatom.bonds), b.tid) :: es1 ++ es2).map (·.1)) = some s3 := by
                  simp only [List.map_append, List.map_cons, List.append_assoc]
                  exact brun_chain hpop hb1 hrun1 hrun2
                refine ⟨s3, b.tid :: new1 ++ new2, proc3, hrun, hord2', ⟨C2, by rw [hst3, hpos_a1], hC2⟩, hinv3,
                  by rw [hp3a]; simp, ?_, ?_⟩
                · intro x hx hxa
                  have hx1 : x ∈ ord1 := by rw [hord1]; simp [hx]
                  have hxt : x ≠ b.tid := fun e => htn (e ▸ hx)
                  rw [hfr2 x hx1 hxa, hfr1 x (by simp [hx]) hxt]
                  simp [setProc, hxa, hxt]
                · intro x hx
                  simp only [List.cons_append, List.mem_cons, List.mem_append] at hx
                  have lift : ∀ y, y ∈ ord1 → y ≠ a → Done g s2.graph ord1 proc2 y → Done g s3.graph ord2 proc3 y := by
                    intro y hy hya hd
                    rw [hord2]
                    exact hd.lift hy new2 (hfr2 y hy hya)
                      (brun_kindAt hrun2 (by rw [hinv2.len]; exact pos_lt_of_mem hy))
                  rcases hx with hx | hx | hx
                  · subst hx
                    apply lift b.tid ht1 (Ne.symm hat)
                    have hpx : pos ord1 b.tid = ord.length := by
                      rw [hord1, pos_append_of_mem (by simp : b.tid ∈ ord ++ [b.tid])]; exact hpos_t
                    have hpa : pos ord1 a < pos ord1 b.tid := by
                      rw [hpx, hord1, List.append_assoc, pos_append_of_mem ha]; exact pos_lt_of_mem ha
                    refine ⟨a, tatom, back, ⟨ha1, hpa⟩, htat, hback, by rw [hp2t, procAt_all], ?_⟩
                    rw [hpx, brun_kindAt hrun1 (by rw [hlen1, hg0]; omega), ← hg0]; exact hkind1
                  · have hx1 : x ∈ ord1 := by rw [hord1]; simp [hx]
                    have hxa : x ≠ a := by
                      intro e; subst e
                      rw [hord1] at hnd1
                      exact (List.nodup_append.mp hnd1).2.2 x (by simp [ha]) x hx rfl
                    exact lift x hx1 hxa (hdone1 x hx)
                  · exact hdone2 x hx

end Purr

namespace Purr
open Purr.Spec

/-- an atom whose bonds are all processed -/
def Fin (g : Graph) (G : List Node) (ord : List Nat) (proc : Nat → List Bond) (x : Nat) : Prop :=
  ∃ atomX arr, g[x]? = some atomX ∧ (∀ q, arr = some q → (q ∈ ord ∧ pos ord q < pos ord x) ∧ ∃ back, bondsTo atomX.bonds q = [back]) ∧
    proc x = arrivalFirst arr atomX.bonds ∧ kindAt G (pos ord x) = some (enteredKind arr atomX)

theorem Done.fin {g G ord proc x} (h : Done g G ord proc x) : Fin g G ord proc x := by
  obtain ⟨q, atomX, back, hq, hg, hb, hp, hk⟩ := h
  exact ⟨atomX, some q, hg, fun q' h' => by cases h'; exact ⟨hq, back, hb⟩, hp, hk⟩

theorem Fin.lift {g : Graph} {G G' : List Node} {ord : List Nat} {proc proc' : Nat → List Bond} {x : Nat}
    (h : Fin g G ord proc x) (hx : x ∈ ord) (more : List Nat) (hp : proc' x = proc x)
    (hk : kindAt G' (pos ord x) = kindAt G (pos ord x)) : Fin g G' (ord ++ more) proc' x := by
  obtain ⟨atomX, arr, hg, harr, hpx, hkx⟩ := h
  exact ⟨atomX, arr, hg, fun q hq => ⟨⟨by simp [(harr q hq).1.1],
      by rw [pos_append_of_mem (harr q hq).1.1, pos_append_of_mem hx]; exact (harr q hq).1.2⟩, (harr q hq).2⟩, by rw [hp, hpx],
    by rw [pos_append_of_mem hx, hk, hkx]⟩

/-- RTC, general case, all components -/
theorem comps_simR (g : Graph) (hw : WellFormed g) (fuel : Nat) : ∀ (ids : List Nat) (ord : List Nat) (pool : Pool)
    (es : List (Event × Nat)) (ord' : List Nat) (pool' : Pool),
    comps g fuel ids ord pool = some (es, ord', pool') →
    ∀ (s : BState) (proc : Nat → List Bond), RInv g ord pool s proc → (∀ x ∈ ord, Fin g s.graph ord proc x) →
      ∃ s' new proc', brun s (es.map (·.1)) = some s' ∧ ord' = ord ++ new ∧ RInv g ord' pool' s' proc' ∧
        (∀ x ∈ ord', Fin g s'.graph ord' proc' x) ∧ (∀ id ∈ ids, id < g.length → id ∈ ord')
  | [], ord, pool, es, ord', pool', h, s, proc, hinv, hfin => by
    simp only [comps, Option.some.injEq, Prod.mk.injEq] at h
    obtain ⟨rfl, rfl, rfl⟩ := h
    exact ⟨s, [], proc, by simp [brun], by simp, hinv, hfin, by simp⟩
  | id :: ids, ord, pool, es, ord', pool', h, s, proc, hinv, hfin => by
    simp only [comps] at h
    split at h
    · rename_i hvis
      obtain ⟨s', new, proc', h1, h2, h3, h4, h5⟩ := comps_simR g hw fuel ids ord pool es ord' pool' h s proc hinv hfin
      refine ⟨s', new, proc', h1, h2, h3, h4, ?_⟩
      intro i hi hlt
      simp only [List.mem_cons] at hi
      rcases hi with rfl | hi
      · rw [h2]; simp [by simpa using hvis]
      · exact h5 i hi hlt
    · rename_i hvis
      have hid : id ∉ ord := by simpa using hvis
      split at h
      · cases h
      · rename_i root hroot
        split at h
        · cases h
        · rename_i es1 ord1 pool1 c1 h1
          split at h
          · cases h
          · rename_i es2 ord2 pool2 h2
            simp only [Option.some.injEq, Prod.mk.injEq] at h
            obtain ⟨rfl, rfl, rfl⟩ := h
            obtain ⟨s1, hb1, hst1, hlen1, hop1, herr1, hview1, hkind1⟩ := bstep_root_view s root.kind
            have hinv1 := hinv.root hid hlen1 hop1 herr1 hview1
            have hpos : pos (ord ++ [id]) id = ord.length := pos_snoc_new hid
            have hlen := hinv.len
            obtain ⟨s2, new1, proc2, hrun1, hord1, _, hinv2, hp2, hfr1, hdone1⟩ :=
              kids_simR g hw fuel (ord ++ [id]) pool id none root.bonds 0 es1 ord1 pool1 c1 h1 (by simp) root [] hroot rfl
                s1 [] s.stack proc hinv1 (by rw [hst1, hpos, hlen]; rfl) rfl
                (by rw [hinv.proc_nil hid]; simp [procAt, keep])
            have hfin2 : ∀ x ∈ ord1, Fin g s2.graph ord1 proc2 x := by
              intro x hx
              rw [hord1] at hx ⊢
              simp only [List.mem_append, List.mem_singleton] at hx
              rcases hx with (hx | hx) | hx
              · have hxid : x ≠ id := fun e => hid (e ▸ hx)
                rw [List.append_assoc]
                apply (hfin x hx).lift hx _ (hfr1 x (by simp [hx]) hxid)
                rw [brun_kindAt hrun1 (by rw [hlen1, hlen]; have := pos_lt_of_mem hx; omega), kindAt_eq, kindAt_eq]
                have := bstep_kinds hb1
                rw [this, List.getElem?_append_left (by simpa [hlen] using pos_lt_of_mem hx)]
              · subst hx
                refine ⟨root, none, hroot, (by intro q h; cases h), ?_, ?_⟩
                · rw [hp2]; simp only [List.nil_append]; exact procAt_all none root.bonds
                · have : pos ((ord ++ [x]) ++ new1) x = pos (ord ++ [x]) x := pos_append_of_mem (by simp) _
                  rw [this, hpos, brun_kindAt hrun1 (by rw [hlen1]; omega), ← hlen]; exact hkind1
              · rw [← hord1]; exact (hdone1 x hx).fin
            obtain ⟨s3, new2, proc3, hrun2, hord2, hinv3, hfin3, hids⟩ :=
              comps_simR g hw fuel ids ord1 pool1 es2 ord2 pool2 h2 s2 proc2 hinv2 hfin2
            refine ⟨s3, id :: new1 ++ new2, proc3, ?_, by rw [hord2, hord1]; simp, hinv3, hfin3, ?_⟩
            · simp only [List.map_cons, List.map_append]
              have : brun s ([] ++ Event.root root.kind :: (es1.map (·.1) ++ es2.map (·.1))) = some s3 :=
                brun_chain (s0 := s) rfl hb1 hrun1 hrun2
              simpa using this
            · intro i hi hlt
              simp only [List.mem_cons] at hi
              rcases hi with rfl | hi
              · rw [hord2, hord1]; simp
              · exact hids i hi hlt

theorem RInv.init (g : Graph) : RInv g [] Pool.init BState.init (fun _ => []) := by
  refine ⟨by simp, rfl, Pool.inv_init, rfl, by simp, by simp, by simp, ?_, by simp, ?_⟩
  · intro x y
    have : Pool.init.find (x, y) = none := by simp [Pool.find, Pool.init]
    simp [this, PH]
  · intro r _; rfl

theorem erase_all_id {ord : List Nat} : ∀ {es : List Edge} {l : List Bond},
    es.map eraseE = l.map (fun b => AEdge.id b.kind (pos ord b.tid)) → es = l.map (edgeOf ord)
  | [], [], _ => rfl
  | [], _ :: _, h => by simp at h
  | _ :: _, [], h => by simp at h
  | e :: es, b :: l, h => by
    simp only [List.map_cons, List.cons.injEq] at h
    simp only [List.map_cons, List.cons.injEq]
    exact ⟨eraseE_id h.1, erase_all_id h.2⟩

/-- RTC: building from the events of the traversal of ANY well-formed graph gives the graph renumbered in
    visit order with every arrival bond first. -/
theorem rtcP (g : Graph) (hw : WellFormed g) (es : List (Event × Nat)) (ord : List Nat)
    (h : walkRecL g = some (es, ord)) :
    ∃ g', build? (es.map (·.1)) = some (.ok g') ∧ RelabelledP g ord g' ∧ ord.Nodup ∧ (∀ x, x < g.length ↔ x ∈ ord) := by
  unfold walkRecL at h
  split at h
  · cases h
  · simp only [Option.map_eq_some_iff] at h
    obtain ⟨⟨es0, ord0, pool0⟩, hc, heq⟩ := h
    simp only [Prod.mk.injEq] at heq
    obtain ⟨rfl, rfl⟩ := heq
    obtain ⟨s', new, proc, hrun, hord, hinv, hfin, hids⟩ :=
      comps_simR g hw (recFuel g) (List.range g.length) [] .init es0 ord0 pool0 hc .init (fun _ => []) (RInv.init g) (by simp)
    have hnd := hinv.nd
    have hlen := hinv.len
    -- at the end no pair is open
    have hclosed : ∀ x ∈ ord0, ∀ b ∈ proc x, pool0.find (x, b.tid) = none := by
      intro x hx b hb
      rw [hinv.j2]
      obtain ⟨_, htn, atomX, hgx, hbx⟩ := hinv.real x b hb
      obtain ⟨_, _, tatom, htat, back, hback, _⟩ := hw x atomX hgx b hbx
      obtain ⟨atomT, arr, hgt, _, hpt, _⟩ := hfin b.tid htn
      rw [htat] at hgt; cases hgt
      have hbk : back ∈ proc b.tid := by
        rw [hpt]
        apply (arrivalFirst_perm arr tatom.bonds).symm.subset
        have : back ∈ bondsTo tatom.bonds x := by rw [hback]; simp
        unfold bondsTo at this; exact (List.mem_filter.mp this).1
      have hbt : back.tid = x := by
        have : back ∈ bondsTo tatom.bonds x := by rw [hback]; simp
        unfold bondsTo at this; simpa using (List.mem_filter.mp this).2
      exact ⟨fun _ => ⟨back, hbk, hbt⟩, fun _ => ⟨b, hb, rfl⟩⟩
    have hok : ∀ x ∈ ord0, ∃ atomX arr, g[x]? = some atomX ∧
        (∀ q, arr = some q → (q ∈ ord0 ∧ pos ord0 q < pos ord0 x) ∧ ∃ back, bondsTo atomX.bonds q = [back]) ∧
        view s'.graph (pos ord0 x) = some ((arrivalFirst arr atomX.bonds).map (edgeOf ord0)) ∧
        kindAt s'.graph (pos ord0 x) = some (enteredKind arr atomX) := by
      intro x hx
      obtain ⟨atomX, arr, hgx, harr, hpx, hkx⟩ := hfin x hx
      obtain ⟨tes, hv, htes⟩ := hinv.vw x hx
      refine ⟨atomX, arr, hgx, harr, ?_, hkx⟩
      rw [hv, ← hpx]
      congr 1
      apply erase_all_id
      rw [htes]
      apply List.map_congr_left
      intro b hb
      unfold edgeP; rw [hclosed x hx b hb]
    have hpos_surj : ∀ i, i < s'.graph.length → ∃ x ∈ ord0, pos ord0 x = i := by
      intro i hi
      rw [hlen] at hi
      refine ⟨ord0[i], List.getElem_mem hi, ?_⟩
      unfold pos
      exact (List.Nodup.idxOf_getElem hnd i hi)
    have hall : ∀ n ∈ s'.graph, ∀ e ∈ n.edges, ∃ t, e.target = .id t := by
      intro n hn e he
      obtain ⟨i, hi, hni⟩ := List.getElem_of_mem hn
      obtain ⟨x, hx, hpx⟩ := hpos_surj i hi
      obtain ⟨atomX, arr, _, _, hv, _⟩ := hok x hx
      rw [hpx] at hv
      obtain ⟨n', hn', hne'⟩ := view_some hv
      rw [List.getElem?_eq_getElem hi, hni] at hn'
      cases hn'
      rw [hne'] at he
      simp only [List.mem_map] at he
      obtain ⟨b, _, rfl⟩ := he
      exact ⟨_, rfl⟩
    have hbuild := buildNodes_all_id s'.graph hall
    refine ⟨s'.graph.map (fun n => ⟨n.kind, n.edges.map toBond⟩), ?_, ⟨by simp [hlen], ?_⟩, hnd, ?_⟩
    · unfold build?
      rw [hrun]
      simp only [Option.map_some, BState.build, hinv.errs, hbuild]
    · intro x hx
      obtain ⟨atomX, arr, hg, harr, hv, hk⟩ := hok x hx
      refine ⟨atomX, arr, hg, harr, ?_⟩
      obtain ⟨n, hn, hne⟩ := view_some hv
      rw [List.getElem?_map, hn]
      simp only [Option.map_some]
      have hkn : n.kind = enteredKind arr atomX := by
        unfold kindAt at hk; rw [hn] at hk; simpa using hk
      rw [hkn, hne, List.map_map]
      rfl
    · intro x
      constructor
      · intro hx
        have := hids x (by simp [hx]) hx
        simpa using this
      · intro hx
        obtain ⟨atomX, _, hg, _⟩ := hok x hx
        apply Nat.lt_of_not_le; intro hge
        rw [List.getElem?_eq_none_iff.mpr hge] at hg; cases hg

/-- RTC: building from the events of the traversal of ANY well-formed graph gives the graph renumbered in
    visit order with every arrival bond first. -/
theorem rtc (g : Graph) (hw : WellFormed g) (es : List (Event × Nat)) (ord : List Nat)
    (h : walkRecL g = some (es, ord)) :
    ∃ g', build? (es.map (·.1)) = some (.ok g') ∧ Relabelled g ord g' ∧ ord.Nodup ∧ (∀ x, x < g.length ↔ x ∈ ord) := by
  obtain ⟨g', h1, h2, h3, h4⟩ := rtcP g hw es ord h
  exact ⟨g', h1, h2.relabelled, h3, h4⟩

end Purr
