/- Corollaries of the round-trip core for the property files C01 / C03 / C12. -/
import Purr.Lemmas.RtcL
import Purr.Spec.Iso
namespace Purr
open Purr.Spec

theorem constitution_flipMark (k : AtomKind) : constitution k.flipMark = constitution k := by
  cases k with
  | bracket b =>
    obtain ⟨iso, sym, cfg, h, q, m⟩ := b
    cases cfg <;> rfl
  | _ => rfl

theorem constitution_invert (k : AtomKind) : constitution k.invert = constitution k := by
  rw [invert_eq]; split
  · exact constitution_flipMark k
  · rfl

theorem constitution_scanChild (sid tid : Nat) (k : AtomKind) : ∀ (bs : List Bond) (i : Nat),
    constitution (scanChild sid tid k bs i).1 = constitution k
  | [], _ => rfl
  | o :: os, i => by
    simp only [scanChild]
    have ih := constitution_scanChild sid tid k os (i + 1)
    generalize scanChild sid tid k os (i + 1) = r at ih ⊢
    obtain ⟨k', backs, pushes⟩ := r
    simp only at ih ⊢
    by_cases ho : o.tid = sid
    · simp only [ho, if_true]
      split <;> (split <;> first | (rw [constitution_flipMark]; exact ih) | exact ih)
    · simp only [ho, if_false]; exact ih

theorem constitution_enteredKind (arr : Option Nat) (atom : Atom) : constitution (enteredKind arr atom) = constitution atom.kind := by
  cases arr with
  | none => rfl
  | some q =>
    simp only [enteredKind, enterKind]
    rw [constitution_invert, constitution_scanChild]

theorem arrivalFirst_perm (arr : Option Nat) (bs : List Bond) : (arrivalFirst arr bs).Perm bs := by
  cases arr with
  | none => exact List.Perm.refl _
  | some q =>
    simp only [arrivalFirst, bondsTo, keep]
    have : (fun b : Bond => decide (some q ≠ some b.tid)) = (fun b => !(b.tid == q)) := by
      funext b; by_cases h : b.tid = q
      · simp [h]
      · have h' : ¬ q = b.tid := fun e => h e.symm
        simp [h, h']
    rw [this]
    exact List.filter_append_perm _ bs

/-- a relabelled graph is isomorphic to the original along the visit order -/
theorem Relabelled.iso {g : Graph} {ord : List Nat} {g' : Graph} (h : Relabelled g ord g') (hnd : ord.Nodup)
    (hcov : ∀ x, x < g.length ↔ x ∈ ord) : Iso g g' (pos ord) := by
  obtain ⟨hlen, hnodes⟩ := h
  -- ord has exactly the atoms of g
  have hl : ord.length = g.length := by
    have h1 : ord.Perm (List.range g.length) := by
      rw [List.perm_ext_iff_of_nodup hnd List.nodup_range]
      intro x; rw [List.mem_range]; exact (hcov x).symm
    rw [h1.length_eq, List.length_range]
  refine ⟨by rw [hlen, hl], ?_, ?_, ?_⟩
  · intro a ha; rw [← hl]; exact pos_lt_of_mem ((hcov a).mp ha)
  · intro a b ha hb hab; exact pos_inj ((hcov a).mp ha) ((hcov b).mp hb) hab
  · intro a atom hga
    have ha : a < g.length := by
      apply Nat.lt_of_not_le; intro hge
      rw [List.getElem?_eq_none_iff.mpr hge] at hga; cases hga
    obtain ⟨atomX, arr, hgx, _, hnode⟩ := hnodes a ((hcov a).mp ha)
    rw [hga] at hgx; cases hgx
    refine ⟨_, hnode, constitution_enteredKind arr atom, ?_⟩
    simp only [List.map_map]
    exact ((arrivalFirst_perm arr atom.bonds).map _).symm

end Purr

namespace Purr
open Purr.Spec

theorem bondsTo_singleton_split : ∀ {bs : List Bond} {q : Nat} {back : Bond}, bondsTo bs q = [back] →
    ∃ pre post, bs = pre ++ back :: post ∧ back.tid = q ∧ (∀ o ∈ pre, o.tid ≠ q) ∧ (∀ o ∈ post, o.tid ≠ q)
  | [], _, _, h => by simp [bondsTo] at h
  | b :: bs, q, back, h => by
    unfold bondsTo at h
    by_cases hb : (b.tid == q) = true
    · rw [List.filter_cons] at h
      simp only [hb, if_true] at h
      simp only [List.cons.injEq] at h
      obtain ⟨rfl, hnil⟩ := h
      refine ⟨[], bs, rfl, by simpa using hb, by simp, ?_⟩
      intro o ho hoq
      have : o ∈ bs.filter (fun b => b.tid == q) := by simp [ho, hoq]
      rw [hnil] at this; cases this
    · rw [List.filter_cons] at h
      simp only [hb, if_false] at h
      obtain ⟨pre, post, h1, h2, h3, h4⟩ := bondsTo_singleton_split (bs := bs) h
      refine ⟨b :: pre, post, by rw [h1]; rfl, h2, ?_, h4⟩
      intro o ho
      simp only [List.mem_cons] at ho
      rcases ho with rfl | ho
      · simpa using hb
      · exact h3 o ho

/-- the kind recorded for an atom entered from `q` through the bond at index `j` of its bond list: the
    original kind with the `@`/`@@` mark flipped iff `j` is odd -/
theorem enteredKind_parity {atom : Atom} {q : Nat} {back : Bond} (h : bondsTo atom.bonds q = [back]) :
    ∃ pre post, atom.bonds = pre ++ back :: post ∧ (∀ o ∈ pre, o.tid ≠ q) ∧
      enteredKind (some q) atom = flipN pre.length atom.kind := by
  obtain ⟨pre, post, h1, h2, h3, h4⟩ := bondsTo_singleton_split h
  refine ⟨pre, post, h1, h3, ?_⟩
  simp only [enteredKind, enterKind]
  rw [scanChild_kind q 0 atom.kind atom.bonds 0 pre post back h1 h2 h3 h4]
  simp only [Nat.zero_add]
  exact walk_then_build_parity pre.length atom.kind

end Purr

namespace Purr
open Purr.Spec

/-- moving the arrival bond to the front, spelled out on the split bond list -/
theorem arrivalFirst_split {pre post : List Bond} {back : Bond} {q : Nat} (hb : back.tid = q)
    (hpre : ∀ o ∈ pre, o.tid ≠ q) (hpost : ∀ o ∈ post, o.tid ≠ q) :
    arrivalFirst (some q) (pre ++ back :: post) = back :: (pre ++ post) := by
  have hf : ∀ (l : List Bond), (∀ o ∈ l, o.tid ≠ q) → bondsTo l q = [] ∧ keep (some q) l = l := by
    intro l hl
    constructor
    · unfold bondsTo
      rw [List.filter_eq_nil_iff]
      intro o ho; simpa using hl o ho
    · unfold keep
      rw [List.filter_eq_self]
      intro o ho; simpa using fun e => hl o ho e.symm
  simp only [arrivalFirst]
  have h1 : bondsTo (pre ++ back :: post) q = [back] := by
    unfold bondsTo
    rw [List.filter_append, List.filter_cons]
    have := (hf pre hpre).1; unfold bondsTo at this; rw [this]
    have := (hf post hpost).1; unfold bondsTo at this; rw [this]
    simp [hb]
  have h2 : keep (some q) (pre ++ back :: post) = pre ++ post := by
    unfold keep
    rw [List.filter_append, List.filter_cons]
    have := (hf pre hpre).2; unfold keep at this; rw [this]
    have := (hf post hpost).2; unfold keep at this; rw [this]
    simp [hb]
  rw [h1, h2]; rfl

/-- the per-atom content of `Relabelled`, with the arrival bond located in the original bond list: a
    component root keeps its bond list and kind; an atom entered from `q` through the bond at index
    `pre.length` has that bond moved to the front, everything else in order, and its `@`/`@@` mark flipped
    iff that index is odd. -/
theorem Relabelled.detail {g : Graph} {ord : List Nat} {g' : Graph} (h : Relabelled g ord g') (x : Nat) (hx : x ∈ ord) :
    ∃ atomX, g[x]? = some atomX ∧
      (g'[pos ord x]? = some ⟨atomX.kind, atomX.bonds.map (fun b => ⟨b.kind, pos ord b.tid⟩)⟩ ∨
       ∃ q pre back post, q ∈ ord ∧ atomX.bonds = pre ++ back :: post ∧ back.tid = q ∧
         (∀ o ∈ pre, o.tid ≠ q) ∧ (∀ o ∈ post, o.tid ≠ q) ∧
         g'[pos ord x]? = some ⟨flipN pre.length atomX.kind,
           (back :: (pre ++ post)).map (fun b => ⟨b.kind, pos ord b.tid⟩)⟩) := by
  obtain ⟨atomX, arr, hg, harr, hg'⟩ := h.2 x hx
  refine ⟨atomX, hg, ?_⟩
  cases arr with
  | none => left; exact hg'
  | some q =>
    right
    obtain ⟨hq, back, hback⟩ := harr q rfl
    obtain ⟨pre, post, h1, h2, h3, h4⟩ := bondsTo_singleton_split hback
    obtain ⟨pre', post', h1', h3', hk⟩ := enteredKind_parity hback
    -- the two splits coincide
    have hsame : pre' = pre := by
      have : pre ++ back :: post = pre' ++ back :: post' := by rw [← h1, ← h1']
      clear hk h1 h1' hg' hback
      induction pre generalizing pre' with
      | nil =>
        cases pre' with
        | nil => rfl
        | cons c cs =>
          simp only [List.nil_append, List.cons_append, List.cons.injEq] at this
          exact absurd h2 (this.1 ▸ h3' c (by simp))
      | cons c cs ih =>
        cases pre' with
        | nil =>
          simp only [List.nil_append, List.cons_append, List.cons.injEq] at this
          exact absurd h2 (this.1 ▸ h3 c (by simp))
        | cons c' cs' =>
          simp only [List.cons_append, List.cons.injEq] at this
          rw [this.1, ih (fun o ho => h3 o (by simp [ho])) cs' (fun o ho => h3' o (by simp [ho])) this.2]
    subst hsame
    refine ⟨q, pre', back, post, hq, h1, h2, h3, h4, ?_⟩
    rw [hg', hk, h1, arrivalFirst_split h2 h3 h4]

end Purr
