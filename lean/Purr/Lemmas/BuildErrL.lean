/- C10, second sentence: when and why `build` fails.  A `Join` error is recorded exactly by a closing ring digit whose
   two atoms are the same, already bonded, or carry irreconcilable kinds; an `Rnum` error names a ring digit that was
   recorded as an opening and whose number is never written again. -/
import Purr.Lemmas.BuilderL
import Purr.Lemmas.TraceIdxL
import Purr.Lemmas.RtcRing
import Purr.Lemmas.TraceBondL
namespace Purr

/-- the closing digit `.join b r` written while atom `a` is the head meets the ring opened on atom `c`, and the closure
    cannot be made: same atom, the two atoms are bonded already, or the two written kinds are irreconcilable -/
def JoinDefect (s : BState) (b : BondKind) (r : Rnum) (a c : Nat) : Prop :=
  s.stack.head? = some a ∧ s.opens.lookup r = some c ∧
  ∃ tnode edge, s.graph[c]? = some tnode ∧ tnode.edges.find? (isOpenFor r) = some edge ∧
    (a = c ∨ hasIdEdge tnode a = true ∨ reconcile edge.kind b = none)

def Defect (s : BState) (e : Event) (a c : Nat) : Prop := ∃ b r, e = .join b r ∧ JoinDefect s b r a c

/-- one step either records nothing and has no defect, or records exactly the defect it has -/
theorem bstep_errors_exact {s s' : BState} {e : Event} (hb : bstep s e = some s') :
    (s'.errors = s.errors ∧ ∀ a c, ¬ Defect s e a c) ∨ (∃ a c, Defect s e a c ∧ s'.errors = s.errors ++ [.join a c]) := by
  cases e with
  | root k =>
    simp only [bstep, Option.some.injEq] at hb; subst hb
    exact Or.inl ⟨rfl, fun a c ⟨_, _, h, _⟩ => by cases h⟩
  | pop d =>
    simp only [bstep, Option.some.injEq] at hb; subst hb
    exact Or.inl ⟨rfl, fun a c ⟨_, _, h, _⟩ => by cases h⟩
  | extend bk k =>
    simp only [bstep] at hb
    split at hb
    · cases hb
    · split at hb
      · simp only [Option.some.injEq] at hb; subst hb
        exact Or.inl ⟨rfl, fun a c ⟨_, _, h, _⟩ => by cases h⟩
      · cases hb
  | join bk r =>
    simp only [bstep] at hb
    split at hb
    · cases hb
    · rename_i sid rest hst
      split at hb
      · split at hb
        · rename_i tid hl
          split at hb
          · cases hb
          · rename_i tnode htn
            split at hb
            · cases hb
            · rename_i edge hedge
              split at hb
              · rename_i hdef
                simp only [Option.some.injEq] at hb; subst hb
                refine Or.inr ⟨sid, tid, ⟨bk, r, rfl, by simp [hst], hl, tnode, edge, htn, hedge, ?_⟩, rfl⟩
                rcases hdef with h | h
                · exact Or.inl h
                · exact Or.inr (Or.inl h)
              · rename_i hdef
                split at hb
                · simp only [Option.some.injEq] at hb; subst hb
                  rename_i left right hrec
                  refine Or.inl ⟨rfl, ?_⟩
                  rintro a c ⟨bk', r', he, h1, h2, tnode', edge', h3, h4, h5⟩
                  cases he
                  rw [hst] at h1; simp only [List.head?_cons, Option.some.injEq] at h1; subst h1
                  rw [hl] at h2; cases h2
                  rw [htn] at h3; cases h3
                  rw [hedge] at h4; cases h4
                  rcases h5 with h | h | h
                  · exact hdef (Or.inl h)
                  · exact hdef (Or.inr h)
                  · rw [hrec] at h; cases h
                · rename_i hrec
                  simp only [Option.some.injEq] at hb; subst hb
                  exact Or.inr ⟨sid, tid, ⟨bk, r, rfl, by simp [hst], hl, tnode, edge, htn, hedge, Or.inr (Or.inr hrec)⟩, rfl⟩
        · rename_i hl
          simp only [Option.some.injEq] at hb; subst hb
          refine Or.inl ⟨rfl, ?_⟩
          rintro a c ⟨bk', r', he, _, h2, _⟩
          cases he
          rw [hl] at h2; cases h2
      · cases hb

/-- the first error of a run is the defect of the step that recorded it, met in an error-free state -/
theorem brun_first_error : ∀ (es : List Event) {s s' : BState} {e0 : BuildError} {l : List BuildError},
    brun s es = some s' → s.errors = [] → s'.errors = e0 :: l →
    ∃ pre ev post s1, es = pre ++ ev :: post ∧ brun s pre = some s1 ∧ s1.errors = [] ∧ ∃ a c, Defect s1 ev a c ∧ e0 = .join a c
  | [], s, s', e0, l, hr, he, h0 => by
    simp only [brun, Option.some.injEq] at hr; subst hr; rw [he] at h0; cases h0
  | e :: es, s, s', e0, l, hr, he, h0 => by
    simp only [brun] at hr
    cases hb : bstep s e with
    | none => rw [hb] at hr; cases hr
    | some s1 =>
      rw [hb] at hr
      rcases bstep_errors_exact hb with ⟨hsame, _⟩ | ⟨a, c, hd, happ⟩
      · obtain ⟨pre, ev, post, s2, h1, h2, h3, h4⟩ := brun_first_error es hr (by rw [hsame, he]) h0
        exact ⟨e :: pre, ev, post, s2, by rw [h1]; rfl, by simp [brun, hb, h2], h3, h4⟩
      · refine ⟨[], e, es, s, rfl, rfl, he, a, c, hd, ?_⟩
        obtain ⟨l2, hl2⟩ := brun_errors_prefix hr
        rw [happ, he] at hl2
        rw [hl2] at h0
        simp only [List.nil_append, List.cons_append, List.cons.injEq] at h0
        exact h0.1.symm
where
  brun_errors_prefix : ∀ {es : List Event} {s s' : BState}, brun s es = some s' → ∃ l, s'.errors = s.errors ++ l
    | [], s, s', h => by simp only [brun, Option.some.injEq] at h; subst h; exact ⟨[], by simp⟩
    | e :: es, s, s', h => by
      simp only [brun] at h
      cases hb : bstep s e with
      | none => rw [hb] at h; cases h
      | some s1 =>
        rw [hb] at h
        obtain ⟨l2, h2⟩ := brun_errors_prefix h
        rcases bstep_errors_exact hb with ⟨hsame, _⟩ | ⟨a, c, _, happ⟩
        · exact ⟨l2, by rw [h2, hsame]⟩
        · exact ⟨[.join a c] ++ l2, by rw [h2, happ]; simp⟩

/-- a run stays error-free exactly when no step meets a defect -/
theorem brun_no_error_iff : ∀ (es : List Event) {s s' : BState}, brun s es = some s' → s.errors = [] →
    (s'.errors = [] ↔ ∀ pre ev post s1, es = pre ++ ev :: post → brun s pre = some s1 → ∀ a c, ¬ Defect s1 ev a c)
  | [], s, s', hr, he => by
    simp only [brun, Option.some.injEq] at hr; subst hr
    exact ⟨fun _ pre ev post s1 h => by simp at h, fun _ => he⟩
  | e :: es, s, s', hr, he => by
    simp only [brun] at hr
    cases hb : bstep s e with
    | none => rw [hb] at hr; cases hr
    | some s1 =>
      rw [hb] at hr
      rcases bstep_errors_exact hb with ⟨hsame, hno⟩ | ⟨a, c, hd, happ⟩
      · have ih := brun_no_error_iff es hr (by rw [hsame, he])
        constructor
        · intro h pre ev post s2 hsplit hpre a' c'
          cases pre with
          | nil =>
            simp only [List.nil_append, List.cons.injEq] at hsplit
            obtain ⟨rfl, rfl⟩ := hsplit
            simp only [brun, Option.some.injEq] at hpre; subst hpre
            exact hno a' c'
          | cons p pre =>
            simp only [List.cons_append, List.cons.injEq] at hsplit
            obtain ⟨rfl, hsplit⟩ := hsplit
            simp only [brun, hb] at hpre
            exact ih.mp h pre ev post s2 hsplit hpre a' c'
        · intro h
          apply ih.mpr
          intro pre ev post s2 hsplit hpre
          exact h (e :: pre) ev post s2 (by rw [hsplit]; rfl) (by simp [brun, hb, hpre])
      · constructor
        · intro h
          obtain ⟨l2, hl2⟩ := brun_first_error.brun_errors_prefix hr
          rw [happ, he, h] at hl2
          simp at hl2
        · intro h
          exact absurd hd (h [] e es s rfl rfl a c)

end Purr

namespace Purr

/-! ### placeholders, ring-digit indices and parity -/

/-- how often ring number `r` has been written -/
def countR (es : List Event) (r : Rnum) : Nat := ((writtenJoins es).filter (fun p => p.2 == r)).length

theorem writtenJoins_append : ∀ (a b : List Event), writtenJoins (a ++ b) = writtenJoins a ++ writtenJoins b
  | [], _ => rfl
  | .root k :: a, b => by simp [writtenJoins, writtenJoins_append a b]
  | .extend bk k :: a, b => by simp [writtenJoins, writtenJoins_append a b]
  | .join bk r :: a, b => by simp [writtenJoins, writtenJoins_append a b]
  | .pop d :: a, b => by simp [writtenJoins, writtenJoins_append a b]

theorem closeEdge_filter_ne {r r' : Rnum} (hne : r' ≠ r) (k : BondKind) (sid : Nat) : ∀ (es : List Edge),
    (closeEdge r k sid es).filter (isOpenFor r') = es.filter (isOpenFor r')
  | [] => rfl
  | e :: es => by
    simp only [closeEdge]
    split
    · rename_i ho
      have h1 : isOpenFor r' e = false := by
        unfold isOpenFor at ho ⊢
        cases ht : e.target with
        | id t => rfl
        | rnum i x r'' =>
          rw [ht] at ho
          simp only [beq_iff_eq] at ho
          subst ho
          simp only [beq_eq_false_iff_ne, ne_eq]
          exact fun h => hne h.symm
      have h2 : isOpenFor r' (⟨k, .id sid⟩ : Edge) = false := rfl
      rw [List.filter_cons, List.filter_cons]
      simp [h1, h2]
    · rw [List.filter_cons, List.filter_cons, closeEdge_filter_ne hne k sid es]

theorem closeEdge_filter_self (r : Rnum) (k : BondKind) (sid : Nat) : ∀ (es : List Edge),
    ((closeEdge r k sid es).filter (isOpenFor r)).length = (es.filter (isOpenFor r)).length - 1
  | [] => rfl
  | e :: es => by
    simp only [closeEdge]
    split
    · rename_i ho
      have h2 : isOpenFor r (⟨k, .id sid⟩ : Edge) = false := rfl
      rw [List.filter_cons, List.filter_cons]
      simp [ho, h2]
    · rename_i ho
      rw [List.filter_cons, List.filter_cons]
      simp only [ho, Bool.false_eq_true, if_false]
      exact closeEdge_filter_self r k sid es

theorem closeEdge_placeholder_mem {r : Rnum} {k : BondKind} {sid : Nat} {es : List Edge} {e : Edge} {i x : Nat} {r' : Rnum}
    (h : e ∈ closeEdge r k sid es) (ht : e.target = .rnum i x r') : e ∈ es := by
  rcases mem_closeEdge r k sid es e h with h | h
  · exact h
  · rw [h] at ht; cases ht

/-- the placeholder part, over the pointwise view of the node list -/
def PHok (N : View) (opens : List (Rnum × Nat)) (wj : List (BondKind × Rnum)) : Prop :=
  (∀ (x : Nat) (es : List Edge) (e : Edge) (i x' : Nat) (r : Rnum), N x = some es → e ∈ es → e.target = .rnum i x' r →
      opens.lookup r = some x ∧ wj[i]? = some (e.kind, r) ∧ ∀ j, i < j → (wj[j]?).map (·.2) ≠ some r) ∧
  (∀ (x : Nat) (es : List Edge) (r : Rnum), N x = some es → (es.filter (isOpenFor r)).length ≤ 1)

/-- invariant of an error-free run: every placeholder is the record of an opening digit that has not been answered -/
structure PInv (es1 : List Event) (s : BState) : Prop where
  rid : s.rid = (writtenJoins es1).length
  ph : PHok (view s.graph) s.opens (writtenJoins es1)
  par : ∀ r, (s.opens.lookup r).isSome = (countR es1 r % 2 == 1)

theorem PInv.init : PInv [] BState.init :=
  ⟨rfl, ⟨by intro x es e i x' r h; simp [view, BState.init] at h, by intro x es r h; simp [view, BState.init] at h⟩,
   by intro r; simp [BState.init, countR, writtenJoins]⟩

theorem isOpenFor_id (r : Rnum) (k : BondKind) (t : Nat) : isOpenFor r (⟨k, .id t⟩ : Edge) = false := rfl

/-- a new node that holds only resolved bonds -/
theorem PHok.newNode {N : View} {opens : List (Rnum × Nat)} {wj : List (BondKind × Rnum)} (h : PHok N opens wj) (n : Nat)
    (ids : List Edge) (hid : ∀ e ∈ ids, ∃ k t, e = ⟨k, .id t⟩) : PHok (upd N n ids) opens wj := by
  refine ⟨?_, ?_⟩
  · intro x es e i x' r hx he ht
    by_cases hxn : x = n
    · subst hxn
      rw [upd_same] at hx; cases hx
      obtain ⟨k, t, rfl⟩ := hid e he
      cases ht
    · rw [upd_other _ _ hxn] at hx
      exact h.1 x es e i x' r hx he ht
  · intro x es r hx
    by_cases hxn : x = n
    · subst hxn
      rw [upd_same] at hx; cases hx
      have : ids.filter (isOpenFor r) = [] := by
        rw [List.filter_eq_nil_iff]
        intro e he
        obtain ⟨k, t, rfl⟩ := hid e he
        simp [isOpenFor_id]
      rw [this]; simp
    · rw [upd_other _ _ hxn] at hx
      exact h.2 x es r hx

/-- a resolved bond appended to an existing node -/
theorem PHok.addId {N : View} {opens : List (Rnum × Nat)} {wj : List (BondKind × Rnum)} (h : PHok N opens wj) {n : Nat}
    {es0 : List Edge} (hn : N n = some es0) (k : BondKind) (t : Nat) : PHok (upd N n (es0 ++ [⟨k, .id t⟩])) opens wj := by
  refine ⟨?_, ?_⟩
  · intro x es e i x' r hx he ht
    by_cases hxn : x = n
    · subst hxn
      rw [upd_same] at hx; cases hx
      simp only [List.mem_append, List.mem_singleton] at he
      rcases he with he | rfl
      · exact h.1 x es0 e i x' r hn he ht
      · cases ht
    · rw [upd_other _ _ hxn] at hx
      exact h.1 x es e i x' r hx he ht
  · intro x es r hx
    by_cases hxn : x = n
    · subst hxn
      rw [upd_same] at hx; cases hx
      rw [List.filter_append]
      simp only [List.filter_cons, isOpenFor_id, Bool.false_eq_true, if_false, List.filter_nil, List.append_nil]
      exact h.2 x es0 r hn
    · rw [upd_other _ _ hxn] at hx
      exact h.2 x es r hx

theorem countR_snoc_join (es1 : List Event) (b : BondKind) (r r' : Rnum) :
    countR (es1 ++ [.join b r]) r' = countR es1 r' + (if r == r' then 1 else 0) := by
  unfold countR
  rw [writtenJoins_append]
  simp only [writtenJoins, List.filter_append, List.length_append]
  rw [List.filter_cons]
  by_cases h : r = r'
  · subst h; simp
  · have : (r == r') = false := by simpa using h
    simp [this]

theorem countR_snoc_other (es1 : List Event) (e : Event) (hj : ∀ b r, e ≠ .join b r) (r' : Rnum) :
    countR (es1 ++ [e]) r' = countR es1 r' := by
  unfold countR
  rw [writtenJoins_append]
  cases e with
  | join b r => exact absurd rfl (hj b r)
  | root k => simp [writtenJoins]
  | extend b k => simp [writtenJoins]
  | pop d => simp [writtenJoins]

theorem writtenJoins_snoc_other (es1 : List Event) (e : Event) (hj : ∀ b r, e ≠ .join b r) :
    writtenJoins (es1 ++ [e]) = writtenJoins es1 := by
  rw [writtenJoins_append]
  cases e with
  | join b r => exact absurd rfl (hj b r)
  | root k => simp [writtenJoins]
  | extend b k => simp [writtenJoins]
  | pop d => simp [writtenJoins]

theorem getElem?_snoc_ne {α} (l : List α) (x : α) {j : Nat} (h : j ≠ l.length) : (l ++ [x])[j]? = l[j]? := by
  by_cases hlt : j < l.length
  · exact List.getElem?_append_left hlt
  · have h1 : l.length < j := by omega
    rw [List.getElem?_eq_none_iff.mpr (by simp; omega), List.getElem?_eq_none_iff.mpr (by omega)]

end Purr

namespace Purr

theorem view_get {g : List Node} {i : Nat} {n : Node} (h : g[i]? = some n) : view g i = some n.edges := by
  simp [view, h]

theorem find_mem_filter {r : Rnum} {es : List Edge} {e : Edge} (h : es.find? (isOpenFor r) = some e) :
    e ∈ es ∧ isOpenFor r e = true := ⟨List.mem_of_find?_eq_some h, by simpa using List.find?_some h⟩

theorem isOpenFor_target {r : Rnum} {e : Edge} (h : isOpenFor r e = true) : ∃ i x, e.target = .rnum i x r := by
  unfold isOpenFor at h
  cases ht : e.target with
  | id t => rw [ht] at h; cases h
  | rnum i x r' => rw [ht] at h; simp only [beq_iff_eq] at h; subst h; exact ⟨i, x, rfl⟩

theorem isOpenFor_of_target {r : Rnum} {e : Edge} {i x : Nat} (h : e.target = .rnum i x r) : isOpenFor r e = true := by
  unfold isOpenFor; rw [h]; simp

theorem PInv.step {es1 : List Event} {s s' : BState} {e : Event} (h : PInv es1 s) (hb : bstep s e = some s')
    (herr : s'.errors = []) : PInv (es1 ++ [e]) s' := by
  cases e with
  | root k =>
    simp only [bstep, Option.some.injEq] at hb; subst hb
    have hw := writtenJoins_snoc_other es1 (.root k) (by intro b r hh; cases hh)
    refine ⟨by rw [hw]; exact h.rid, ?_, ?_⟩
    · simp only; rw [hw, view_snoc]
      exact h.ph.newNode _ [] (by intro e he; cases he)
    · intro r; rw [countR_snoc_other es1 _ (by intro b r hh; cases hh)]; exact h.par r
  | pop d =>
    simp only [bstep, Option.some.injEq] at hb; subst hb
    have hw := writtenJoins_snoc_other es1 (.pop d) (by intro b r hh; cases hh)
    refine ⟨by rw [hw]; exact h.rid, by simp only; rw [hw]; exact h.ph, ?_⟩
    intro r; rw [countR_snoc_other es1 _ (by intro b r hh; cases hh)]; exact h.par r
  | extend bk k =>
    simp only [bstep] at hb
    split at hb
    · cases hb
    · rename_i sid rest hst
      split at hb
      · rename_i hlt
        simp only [Option.some.injEq] at hb; subst hb
        have hw := writtenJoins_snoc_other es1 (.extend bk k) (by intro b r hh; cases hh)
        refine ⟨by rw [hw]; exact h.rid, ?_, ?_⟩
        · simp only; rw [hw]
          obtain ⟨n, hn⟩ : ∃ n, s.graph[sid]? = some n := ⟨s.graph[sid], List.getElem?_eq_getElem hlt⟩
          have hn' : (s.graph ++ [⟨k.invert, [⟨bk.reverse, .id sid⟩]⟩])[sid]? = some n := by
            rw [List.getElem?_append_left hlt]; exact hn
          rw [view_addEdge hn', view_snoc]
          have h1 := h.ph.newNode s.graph.length [⟨bk.reverse, .id sid⟩] (by intro e he; simp at he; exact ⟨_, _, he⟩)
          have hv : upd (view s.graph) s.graph.length [⟨bk.reverse, .id sid⟩] sid = some n.edges := by
            rw [upd_other _ _ (by omega)]; exact view_get hn
          exact h1.addId hv bk s.graph.length
        · intro r; rw [countR_snoc_other es1 _ (by intro b r hh; cases hh)]; exact h.par r
      · cases hb
  | join bk r =>
    simp only [bstep] at hb
    split at hb
    · cases hb
    · rename_i sid rest hst
      split at hb
      · rename_i hlt
        obtain ⟨n, hn⟩ : ∃ n, s.graph[sid]? = some n := ⟨s.graph[sid], List.getElem?_eq_getElem hlt⟩
        have hwj : writtenJoins (es1 ++ [.join bk r]) = writtenJoins es1 ++ [(bk, r)] := by
          rw [writtenJoins_append]; rfl
        split at hb
        · -- closing
          rename_i tid hl
          split at hb
          · cases hb
          · rename_i tnode htn
            split at hb
            · cases hb
            · rename_i edge hedge
              split at hb
              · simp only [Option.some.injEq] at hb; subst hb
                simp at herr
              · rename_i hdef
                split at hb
                · rename_i left right hrec
                  simp only [Option.some.injEq] at hb; subst hb
                  obtain ⟨hem, heo⟩ := find_mem_filter hedge
                  refine ⟨by simp only; rw [hwj, h.rid]; simp, ?_, ?_⟩
                  · simp only
                    rw [hwj]
                    -- the graph: node tid with its placeholder for r resolved, node sid with a resolved bond appended
                    have hmod := view_modify (g := s.graph) htn (closeEdge r left sid)
                    obtain ⟨n', hn'⟩ : ∃ n', (s.graph.modify tid (fun n => { n with edges := closeEdge r left sid n.edges }))[sid]? = some n' := by
                      have hl' : sid < (s.graph.modify tid (fun n => { n with edges := closeEdge r left sid n.edges })).length := by
                        rw [List.length_modify]; exact hlt
                      exact ⟨_, List.getElem?_eq_getElem hl'⟩
                    have hvn' := view_get hn'
                    rw [view_addEdge hn']
                    -- first the closed node
                    have hclosed : PHok (upd (view s.graph) tid (closeEdge r left sid tnode.edges))
                        (s.opens.filter (fun p => p.1 != r)) (writtenJoins es1 ++ [(bk, r)]) := by
                      refine ⟨?_, ?_⟩
                      · intro x es e i x' r' hx he ht
                        -- e is a placeholder of the old graph at x
                        have hold : ∃ es0, view s.graph x = some es0 ∧ e ∈ es0 := by
                          by_cases hxt : x = tid
                          · subst hxt
                            rw [upd_same] at hx; cases hx
                            exact ⟨tnode.edges, view_get htn, closeEdge_placeholder_mem he ht⟩
                          · rw [upd_other _ _ hxt] at hx; exact ⟨es, hx, he⟩
                        obtain ⟨es0, hv0, he0⟩ := hold
                        obtain ⟨h1, h2, h3⟩ := h.ph.1 x es0 e i x' r' hv0 he0 ht
                        have hne : r' ≠ r := by
                          intro heq; subst heq
                          -- then x = tid and e is still open in the closed list, which has none left
                          rw [hl] at h1; cases h1
                          rw [upd_same] at hx; cases hx
                          have hcnt := closeEdge_filter_self r' left sid tnode.edges
                          have hle := h.ph.2 tid tnode.edges r' (view_get htn)
                          have hmem : e ∈ (closeEdge r' left sid tnode.edges).filter (isOpenFor r') :=
                            List.mem_filter.mpr ⟨he, isOpenFor_of_target ht⟩
                          have hpos := List.length_pos_of_mem hmem
                          omega
                        refine ⟨by rw [lookup_filter_ne' hne]; exact h1, ?_, ?_⟩
                        · have hi : i < (writtenJoins es1).length := by
                            apply Nat.lt_of_not_le; intro hge
                            rw [List.getElem?_eq_none_iff.mpr hge] at h2; cases h2
                          rw [List.getElem?_append_left hi]; exact h2
                        · intro j hij
                          by_cases hj : j = (writtenJoins es1).length
                          · subst hj; simp; exact fun heq => hne heq.symm
                          · rw [getElem?_snoc_ne _ _ hj]; exact h3 j hij
                      · intro x es r' hx
                        by_cases hxt : x = tid
                        · subst hxt
                          rw [upd_same] at hx; cases hx
                          have hle := h.ph.2 x tnode.edges r' (view_get htn)
                          by_cases hr : r' = r
                          · subst hr
                            have := closeEdge_filter_self r' left sid tnode.edges
                            omega
                          · rw [closeEdge_filter_ne hr]; exact hle
                        · rw [upd_other _ _ hxt] at hx; exact h.ph.2 x es r' hx
                    rw [hmod] at hvn' ⊢
                    exact hclosed.addId hvn' right tid
                  · intro r'
                    rw [countR_snoc_join]
                    by_cases hr : r = r'
                    · subst hr
                      rw [lookup_filter_self']
                      have hp := h.par r
                      rw [hl] at hp
                      simp only [Option.isSome_some, beq_self_eq_true, if_true] at hp ⊢
                      have : countR es1 r % 2 = 1 := by simpa using hp.symm
                      simp; omega
                    · have hr' : r' ≠ r := fun e => hr e.symm
                      rw [lookup_filter_ne' hr']
                      have : (r == r') = false := by simpa using hr
                      simp [this, h.par r']
                · simp only [Option.some.injEq] at hb; subst hb
                  simp at herr
        · -- opening
          rename_i hl
          simp only [Option.some.injEq] at hb; subst hb
          refine ⟨by simp only; rw [hwj, h.rid]; simp, ?_, ?_⟩
          · simp only
            rw [hwj, view_addEdge hn]
            refine ⟨?_, ?_⟩
            · intro x es e i x' r' hx he ht
              by_cases hnew : x = sid ∧ e = ⟨bk, .rnum s.rid sid r⟩
              · obtain ⟨rfl, rfl⟩ := hnew
                cases ht
                refine ⟨by simp, ?_, ?_⟩
                · rw [h.rid]; simp
                · intro j hij
                  rw [h.rid] at hij
                  rw [List.getElem?_eq_none_iff.mpr (by simp; omega)]; simp
              · have hold : ∃ es0, view s.graph x = some es0 ∧ e ∈ es0 := by
                  by_cases hxs : x = sid
                  · subst hxs
                    rw [upd_same] at hx; cases hx
                    simp only [List.mem_append, List.mem_singleton] at he
                    rcases he with he | he
                    · exact ⟨n.edges, view_get hn, he⟩
                    · exact absurd ⟨rfl, he⟩ hnew
                  · rw [upd_other _ _ hxs] at hx; exact ⟨es, hx, he⟩
                obtain ⟨es0, hv0, he0⟩ := hold
                obtain ⟨h1, h2, h3⟩ := h.ph.1 x es0 e i x' r' hv0 he0 ht
                have hne : r' ≠ r := by intro heq; subst heq; rw [hl] at h1; cases h1
                refine ⟨?_, ?_, ?_⟩
                · simp only [List.lookup_cons]
                  have : (r' == r) = false := by simpa using hne
                  rw [this]; exact h1
                · have hi : i < (writtenJoins es1).length := by
                    apply Nat.lt_of_not_le; intro hge
                    rw [List.getElem?_eq_none_iff.mpr hge] at h2; cases h2
                  rw [List.getElem?_append_left hi]; exact h2
                · intro j hij
                  by_cases hj : j = (writtenJoins es1).length
                  · subst hj; simp; exact fun heq => hne heq.symm
                  · rw [getElem?_snoc_ne _ _ hj]; exact h3 j hij
            · intro x es r' hx
              by_cases hxs : x = sid
              · subst hxs
                rw [upd_same] at hx; cases hx
                rw [List.filter_append]
                have hle := h.ph.2 x n.edges r' (view_get hn)
                by_cases hr : r' = r
                · subst hr
                  -- no placeholder for r' existed anywhere
                  have hnone : n.edges.filter (isOpenFor r') = [] := by
                    rw [List.filter_eq_nil_iff]
                    intro e he ho
                    obtain ⟨i, x', ht⟩ := isOpenFor_target (by simpa using ho)
                    have := (h.ph.1 x n.edges e i x' r' (view_get hn) he ht).1
                    rw [hl] at this; cases this
                  rw [hnone]; simp [List.filter_cons]
                  split <;> simp
                · have : isOpenFor r' (⟨bk, .rnum s.rid x r⟩ : Edge) = false := by
                    unfold isOpenFor; simp; exact fun e => hr e.symm
                  simp only [List.filter_cons, this, Bool.false_eq_true, if_false, List.filter_nil, List.append_nil]
                  exact hle
              · rw [upd_other _ _ hxs] at hx; exact h.ph.2 x es r' hx
          · intro r'
            rw [countR_snoc_join]
            by_cases hr : r = r'
            · subst hr
              have hp := h.par r
              rw [hl] at hp
              simp only [List.lookup_cons, beq_self_eq_true, Option.isSome_some, if_true]
              have : ¬ (countR es1 r % 2 = 1) := by simpa using hp.symm
              simp; omega
            · have : (r' == r) = false := by simpa using (fun e : r' = r => hr e.symm)
              have h2 : (r == r') = false := by simpa using hr
              simp only [List.lookup_cons, this, h2]
              simpa using h.par r'
      · cases hb

end Purr

namespace Purr

theorem PInv.run : ∀ (es2 : List Event) {es1 : List Event} {s s' : BState}, PInv es1 s → brun s es2 = some s' → s'.errors = [] →
    PInv (es1 ++ es2) s'
  | [], es1, s, s', h, hr, _ => by
    simp only [brun, Option.some.injEq] at hr; subst hr; simpa using h
  | e :: es2, es1, s, s', h, hr, herr => by
    simp only [brun] at hr
    cases hb : bstep s e with
    | none => rw [hb] at hr; cases hr
    | some s1 =>
      rw [hb] at hr
      have herr1 : s1.errors = [] := by
        obtain ⟨l, hl⟩ := brun_first_error.brun_errors_prefix hr
        rw [herr] at hl
        exact (List.append_eq_nil_iff.mp hl.symm).1
      have := PInv.run es2 (h.step hb herr1) hr herr
      simpa [List.append_assoc] using this

theorem nodeBonds_error : ∀ {es : List Edge} {err : BuildError}, nodeBonds es = .error err →
    ∃ i, err = .rnum i ∧ ∃ e ∈ es, ∃ x r, e.target = .rnum i x r
  | [], err, h => by simp [nodeBonds] at h
  | e :: es, err, h => by
    simp only [nodeBonds] at h
    split at h
    · cases hr : nodeBonds es with
      | error err' =>
        rw [hr] at h
        simp [Except.map] at h
        subst h
        obtain ⟨i, hi, e', he', x, r, ht⟩ := nodeBonds_error hr
        exact ⟨i, hi, e', List.mem_cons_of_mem _ he', x, r, ht⟩
      | ok bs => rw [hr] at h; simp [Except.map] at h
    · rename_i rid x r ht
      cases h
      exact ⟨rid, rfl, e, by simp, x, r, ht⟩

theorem buildNodes_error : ∀ {ns : List Node} {err : BuildError}, buildNodes ns = .error err →
    ∃ i, err = .rnum i ∧ ∃ (x : Nat) (node : Node), ns[x]? = some node ∧ ∃ e ∈ node.edges, ∃ (x' : Nat) (r : Rnum), e.target = Target.rnum i x' r
  | [], err, h => by simp [buildNodes] at h
  | n :: ns, err, h => by
    simp only [buildNodes] at h
    cases hb : nodeBonds n.edges with
    | error e =>
      rw [hb] at h; cases h
      obtain ⟨i, hi, e', he', x', r, ht⟩ := nodeBonds_error hb
      exact ⟨i, hi, 0, n, rfl, e', he', x', r, ht⟩
    | ok bs =>
      rw [hb] at h
      simp only at h
      cases hr : buildNodes ns with
      | error e =>
        rw [hr] at h
        simp [Except.map] at h
        subst h
        obtain ⟨i, hi, x, node, hx, rest⟩ := buildNodes_error hr
        exact ⟨i, hi, x + 1, node, by simp [hx], rest⟩
      | ok g => rw [hr] at h; simp [Except.map] at h

theorem nodeBonds_total : ∀ {es : List Edge}, (∀ e ∈ es, ∃ t, e.target = .id t) → ∃ bs, nodeBonds es = .ok bs
  | [], _ => ⟨[], rfl⟩
  | e :: es, h => by
    obtain ⟨t, ht⟩ := h e (by simp)
    obtain ⟨bs, hbs⟩ := nodeBonds_total (fun e' he' => h e' (List.mem_cons_of_mem _ he'))
    exact ⟨⟨e.kind, t⟩ :: bs, by simp [nodeBonds, ht, hbs, Except.map]⟩

theorem buildNodes_total : ∀ {ns : List Node}, (∀ (x : Nat) (node : Node), ns[x]? = some node → ∀ e ∈ node.edges, ∃ t, e.target = Target.id t) →
    ∃ g, buildNodes ns = .ok g
  | [], _ => ⟨[], rfl⟩
  | n :: ns, h => by
    obtain ⟨bs, hbs⟩ := nodeBonds_total (h 0 n rfl)
    obtain ⟨g, hg⟩ := buildNodes_total (ns := ns) (fun x node hx => h (x + 1) node (by simp [hx]))
    exact ⟨⟨n.kind, bs⟩ :: g, by simp [buildNodes, hbs, hg, Except.map]⟩

/-- conformant histories drive the builder, and the opens table stays backed by placeholders -/
theorem brun_bsafe : ∀ (es : List Event) {ps ps' : Option Nat} {s : BState}, BSafe ps s → protoRun ps es = some ps' →
    ∃ s', brun s es = some s' ∧ BSafe ps' s'
  | [], ps, ps', s, hs, hp => by
    simp only [protoRun, Option.some.injEq] at hp; subst hp; exact ⟨s, rfl, hs⟩
  | e :: es, ps, ps', s, hs, hp => by
    simp only [protoRun] at hp
    split at hp
    · rename_i ps1 hstep
      obtain ⟨s1, hb, hs1⟩ := bstep_safe hs hstep
      obtain ⟨s', hr, hs'⟩ := brun_bsafe es hs1 hp
      exact ⟨s', by simp [brun, hb, hr], hs'⟩
    · cases hp

end Purr
