/- C15, whose end a bond cursor is: every entry (x, y) ↦ c of the trace's bond table points at the bond token in front of
   the atom token of the later of x and y (a chain / branch bond: both directions report it) or in front of a
   ring-closure token that was written while x was the head (a ring closure: each direction reports its own end). -/
import Purr.Lemmas.TraceBondL
import Purr.Lemmas.TraceIdxL
namespace Purr

/-- the head atom at each ring-closure token of a located run (stack replay from `st`, `n` atoms so far) -/
def joinHeads : List Nat → Nat → List LEvent → List Nat
  | _, _, [] => []
  | st, n, .root _ _ _ :: evs => joinHeads (n :: st) (n + 1) evs
  | st, n, .extend _ _ _ _ :: evs => joinHeads (n :: st) (n + 1) evs
  | st, n, .join _ _ _ _ _ :: evs => st.headD 0 :: joinHeads st n evs
  | st, n, .pop d :: evs => joinHeads (st.drop d) n evs

/-- the bond kind each atom token was attached with (none for a root), in atom order -/
def atomBonds : List LEvent → List (Option BondKind)
  | [] => []
  | .root _ _ _ :: evs => none :: atomBonds evs
  | .extend b _ _ _ :: evs => some b :: atomBonds evs
  | .join _ _ _ _ _ :: evs => atomBonds evs
  | .pop _ :: evs => atomBonds evs

/-- what an entry of the bond table must say -/
def EntryOK (s : Str) (atoms : List (Nat × Nat)) (abonds : List (Option BondKind)) (rnums : List (Nat × Nat))
    (jbonds : List BondKind) (heads : List Nat) (e : (Nat × Nat) × Nat) : Prop :=
  ∃ (b : BondKind) (rest : Str), e.2 ≤ s.length ∧ readBond (s.drop e.2) = (b, rest) ∧
    ((∃ (ch : Nat) (q : Nat), (ch = e.1.1 ∨ ch = e.1.2) ∧ e.1.1 ≤ ch ∧ e.1.2 ≤ ch ∧ e.1.1 ≠ e.1.2 ∧
        atoms[ch]? = some (s.length - rest.length, q) ∧ abonds[ch]? = some (some b))
     ∨ (∃ (k : Nat) (q : Nat), rnums[k]? = some (s.length - rest.length, q) ∧ heads[k]? = some e.1.1 ∧ jbonds[k]? = some b))

structure TE (s : Str) (t : TState) (abonds : List (Option BondKind)) (jbonds : List BondKind) (heads : List Nat) : Prop where
  bonds : ∀ e ∈ t.bonds, EntryOK s t.atoms abonds t.rnums jbonds heads e
  opens : ∀ o ∈ t.opens, ∃ (b : BondKind) (rest : Str) (k : Nat), o.2.bondCursor ≤ s.length ∧ readBond (s.drop o.2.bondCursor) = (b, rest) ∧
      t.rnums[k]? = some o.2.rnumCursor ∧ o.2.rnumCursor.1 = s.length - rest.length ∧ heads[k]? = some o.2.sid ∧ jbonds[k]? = some b
  hlen : heads.length = t.rnums.length
  jlen : jbonds.length = t.rnums.length
  alen : abonds.length = t.atoms.length
  stlt : ∀ x ∈ t.stack, x < t.atoms.length

theorem getElem?_append_some {α} {l : List α} {i : Nat} {v : α} (h : l[i]? = some v) (m : List α) : (l ++ m)[i]? = some v := by
  have hi : i < l.length := by
    apply Nat.lt_of_not_le; intro hge
    rw [List.getElem?_eq_none_iff.mpr hge] at h; cases h
  rw [List.getElem?_append_left hi]; exact h

theorem EntryOK.mono {s : Str} {atoms rnums : List (Nat × Nat)} {abonds : List (Option BondKind)} {jbonds : List BondKind}
    {heads : List Nat} {e : (Nat × Nat) × Nat}
    (h : EntryOK s atoms abonds rnums jbonds heads e) (a2 r2 : List (Nat × Nat)) (ab2 : List (Option BondKind))
    (jb2 : List BondKind) (h2 : List Nat) :
    EntryOK s (atoms ++ a2) (abonds ++ ab2) (rnums ++ r2) (jbonds ++ jb2) (heads ++ h2) e := by
  obtain ⟨b, rest, hle, hrb, hc⟩ := h
  refine ⟨b, rest, hle, hrb, ?_⟩
  rcases hc with ⟨ch, q, h1, h2', h3, h4, h5, h6⟩ | ⟨k, q, h1, h2', h3⟩
  · exact Or.inl ⟨ch, q, h1, h2', h3, h4, getElem?_append_some h5 _, getElem?_append_some h6 _⟩
  · exact Or.inr ⟨k, q, getElem?_append_some h1 _, getElem?_append_some h2' _, getElem?_append_some h3 _⟩

theorem lookup_mem'' {β} {r : Rnum} {o : β} : ∀ {l : List (Rnum × β)}, l.lookup r = some o → (r, o) ∈ l
  | [], h => by simp at h
  | (k, v) :: l, h => by
    simp only [List.lookup_cons] at h
    split at h
    · rename_i hk
      simp only [beq_iff_eq] at hk
      cases h; subst hk; simp
    · exact List.mem_cons_of_mem _ (lookup_mem'' h)

/-- where the bond token in front of a token that starts `a` characters before the end begins -/
theorem bond_token_at {s w x : Str} {b : BondKind} {a : Nat} (hw : Suffix w s) (hrb : readBond w = (b, x)) (hxa : x.length = a) :
    (if b = .elided then s.length - a else s.length - a - 1) ≤ s.length ∧
    s.drop (if b = .elided then s.length - a else s.length - a - 1) = w ∧ s.length - x.length = s.length - a := by
  have hsh := readBond_shape w
  rw [hrb] at hsh
  simp only at hsh
  have hwl := hw.length_le
  rcases hsh with ⟨hb, hx⟩ | ⟨hb, c, hwc, _⟩
  · rw [if_pos hb]
    subst hx
    refine ⟨by omega, ?_, by rw [hxa]⟩
    rw [← hxa]; exact hw.eq_drop
  · rw [if_neg hb]
    have hl : w.length = a + 1 := by rw [hwc]; simp [hxa]
    refine ⟨by omega, ?_, by rw [hxa]⟩
    have : s.length - a - 1 = s.length - w.length := by omega
    rw [this]; exact hw.eq_drop

theorem tstep_TE {s : Str} {t t' : TState} {ev : LEvent} {ab : List (Option BondKind)} {jb : List BondKind} {hs : List Nat}
    (h : TE s t ab jb hs) (hsp : SpanB s ev) (ht : tstep s.length t ev = some t') :
    TE s t' (ab ++ atomBonds [ev]) (jb ++ (joinToks [ev]).map (·.1)) (hs ++ joinHeads t.stack t.atoms.length [ev]) := by
  cases ev with
  | root k a e =>
    simp only [tstep, Option.some.injEq] at ht; subst ht
    simp only [atomBonds, joinToks, joinHeads, List.map_nil, List.append_nil]
    refine ⟨?_, ?_, h.hlen, h.jlen, by simp [h.alen], ?_⟩
    · intro e' he'
      have := (h.bonds e' he').mono [(s.length - a, s.length - e)] [] [none] [] []
      simpa using this
    · exact h.opens
    · intro x hx
      simp only [List.mem_cons] at hx
      simp only [List.length_append, List.length_cons, List.length_nil]
      rcases hx with rfl | hx
      · omega
      · have := h.stlt x hx; omega
  | pop d =>
    simp only [tstep] at ht
    split at ht
    · cases ht
    · simp only [Option.some.injEq] at ht; subst ht
      simp only [atomBonds, joinToks, joinHeads, List.map_nil, List.append_nil]
      exact ⟨h.bonds, h.opens, h.hlen, h.jlen, h.alen, fun x hx => h.stlt x (List.mem_of_mem_drop hx)⟩
  | extend b k a e =>
    obtain ⟨w, x, y, hw, hrb, hxa, hye, hra⟩ := hsp
    obtain ⟨hle, hdrop, hpos⟩ := bond_token_at hw hrb hxa
    simp only [tstep] at ht
    split at ht
    · cases ht
    · rename_i sid rest hst
      simp only [Option.some.injEq] at ht; subst ht
      simp only [atomBonds, joinToks, joinHeads, List.map_nil, List.append_nil]
      have hsid : sid < t.atoms.length := h.stlt sid (by rw [hst]; simp)
      have hnew : ∀ p : Nat × Nat, (p = (t.atoms.length, sid) ∨ p = (sid, t.atoms.length)) →
          EntryOK s (t.atoms ++ [(s.length - a, s.length - e)]) (ab ++ [some b]) t.rnums jb hs
            (p, if b = .elided then s.length - a else s.length - a - 1) := by
        intro p hp
        refine ⟨b, x, hle, by rw [hdrop]; exact hrb, Or.inl ⟨t.atoms.length, s.length - e, ?_, ?_, ?_, ?_, ?_, ?_⟩⟩
        · rcases hp with rfl | rfl
          · exact Or.inl rfl
          · exact Or.inr rfl
        · rcases hp with rfl | rfl
          · exact Nat.le_refl _
          · exact Nat.le_of_lt hsid
        · rcases hp with rfl | rfl
          · exact Nat.le_of_lt hsid
          · exact Nat.le_refl _
        · rcases hp with rfl | rfl
          · exact fun e => by simp at e; omega
          · exact fun e => by simp at e; omega
        · rw [hpos]; simp
        · rw [← h.alen]; simp
      refine ⟨?_, ?_, h.hlen, h.jlen, by simp [h.alen], ?_⟩
      · intro e' he'
        simp only [List.mem_cons] at he'
        rcases he' with rfl | rfl | he'
        · exact hnew _ (Or.inl rfl)
        · exact hnew _ (Or.inr rfl)
        · have := (h.bonds e' he').mono [(s.length - a, s.length - e)] [] [some b] [] []
          simpa using this
      · exact h.opens
      · intro x' hx'
        simp only [List.mem_cons] at hx'
        simp only [List.length_append, List.length_cons, List.length_nil]
        rcases hx' with rfl | hx'
        · omega
        · have := h.stlt x' hx'; omega
  | join b r bc a e =>
    obtain ⟨w, x, y, hw, hwl, hrb, hxa, hye, hrr⟩ := hsp
    have hle : s.length - bc ≤ s.length := Nat.sub_le _ _
    have hdrop : s.drop (s.length - bc) = w := by rw [← hwl]; exact hw.eq_drop
    have hpos : s.length - x.length = s.length - a := by rw [hxa]
    simp only [tstep] at ht
    split at ht
    · cases ht
    · rename_i sid rest hst
      have hhead : t.stack.headD 0 = sid := by rw [hst]; rfl
      simp only [atomBonds, joinToks, joinHeads, List.map_cons, List.map_nil, List.append_nil, hhead]
      have hk1 : (t.rnums ++ [(s.length - a, s.length - e)])[t.rnums.length]? = some (s.length - a, s.length - e) := by simp
      have hk2 : (hs ++ [sid])[t.rnums.length]? = some sid := by rw [← h.hlen]; simp
      have hk3 : (jb ++ [b])[t.rnums.length]? = some b := by rw [← h.jlen]; simp
      split at ht
      · rename_i o ho
        simp only [Option.some.injEq] at ht; subst ht
        refine ⟨?_, ?_, by simp [h.hlen], by simp [h.jlen], h.alen, h.stlt⟩
        · intro e' he'
          simp only [List.mem_cons] at he'
          rcases he' with rfl | rfl | he'
          · obtain ⟨b0, rest0, k0, h1, h2, h3, h4, h5, h6⟩ := h.opens (r, o) (lookup_mem'' ho)
            refine ⟨b0, rest0, h1, h2, Or.inr ⟨k0, o.rnumCursor.2, ?_, getElem?_append_some h5 _, getElem?_append_some h6 _⟩⟩
            rw [← h4]; exact getElem?_append_some h3 _
          · exact ⟨b, x, hle, by rw [hdrop]; exact hrb, Or.inr ⟨t.rnums.length, s.length - e, by rw [hpos]; exact hk1, hk2, hk3⟩⟩
          · have := (h.bonds e' he').mono [] [(s.length - a, s.length - e)] [] [b] [sid]
            simpa using this
        · intro o' ho'
          obtain ⟨b0, rest0, k0, h1, h2, h3, h4, h5, h6⟩ := h.opens o' (List.mem_filter.mp ho').1
          exact ⟨b0, rest0, k0, h1, h2, getElem?_append_some h3 _, h4, getElem?_append_some h5 _, getElem?_append_some h6 _⟩
      · simp only [Option.some.injEq] at ht; subst ht
        refine ⟨?_, ?_, by simp [h.hlen], by simp [h.jlen], h.alen, h.stlt⟩
        · intro e' he'
          have := (h.bonds e' he').mono [] [(s.length - a, s.length - e)] [] [b] [sid]
          simpa using this
        · intro o' ho'
          simp only [List.mem_cons] at ho'
          rcases ho' with rfl | ho'
          · exact ⟨b, x, t.rnums.length, hle, by rw [hdrop]; exact hrb, hk1, by simp [hpos], hk2, hk3⟩
          · obtain ⟨b0, rest0, k0, h1, h2, h3, h4, h5, h6⟩ := h.opens o' ho'
            exact ⟨b0, rest0, k0, h1, h2, getElem?_append_some h3 _, h4, getElem?_append_some h5 _, getElem?_append_some h6 _⟩

end Purr

namespace Purr

theorem atomBonds_cons (ev : LEvent) (evs : List LEvent) : atomBonds (ev :: evs) = atomBonds [ev] ++ atomBonds evs := by
  cases ev <;> simp [atomBonds]

theorem joinToks_cons (ev : LEvent) (evs : List LEvent) : joinToks (ev :: evs) = joinToks [ev] ++ joinToks evs := by
  cases ev <;> simp [joinToks]

theorem joinHeads_step {n : Nat} {t t1 : TState} {ev : LEvent} (h : tstep n t ev = some t1) (evs : List LEvent) :
    joinHeads t.stack t.atoms.length (ev :: evs) = joinHeads t.stack t.atoms.length [ev] ++ joinHeads t1.stack t1.atoms.length evs := by
  cases ev with
  | root k a e =>
    simp only [tstep, Option.some.injEq] at h; subst h
    simp [joinHeads]
  | extend b k a e =>
    simp only [tstep] at h
    split at h
    · cases h
    · simp only [Option.some.injEq] at h; subst h
      simp [joinHeads]
  | join b r bc a e =>
    simp only [tstep] at h
    split at h
    · cases h
    · split at h <;> (simp only [Option.some.injEq] at h; subst h; simp [joinHeads])
  | pop d =>
    simp only [tstep] at h
    split at h
    · cases h
    · simp only [Option.some.injEq] at h; subst h
      simp [joinHeads]

theorem trun_TE {s : Str} : ∀ (evs : List LEvent) {t t' : TState} {ab : List (Option BondKind)} {jb : List BondKind} {hs : List Nat},
    TE s t ab jb hs → (∀ ev ∈ evs, SpanB s ev) → trun s.length t evs = some t' →
    TE s t' (ab ++ atomBonds evs) (jb ++ (joinToks evs).map (·.1)) (hs ++ joinHeads t.stack t.atoms.length evs)
  | [], t, t', ab, jb, hs, h, _, ht => by
    simp only [trun, Option.some.injEq] at ht; subst ht
    simpa [atomBonds, joinToks, joinHeads] using h
  | ev :: evs, t, t', ab, jb, hs, h, hsp, ht => by
    simp only [trun] at ht
    cases h1 : tstep s.length t ev with
    | none => rw [h1] at ht; cases ht
    | some t1 =>
      rw [h1] at ht
      have hstep := tstep_TE h (hsp ev (by simp)) h1
      have ih := trun_TE evs hstep (fun ev' hev' => hsp ev' (List.mem_cons_of_mem _ hev')) ht
      rw [atomBonds_cons, joinToks_cons, joinHeads_step h1, List.map_append]
      simpa [List.append_assoc] using ih

theorem TE.init (s : Str) : TE s .init [] [] [] :=
  ⟨by simp [TState.init], by simp [TState.init], rfl, rfl, rfl, by simp [TState.init]⟩

theorem lookup_mem_pair {x : Nat × Nat} {c : Nat} : ∀ (l : List ((Nat × Nat) × Nat)), l.lookup x = some c → (x, c) ∈ l
  | [], h => by simp at h
  | (k, v) :: l, h => by
    simp only [List.lookup_cons] at h
    split at h
    · rename_i hk
      simp only [beq_iff_eq] at hk
      cases h; subst hk; simp
    · exact List.mem_cons_of_mem _ (lookup_mem_pair l h)

/-- the final statement about the trace of a whole string -/
theorem trace_bond_own_end (s : Str) (t : TState) (ht : trace? s = some t) (x y c : Nat) (hb : t.bond x y = some c) :
    EntryOK s t.atoms (atomBonds (readL s).1) t.rnums ((joinToks (readL s).1).map (·.1)) (joinHeads [] 0 (readL s).1) ((x, y), c) := by
  unfold trace? at ht
  have h := trun_TE (readL s).1 (TE.init s) (readL_spansB s) ht
  simp only [List.nil_append, TState.init, List.length_nil] at h
  exact h.bonds _ (lookup_mem_pair _ hb)

end Purr

namespace Purr

/-- the same bookkeeping on plain events (what any follower sees) -/
def joinHeadsE : List Nat → Nat → List Event → List Nat
  | _, _, [] => []
  | st, n, .root _ :: es => joinHeadsE (n :: st) (n + 1) es
  | st, n, .extend _ _ :: es => joinHeadsE (n :: st) (n + 1) es
  | st, n, .join _ _ :: es => st.headD 0 :: joinHeadsE st n es
  | st, n, .pop d :: es => joinHeadsE (st.drop d) n es

def atomBondsE : List Event → List (Option BondKind)
  | [] => []
  | .root _ :: es => none :: atomBondsE es
  | .extend b _ :: es => some b :: atomBondsE es
  | .join _ _ :: es => atomBondsE es
  | .pop _ :: es => atomBondsE es

theorem joinHeads_erase : ∀ (evs : List LEvent) (st : List Nat) (n : Nat),
    joinHeads st n evs = joinHeadsE st n (evs.map LEvent.erase)
  | [], _, _ => rfl
  | .root k a e :: evs, st, n => by simp [joinHeads, joinHeadsE, LEvent.erase, joinHeads_erase evs]
  | .extend b k a e :: evs, st, n => by simp [joinHeads, joinHeadsE, LEvent.erase, joinHeads_erase evs]
  | .join b r bc a e :: evs, st, n => by simp [joinHeads, joinHeadsE, LEvent.erase, joinHeads_erase evs]
  | .pop d :: evs, st, n => by simp [joinHeads, joinHeadsE, LEvent.erase, joinHeads_erase evs]

theorem atomBonds_erase : ∀ (evs : List LEvent), atomBonds evs = atomBondsE (evs.map LEvent.erase)
  | [] => rfl
  | .root k a e :: evs => by simp [atomBonds, atomBondsE, LEvent.erase, atomBonds_erase evs]
  | .extend b k a e :: evs => by simp [atomBonds, atomBondsE, LEvent.erase, atomBonds_erase evs]
  | .join b r bc a e :: evs => by simp [atomBonds, atomBondsE, LEvent.erase, atomBonds_erase evs]
  | .pop d :: evs => by simp [atomBonds, atomBondsE, LEvent.erase, atomBonds_erase evs]

end Purr
