/-
  C15, the bond table: every cursor the trace records for a bond is the position of a bond token — the bond
  symbol when one is written, otherwise the first character of the target atom or ring-closure token — and
  the trace's keys are exactly the bonds of the graph built from the same string (builder / trace lock-step).
-/
import Purr.Lemmas.TraceL
import Purr.Lemmas.BuilderL
import Purr.Lemmas.DenoteL
namespace Purr

/-- a cursor `c` of an input `s` of length `n` that points at a bond token: reading a bond there gives kind `b`
    (possibly elided, consuming nothing) and is followed by an atom or ring-closure token -/
def BondCursor (s : Str) (b : BondKind) (c : Nat) : Prop :=
  ∃ w x, Suffix w s ∧ c = s.length - w.length ∧ readBond w = (b, x) ∧
    ((∃ k y, readAtom x = .ok k y) ∨ (∃ r y, readRnum x = .ok r y))

theorem readBond_shape (w : Str) : ((readBond w).1 = .elided ∧ (readBond w).2 = w) ∨
    ((readBond w).1 ≠ .elided ∧ ∃ c, w = c :: (readBond w).2 ∧ (readBond w).1.text = [c]) := by
  unfold readBond
  split
  all_goals first
    | (right; exact ⟨by simp, _, rfl, rfl⟩)
    | (left; exact ⟨rfl, rfl⟩)

/-- the located events, with the bond token located too -/
def SpanB (full : Str) : LEvent → Prop
  | .extend b k a e => ∃ w x y, Suffix w full ∧ readBond w = (b, x) ∧ x.length = a ∧ y.length = e ∧ readAtom x = .ok k y
  | .join b r bc a e => ∃ w x y, Suffix w full ∧ w.length = bc ∧ readBond w = (b, x) ∧ x.length = a ∧ y.length = e ∧
      readRnum x = .ok r y
  | _ => True

def ModeOK (full : Str) (s : Str) : Mode → Prop
  | .needAtom b => ∃ w, Suffix w full ∧ readBond w = (b, s)
  | _ => True

theorem runL_spansB (mode : Mode) (stack : List Nat) (s : Str) : ∀ (full : Str), Suffix s full → ModeOK full s mode →
    ∀ ev ∈ (runL mode stack s).1, SpanB full ev := by
  fun_induction runL mode stack s <;> intro full hsuf hmode ev hev
  case case1 stack s k rest h q ih =>
    simp only [List.mem_cons] at hev
    rcases hev with rfl | hev
    · trivial
    · exact ih full (((readAtom_shape s).ok h).suffix.trans hsuf) trivial ev hev
  case case2 => cases hev
  case case3 => cases hev
  case case4 => cases hev
  case case5 stack s b k rest h q ih =>
    simp only [List.mem_cons] at hev
    rcases hev with rfl | hev
    · obtain ⟨w, hw, hrb⟩ := hmode
      exact ⟨w, s, rest, hw, hrb, rfl, rfl, h⟩
    · exact ih full (((readAtom_shape s).ok h).suffix.trans hsuf) trivial ev hev
  case case6 => cases hev
  case case7 => cases hev
  case case8 => cases hev
  case case9 stack rest ih => exact ih full ((Suffix.refl _).tail.trans hsuf) trivial ev hev
  case case10 stack s hx ih =>
    exact ih full ((readBond_consumes s).suffix.trans hsuf) ⟨s, hsuf, rfl⟩ ev hev
  case case11 stack s rest h ih =>
    have := bodyStep_openParen h; subst this; exact ih full ((Suffix.refl _).tail.trans hsuf) trivial ev hev
  case case12 stack s rest h ih =>
    have := bodyStep_dot h; subst this; exact ih full ((Suffix.refl _).tail.trans hsuf) trivial ev hev
  case case13 stack s b k rest h q ih =>
    simp only [List.mem_cons] at hev
    rcases hev with rfl | hev
    · obtain ⟨hb, ha⟩ := bodyStep_atom_inv h
      exact ⟨s, (readBond s).2, rest, hsuf, by rw [hb], rfl, rfl, ha⟩
    · exact ih full ((bodyStep_atom_consumes h).suffix.trans hsuf) trivial ev hev
  case case14 stack s b r rest h q ih =>
    simp only [List.mem_cons] at hev
    rcases hev with rfl | hev
    · obtain ⟨hb, hr⟩ := bodyStep_ring_inv h
      exact ⟨s, (readBond s).2, rest, hsuf, rfl, by rw [hb], rfl, rfl, hr⟩
    · exact ih full ((bodyStep_ring_consumes h).suffix.trans hsuf) trivial ev hev
  case case15 s rest h l l' st q ih =>
    have := bodyStep_close h; subst this
    simp only [List.mem_cons] at hev
    rcases hev with rfl | hev
    · trivial
    · exact ih full ((Suffix.refl _).tail.trans hsuf) trivial ev hev
  case case16 => cases hev
  case case17 => cases hev
  case case18 => cases hev
  case case19 => cases hev
  case case20 => cases hev

theorem readL_spansB (s : Str) : ∀ ev ∈ (readL s).1, SpanB s ev :=
  runL_spansB .needRoot [0] s s (Suffix.refl _) trivial

end Purr

namespace Purr

/-! ### every recorded cursor is a bond token -/

structure TB (s : Str) (t : TState) : Prop where
  bonds : ∀ e ∈ t.bonds, ∃ b, BondCursor s b e.2
  opens : ∀ o ∈ t.opens, ∃ b, BondCursor s b o.2.bondCursor

theorem tstep_TB {s : Str} {t t' : TState} {ev : LEvent} (h : TB s t) (hs : SpanB s ev) (ht : tstep s.length t ev = some t') :
    TB s t' := by
  cases ev with
  | root k a e =>
    simp only [tstep, Option.some.injEq] at ht; subst ht
    exact ⟨h.bonds, h.opens⟩
  | pop d =>
    simp only [tstep] at ht
    split at ht
    · cases ht
    · simp only [Option.some.injEq] at ht; subst ht; exact ⟨h.bonds, h.opens⟩
  | extend b k a e =>
    obtain ⟨w, x, y, hw, hrb, hxa, hye, hra⟩ := hs
    have hcur : BondCursor s b (if b = .elided then s.length - a else s.length - a - 1) := by
      refine ⟨w, x, hw, ?_, hrb, Or.inl ⟨k, y, hra⟩⟩
      have hsh := readBond_shape w
      rw [hrb] at hsh
      simp only at hsh
      rcases hsh with ⟨hb, hx⟩ | ⟨hb, c, hwc, _⟩
      · rw [if_pos hb, ← hxa, hx]
      · rw [if_neg hb, hwc, ← hxa]; simp; omega
    simp only [tstep] at ht
    split at ht
    · cases ht
    · simp only [Option.some.injEq] at ht; subst ht
      refine ⟨?_, h.opens⟩
      intro e' he'
      simp only [List.mem_cons] at he'
      rcases he' with rfl | rfl | he'
      · exact ⟨b, hcur⟩
      · exact ⟨b, hcur⟩
      · exact h.bonds e' he'
  | join b r bc a e =>
    obtain ⟨w, x, y, hw, hwl, hrb, hxa, hye, hrr⟩ := hs
    have hcur : BondCursor s b (s.length - bc) := ⟨w, x, hw, by rw [hwl], hrb, Or.inr ⟨r, y, hrr⟩⟩
    simp only [tstep] at ht
    split at ht
    · cases ht
    · split at ht
      · rename_i o ho
        simp only [Option.some.injEq] at ht; subst ht
        refine ⟨?_, fun o' ho' => h.opens o' (List.mem_filter.mp ho').1⟩
        intro e' he'
        simp only [List.mem_cons] at he'
        rcases he' with rfl | rfl | he'
        · exact h.opens (r, o) (lookup_mem' ho)
        · exact ⟨b, hcur⟩
        · exact h.bonds e' he'
      · simp only [Option.some.injEq] at ht; subst ht
        refine ⟨h.bonds, ?_⟩
        intro o' ho'
        simp only [List.mem_cons] at ho'
        rcases ho' with rfl | ho'
        · exact ⟨b, hcur⟩
        · exact h.opens o' ho'
where
  lookup_mem' {β} {r : Rnum} {o : β} : ∀ {l : List (Rnum × β)}, l.lookup r = some o → (r, o) ∈ l
    | [], h => by simp at h
    | (k, v) :: l, h => by
      simp only [List.lookup_cons] at h
      split at h
      · rename_i hk
        simp only [beq_iff_eq] at hk
        cases h; subst hk; simp
      · exact List.mem_cons_of_mem _ (lookup_mem' h)

theorem trun_TB {s : Str} : ∀ (evs : List LEvent) {t t' : TState}, TB s t → (∀ ev ∈ evs, SpanB s ev) →
    trun s.length t evs = some t' → TB s t'
  | [], t, t', h, _, ht => by simp only [trun, Option.some.injEq] at ht; subst ht; exact h
  | ev :: evs, t, t', h, hs, ht => by
    simp only [trun] at ht
    cases h1 : tstep s.length t ev with
    | none => rw [h1] at ht; cases ht
    | some t1 =>
      rw [h1] at ht
      exact trun_TB evs (tstep_TB h (hs ev (by simp)) h1) (fun e he => hs e (by simp [he])) ht

/-- every bond cursor of the trace points at a bond token of the input -/
theorem trace_bond_cursor (s : Str) (t : TState) (ht : trace? s = some t) (x y c : Nat) (hb : t.bond x y = some c) :
    ∃ b, BondCursor s b c := by
  unfold trace? at ht
  have htb := trun_TB (readL s).1 (t := .init) ⟨by simp [TState.init], by simp [TState.init]⟩ (readL_spansB s) ht
  unfold TState.bond at hb
  have : ((x, y), c) ∈ t.bonds := by
    have : ∀ (l : List ((Nat × Nat) × Nat)), l.lookup (x, y) = some c → ((x, y), c) ∈ l := by
      intro l
      induction l with
      | nil => intro h; simp at h
      | cons a l ih =>
        intro h
        obtain ⟨k, v⟩ := a
        simp only [List.lookup_cons] at h
        split at h
        · rename_i hk; simp only [beq_iff_eq] at hk; cases h; subst hk; simp
        · exact List.mem_cons_of_mem _ (ih h)
    exact this _ hb
  exact htb.bonds _ this

end Purr

namespace Purr

/-! ### builder / trace lock-step: the trace's keys are the bonds of the built graph -/

def HasBond (G : List Node) (x y : Nat) : Prop := ∃ es, view G x = some es ∧ ∃ e ∈ es, e.target = .id y

theorem closeEdge_keeps_id (r : Rnum) (l : BondKind) (s : Nat) : ∀ (es : List Edge) (e : Edge), e ∈ es → (∃ t, e.target = .id t) →
    e ∈ closeEdge r l s es
  | [], _, h, _ => by cases h
  | x :: xs, e, h, ht => by
    simp only [closeEdge]
    simp only [List.mem_cons] at h
    split
    · rename_i ho
      rcases h with rfl | h
      · obtain ⟨t, ht⟩ := ht
        unfold isOpenFor at ho; rw [ht] at ho; cases ho
      · exact List.mem_cons_of_mem _ h
    · rcases h with rfl | h
      · simp
      · exact List.mem_cons_of_mem _ (closeEdge_keeps_id r l s xs e h ht)

theorem closeEdge_new (r : Rnum) (l : BondKind) (s : Nat) : ∀ (es : List Edge), (es.find? (isOpenFor r)).isSome →
    ⟨l, .id s⟩ ∈ closeEdge r l s es
  | [], h => by simp at h
  | x :: xs, h => by
    simp only [closeEdge]
    split
    · simp
    · rename_i ho
      simp only [List.find?_cons, ho] at h
      exact List.mem_cons_of_mem _ (closeEdge_new r l s xs h)

theorem lookup_cons_map {β γ} (f : β → γ) (r r' : Rnum) (v : β) (l : List (Rnum × β)) :
    (((r, v) :: l).lookup r').map f = if r' == r then some (f v) else (l.lookup r').map f := by
  simp only [List.lookup_cons]
  cases (r' == r) <;> rfl

theorem lookup_filter_ne' {β} {r r' : Rnum} (h : r' ≠ r) : ∀ (l : List (Rnum × β)),
    (l.filter (fun p => p.1 != r)).lookup r' = l.lookup r'
  | [] => rfl
  | (k, v) :: l => by
    by_cases hk : k = r
    · subst hk
      rw [List.filter_cons_of_neg (by simp), lookup_filter_ne' h l]
      simp only [List.lookup_cons]
      have : (r' == k) = false := by simpa using h
      rw [this]
    · rw [List.filter_cons_of_pos (by simpa using hk)]
      simp only [List.lookup_cons]
      rw [lookup_filter_ne' h l]

theorem lookup_filter_self' {β} (r : Rnum) : ∀ (l : List (Rnum × β)), (l.filter (fun p => p.1 != r)).lookup r = none
  | [] => rfl
  | (k, v) :: l => by
    by_cases hk : k = r
    · subst hk
      rw [List.filter_cons_of_neg (by simp)]; exact lookup_filter_self' k l
    · rw [List.filter_cons_of_pos (by simpa using hk)]
      simp only [List.lookup_cons]
      have : (r == k) = false := by simpa using (Ne.symm hk)
      rw [this]; exact lookup_filter_self' r l

structure LS (t : TState) (bs : BState) : Prop where
  stk : t.stack = bs.stack
  len : t.atoms.length = bs.graph.length
  opn : ∀ r, (t.opens.lookup r).map (·.sid) = bs.opens.lookup r
  keys : ∀ x y, (∃ c, ((x, y), c) ∈ t.bonds) ↔ HasBond bs.graph x y
  errs : bs.errors = []
  stlt : ∀ x ∈ bs.stack, x < bs.graph.length

theorem view_of_lt {G : List Node} {i : Nat} (h : i < G.length) : ∃ es, view G i = some es := by
  unfold view; rw [List.getElem?_eq_getElem h]; exact ⟨_, rfl⟩

theorem HasBond_upd_other {G G' : List Node} {i : Nat} {v : List Edge} (hv : view G' = upd (view G) i v) {x : Nat} (hx : x ≠ i) (y : Nat) :
    HasBond G' x y ↔ HasBond G x y := by
  unfold HasBond; rw [hv, upd_other _ _ hx]

theorem step_LS {n : Nat} {t t' : TState} {bs bs' : BState} {ev : LEvent} (h : LS t bs) (ht : tstep n t ev = some t')
    (hb : bstep bs ev.erase = some bs') (herr : bs'.errors = []) : LS t' bs' := by
  cases ev with
  | root k a e =>
    simp only [tstep, Option.some.injEq] at ht; subst ht
    obtain ⟨s1, hb1, hst1, hlen1, hop1, herr1, hview1, _⟩ := bstep_root_view bs k
    simp only [LEvent.erase] at hb
    rw [hb] at hb1; cases hb1
    refine ⟨by simp only; rw [hst1, h.stk, h.len], by simp [hlen1, h.len], by rw [hop1]; exact h.opn, ?_, herr, ?_⟩
    · intro x y
      simp only
      rw [h.keys x y]
      by_cases hx : x = bs.graph.length
      · subst hx
        constructor
        · rintro ⟨es, hv, _⟩; rw [view_length] at hv; cases hv
        · rintro ⟨es, hv, e, he, _⟩; rw [hview1, upd_same] at hv; cases hv; cases he
      · exact (HasBond_upd_other hview1 hx y).symm
    · intro x hx
      rw [hst1] at hx
      simp only [List.mem_cons] at hx
      rcases hx with rfl | hx
      · omega
      · have := h.stlt x hx; omega
  | pop d =>
    simp only [tstep] at ht
    split at ht
    · cases ht
    · simp only [Option.some.injEq] at ht; subst ht
      simp only [LEvent.erase, bstep, Option.some.injEq] at hb; subst hb
      exact ⟨by simp only; rw [h.stk], h.len, h.opn, h.keys, h.errs, fun x hx => h.stlt x (List.mem_of_mem_drop hx)⟩
  | extend b k a e =>
    simp only [tstep] at ht
    cases hst : t.stack with
    | nil => rw [hst] at ht; cases ht
    | cons sid rest =>
      rw [hst] at ht
      simp only [Option.some.injEq] at ht; subst ht
      have hbst : bs.stack = sid :: rest := by rw [← h.stk, hst]
      have hsid : sid < bs.graph.length := h.stlt sid (by rw [hbst]; simp)
      obtain ⟨aes, hva⟩ := view_of_lt hsid
      obtain ⟨s1, hb1, hst1, hlen1, hop1, herr1, hview1, _⟩ := bstep_extend_view b k hbst hva
      simp only [LEvent.erase] at hb
      rw [hb] at hb1; cases hb1
      have hne : sid ≠ bs.graph.length := by omega
      refine ⟨by simp only; rw [hst1, h.len], by simp [hlen1, h.len], by rw [hop1]; exact h.opn, ?_, herr, ?_⟩
      · intro x y
        simp only [List.mem_cons, Prod.mk.injEq]
        by_cases hxs : x = sid
        · subst hxs
          constructor
          · rintro ⟨c, ⟨⟨h1, _⟩, _⟩ | ⟨⟨_, h2⟩, _⟩ | hm⟩
            · rw [h.len] at h1; exact absurd h1 hne
            · refine ⟨_, by rw [hview1, upd_same], ⟨b, .id bs.graph.length⟩, by simp, by rw [h2, h.len]⟩
            · obtain ⟨es, hv, e', he', ht'⟩ := (h.keys x y).mp ⟨c, hm⟩
              rw [hva] at hv; cases hv
              exact ⟨_, by rw [hview1, upd_same], e', by simp [he'], ht'⟩
          · rintro ⟨es, hv, e', he', ht'⟩
            rw [hview1, upd_same] at hv; cases hv
            rcases List.mem_append.mp he' with he' | he'
            · obtain ⟨c, hc⟩ := (h.keys x y).mpr ⟨aes, hva, e', he', ht'⟩
              exact ⟨c, Or.inr (Or.inr hc)⟩
            · simp only [List.mem_singleton] at he'; subst he'
              simp only [Target.id.injEq] at ht'
              exact ⟨_, Or.inr (Or.inl ⟨⟨rfl, by rw [h.len, ht']⟩, rfl⟩)⟩
        · by_cases hxn : x = bs.graph.length
          · subst hxn
            constructor
            · rintro ⟨c, ⟨⟨_, h2⟩, _⟩ | ⟨⟨h1, _⟩, _⟩ | hm⟩
              · exact ⟨_, by rw [hview1, upd_other _ _ hxs, upd_same], ⟨b.reverse, .id sid⟩, by simp, by rw [h2]⟩
              · exact absurd h1 hxs
              · obtain ⟨es, hv, _⟩ := (h.keys _ y).mp ⟨c, hm⟩
                rw [view_length] at hv; cases hv
            · rintro ⟨es, hv, e', he', ht'⟩
              rw [hview1, upd_other _ _ hxs, upd_same] at hv; cases hv
              simp only [List.mem_singleton] at he'; subst he'
              simp only [Target.id.injEq] at ht'
              exact ⟨_, Or.inl ⟨⟨h.len.symm, ht'.symm⟩, rfl⟩⟩
          · have hiff : HasBond bs'.graph x y ↔ HasBond bs.graph x y := by
              unfold HasBond; rw [hview1, upd_other _ _ hxs, upd_other _ _ hxn]
            rw [hiff, ← h.keys x y]
            constructor
            · rintro ⟨c, ⟨⟨h1, _⟩, _⟩ | ⟨⟨h1, _⟩, _⟩ | hm⟩
              · rw [h.len] at h1; exact absurd h1 hxn
              · exact absurd h1 hxs
              · exact ⟨c, hm⟩
            · rintro ⟨c, hm⟩; exact ⟨c, Or.inr (Or.inr hm)⟩
      · intro x hx
        rw [hst1] at hx
        simp only [List.mem_cons] at hx
        rcases hx with rfl | rfl | hx
        · omega
        · omega
        · have := h.stlt x (by rw [hbst]; simp [hx]); omega
  | join b r bc a e =>
    simp only [tstep] at ht
    cases hst : t.stack with
    | nil => rw [hst] at ht; cases ht
    | cons sid rest =>
      rw [hst] at ht
      simp only at ht
      have hbst : bs.stack = sid :: rest := by rw [← h.stk, hst]
      have hsid : sid < bs.graph.length := h.stlt sid (by rw [hbst]; simp)
      obtain ⟨aes, hva⟩ := view_of_lt hsid
      simp only [LEvent.erase] at hb
      cases hto : t.opens.lookup r with
      | none =>
        rw [hto] at ht
        simp only [Option.some.injEq] at ht; subst ht
        have hlk : bs.opens.lookup r = none := by rw [← h.opn r, hto]; rfl
        obtain ⟨s1, hb1, hst1, hlen1, hop1, herr1, hview1, _⟩ := bstep_join_open_view b r hbst hva hlk
        rw [hb] at hb1; cases hb1
        refine ⟨by simp only; rw [hst1, hbst], by rw [hlen1]; exact h.len, ?_, ?_, herr, by rw [hst1, hlen1]; exact h.stlt⟩
        · intro r'
          rw [hop1, lookup_cons_map, List.lookup_cons]
          cases (r' == r)
          · exact h.opn r'
          · rfl
        · intro x y
          simp only
          rw [h.keys x y]
          by_cases hxs : x = sid
          · subst hxs
            constructor
            · rintro ⟨es, hv, e', he', ht'⟩
              rw [hva] at hv; cases hv
              exact ⟨_, by rw [hview1, upd_same], e', by simp [he'], ht'⟩
            · rintro ⟨es, hv, e', he', ht'⟩
              rw [hview1, upd_same] at hv; cases hv
              rcases List.mem_append.mp he' with he' | he'
              · exact ⟨aes, hva, e', he', ht'⟩
              · simp only [List.mem_singleton] at he'; subst he'; cases ht'
          · exact (HasBond_upd_other hview1 hxs y).symm
      | some o =>
        rw [hto] at ht
        simp only [Option.some.injEq] at ht; subst ht
        have hlk : bs.opens.lookup r = some o.sid := by rw [← h.opn r, hto]; rfl
        -- the builder's closing step succeeded
        have hsl : sid < bs.graph.length := hsid
        cases htn : bs.graph[o.sid]? with
        | none => simp [bstep, hbst, hsl, hlk, htn] at hb
        | some tnode =>
          cases hfind : tnode.edges.find? (isOpenFor r) with
          | none => simp [bstep, hbst, hsl, hlk, htn, hfind] at hb
          | some e0 =>
            obtain ⟨hne, hhas, l, rt, hrec⟩ := bstep_join_close_inv' hbst hsl hlk htn hfind hb h.errs herr
            have hbs' : bs' = ⟨bs.stack, addEdge (bs.graph.modify o.sid (fun n => { n with edges := closeEdge r l sid n.edges })) sid ⟨rt, .id o.sid⟩,
                bs.opens.filter (fun p => p.1 != r), bs.errors, bs.rid + 1⟩ := by
              have hc : ¬ (sid = o.sid ∨ hasIdEdge tnode sid = true) := by simp [hne, hhas]
              simp only [bstep, hbst, hsl, if_true, hlk, htn, hfind, hc, if_false, hrec, Option.some.injEq] at hb
              rw [hbst]; exact hb.symm
            have hmod : (bs.graph.modify o.sid (fun n => { n with edges := closeEdge r l sid n.edges }))[sid]? =
                (bs.graph[sid]?) := by
              rw [List.getElem?_modify]; simp [Ne.symm hne]
            obtain ⟨n0, hn0, hn0e⟩ := view_some hva
            have hview1 : view bs'.graph = upd (upd (view bs.graph) o.sid (closeEdge r l sid tnode.edges)) sid (aes ++ [⟨rt, .id o.sid⟩]) := by
              rw [hbs']
              simp only
              rw [view_addEdge (by rw [hmod]; exact hn0), view_modify htn, hn0e]
            have hvt : view bs.graph o.sid = some tnode.edges := by unfold view; rw [htn]; rfl
            have hpost : o.sid ≠ sid := fun e' => hne e'.symm
            refine ⟨by rw [hbs']; simp only; rw [hbst], by rw [hbs']; simp [length_addEdge, h.len], ?_, ?_, herr,
              by rw [hbs']; simp only [length_addEdge, List.length_modify]; exact h.stlt⟩
            · intro r'
              rw [hbs']
              simp only
              by_cases hr : r' = r
              · subst hr; rw [lookup_filter_self', lookup_filter_self']; rfl
              · rw [lookup_filter_ne' hr, lookup_filter_ne' hr]; exact h.opn r'
            · intro x y
              simp only [List.mem_cons, Prod.mk.injEq]
              by_cases hxs : x = sid
              · subst hxs
                constructor
                · rintro ⟨c, ⟨⟨h1, _⟩, _⟩ | ⟨⟨_, h2⟩, _⟩ | hm⟩
                  · exact absurd h1.symm hpost
                  · exact ⟨_, by rw [hview1, upd_same], ⟨rt, .id o.sid⟩, by simp, by rw [h2]⟩
                  · obtain ⟨es, hv, e', he', ht'⟩ := (h.keys x y).mp ⟨c, hm⟩
                    rw [hva] at hv; cases hv
                    exact ⟨_, by rw [hview1, upd_same], e', by simp [he'], ht'⟩
                · rintro ⟨es, hv, e', he', ht'⟩
                  rw [hview1, upd_same] at hv; cases hv
                  rcases List.mem_append.mp he' with he' | he'
                  · obtain ⟨c, hc⟩ := (h.keys x y).mpr ⟨aes, hva, e', he', ht'⟩
                    exact ⟨c, Or.inr (Or.inr hc)⟩
                  · simp only [List.mem_singleton] at he'; subst he'
                    simp only [Target.id.injEq] at ht'
                    exact ⟨_, Or.inr (Or.inl ⟨⟨rfl, ht'.symm⟩, rfl⟩)⟩
              · by_cases hxt : x = o.sid
                · subst hxt
                  constructor
                  · rintro ⟨c, ⟨⟨_, h2⟩, _⟩ | ⟨⟨h1, _⟩, _⟩ | hm⟩
                    · refine ⟨_, by rw [hview1, upd_other _ _ hxs, upd_same], ⟨l, .id sid⟩, ?_, by rw [h2]⟩
                      exact closeEdge_new r l sid tnode.edges (by rw [hfind]; rfl)
                    · exact absurd h1 hxs
                    · obtain ⟨es, hv, e', he', ht'⟩ := (h.keys _ y).mp ⟨c, hm⟩
                      rw [hvt] at hv; cases hv
                      exact ⟨_, by rw [hview1, upd_other _ _ hxs, upd_same], e', closeEdge_keeps_id r l sid _ e' he' ⟨y, ht'⟩, ht'⟩
                  · rintro ⟨es, hv, e', he', ht'⟩
                    rw [hview1, upd_other _ _ hxs, upd_same] at hv; cases hv
                    rcases mem_closeEdge r l sid _ e' he' with he' | he'
                    · obtain ⟨c, hc⟩ := (h.keys _ y).mpr ⟨tnode.edges, hvt, e', he', ht'⟩
                      exact ⟨c, Or.inr (Or.inr hc)⟩
                    · subst he'
                      simp only [Target.id.injEq] at ht'
                      exact ⟨_, Or.inl ⟨⟨rfl, ht'.symm⟩, rfl⟩⟩
                · have hiff : HasBond bs'.graph x y ↔ HasBond bs.graph x y := by
                    unfold HasBond; rw [hview1, upd_other _ _ hxs, upd_other _ _ hxt]
                  rw [hiff, ← h.keys x y]
                  constructor
                  · rintro ⟨c, ⟨⟨h1, _⟩, _⟩ | ⟨⟨h1, _⟩, _⟩ | hm⟩
                    · exact absurd h1 hxt
                    · exact absurd h1 hxs
                    · exact ⟨c, hm⟩
                  · rintro ⟨c, hm⟩; exact ⟨c, Or.inr (Or.inr hm)⟩
where
  bstep_join_close_inv' {s s1 : BState} {sid tid : Nat} {rest : List Nat} {b : BondKind} {r : Rnum} {tnode : Node} {e : Edge}
      (hst : s.stack = sid :: rest) (hlt : sid < s.graph.length) (hop : s.opens.lookup r = some tid)
      (htn : s.graph[tid]? = some tnode) (hfind : tnode.edges.find? (isOpenFor r) = some e)
      (hb : bstep s (.join b r) = some s1) (herr0 : s.errors = []) (herr : s1.errors = []) :
      sid ≠ tid ∧ hasIdEdge tnode sid = false ∧ ∃ l rt, reconcile e.kind b = some (l, rt) := by
    simp only [bstep, hst, hlt, if_true, hop, htn, hfind] at hb
    split at hb
    · simp only [Option.some.injEq] at hb
      rw [← hb] at herr; simp [herr0] at herr
    · rename_i hc
      cases hrec : reconcile e.kind b with
      | none =>
        rw [hrec] at hb
        simp only [Option.some.injEq] at hb
        rw [← hb] at herr; simp [herr0] at herr
      | some lr =>
        simp only [not_or] at hc
        exact ⟨hc.1, by simpa using hc.2, lr.1, lr.2, rfl⟩

end Purr

namespace Purr

theorem run_LS {n : Nat} : ∀ (evs : List LEvent) {t t' : TState} {bs bs' : BState}, LS t bs → trun n t evs = some t' →
    brun bs (evs.map LEvent.erase) = some bs' → bs'.errors = [] → LS t' bs'
  | [], t, t', bs, bs', h, ht, hb, _ => by
    simp only [trun, Option.some.injEq] at ht; subst ht
    simp only [List.map_nil, brun, Option.some.injEq] at hb; subst hb
    exact h
  | ev :: evs, t, t', bs, bs', h, ht, hb, herr => by
    simp only [trun] at ht
    simp only [List.map_cons, brun] at hb
    cases h1 : tstep n t ev with
    | none => rw [h1] at ht; cases ht
    | some t1 =>
      cases h2 : bstep bs ev.erase with
      | none => rw [h2] at hb; cases hb
      | some bs1 =>
        rw [h1] at ht; rw [h2] at hb
        have herr1 : bs1.errors = [] := by
          obtain ⟨l, hl⟩ := brun_errors hb
          rw [herr] at hl
          exact (List.append_eq_nil_iff.mp hl.symm).1
        exact run_LS evs (step_LS h h1 h2 herr1) ht hb herr

theorem lookup_isSome_iff {x : Nat × Nat} : ∀ (l : List ((Nat × Nat) × Nat)), (l.lookup x).isSome = true ↔ ∃ c, (x, c) ∈ l
  | [] => by simp
  | (k, v) :: l => by
    simp only [List.lookup_cons]
    by_cases hk : x = k
    · subst hk; simp
    · have : (x == k) = false := by simpa using hk
      rw [this]
      simp only [List.mem_cons, Prod.mk.injEq]
      rw [lookup_isSome_iff l]
      constructor
      · rintro ⟨c, hc⟩; exact ⟨c, Or.inr hc⟩
      · rintro ⟨c, ⟨h1, _⟩ | hc⟩
        · exact absurd h1 hk
        · exact ⟨c, hc⟩

/-- the trace's atom ids and bond keys are those of the graph built from the same string: the trace has an
    entry for `(x, y)` exactly when atom `x` of the built graph has a bond to atom `y` -/
theorem trace_keys_are_bonds (s : Str) (t : TState) (g : Graph) (ht : trace? s = some t)
    (hb : build? (read s).1 = some (.ok g)) :
    t.atoms.length = g.length ∧
    ∀ x y, (t.bond x y).isSome = true ↔ ∃ atom, g[x]? = some atom ∧ ∃ b ∈ atom.bonds, b.tid = y := by
  unfold trace? at ht
  unfold build? at hb
  have herase : (readL s).1.map LEvent.erase = (read s).1 := by
    have := runL_erase .needRoot [0] s
    unfold readL read; rw [← this]
  cases hr : brun .init (read s).1 with
  | none => rw [hr] at hb; cases hb
  | some bs =>
    rw [hr] at hb
    simp only [Option.map_some, Option.some.injEq] at hb
    have herr : bs.errors = [] := by
      unfold BState.build at hb
      cases he : bs.errors with
      | nil => rfl
      | cons e l => rw [he] at hb; cases hb
    have hbn : buildNodes bs.graph = .ok g := by
      unfold BState.build at hb; rw [herr] at hb; exact hb
    have hls : LS t bs := run_LS (readL s).1 (t := .init) (bs := .init)
      ⟨rfl, rfl, fun _ => rfl, by intro x y; simp [TState.init, HasBond, view, BState.init], rfl, by simp [BState.init]⟩
      ht (by rw [herase]; exact hr) herr
    have hbo := buildNodes_ok hbn
    have hlen : g.length = bs.graph.length := by
      have h1 := (hbo bs.graph.length).2 (by simp)
      have : g.length ≤ bs.graph.length := by
        rw [List.getElem?_eq_none_iff] at h1; exact h1
      apply Nat.le_antisymm this
      apply Nat.le_of_not_lt; intro hlt
      obtain ⟨n, hn⟩ : ∃ n, bs.graph[g.length]? = some n := ⟨_, List.getElem?_eq_getElem hlt⟩
      obtain ⟨bs', _, hg⟩ := (hbo g.length).1 n hn
      rw [List.getElem?_eq_none_iff.mpr (Nat.le_refl _)] at hg; cases hg
    refine ⟨by rw [hls.len, hlen], ?_⟩
    intro x y
    unfold TState.bond
    rw [lookup_isSome_iff, hls.keys x y]
    constructor
    · rintro ⟨es, hv, e, he, hte⟩
      obtain ⟨n, hn, hne⟩ := view_some hv
      obtain ⟨bonds, hnb, hg⟩ := (hbo x).1 n hn
      obtain ⟨hbs, _⟩ := nodeBonds_ok hnb
      refine ⟨_, hg, toBond e, ?_, ?_⟩
      · simp only; rw [hbs, hne]; exact List.mem_map_of_mem he
      · simp only [toBond, tidOf, hte]
    · rintro ⟨atom, hg, b, hb', hbt⟩
      have hx : x < bs.graph.length := by
        rw [← hlen]
        apply Nat.lt_of_not_le; intro hge
        rw [List.getElem?_eq_none_iff.mpr hge] at hg; cases hg
      obtain ⟨n, hn⟩ : ∃ n, bs.graph[x]? = some n := ⟨_, List.getElem?_eq_getElem hx⟩
      obtain ⟨bonds, hnb, hg'⟩ := (hbo x).1 n hn
      rw [hg] at hg'; cases hg'
      obtain ⟨hbs, hall⟩ := nodeBonds_ok hnb
      simp only at hb'
      rw [hbs] at hb'
      obtain ⟨e, he, rfl⟩ := List.mem_map.mp hb'
      obtain ⟨t', ht'⟩ := hall e he
      refine ⟨n.edges, by unfold view; rw [hn]; rfl, e, he, ?_⟩
      rw [ht']
      simp only [toBond, tidOf, ht'] at hbt
      rw [hbt]

end Purr
