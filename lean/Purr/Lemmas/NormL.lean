/- The builder commutes with the C07 shorthands (`norm`): building from a normalised history gives the
   same graph with normalised atom kinds. -/
import Purr.Lemmas.WriteReadL
import Purr.Lemmas.BuilderL
namespace Purr

def normNode (n : Node) : Node := { n with kind := n.kind.norm }
def normState (s : BState) : BState := { s with graph := s.graph.map normNode }
def normAtom (a : Atom) : Atom := { a with kind := a.kind.norm }

theorem invert_norm (k : AtomKind) : k.norm.invert = k.invert.norm := by
  cases k with
  | bracket b =>
    obtain ⟨iso, sym, cfg, h, q, m⟩ := b
    cases cfg with
    | none => cases h <;> simp [AtomKind.norm, Bracket.norm, AtomKind.invert, hnorm] <;> split <;> simp_all [AtomKind.invert]
    | some c =>
      cases h with
      | none => simp [AtomKind.norm, Bracket.norm, AtomKind.invert, hnorm]
      | some hh =>
        by_cases h0 : hh.val = 0
        · simp [AtomKind.norm, Bracket.norm, AtomKind.invert, hnorm, h0, VirtualHydrogen.isZero]
        · cases c <;> simp [AtomKind.norm, Bracket.norm, AtomKind.invert, hnorm, h0, VirtualHydrogen.isZero,
            Configuration.norm, Configuration.flip]
  | _ => rfl

theorem normNode_edges (n : Node) : (normNode n).edges = n.edges := rfl

theorem map_normNode_getElem? (g : List Node) (i : Nat) : (g.map normNode)[i]? = (g[i]?).map normNode := by
  rw [List.getElem?_map]

theorem addEdge_norm (g : List Node) (i : Nat) (e : Edge) : addEdge (g.map normNode) i e = (addEdge g i e).map normNode := by
  apply List.ext_getElem?
  intro j
  rw [getElem?_addEdge, List.getElem?_map, List.getElem?_map, getElem?_addEdge]
  split <;> cases g[j]? <;> rfl

theorem modify_norm (g : List Node) (i : Nat) (f : List Edge → List Edge) :
    (g.map normNode).modify i (fun n => { n with edges := f n.edges }) =
      (g.modify i (fun n => { n with edges := f n.edges })).map normNode := by
  apply List.ext_getElem?
  intro j
  rw [List.getElem?_modify, List.getElem?_map, List.getElem?_map, List.getElem?_modify]
  split <;> cases g[j]? <;> rfl

/-- one builder step commutes with normalisation -/
theorem bstep_norm (s : BState) (e : Event) : bstep (normState s) e.norm = (bstep s e).map normState := by
  cases e with
  | root k => simp [bstep, normState, Event.norm, normNode]
  | pop d => simp [bstep, normState, Event.norm]
  | extend b k =>
    simp only [bstep, normState, Event.norm, List.length_map]
    cases s.stack with
    | nil => rfl
    | cons sid rest =>
      simp only
      split
      · simp only [Option.map_some, normState]
        congr 2
        rw [← addEdge_norm]
        simp [normNode, invert_norm]
      · rfl
  | join b r =>
    simp only [bstep, normState, Event.norm, List.length_map]
    cases s.stack with
    | nil => rfl
    | cons sid rest =>
      simp only
      split
      · cases s.opens.lookup r with
        | none =>
          simp only [Option.map_some, normState]
          congr 2
          exact addEdge_norm _ _ _
        | some tid =>
          simp only [map_normNode_getElem?]
          cases s.graph[tid]? with
          | none => rfl
          | some tnode =>
            simp only [Option.map_some, normNode_edges]
            cases tnode.edges.find? (isOpenFor r) with
            | none => rfl
            | some edge =>
              simp only [hasIdEdge, normNode_edges]
              by_cases hc : sid = tid ∨ (tnode.edges.any fun e => e.target == Target.id sid) = true
              · simp only [hc, ↓reduceIte]; rfl
              · simp only [hc, ↓reduceIte]
                cases reconcile edge.kind b with
                | none => rfl
                | some lr =>
                  obtain ⟨l, rt⟩ := lr
                  simp only [Option.map_some, normState]
                  congr 2
                  rw [modify_norm, addEdge_norm]
      · rfl

theorem brun_norm : ∀ (es : List Event) (s : BState), brun (normState s) (es.map Event.norm) = (brun s es).map normState
  | [], s => rfl
  | e :: es, s => by
    simp only [List.map_cons, brun, bstep_norm]
    cases bstep s e with
    | none => rfl
    | some s' => exact brun_norm es s'

theorem buildNodes_norm : ∀ (ns : List Node), buildNodes (ns.map normNode) = (buildNodes ns).map (List.map normAtom)
  | [] => rfl
  | n :: ns => by
    simp only [List.map_cons, buildNodes, normNode_edges]
    cases nodeBonds n.edges with
    | error e => rfl
    | ok bs =>
      simp only [buildNodes_norm ns]
      cases buildNodes ns with
      | error e => rfl
      | ok g => rfl

/-- building from the normalised history = normalising the kinds of the graph built from the history -/
theorem build_norm (es : List Event) :
    build? (es.map Event.norm) = (build? es).map (fun r => r.map (List.map normAtom)) := by
  unfold build?
  have h := brun_norm es .init
  have hi : normState .init = .init := rfl
  rw [hi] at h
  rw [h]
  cases brun .init es with
  | none => rfl
  | some s =>
    simp only [Option.map_some, BState.build, normState]
    cases s.errors with
    | cons e _ => rfl
    | nil => simp only [buildNodes_norm]

end Purr
