/- C15, the index side: the i-th entry of the trace's atom table is the token of the i-th atom event (hence of atom i of
   the built graph), the k-th entry of its ring-closure table is the token of the k-th join event. -/
import Purr.Lemmas.TraceL
import Purr.Lemmas.BuilderL
import Purr.Lemmas.ReaderL
namespace Purr

/-- the atom tokens of a located run, in order: is it a root, the written kind, the remaining lengths before / after -/
def atomToks : List LEvent → List (Bool × AtomKind × Nat × Nat)
  | [] => []
  | .root k a e :: evs => (true, k, a, e) :: atomToks evs
  | .extend _ k a e :: evs => (false, k, a, e) :: atomToks evs
  | .join _ _ _ _ _ :: evs => atomToks evs
  | .pop _ :: evs => atomToks evs

/-- the ring-closure tokens of a located run, in order -/
def joinToks : List LEvent → List (BondKind × Rnum × Nat × Nat × Nat)
  | [] => []
  | .join b r bc a e :: evs => (b, r, bc, a, e) :: joinToks evs
  | .root _ _ _ :: evs => joinToks evs
  | .extend _ _ _ _ :: evs => joinToks evs
  | .pop _ :: evs => joinToks evs

/-- the atoms a history writes, in order: is it a root, the written kind -/
def writtenAtoms : List Event → List (Bool × AtomKind)
  | [] => []
  | .root k :: es => (true, k) :: writtenAtoms es
  | .extend _ k :: es => (false, k) :: writtenAtoms es
  | .join _ _ :: es => writtenAtoms es
  | .pop _ :: es => writtenAtoms es

/-- the ring closures a history writes, in order -/
def writtenJoins : List Event → List (BondKind × Rnum)
  | [] => []
  | .join b r :: es => (b, r) :: writtenJoins es
  | .root _ :: es => writtenJoins es
  | .extend _ _ :: es => writtenJoins es
  | .pop _ :: es => writtenJoins es

theorem atomSpans_eq (n : Nat) : ∀ evs : List LEvent,
    atomSpans n evs = (atomToks evs).map (fun p => (n - p.2.2.1, n - p.2.2.2))
  | [] => rfl
  | .root k a e :: evs => by simp [atomSpans, atomToks, atomSpans_eq n evs]
  | .extend b k a e :: evs => by simp [atomSpans, atomToks, atomSpans_eq n evs]
  | .join b r bc a e :: evs => by simp [atomSpans, atomToks, atomSpans_eq n evs]
  | .pop d :: evs => by simp [atomSpans, atomToks, atomSpans_eq n evs]

theorem rnumSpans_eq (n : Nat) : ∀ evs : List LEvent,
    rnumSpans n evs = (joinToks evs).map (fun p => (n - p.2.2.2.1, n - p.2.2.2.2))
  | [] => rfl
  | .root k a e :: evs => by simp [rnumSpans, joinToks, rnumSpans_eq n evs]
  | .extend b k a e :: evs => by simp [rnumSpans, joinToks, rnumSpans_eq n evs]
  | .join b r bc a e :: evs => by simp [rnumSpans, joinToks, rnumSpans_eq n evs]
  | .pop d :: evs => by simp [rnumSpans, joinToks, rnumSpans_eq n evs]

theorem writtenAtoms_erase : ∀ evs : List LEvent,
    writtenAtoms (evs.map LEvent.erase) = (atomToks evs).map (fun p => (p.1, p.2.1))
  | [] => rfl
  | .root k a e :: evs => by simp [writtenAtoms, atomToks, LEvent.erase, writtenAtoms_erase evs]
  | .extend b k a e :: evs => by simp [writtenAtoms, atomToks, LEvent.erase, writtenAtoms_erase evs]
  | .join b r bc a e :: evs => by simp [writtenAtoms, atomToks, LEvent.erase, writtenAtoms_erase evs]
  | .pop d :: evs => by simp [writtenAtoms, atomToks, LEvent.erase, writtenAtoms_erase evs]

theorem writtenJoins_erase : ∀ evs : List LEvent,
    writtenJoins (evs.map LEvent.erase) = (joinToks evs).map (fun p => (p.1, p.2.1))
  | [] => rfl
  | .root k a e :: evs => by simp [writtenJoins, joinToks, LEvent.erase, writtenJoins_erase evs]
  | .extend b k a e :: evs => by simp [writtenJoins, joinToks, LEvent.erase, writtenJoins_erase evs]
  | .join b r bc a e :: evs => by simp [writtenJoins, joinToks, LEvent.erase, writtenJoins_erase evs]
  | .pop d :: evs => by simp [writtenJoins, joinToks, LEvent.erase, writtenJoins_erase evs]

/-- the kinds of the built atoms are the written kinds, non-root atoms with their mark adjusted (C03 convention) -/
theorem atomKinds_written : ∀ es : List Event,
    atomKinds es = (writtenAtoms es).map (fun p => if p.1 then p.2 else p.2.invert)
  | [] => rfl
  | .root k :: es => by simp [atomKinds, writtenAtoms, atomKinds_written es]
  | .extend b k :: es => by simp [atomKinds, writtenAtoms, atomKinds_written es]
  | .join b r :: es => by simp [atomKinds, writtenAtoms, atomKinds_written es]
  | .pop d :: es => by simp [atomKinds, writtenAtoms, atomKinds_written es]

theorem atomToks_mem {evs : List LEvent} {p : Bool × AtomKind × Nat × Nat} (h : p ∈ atomToks evs) :
    (∃ ev ∈ evs, ev = .root p.2.1 p.2.2.1 p.2.2.2) ∨ (∃ b, ∃ ev ∈ evs, ev = .extend b p.2.1 p.2.2.1 p.2.2.2) := by
  induction evs with
  | nil => simp [atomToks] at h
  | cons ev evs ih =>
    cases ev with
    | root k a e =>
      simp only [atomToks, List.mem_cons] at h
      rcases h with rfl | h
      · exact Or.inl ⟨_, by simp, rfl⟩
      · rcases ih h with ⟨ev', hm, he⟩ | ⟨b, ev', hm, he⟩
        · exact Or.inl ⟨ev', List.mem_cons_of_mem _ hm, he⟩
        · exact Or.inr ⟨b, ev', List.mem_cons_of_mem _ hm, he⟩
    | extend b k a e =>
      simp only [atomToks, List.mem_cons] at h
      rcases h with rfl | h
      · exact Or.inr ⟨b, _, by simp, rfl⟩
      · rcases ih h with ⟨ev', hm, he⟩ | ⟨b', ev', hm, he⟩
        · exact Or.inl ⟨ev', List.mem_cons_of_mem _ hm, he⟩
        · exact Or.inr ⟨b', ev', List.mem_cons_of_mem _ hm, he⟩
    | join b r bc a e =>
      simp only [atomToks] at h
      rcases ih h with ⟨ev', hm, he⟩ | ⟨b', ev', hm, he⟩
      · exact Or.inl ⟨ev', List.mem_cons_of_mem _ hm, he⟩
      · exact Or.inr ⟨b', ev', List.mem_cons_of_mem _ hm, he⟩
    | pop d =>
      simp only [atomToks] at h
      rcases ih h with ⟨ev', hm, he⟩ | ⟨b', ev', hm, he⟩
      · exact Or.inl ⟨ev', List.mem_cons_of_mem _ hm, he⟩
      · exact Or.inr ⟨b', ev', List.mem_cons_of_mem _ hm, he⟩

theorem joinToks_mem {evs : List LEvent} {p : BondKind × Rnum × Nat × Nat × Nat} (h : p ∈ joinToks evs) :
    LEvent.join p.1 p.2.1 p.2.2.1 p.2.2.2.1 p.2.2.2.2 ∈ evs := by
  induction evs with
  | nil => simp [joinToks] at h
  | cons ev evs ih =>
    cases ev with
    | join b r bc a e =>
      simp only [joinToks, List.mem_cons] at h
      rcases h with rfl | h
      · simp
      · exact List.mem_cons_of_mem _ (ih h)
    | root k a e => simp only [joinToks] at h; exact List.mem_cons_of_mem _ (ih h)
    | extend b k a e => simp only [joinToks] at h; exact List.mem_cons_of_mem _ (ih h)
    | pop d => simp only [joinToks] at h; exact List.mem_cons_of_mem _ (ih h)

end Purr
