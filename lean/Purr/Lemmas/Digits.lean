/- Helper lemmas about decimal digits and `natText`. -/
import Purr.Model.Token
namespace Purr

theorem digitVal_digitChar : ∀ d : Fin 10, digitVal (digitChar d.val) = d.val := by decide
theorem isDigit_digitChar : ∀ d : Fin 10, isDigit (digitChar d.val) = true := by decide

theorem digitVal_digitChar' {d : Nat} (h : d < 10) : digitVal (digitChar d) = d :=
  digitVal_digitChar ⟨d, h⟩
theorem isDigit_digitChar' {d : Nat} (h : d < 10) : isDigit (digitChar d) = true :=
  isDigit_digitChar ⟨d, h⟩

theorem digitChar_ne : ∀ d : Fin 10, ∀ c ∈ ['l', 'r', '(', ')', '.', '%', '[', ']', '*', '@', 'H', '+', '-', ':',
    '=', '#', '$', '/', '\\'], digitChar d.val ≠ c := by decide

/-- spec-level decimal value of a digit string -/
def decVal (s : Str) : Nat := s.foldl (fun a c => 10 * a + digitVal c) 0

theorem decVal_natText {n : Nat} (h : n < 1000) : decVal (natText n) = n := by
  unfold natText
  split
  · simp [decVal, List.foldl, digitVal_digitChar' (by omega : n < 10)]
  · split
    · simp [decVal, List.foldl, digitVal_digitChar' (by omega : n / 10 < 10),
        digitVal_digitChar' (by omega : n % 10 < 10)]; omega
    · simp [decVal, List.foldl, digitVal_digitChar' (by omega : n / 100 < 10),
        digitVal_digitChar' (by omega : n / 10 % 10 < 10), digitVal_digitChar' (by omega : n % 10 < 10)]; omega

theorem natText_allDigits {n : Nat} (h : n < 1000) : allDigits (natText n) = true := by
  unfold natText
  split
  · simp [allDigits, isDigit_digitChar' (by omega : n < 10)]
  · split
    · simp [allDigits, isDigit_digitChar' (by omega : n / 10 < 10), isDigit_digitChar' (by omega : n % 10 < 10)]
    · simp [allDigits, isDigit_digitChar' (by omega : n / 100 < 10),
        isDigit_digitChar' (by omega : n / 10 % 10 < 10), isDigit_digitChar' (by omega : n % 10 < 10)]

theorem natText_length {n : Nat} (h : n < 1000) : 1 ≤ (natText n).length ∧ (natText n).length ≤ 3 := by
  unfold natText
  split
  · simp
  · split
    · simp
    · simp [h]

end Purr
