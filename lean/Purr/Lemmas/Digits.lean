/- Helper lemmas about decimal digits and `natText`. -/
import Purr.Model.Token
namespace Purr

theorem digitVal_digitChar : ∀ d : Fin 10, digitVal (digitChar d.val) = d.val := by decide
theorem isDigit_digitChar : ∀ d : Fin 10, isDigit (digitChar d.val) = true := by decide

theorem digitVal_digitChar' {d : Nat} (h : d < 10) : digitVal (digitChar d) = d :=
  digitVal_digitChar ⟨d, h⟩
theorem isDigit_digitChar' {d : Nat} (h : d < 10) : isDigit (digitChar d) = true :=
  isDigit_digitChar ⟨d, h⟩

theorem digitChar_ne : ∀ d : Fin 10, ∀ c ∈ ['l', 'r', '(', ')', '.', '%', '[', ']', '*', '@', 'H', '+', '-', ':',
    '=', '#', '$', '/', '\\'], digitChar d.val ≠ c := by decide

/-- spec-level decimal value of a digit string -/
def decVal (s : Str) : Nat := s.foldl (fun a c => 10 * a + digitVal c) 0

theorem decVal_natText {n : Nat} (h : n < 1000) : decVal (natText n) = n := by
  unfold natText
  split
  · simp [decVal, List.foldl, digitVal_digitChar' (by omega : n < 10)]
  · split
    · simp [decVal, List.foldl, digitVal_digitChar' (by omega : n / 10 < 10),
        digitVal_digitChar' (by omega : n % 10 < 10)]; omega
    · simp [decVal, List.foldl, digitVal_digitChar' (by omega : n / 100 < 10),
        digitVal_digitChar' (by omega : n / 10 % 10 < 10), digitVal_digitChar' (by omega : n % 10 < 10)]; omega

theorem natText_allDigits {n : Nat} (h : n < 1000) : allDigits (natText n) = true := by
  unfold natText
  split
  · simp [allDigits, isDigit_digitChar' (by omega : n < 10)]
  · split
    · simp [allDigits, isDigit_digitChar' (by omega : n / 10 < 10), isDigit_digitChar' (by omega : n % 10 < 10)]
    · simp [allDigits, isDigit_digitChar' (by omega : n / 100 < 10),
        isDigit_digitChar' (by omega : n / 10 % 10 < 10), isDigit_digitChar' (by omega : n % 10 < 10)]

theorem natText_length {n : Nat} (h : n < 1000) : 1 ≤ (natText n).length ∧ (natText n).length ≤ 3 := by
  unfold natText
  split
  · simp
  · split
    · simp
    · simp [h]

/-! evaluation of the digit tests on literals (so that `isDigit` need not be unfolded) -/
@[simp] theorem isDigit_0 : isDigit '0' = true := by decide
@[simp] theorem digitVal_0 : digitVal '0' = 0 := by decide
@[simp] theorem isDigit_1 : isDigit '1' = true := by decide
@[simp] theorem digitVal_1 : digitVal '1' = 1 := by decide
@[simp] theorem isDigit_2 : isDigit '2' = true := by decide
@[simp] theorem digitVal_2 : digitVal '2' = 2 := by decide
@[simp] theorem isDigit_3 : isDigit '3' = true := by decide
@[simp] theorem digitVal_3 : digitVal '3' = 3 := by decide
@[simp] theorem isDigit_4 : isDigit '4' = true := by decide
@[simp] theorem digitVal_4 : digitVal '4' = 4 := by decide
@[simp] theorem isDigit_5 : isDigit '5' = true := by decide
@[simp] theorem digitVal_5 : digitVal '5' = 5 := by decide
@[simp] theorem isDigit_6 : isDigit '6' = true := by decide
@[simp] theorem digitVal_6 : digitVal '6' = 6 := by decide
@[simp] theorem isDigit_7 : isDigit '7' = true := by decide
@[simp] theorem digitVal_7 : digitVal '7' = 7 := by decide
@[simp] theorem isDigit_8 : isDigit '8' = true := by decide
@[simp] theorem digitVal_8 : digitVal '8' = 8 := by decide
@[simp] theorem isDigit_9 : isDigit '9' = true := by decide
@[simp] theorem digitVal_9 : digitVal '9' = 9 := by decide
@[simp] theorem isDigit_at : isDigit '@' = false := by decide
@[simp] theorem isDigit_H : isDigit 'H' = false := by decide
@[simp] theorem isDigit_plus : isDigit '+' = false := by decide
@[simp] theorem isDigit_minus : isDigit '-' = false := by decide
@[simp] theorem isDigit_colon : isDigit ':' = false := by decide
@[simp] theorem isDigit_close : isDigit ']' = false := by decide
@[simp] theorem isDigit_pct : isDigit '%' = false := by decide
@[simp] theorem isDigit_lp : isDigit '(' = false := by decide
@[simp] theorem isDigit_rp : isDigit ')' = false := by decide
@[simp] theorem isDigit_dot : isDigit '.' = false := by decide
@[simp] theorem isDigit_open : isDigit '[' = false := by decide
@[simp] theorem isDigit_star : isDigit '*' = false := by decide
@[simp] theorem digitChar_0 : digitChar 0 = '0' := by decide
@[simp] theorem digitChar_1 : digitChar 1 = '1' := by decide
@[simp] theorem digitChar_2 : digitChar 2 = '2' := by decide
@[simp] theorem digitChar_3 : digitChar 3 = '3' := by decide
@[simp] theorem digitChar_4 : digitChar 4 = '4' := by decide
@[simp] theorem digitChar_5 : digitChar 5 = '5' := by decide
@[simp] theorem digitChar_6 : digitChar 6 = '6' := by decide
@[simp] theorem digitChar_7 : digitChar 7 = '7' := by decide
@[simp] theorem digitChar_8 : digitChar 8 = '8' := by decide
@[simp] theorem digitChar_9 : digitChar 9 = '9' := by decide

end Purr
