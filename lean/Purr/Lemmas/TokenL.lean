/-
  Helper lemmas for T-tok: every token reader inverts the corresponding text function, for any
  continuation whose first character cannot extend the token (follow-set side conditions).
-/
import Purr.Lemmas.Digits
namespace Purr

/-- if `s` is non-empty its first character satisfies `P` -/
def Starts (P : Char → Prop) (s : Str) : Prop := ∀ c r, s = c :: r → P c

theorem Starts.nil {P} : Starts P [] := by intro c r h; cases h
theorem Starts.cons {P} {c : Char} {r : Str} (h : P c) : Starts P (c :: r) := by
  intro c' r' h'; cases h'; exact h
theorem Starts.head {P} {c : Char} {r : Str} (h : Starts P (c :: r)) : P c := h c r rfl
theorem Starts.append {P} {a b : Str} (ha : Starts P a) (hb : Starts P b) : Starts P (a ++ b) := by
  cases a with
  | nil => simpa using hb
  | cons c r => exact Starts.cons ha.head
theorem Starts.mono {P Q : Char → Prop} {s} (h : Starts P s) (hpq : ∀ c, P c → Q c) : Starts Q s := by
  intro c r e; exact hpq c (h c r e)

def isLower (c : Char) : Bool := 97 ≤ c.toNat && c.toNat ≤ 122

/-! ### symbols -/

def allSymbols : List BracketSymbol :=
  .star :: (Element.all.map .element ++ BracketAromatic.all.map .aromatic)

theorem mem_allElements (e : Element) : e ∈ Element.all := by cases e <;> decide
theorem mem_allSymbols (x : BracketSymbol) : x ∈ allSymbols := by
  cases x with
  | star => simp [allSymbols]
  | element e => simp [allSymbols, mem_allElements e]
  | aromatic a => cases a <;> simp [allSymbols, BracketAromatic.all]

/-- the row of the reader tables that the spelling of `x` selects is `x` itself -/
def symRowOk (x : BracketSymbol) : Bool :=
  match x.text with
  | [c] => symFirst.contains c && lookup1 c symOne == some x
  | [c, d] => symFirst.contains c && lookup2 c d symTwo == some x
  | _ => false

theorem symRows_ok : allSymbols.all symRowOk = true := by decide +kernel

theorem symRow (x : BracketSymbol) : symRowOk x = true :=
  List.all_eq_true.mp symRows_ok x (mem_allSymbols x)

theorem symTwo_lower : symTwo.all (fun e => isLower e.2.1) = true := by decide +kernel

theorem lookup2_mem {c d : Char} {x} : ∀ {l : List (Char × Char × BracketSymbol)}, lookup2 c d l = some x → (c, d, x) ∈ l
  | [], h => by simp [lookup2] at h
  | (c', d', y) :: t, h => by
    simp only [lookup2] at h
    split at h
    · rename_i hc; cases h; obtain ⟨rfl, rfl⟩ := hc; simp
    · exact List.mem_cons_of_mem _ (lookup2_mem h)

theorem lookup2_none_of_not_lower {c d : Char} (h : isLower d = false) : lookup2 c d symTwo = none := by
  cases hl : lookup2 c d symTwo with
  | none => rfl
  | some x =>
    have := List.all_eq_true.mp symTwo_lower _ (lookup2_mem hl)
    simp [h] at this

def NotLower (c : Char) : Prop := isLower c = false

/-- T-tok for bracket symbols -/
theorem readSymbol_text (x : BracketSymbol) (rest : Str) (h : Starts NotLower rest) :
    readSymbol (x.text ++ rest) = .ok x rest := by
  have hr := symRow x
  unfold symRowOk at hr
  split at hr
  · rename_i c htext
    simp only [Bool.and_eq_true, beq_iff_eq] at hr
    rw [htext]
    simp only [List.cons_append, List.nil_append, readSymbol, hr.1, if_true]
    cases rest with
    | nil => simp [hr.2]
    | cons d r =>
      have hd : isLower d = false := h.head
      simp [lookup2_none_of_not_lower hd, hr.2]
  · rename_i c d htext
    simp only [Bool.and_eq_true, beq_iff_eq] at hr
    rw [htext]
    have hm : c ∈ symFirst := by simpa using hr.1
    simp [readSymbol, hm, hr.2]
  · cases hr


/-! ### configuration -/

def AfterCfg (c : Char) : Prop := c = 'H' ∨ c = '+' ∨ c = '-' ∨ c = ':' ∨ c = ']'
def AfterSym (c : Char) : Prop := c = '@' ∨ AfterCfg c
def AfterH (c : Char) : Prop := c = '+' ∨ c = '-' ∨ c = ':' ∨ c = ']'
def AfterQ (c : Char) : Prop := c = ':' ∨ c = ']'
def AfterMap (c : Char) : Prop := c = ']'

theorem AfterMap.toQ {c} (h : AfterMap c) : AfterQ c := Or.inr h
theorem AfterQ.toH {c} (h : AfterQ c) : AfterH c := Or.inr (Or.inr h)
theorem AfterH.toCfg {c} (h : AfterH c) : AfterCfg c := Or.inr h
theorem AfterCfg.toSym {c} (h : AfterCfg c) : AfterSym c := Or.inr h

/-- documented shorthand: `@`/`@@` stand for both the TH and the AL pair (read back as TH) -/
def Configuration.norm : Configuration → Configuration
  | .AL1 => .TH1 | .AL2 => .TH2 | c => c

theorem afterCfg_facts {c : Char} (h : AfterCfg c) :
    isDigit c = false ∧ c ≠ '@' ∧ c ≠ 'A' ∧ c ≠ 'O' ∧ c ≠ 'S' ∧ c ≠ 'T' ∧ c ≠ '0' := by
  rcases h with h | h | h | h | h <;> subst h <;> decide

theorem afterSym_notLower {c : Char} (h : AfterSym c) : NotLower c := by
  rcases h with h | h | h | h | h | h <;> subst h <;> (unfold NotLower; decide)

set_option maxRecDepth 4000 in
theorem readConfiguration_text (c : Configuration) (rest : Str) (h : Starts AfterCfg rest) :
    readConfiguration (c.text ++ rest) = .ok (some c.norm) rest := by
  cases rest with
  | nil =>
    cases c <;> decide
  | cons d r =>
    obtain ⟨h1, h2, h3, h4, h5, h6, h7⟩ := afterCfg_facts h.head
    cases c <;>
      simp [Configuration.text, Configuration.norm, readConfiguration, readCfgDigit, readCfgTwoDigit, cfgRes,
        Configuration.oh?, Configuration.sp?, Configuration.tb?, Configuration.all, h1, h2, h3, h4, h5, h6, h7]

theorem readConfiguration_absent (rest : Str) (h : Starts AfterCfg rest) :
    readConfiguration rest = .ok none rest := by
  cases rest with
  | nil => rfl
  | cons d r =>
    have := (afterCfg_facts h.head).2.1
    unfold readConfiguration
    split
    · rename_i heq; cases heq; exact absurd rfl this
    · rfl

theorem readConfiguration_opt (o : Option Configuration) (rest : Str) (h : Starts AfterCfg rest) :
    readConfiguration (optText Configuration.text o ++ rest) = .ok (o.map Configuration.norm) rest := by
  cases o with
  | none => simpa [optText] using readConfiguration_absent rest h
  | some c => simpa [optText] using readConfiguration_text c rest h

/-! ### hydrogen count -/

/-- documented shorthand: an absent hydrogen count equals H0 -/
def hnorm : Option VirtualHydrogen → Option VirtualHydrogen
  | some h => if h.val = 0 then none else some h
  | none => none

theorem afterH_facts {c : Char} (h : AfterH c) : isDigit c = false ∧ c ≠ 'H' := by
  rcases h with h | h | h | h <;> subst h <;> decide

theorem readHcount_absent (rest : Str) (h : Starts AfterH rest) : readHcount rest = (none, rest) := by
  cases rest with
  | nil => rfl
  | cons d r =>
    have := (afterH_facts h.head).2
    unfold readHcount
    split
    · rename_i heq; cases heq; exact absurd rfl this
    · rfl

theorem readHcount_text (o : Option VirtualHydrogen) (rest : Str) (h : Starts AfterH rest) :
    readHcount (optText VirtualHydrogen.text o ++ rest) = (hnorm o, rest) := by
  cases o with
  | none => simpa [optText, hnorm] using readHcount_absent rest h
  | some hh =>
    obtain ⟨v, hv⟩ := hh
    simp only [optText, VirtualHydrogen.text, hnorm]
    by_cases h0 : v = 0
    · simp [h0]; exact readHcount_absent rest h
    · by_cases h1 : v = 1
      · subst h1
        simp only [h0, if_false, if_true, List.cons_append, List.nil_append]
        cases rest with
        | nil => simp [readHcount]
        | cons d r =>
          have := (afterH_facts h.head).1
          simp [readHcount, this]
      · simp only [h0, h1, if_false, List.cons_append, List.nil_append]
        simp [readHcount, isDigit_digitChar' hv, digitVal_digitChar' hv]

/-! ### charge -/

theorem afterQ_facts {c : Char} (h : AfterQ c) : isDigit c = false ∧ c ≠ '+' ∧ c ≠ '-' ∧ c ≠ '1' := by
  rcases h with h | h <;> subst h <;> decide

set_option maxRecDepth 4000 in
theorem readCharge_text (q : Charge) (rest : Str) (h : Starts AfterQ rest) :
    readCharge (q.text ++ rest) = .ok (some q) rest := by
  obtain ⟨v, hv⟩ := q
  have hz : v = -15 ∨ v = -14 ∨ v = -13 ∨ v = -12 ∨ v = -11 ∨ v = -10 ∨ v = -9 ∨ v = -8 ∨ v = -7 ∨ v = -6 ∨ v = -5 ∨ v = -4 ∨ v = -3 ∨ v = -2 ∨ v = -1 ∨ v = 1 ∨ v = 2 ∨ v = 3 ∨ v = 4 ∨ v = 5 ∨ v = 6 ∨ v = 7 ∨ v = 8 ∨ v = 9 ∨ v = 10 ∨ v = 11 ∨ v = 12 ∨ v = 13 ∨ v = 14 ∨ v = 15 := by omega
  cases rest with
  | nil =>
    rcases hz with rfl | rfl | rfl | rfl | rfl | rfl | rfl | rfl | rfl | rfl | rfl | rfl | rfl | rfl | rfl | rfl | rfl | rfl | rfl | rfl | rfl | rfl | rfl | rfl | rfl | rfl | rfl | rfl | rfl | rfl <;>
      simp [Charge.text, natText, readCharge, readFifteen, mkCharge, Charge.ofInt?]
  | cons d r =>
    obtain ⟨h1, h2, h3, h4⟩ := afterQ_facts h.head
    rcases hz with rfl | rfl | rfl | rfl | rfl | rfl | rfl | rfl | rfl | rfl | rfl | rfl | rfl | rfl | rfl | rfl | rfl | rfl | rfl | rfl | rfl | rfl | rfl | rfl | rfl | rfl | rfl | rfl | rfl | rfl <;>
      simp [Charge.text, natText, readCharge, readFifteen, mkCharge, Charge.ofInt?, h1, h2, h3, h4]

theorem readCharge_absent (rest : Str) (h : Starts AfterQ rest) : readCharge rest = .ok none rest := by
  cases rest with
  | nil => rfl
  | cons d r =>
    obtain ⟨_, h2, h3, _⟩ := afterQ_facts h.head
    unfold readCharge
    split
    · rename_i heq; cases heq; exact absurd rfl h2
    · rename_i heq; cases heq; exact absurd rfl h3
    · rfl

theorem readCharge_opt (o : Option Charge) (rest : Str) (h : Starts AfterQ rest) :
    readCharge (optText Charge.text o ++ rest) = .ok o rest := by
  cases o with
  | none => simpa [optText] using readCharge_absent rest h
  | some c => simpa [optText] using readCharge_text c rest h


/-! ### isotope and map numbers -/

def NotDigit (c : Char) : Prop := isDigit c = false

theorem takeDigits_stop (n acc : Nat) (rest : Str) (h : Starts NotDigit rest) :
    takeDigits n acc rest = (acc, rest) := by
  cases n with
  | zero => rfl
  | succ n =>
    cases rest with
    | nil => rfl
    | cons d r =>
      have : isDigit d = false := h.head
      simp [takeDigits, this]

theorem readIsotope_absent (rest : Str) (h : Starts NotDigit rest) : readIsotope rest = (none, rest) := by
  cases rest with
  | nil => rfl
  | cons d r =>
    have : isDigit d = false := h.head
    simp [readIsotope, this]

theorem readIsotope_text (n : Number) (rest : Str) (h : Starts NotDigit rest) :
    readIsotope (n.text ++ rest) = (some n, rest) := by
  obtain ⟨v, hv⟩ := n
  simp only [Number.text, natText]
  split
  · rename_i h10
    simp [readIsotope, isDigit_digitChar' h10, digitVal_digitChar' h10, takeDigits_stop _ _ rest h,
      Number.ofNat?, hv]
  · split
    · rename_i h10 h100
      have a : v / 10 < 10 := by omega
      have b : v % 10 < 10 := by omega
      simp [readIsotope, takeDigits, isDigit_digitChar' a, digitVal_digitChar' a, isDigit_digitChar' b,
        digitVal_digitChar' b, takeDigits_stop _ _ rest h, Number.ofNat?]
      constructor <;> omega
    · rename_i h10 h100
      have a : v / 100 < 10 := by omega
      have b : v / 10 % 10 < 10 := by omega
      have c : v % 10 < 10 := by omega
      simp [readIsotope, takeDigits, isDigit_digitChar' a, digitVal_digitChar' a, isDigit_digitChar' b,
        digitVal_digitChar' b, isDigit_digitChar' c, digitVal_digitChar' c, Number.ofNat?, hv,
        takeDigits_stop _ _ rest h]
      try (constructor <;> omega)

theorem readIsotope_opt (o : Option Number) (rest : Str) (h : Starts NotDigit rest) :
    readIsotope (optText Number.text o ++ rest) = (o, rest) := by
  cases o with
  | none => simpa [optText] using readIsotope_absent rest h
  | some n => simpa [optText] using readIsotope_text n rest h

theorem readMap_absent (rest : Str) (h : Starts AfterMap rest) : readMap rest = .ok none rest := by
  cases rest with
  | nil => rfl
  | cons d r =>
    have hd : d = ']' := h.head
    subst hd; rfl

theorem readMap_text (n : Number) (rest : Str) (h : Starts NotDigit rest) :
    readMap (':' :: n.text ++ rest) = .ok (some n) rest := by
  obtain ⟨v, hv⟩ := n
  simp only [Number.text, natText]
  split
  · rename_i h10
    simp [readMap, isDigit_digitChar' h10, digitVal_digitChar' h10, takeDigits_stop _ _ rest h,
      Number.ofNat?, hv]
  · split
    · rename_i h10 h100
      have a : v / 10 < 10 := by omega
      have b : v % 10 < 10 := by omega
      simp [readMap, takeDigits, isDigit_digitChar' a, digitVal_digitChar' a, isDigit_digitChar' b,
        digitVal_digitChar' b, takeDigits_stop _ _ rest h, Number.ofNat?]
      constructor <;> omega
    · rename_i h10 h100
      have a : v / 100 < 10 := by omega
      have b : v / 10 % 10 < 10 := by omega
      have c : v % 10 < 10 := by omega
      simp [readMap, takeDigits, isDigit_digitChar' a, digitVal_digitChar' a, isDigit_digitChar' b,
        digitVal_digitChar' b, isDigit_digitChar' c, digitVal_digitChar' c, Number.ofNat?, hv,
        takeDigits_stop _ _ rest h]
      try (constructor <;> omega)

/-! ### bracket atoms -/

theorem symbol_text_notDigit : allSymbols.all (fun x => match x.text with | c :: _ => !isDigit c | [] => false) = true := by
  decide +kernel

theorem symbol_text_starts (x : BracketSymbol) (more : Str) : Starts NotDigit (x.text ++ more) := by
  have := List.all_eq_true.mp symbol_text_notDigit x (mem_allSymbols x)
  split at this
  · rename_i c t heq
    rw [heq]; exact Starts.cons (by simpa [NotDigit] using this)
  · cases this

theorem cfg_text_starts (c : Configuration) : ∃ t, c.text = '@' :: t := by
  cases c <;> exact ⟨_, rfl⟩

theorem starts_optCfg (o : Option Configuration) {more : Str} (h : Starts AfterCfg more) :
    Starts AfterSym (optText Configuration.text o ++ more) := by
  cases o with
  | none => simpa [optText] using h.mono (fun _ => AfterCfg.toSym)
  | some c => obtain ⟨t, ht⟩ := cfg_text_starts c; simp only [optText, ht, List.cons_append]; exact Starts.cons (Or.inl rfl)

theorem starts_optH (o : Option VirtualHydrogen) {more : Str} (h : Starts AfterH more) :
    Starts AfterCfg (optText VirtualHydrogen.text o ++ more) := by
  cases o with
  | none => simpa [optText] using h.mono (fun _ => AfterH.toCfg)
  | some hh =>
    simp only [optText, VirtualHydrogen.text]
    split
    · simpa using h.mono (fun _ => AfterH.toCfg)
    · split <;> exact Starts.cons (Or.inl rfl)

theorem starts_optQ (o : Option Charge) {more : Str} (h : Starts AfterQ more) :
    Starts AfterH (optText Charge.text o ++ more) := by
  cases o with
  | none => simpa [optText] using h.mono (fun _ => AfterQ.toH)
  | some q =>
    simp only [optText, Charge.text, List.cons_append]
    split
    · exact Starts.cons (Or.inr (Or.inl rfl))
    · exact Starts.cons (Or.inl rfl)

def mapText (o : Option Number) : Str := match o with | none => [] | some m => ':' :: m.text

theorem starts_optMap (o : Option Number) {more : Str} (h : Starts AfterMap more) :
    Starts AfterQ (mapText o ++ more) := by
  cases o with
  | none => simpa [mapText] using h.mono (fun _ => AfterMap.toQ)
  | some m => exact Starts.cons (Or.inl rfl)

theorem readMap_opt (o : Option Number) (rest : Str) :
    readMap (mapText o ++ ']' :: rest) = .ok o (']' :: rest) := by
  cases o with
  | none => exact readMap_absent _ (Starts.cons rfl)
  | some m => exact readMap_text m _ (Starts.cons (by simp [NotDigit]))

/-- the documented shorthands on a bracket atom -/
def Bracket.norm (b : Bracket) : Bracket :=
  { b with configuration := b.configuration.map Configuration.norm, hcount := hnorm b.hcount }

theorem bracket_text_eq (b : Bracket) :
    (AtomKind.bracket b).text = '[' :: (optText Number.text b.isotope ++ (b.symbol.text ++
      (optText Configuration.text b.configuration ++ (optText VirtualHydrogen.text b.hcount ++
      (optText Charge.text b.charge ++ (mapText b.map ++ [']'])))))) := by
  simp only [AtomKind.text, mapText, List.append_assoc]
  cases b.map <;> rfl

/-- T-tok for bracket atoms: all six fields, any combination, any continuation -/
theorem readBracket_text (b : Bracket) (rest : Str) :
    readBracket ((AtomKind.bracket b).text ++ rest) = .ok (.bracket b.norm) rest := by
  rw [bracket_text_eq]
  simp only [List.cons_append, List.append_assoc, List.nil_append]
  have hm : Starts AfterMap (']' :: rest) := Starts.cons rfl
  have hq := starts_optMap b.map hm
  have hh := starts_optQ b.charge hq
  have hc := starts_optH b.hcount hh
  have hs := starts_optCfg b.configuration hc
  unfold readBracket
  simp only [readIsotope_opt b.isotope _ (symbol_text_starts b.symbol _),
    readSymbol_text b.symbol _ (hs.mono (fun _ => afterSym_notLower)),
    readConfiguration_opt b.configuration _ hc, readHcount_text b.hcount _ hh,
    readCharge_opt b.charge _ hq, readMap_opt b.map rest]
  rfl

/-! ### organic symbols, wildcard, atoms -/

def NoLR (c : Char) : Prop := c ≠ 'l' ∧ c ≠ 'r'

theorem readOrganic_aliphatic (a : Aliphatic) (rest : Str) (h : Starts NoLR rest) :
    readOrganic (a.text ++ rest) = .ok (.aliphatic a) rest := by
  cases rest with
  | nil => cases a <;> rfl
  | cons d r =>
    obtain ⟨h1, h2⟩ : d ≠ 'l' ∧ d ≠ 'r' := h.head
    cases a <;> simp [Aliphatic.text, readOrganic, h1, h2]

theorem readOrganic_aromatic (a : Aromatic) (rest : Str) :
    readOrganic (a.text ++ rest) = .ok (.aromatic a) rest := by
  cases a <;> rfl

/-- the documented shorthands on an atom kind -/
def AtomKind.norm : AtomKind → AtomKind
  | .bracket b => .bracket b.norm
  | k => k

/-- T-tok for atoms -/
theorem readAtom_text (k : AtomKind) (rest : Str) (h : Starts NoLR rest) :
    readAtom (k.text ++ rest) = .ok k.norm rest := by
  cases k with
  | star => simp [AtomKind.text, readAtom, readOrganic, readBracket, AtomKind.norm]
  | aliphatic a => simp [AtomKind.text, readAtom, readOrganic_aliphatic a rest h, AtomKind.norm]
  | aromatic a => simp [AtomKind.text, readAtom, readOrganic_aromatic a rest, AtomKind.norm]
  | bracket b =>
    have hb := readBracket_text b rest
    have ho : readOrganic ((AtomKind.bracket b).text ++ rest) = .absent := by
      rw [bracket_text_eq]; rfl
    simp [readAtom, ho, hb, AtomKind.norm]

end Purr
