/- the two vocabularies of C10's second sentence agree: a ring number is open in the pairing scan (`Spec.scan`) exactly when it
   has been written an odd number of times (`countR`) — for every history -/
import Purr.Lemmas.JoinReasonL
namespace Purr
open Purr.Spec

theorem scan_open_iff_odd_aux : ∀ (n : Nat) (es : List Event), es.length = n → ∀ r',
    ((scanPO es).2.lookup r').isSome = true ↔ countR es r' % 2 = 1 := by
  intro n
  induction n with
  | zero =>
    intro es hlen r'
    have : es = [] := List.eq_nil_of_length_eq_zero hlen
    subst this
    simp [scanPO, annA, annotate, scan, countR, writtenJoins]
  | succ n ih =>
    intro es hlen r'
    have hne : es ≠ [] := by intro e; subst e; cases hlen
    have hsplit := (List.dropLast_concat_getLast hne).symm
    have hl : es.dropLast.length = n := by simp [hlen]
    have IH := ih es.dropLast hl
    rw [hsplit, scanPO_snoc]
    cases hev : es.getLast hne with
    | join b r =>
      rw [countR_snoc_join]
      simp only [scanStep]
      by_cases hrr : r' = r
      · subst hrr
        simp only [beq_self_eq_true, if_true]
        cases hlk : (scanPO es.dropLast).2.lookup r' with
        | some j =>
          simp only
          rw [lookup_filter_self r']
          have := (IH r').mp (by rw [hlk]; rfl)
          simp; omega
        | none =>
          simp only [List.lookup, beq_self_eq_true]
          have : ¬ countR es.dropLast r' % 2 = 1 := fun h => by
            have := (IH r').mpr h; rw [hlk] at this; cases this
          simp; omega
      · have hb : (r == r') = false := by
          simp only [beq_eq_false_iff_ne]; exact fun e => hrr e.symm
        simp only [hb, Bool.false_eq_true, if_false, Nat.add_zero]
        cases hlk : (scanPO es.dropLast).2.lookup r with
        | some j =>
          simp only
          rw [lookup_filter_ne hrr]
          exact IH r'
        | none =>
          simp only [List.lookup]
          have hb2 : (r' == r) = false := by simp only [beq_eq_false_iff_ne]; exact hrr
          simp only [hb2]
          exact IH r'
    | root k =>
      rw [countR_snoc_other _ _ (by intro b r h; cases h)]
      simp only [scanStep]; exact IH r'
    | extend b k =>
      rw [countR_snoc_other _ _ (by intro b r h; cases h)]
      simp only [scanStep]; exact IH r'
    | pop d =>
      rw [countR_snoc_other _ _ (by intro b r h; cases h)]
      simp only [scanStep]; exact IH r'

/-- A RING NUMBER IS OPEN IN THE PAIRING SCAN IFF IT HAS BEEN WRITTEN AN ODD NUMBER OF TIMES -/
theorem scan_open_iff_odd (es : List Event) (r : Rnum) :
    ((scanPO es).2.lookup r).isSome = true ↔ countR es r % 2 = 1 := scan_open_iff_odd_aux es.length es rfl r

end Purr
