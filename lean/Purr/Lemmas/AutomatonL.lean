/-
  Properties of the grammar automaton itself (Purr/Spec/Automaton.lean): its verdicts are exactly what C05 asks
  of an error position — the prefix before the reported character can be completed to a sentence, the prefix
  including it cannot, and end-of-line is reported exactly for viable but incomplete inputs.
-/
import Purr.Spec.Automaton
namespace Purr.Spec

/-- the configuration after a string, `none` if the automaton gets stuck -/
def run (k : Cfg) : Str → Option Cfg
  | [] => some k
  | c :: s => match step k c with
    | some k' => run k' s
    | none => none

theorem run_append (k : Cfg) : ∀ (x y : Str), run k (x ++ y) = (run k x).bind (fun k' => run k' y)
  | [], _ => rfl
  | c :: x, y => by
    simp only [List.cons_append, run]
    cases step k c with
    | none => rfl
    | some k' => exact run_append k' x y

theorem runFrom_of_run {k k' : Cfg} : ∀ {x : Str} (i : Nat) (y : Str), run k x = some k' → runFrom k i (x ++ y) = runFrom k' (i + x.length) y
  | [], i, y, h => by simp only [run, Option.some.injEq] at h; subst h; simp
  | c :: x, i, y, h => by
    simp only [run] at h
    simp only [List.cons_append, runFrom]
    cases hs : step k c with
    | none => rw [hs] at h; cases h
    | some k1 =>
      rw [hs] at h
      simp only
      rw [runFrom_of_run (i + 1) y h]
      simp only [List.length_cons]
      congr 1; omega

theorem runFrom_ok_iff (k : Cfg) (i : Nat) (s : Str) : runFrom k i s = .ok ↔ ∃ k', run k s = some k' ∧ accepting k' = true := by
  induction s generalizing k i with
  | nil =>
    simp only [runFrom, run]
    constructor
    · intro h; split at h
      · exact ⟨k, rfl, by assumption⟩
      · cases h
    · rintro ⟨k', h1, h2⟩; cases h1; simp [h2]
  | cons c s ih =>
    simp only [runFrom, run]
    cases step k c with
    | none => simp
    | some k1 => exact ih k1 (i + 1)

/-- a `Character(j)` verdict: the automaton ran through the first `j - i` characters and has no move on the next -/
theorem runFrom_character {k : Cfg} {i j : Nat} : ∀ {s : Str}, runFrom k i s = .character j →
    i ≤ j ∧ j - i < s.length ∧ ∃ k' c, run k (s.take (j - i)) = some k' ∧ s[j - i]? = some c ∧ step k' c = none
  | [], h => by simp only [runFrom] at h; split at h <;> cases h
  | c :: s, h => by
    simp only [runFrom] at h
    cases hs : step k c with
    | none =>
      rw [hs] at h
      simp only [Verdict.character.injEq] at h
      subst h
      exact ⟨Nat.le_refl _, by simp, k, c, by simp [run], by simp, hs⟩
    | some k1 =>
      rw [hs] at h
      obtain ⟨h1, h2, k', c', h3, h4, h5⟩ := runFrom_character h
      have e : j - i = (j - (i + 1)) + 1 := by omega
      refine ⟨by omega, by simp only [List.length_cons]; omega, k', c', ?_, ?_, h5⟩
      · rw [e, List.take_succ_cons]; simp only [run, hs]; exact h3
      · rw [e, List.getElem?_cons_succ]; exact h4

theorem runFrom_endOfLine {k : Cfg} {i : Nat} : ∀ {s : Str}, runFrom k i s = .endOfLine →
    ∃ k', run k s = some k' ∧ accepting k' = false
  | [], h => by
    simp only [runFrom] at h
    split at h
    · cases h
    · rename_i ha; exact ⟨k, rfl, by simpa using ha⟩
  | c :: s, h => by
    simp only [runFrom] at h
    cases hs : step k c with
    | none => rw [hs] at h; cases h
    | some k1 =>
      rw [hs] at h
      obtain ⟨k', h1, h2⟩ := runFrom_endOfLine h
      exact ⟨k', by simp only [run, hs]; exact h1, h2⟩

end Purr.Spec

namespace Purr.Spec

/-! ### every reachable configuration can be completed -/

/-- a second letter that completes the first letter `c` of a symbol to a two-letter symbol -/
def secondOf (c : Char) : Option Char :=
  (bracketSymbols.find? (fun s => s.length == 2 && s.head? == some c)).bind (fun s => s[1]?)

def Valid (k : Cfg) : Prop :=
  match k.q with
  | .sym c => firstOK c = true
  | _ => True

/-- table fact: every first letter either is a symbol by itself or has a second letter -/
theorem first_completable : ∀ s ∈ bracketSymbols, ∀ c, s.head? = some c →
    oneOK c = true ∨ ∃ d, secondOf c = some d ∧ twoOK c d = true := by
  have h : bracketSymbols.all (fun s => match s.head? with
      | some c => oneOK c || (match secondOf c with | some d => twoOK c d | none => false)
      | none => true) = true := by decide +kernel
  intro s hs c hc
  have := List.all_eq_true.mp h s hs
  simp only [hc] at this
  rcases Bool.or_eq_true _ _ |>.mp this with h1 | h2
  · exact Or.inl h1
  · right
    cases hd : secondOf c with
    | none => rw [hd] at h2; cases h2
    | some d => rw [hd] at h2; exact ⟨d, rfl, h2⟩

theorem firstOK_completable {c : Char} (h : firstOK c = true) :
    oneOK c = true ∨ ∃ d, secondOf c = some d ∧ twoOK c d = true := by
  unfold firstOK at h
  rw [List.any_eq_true] at h
  obtain ⟨s, hs, hc⟩ := h
  exact first_completable s hs c (by simpa using hc)

/-- characters that bring the configuration to the end of its current token -/
def tokComp : Q → Str
  | .needAtom => ['C'] | .afterOpen => ['C'] | .body => [] | .afterBond => ['C']
  | .pct1 => ['0', '0'] | .pct2 => ['0'] | .orgA => ['t'] | .orgT => ['s'] | .orgB => [] | .orgC => []
  | .brOpen => ['C', ']'] | .iso1 => ['C', ']'] | .iso2 => ['C', ']'] | .iso3 => ['C', ']']
  | .sym c => if oneOK c then [']'] else (match secondOf c with | some d => [d, ']'] | none => [])
  | .afterSym => [']'] | .at1 => [']']
  | .atT => ['H', '1', ']'] | .atTH => ['1', ']'] | .atTB => ['1', ']'] | .atTBd _ => [']']
  | .atA => ['L', '1', ']'] | .atAL => ['1', ']'] | .atS => ['P', '1', ']'] | .atSP => ['1', ']']
  | .atO => ['H', '1', ']'] | .atOH => ['1', ']'] | .atOHd _ => [']']
  | .afterCfg => [']'] | .h0 => [']'] | .afterH => [']']
  | .sign _ => [']'] | .chargeOne => [']'] | .afterCharge => [']']
  | .map0 => ['0', ']'] | .map1 => [']'] | .map2 => [']'] | .map3 => [']']

def Closed (q : Q) : Prop := q = .body ∨ q = .orgB ∨ q = .orgC

theorem oneOK_C : oneOK 'C' = true := by decide +kernel
theorem twoOK_C_br : twoOK 'C' ']' = false := by decide +kernel
theorem firstOK_C : firstOK 'C' = true := by decide +kernel

/-- the token completion ends the current token at the same depth -/
theorem run_tokComp (k : Cfg) (hv : Valid k) : ∃ q', run k (tokComp k.q) = some ⟨q', k.depth⟩ ∧ Closed q' := by
  obtain ⟨q, d⟩ := k
  cases q
  case sym c =>
    simp only [Valid] at hv
    rcases firstOK_completable hv with h1 | ⟨d', h2, h3⟩
    · by_cases h2 : twoOK c ']' = true
      · -- `]` would be read as a second letter: impossible, no symbol contains `]`
        exfalso
        unfold twoOK at h2
        have : bracketSymbols.all (fun s => !(s.contains ']')) = true := by decide +kernel
        rw [List.contains_iff_mem] at h2
        have := List.all_eq_true.mp this _ h2
        simp at this
      · refine ⟨.body, ?_, Or.inl rfl⟩
        simp only [tokComp, h1, if_true, run, step, h2, Bool.false_eq_true, if_false, afterSymStep, afterCfgStep, afterHStep, afterChargeStep]
        simp
    · by_cases h1 : oneOK c = true
      · by_cases h2' : twoOK c ']' = true
        · exfalso
          unfold twoOK at h2'
          have : bracketSymbols.all (fun s => !(s.contains ']')) = true := by decide +kernel
          rw [List.contains_iff_mem] at h2'
          have := List.all_eq_true.mp this _ h2'
          simp at this
        · refine ⟨.body, ?_, Or.inl rfl⟩
          simp only [tokComp, h1, if_true, run, step, h2', Bool.false_eq_true, if_false, afterSymStep, afterCfgStep, afterHStep, afterChargeStep]
          simp
      · refine ⟨.body, ?_, Or.inl rfl⟩
        simp only [tokComp, h1, Bool.false_eq_true, if_false, h2, run, step, h3, if_true, afterSymStep, afterCfgStep, afterHStep, afterChargeStep]
        simp
  case brOpen => exact ⟨.body, by simp [tokComp, run, step, isDig, symStart, firstOK_C, oneOK_C, twoOK_C_br, afterSymStep, afterCfgStep, afterHStep, afterChargeStep], Or.inl rfl⟩
  case iso1 => exact ⟨.body, by simp [tokComp, run, step, isDig, symStart, firstOK_C, oneOK_C, twoOK_C_br, afterSymStep, afterCfgStep, afterHStep, afterChargeStep], Or.inl rfl⟩
  case iso2 => exact ⟨.body, by simp [tokComp, run, step, isDig, symStart, firstOK_C, oneOK_C, twoOK_C_br, afterSymStep, afterCfgStep, afterHStep, afterChargeStep], Or.inl rfl⟩
  case iso3 => exact ⟨.body, by simp [tokComp, run, step, isDig, symStart, firstOK_C, oneOK_C, twoOK_C_br, afterSymStep, afterCfgStep, afterHStep, afterChargeStep], Or.inl rfl⟩
  case needAtom => exact ⟨.orgC, by simp [tokComp, run, step, atomStart], Or.inr (Or.inr rfl)⟩
  case afterOpen => exact ⟨.orgC, by simp [tokComp, run, step, atomStart, isBondCh], Or.inr (Or.inr rfl)⟩
  case afterBond => exact ⟨.orgC, by simp [tokComp, run, step, atomStart], Or.inr (Or.inr rfl)⟩
  case body => exact ⟨.body, rfl, Or.inl rfl⟩
  case orgB => exact ⟨.orgB, rfl, Or.inr (Or.inl rfl)⟩
  case orgC => exact ⟨.orgC, rfl, Or.inr (Or.inr rfl)⟩
  all_goals exact ⟨.body, by simp [tokComp, run, step, isDig, afterSymStep, afterCfgStep, afterHStep, afterChargeStep, digitOf], Or.inl rfl⟩

end Purr.Spec

namespace Purr.Spec

theorem run_close : ∀ (d : Nat) (q : Q), Closed q → ∃ q', run ⟨q, d⟩ (List.replicate d ')') = some ⟨q', 0⟩ ∧ Closed q'
  | 0, q, h => ⟨q, rfl, h⟩
  | d + 1, q, h => by
    have hs : step ⟨q, d + 1⟩ ')' = some ⟨.body, d⟩ := by
      rcases h with rfl | rfl | rfl <;> simp [step, bodyStep]
    obtain ⟨q', h1, h2⟩ := run_close d .body (Or.inl rfl)
    exact ⟨q', by simp only [List.replicate_succ, run, hs]; exact h1, h2⟩

theorem accepting_closed {q : Q} (h : Closed q) : accepting ⟨q, 0⟩ = true := by
  rcases h with rfl | rfl | rfl <;> rfl

/-- a string that completes a configuration to a sentence -/
def completion (k : Cfg) : Str := tokComp k.q ++ List.replicate k.depth ')'

theorem completion_accepts (k : Cfg) (hv : Valid k) (i : Nat) : runFrom k i (completion k) = .ok := by
  obtain ⟨q', h1, hc⟩ := run_tokComp k hv
  obtain ⟨q'', h2, hc'⟩ := run_close k.depth q' hc
  rw [runFrom_ok_iff]
  refine ⟨⟨q'', 0⟩, ?_, accepting_closed hc'⟩
  unfold completion
  rw [run_append, h1]
  exact h2

def NotSym (o : Option Cfg) : Prop := ∀ k', o = some k' → ∀ c1, k'.q ≠ .sym c1

theorem notSym_some {q : Q} {d : Nat} (h : ∀ c1, q ≠ .sym c1) : NotSym (some ⟨q, d⟩) := by
  intro k' hk c1; cases hk; exact h c1

theorem notSym_none : NotSym none := by intro k' hk; cases hk

theorem notSym_ite {b : Prop} [Decidable b] {x y : Option Cfg} (hx : NotSym x) (hy : NotSym y) : NotSym (if b then x else y) := by
  split <;> assumption

theorem notSym_atomStart (d : Nat) (c : Char) : NotSym (atomStart d c) := by
  unfold atomStart
  repeat' apply notSym_ite
  all_goals first | exact notSym_none | (apply notSym_some; intro c1 h; cases h)

theorem notSym_rnumStart (d : Nat) (c : Char) : NotSym (rnumStart d c) := by
  unfold rnumStart
  repeat' apply notSym_ite
  all_goals first | exact notSym_none | (apply notSym_some; intro c1 h; cases h)

theorem notSym_bodyStep (d : Nat) (c : Char) : NotSym (bodyStep d c) := by
  unfold bodyStep
  apply notSym_ite (notSym_some (by intro c1 h; cases h))
  apply notSym_ite
  · apply notSym_ite notSym_none (notSym_some (by intro c1 h; cases h))
  apply notSym_ite (notSym_some (by intro c1 h; cases h))
  apply notSym_ite (notSym_some (by intro c1 h; cases h))
  have h1 := notSym_atomStart d c
  cases ha : atomStart d c with
  | some k => rw [ha] at h1; exact h1
  | none => exact notSym_rnumStart d c

theorem notSym_afterChargeStep (d : Nat) (c : Char) : NotSym (afterChargeStep d c) := by
  unfold afterChargeStep
  repeat' apply notSym_ite
  all_goals first | exact notSym_none | (apply notSym_some; intro c1 h; cases h)

theorem notSym_afterHStep (d : Nat) (c : Char) : NotSym (afterHStep d c) := by
  unfold afterHStep
  apply notSym_ite (notSym_some (by intro c1 h; cases h))
  apply notSym_ite (notSym_some (by intro c1 h; cases h))
  exact notSym_afterChargeStep d c

theorem notSym_afterCfgStep (d : Nat) (c : Char) : NotSym (afterCfgStep d c) := by
  unfold afterCfgStep
  exact notSym_ite (notSym_some (by intro c1 h; cases h)) (notSym_afterHStep d c)

theorem notSym_afterSymStep (d : Nat) (c : Char) : NotSym (afterSymStep d c) := by
  unfold afterSymStep
  exact notSym_ite (notSym_some (by intro c1 h; cases h)) (notSym_afterCfgStep d c)

theorem valid_of_notSym {o : Option Cfg} {k' : Cfg} (h : NotSym o) (ho : o = some k') : Valid k' := by
  unfold Valid
  cases hq : k'.q with
  | sym c1 => exact absurd hq (h k' ho c1)
  | _ => trivial

theorem valid_symStart {d : Nat} {c : Char} {k' : Cfg} (h : symStart d c = some k') : Valid k' := by
  unfold symStart at h
  split at h
  · cases h; trivial
  · split at h
    · rename_i hf; cases h; exact hf
    · cases h

theorem step_valid {k k' : Cfg} {c : Char} (h : step k c = some k') : Valid k' := by
  obtain ⟨q, d⟩ := k
  have c0 : ∀ {q' : Q}, (∀ c1, q' ≠ .sym c1) → NotSym (some ⟨q', d⟩) := fun h' => notSym_some h'
  cases q
  case brOpen => unfold step at h; simp only at h; split at h; (cases h; trivial); exact valid_symStart h
  case iso1 => unfold step at h; simp only at h; split at h; (cases h; trivial); exact valid_symStart h
  case iso2 => unfold step at h; simp only at h; split at h; (cases h; trivial); exact valid_symStart h
  case iso3 => unfold step at h; simp only at h; exact valid_symStart h
  all_goals
    refine valid_of_notSym ?_ h
    unfold step
    simp only
    repeat' apply notSym_ite
    all_goals first
      | exact notSym_none
      | exact notSym_atomStart _ _
      | exact notSym_bodyStep _ _
      | exact notSym_afterSymStep _ _
      | exact notSym_afterCfgStep _ _
      | exact notSym_afterHStep _ _
      | exact notSym_afterChargeStep _ _
      | (apply notSym_some; intro c1 h'; cases h')
      | (have h1 := notSym_atomStart d c
         cases ha : atomStart d c with
         | some k => rw [ha] at h1; exact h1
         | none => exact notSym_rnumStart d c)

theorem run_valid : ∀ {x : Str} {k k' : Cfg}, Valid k → run k x = some k' → Valid k'
  | [], k, k', hv, h => by simp only [run, Option.some.injEq] at h; subst h; exact hv
  | c :: x, k, k', _, h => by
    simp only [run] at h
    cases hs : step k c with
    | none => rw [hs] at h; cases h
    | some k1 => rw [hs] at h; exact run_valid (step_valid hs) h

/-- THE AUTOMATON'S ERROR POSITION IS THE FIRST OFFENDING CHARACTER: if the verdict is `Character(i)`, the first
    `i` characters can be completed to a sentence of the grammar and the first `i + 1` cannot, whatever follows. -/
theorem character_is_first_offending (s : Str) (i : Nat) (h : classify s = .character i) :
    i < s.length ∧ (∃ z, classify (s.take i ++ z) = .ok) ∧ (∀ z, classify (s.take (i + 1) ++ z) ≠ .ok) := by
  unfold classify at h
  obtain ⟨_, hlt, k', c, hrun, hc, hstuck⟩ := runFrom_character h
  simp only [Nat.sub_zero] at hlt hrun hc
  refine ⟨hlt, ⟨completion k', ?_⟩, ?_⟩
  · unfold classify
    rw [runFrom_of_run 0 _ hrun]
    exact completion_accepts k' (run_valid (by trivial) hrun) _
  · intro z hok
    unfold classify at hok
    rw [runFrom_ok_iff] at hok
    obtain ⟨kf, hr, _⟩ := hok
    have htake : s.take (i + 1) = s.take i ++ [c] := by
      rw [List.take_add_one, hc]; rfl
    rw [htake, List.append_assoc, run_append, hrun] at hr
    simp only [Option.bind_some, List.cons_append, List.nil_append, run, hstuck] at hr
    cases hr

/-- `EndOfLine` is reported exactly for inputs that are viable prefixes but not sentences -/
theorem endOfLine_is_viable_incomplete (s : Str) (h : classify s = .endOfLine) :
    classify s ≠ .ok ∧ ∃ z, classify (s ++ z) = .ok := by
  refine ⟨by rw [h]; simp, ?_⟩
  unfold classify at h
  obtain ⟨k', hrun, _⟩ := runFrom_endOfLine h
  refine ⟨completion k', ?_⟩
  unfold classify
  rw [runFrom_of_run 0 _ hrun]
  exact completion_accepts k' (run_valid (by trivial) hrun) _

/-- and conversely: an input all of whose characters are consumed is `ok` or `EndOfLine`, never `Character` -/
theorem classify_total (s : Str) : classify s = .ok ∨ classify s = .endOfLine ∨ ∃ i, classify s = .character i ∧ i < s.length := by
  cases h : classify s with
  | ok => exact Or.inl rfl
  | endOfLine => exact Or.inr (Or.inl rfl)
  | character i => exact Or.inr (Or.inr ⟨i, rfl, (character_is_first_offending s i h).1⟩)

end Purr.Spec
