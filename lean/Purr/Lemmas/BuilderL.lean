/-
  Builder invariants (C06/C08: a conformant history never drives the builder into a panic; C10: a
  successful build is a well-formed simple graph).
-/
import Purr.Model.Builder
import Purr.Lemmas.ProtoL
import Purr.Spec.WellFormed
namespace Purr

/-! ### list plumbing -/

theorem getElem?_addEdge (g : List Node) (i : Nat) (e : Edge) (j : Nat) :
    (addEdge g i e)[j]? = if i = j then g[j]?.map (fun n => { n with edges := n.edges ++ [e] }) else g[j]? := by
  unfold addEdge
  rw [List.getElem?_modify]
  split
  · cases g[j]? <;> simp [*]
  · cases g[j]? <;> simp [*]

theorem length_addEdge (g : List Node) (i : Nat) (e : Edge) : (addEdge g i e).length = g.length := by
  unfold addEdge; simp

theorem getElem?_snoc_lt {α} (g : List α) (x : α) {j : Nat} (h : j < g.length) : (g ++ [x])[j]? = g[j]? := by
  rw [List.getElem?_append_left h]

theorem getElem?_snoc_eq {α} (g : List α) (x : α) : (g ++ [x])[g.length]? = some x := by
  simp

/-! ### the part of the invariant that excludes panics -/

/-- every open ring number points at a node that still carries a placeholder for it -/
def OpensOK (s : BState) : Prop :=
  ∀ r t, (r, t) ∈ s.opens → ∃ tn, s.graph[t]? = some tn ∧ (tn.edges.find? (isOpenFor r)).isSome

structure BSafe (ps : Option Nat) (s : BState) : Prop where
  len : match ps with | none => s.stack = [] | some n => 1 ≤ n ∧ s.stack.length = n
  ids : ∀ i ∈ s.stack, i < s.graph.length
  opens : OpensOK s

theorem lookup_mem {r : Rnum} {t : Nat} : ∀ {l : List (Rnum × Nat)}, l.lookup r = some t → (r, t) ∈ l
  | [], h => by simp [List.lookup] at h
  | (r', t') :: l, h => by
    simp only [List.lookup] at h
    split at h
    · rename_i heq
      cases h
      have : r = r' := by simpa using heq
      subst this; simp
    · exact List.mem_cons_of_mem _ (lookup_mem h)

theorem find_isOpenFor_append {r : Rnum} {es : List Edge} (e : Edge) (h : (es.find? (isOpenFor r)).isSome) :
    ((es ++ [e]).find? (isOpenFor r)).isSome := by
  rw [List.find?_append]
  cases hf : es.find? (isOpenFor r) with
  | none => rw [hf] at h; cases h
  | some x => simp

theorem find_isOpenFor_closeEdge {r r' : Rnum} (hne : r' ≠ r) (k : BondKind) (sid : Nat) : ∀ (es : List Edge),
    (es.find? (isOpenFor r')).isSome → ((closeEdge r k sid es).find? (isOpenFor r')).isSome
  | [], h => by simp at h
  | e :: es, h => by
    simp only [closeEdge]
    by_cases he : isOpenFor r e = true
    · simp only [he, if_true]
      -- the replaced edge was a placeholder for r, not for r'
      have hne' : isOpenFor r' e = false := by
        unfold isOpenFor at he ⊢
        split at he
        · rename_i rid sid' r'' heq
          have : r'' = r := by simpa using he
          subst this
          simp; exact fun h => hne h.symm
        · cases he
      rw [List.find?_cons_of_neg (by simp [hne'])] at h
      rw [List.find?_cons_of_neg (by simp [isOpenFor])]
      exact h
    · rw [if_neg he]
      by_cases he' : isOpenFor r' e = true
      · rw [List.find?_cons_of_pos he']; rfl
      · rw [List.find?_cons_of_neg he'] at h ⊢
        exact find_isOpenFor_closeEdge hne k sid es h

theorem bstep_safe {ps ps' : Option Nat} {s : BState} {e : Event} (hs : BSafe ps s)
    (hp : stepProto ps e = some ps') : ∃ s', bstep s e = some s' ∧ BSafe ps' s' := by
  obtain ⟨hlen, hids, hop⟩ := hs
  cases e with
  | root k =>
    refine ⟨_, rfl, ?_, ?_, ?_⟩
    · cases ps with
      | none => simp only [stepProto] at hp; cases hp; simp only at hlen; simp [hlen]
      | some n => simp only [stepProto] at hp; cases hp; simp only at hlen ⊢; simp; omega
    · intro i hi
      simp only [List.mem_cons] at hi
      simp only [List.length_append, List.length_singleton]
      rcases hi with rfl | hi
      · omega
      · have := hids i hi; omega
    · intro r t hrt
      obtain ⟨tn, ht, hf⟩ := hop r t hrt
      have hlt : t < s.graph.length := by
        apply Nat.lt_of_not_le; intro hge
        rw [List.getElem?_eq_none_iff.mpr hge] at ht; cases ht
      exact ⟨tn, by simp only; rw [getElem?_snoc_lt _ _ hlt]; exact ht, hf⟩
  | extend b k =>
    cases ps with
    | none => simp [stepProto] at hp
    | some n =>
      simp only [stepProto] at hp; cases hp
      simp only at hlen
      cases hst : s.stack with
      | nil => rw [hst] at hlen; simp at hlen; omega
      | cons sid rest =>
        have hsid : sid < s.graph.length := hids sid (by rw [hst]; simp)
        simp only [bstep, hst, hsid, if_true]
        refine ⟨_, rfl, ?_, ?_, ?_⟩
        · simp only; rw [hst] at hlen; simp at hlen ⊢; omega
        · intro i hi
          simp only [List.mem_cons] at hi
          simp only [length_addEdge, List.length_append, List.length_singleton]
          rcases hi with rfl | hi
          · omega
          · have := hids i (by rw [hst]; simpa using hi); omega
        · intro r t hrt
          obtain ⟨tn, ht, hf⟩ := hop r t hrt
          have hlt : t < s.graph.length := by
            apply Nat.lt_of_not_le; intro hge
            rw [List.getElem?_eq_none_iff.mpr hge] at ht; cases ht
          simp only
          rw [getElem?_addEdge, getElem?_snoc_lt _ _ hlt, ht]
          split
          · exact ⟨_, rfl, find_isOpenFor_append _ hf⟩
          · exact ⟨tn, rfl, hf⟩
  | join b r =>
    cases ps with
    | none => simp [stepProto] at hp
    | some n =>
      simp only [stepProto] at hp; cases hp
      simp only at hlen
      cases hst : s.stack with
      | nil => rw [hst] at hlen; simp at hlen; omega
      | cons sid rest =>
        have hsid : sid < s.graph.length := hids sid (by rw [hst]; simp)
        have hlen' : 1 ≤ n ∧ (sid :: rest).length = n := by rw [← hst]; exact hlen
        have hids' : ∀ i ∈ sid :: rest, i < s.graph.length := by rw [← hst]; exact hids
        simp only [bstep, hst, hsid, if_true]
        cases hl : s.opens.lookup r with
        | none =>
          simp only
          refine ⟨_, rfl, hlen', ?_, ?_⟩
          · intro i hi; simp only [length_addEdge]; exact hids' i hi
          · intro r' t hrt
            simp only [List.mem_cons, Prod.mk.injEq] at hrt
            simp only
            rcases hrt with ⟨rfl, rfl⟩ | hrt
            · rw [getElem?_addEdge, List.getElem?_eq_getElem hsid]
              simp only [if_true, Option.map_some]
              refine ⟨_, rfl, ?_⟩
              rw [List.find?_append]
              cases s.graph[t].edges.find? (isOpenFor r') <;> simp [isOpenFor]
            · obtain ⟨tn, ht, hf⟩ := hop r' t hrt
              rw [getElem?_addEdge, ht]
              split
              · exact ⟨_, rfl, find_isOpenFor_append _ hf⟩
              · exact ⟨tn, rfl, hf⟩
        | some tid =>
          simp only
          obtain ⟨tn, htn, hfind⟩ := hop r tid (lookup_mem hl)
          simp only [htn]
          cases hfe : tn.edges.find? (isOpenFor r) with
          | none => rw [hfe] at hfind; cases hfind
          | some edge =>
            simp only
            have hop' : ∀ r' t, (r', t) ∈ s.opens.filter (fun p => p.1 != r) → r' ≠ r ∧ (r', t) ∈ s.opens := by
              intro r' t h
              simp only [List.mem_filter, bne_iff_ne, ne_eq] at h
              exact ⟨h.2, h.1⟩
            split
            · -- self or duplicate bond: an error is recorded, the graph is unchanged
              refine ⟨_, rfl, hlen', hids', ?_⟩
              intro r' t hrt
              exact hop r' t (hop' r' t hrt).2
            · cases hrec : reconcile edge.kind b with
              | none =>
                simp only
                refine ⟨_, rfl, hlen', hids', ?_⟩
                intro r' t hrt
                exact hop r' t (hop' r' t hrt).2
              | some lr =>
                obtain ⟨left, right⟩ := lr
                simp only
                refine ⟨_, rfl, hlen', ?_, ?_⟩
                · intro i hi; simp only [length_addEdge, List.length_modify]; exact hids' i hi
                · intro r' t hrt
                  obtain ⟨hne, hmem⟩ := hop' r' t hrt
                  obtain ⟨tn', ht', hf'⟩ := hop r' t hmem
                  simp only
                  rw [getElem?_addEdge, List.getElem?_modify, ht']
                  by_cases h1 : tid = t
                  · simp only [h1, if_true, Option.map_some]
                    have hf'' := find_isOpenFor_closeEdge hne left sid tn'.edges hf'
                    split
                    · exact ⟨_, rfl, find_isOpenFor_append _ hf''⟩
                    · exact ⟨_, rfl, hf''⟩
                  · simp only [h1, if_false, Option.map_some]
                    split
                    · exact ⟨_, rfl, find_isOpenFor_append _ hf'⟩
                    · exact ⟨tn', rfl, hf'⟩
  | pop d =>
    cases ps with
    | none => simp [stepProto] at hp
    | some n =>
      simp only [stepProto] at hp
      split at hp
      · rename_i hd
        cases hp
        simp only at hlen
        refine ⟨_, rfl, ?_, ?_, hop⟩
        · simp only; simp; omega
        · intro i hi; exact hids i (List.mem_of_mem_drop hi)
      · cases hp

theorem brun_safe : ∀ (es : List Event) {ps : Option Nat} {s : BState}, BSafe ps s →
    (protoRun ps es).isSome → (brun s es).isSome
  | [], _, _, _, _ => rfl
  | e :: es, ps, s, hs, hp => by
    simp only [protoRun] at hp
    split at hp
    · rename_i ps' hstep
      obtain ⟨s', hb, hs'⟩ := bstep_safe hs hstep
      simp only [brun, hb]
      exact brun_safe es hs' hp
    · cases hp

theorem BSafe.init : BSafe none BState.init :=
  ⟨rfl, by simp [BState.init], by intro r t h; simp [BState.init] at h⟩

end Purr

namespace Purr

/-! ### the graph part of the invariant (C10), over a pointwise view of the node list -/

abbrev View := Nat → Option (List Edge)

def view (g : List Node) : View := fun i => (g[i]?).map Node.edges

def upd (N : View) (i : Nat) (v : List Edge) : View := fun j => if j = i then some v else N j

/-- the edges of `es` that are (resolved) bonds to atom `t` -/
def idTo (es : List Edge) (t : Nat) : List Edge := es.filter (fun e => e.target == .id t)

/-- the resolved bonds form a well-formed simple graph -/
def IdWFv (N : View) : Prop :=
  ∀ i es, N i = some es → ∀ e ∈ es, ∀ t, e.target = .id t →
    t ≠ i ∧ (idTo es t).length = 1 ∧ ∃ tes, N t = some tes ∧ ∃ back, idTo tes i = [back] ∧ back.kind = e.kind.reverse

theorem idTo_append (es : List Edge) (e : Edge) (t : Nat) :
    idTo (es ++ [e]) t = idTo es t ++ (if e.target == .id t then [e] else []) := by
  unfold idTo; rw [List.filter_append]
  cases h : e.target == Target.id t <;> simp [List.filter, h]

theorem idTo_append_ne {es : List Edge} {e : Edge} {t : Nat} (h : e.target ≠ .id t) : idTo (es ++ [e]) t = idTo es t := by
  rw [idTo_append]; simp [h]

theorem idTo_append_eq {es : List Edge} {k : BondKind} {t : Nat} : idTo (es ++ [⟨k, .id t⟩]) t = idTo es t ++ [⟨k, .id t⟩] := by
  rw [idTo_append]; simp

theorem mem_idTo {es : List Edge} {e : Edge} {t : Nat} (he : e ∈ es) (ht : e.target = .id t) : e ∈ idTo es t := by
  simp [idTo, he, ht]

theorem idTo_nil_of_no_target {es : List Edge} {t : Nat} (h : ∀ e ∈ es, e.target ≠ .id t) : idTo es t = [] := by
  unfold idTo
  rw [List.filter_eq_nil_iff]
  intro e he; simp [h e he]

/-- targets of resolved bonds exist -/
theorem IdWFv.target_some {N : View} (h : IdWFv N) {i es e t} (hi : N i = some es) (he : e ∈ es) (ht : e.target = .id t) :
    ∃ tes, N t = some tes := by
  obtain ⟨_, _, tes, hts, _⟩ := h i es hi e he t ht; exact ⟨tes, hts⟩

/-- P4: a new atom without bonds -/
theorem IdWFv.newNode {N : View} (h : IdWFv N) {n : Nat} (hn : N n = none) : IdWFv (upd N n []) := by
  intro i es hi e he t ht
  unfold upd at hi
  split at hi
  · cases hi; cases he
  · obtain ⟨h1, h2, tes, hts, hb⟩ := h i es hi e he t ht
    refine ⟨h1, h2, tes, ?_, hb⟩
    unfold upd; split
    · rename_i htn; subst htn; rw [hn] at hts; cases hts
    · exact hts

/-- P1: appending an edge that is not a resolved bond (a ring-closure placeholder) -/
theorem IdWFv.addPlaceholder {N : View} (h : IdWFv N) {s : Nat} {ses : List Edge} (hs : N s = some ses)
    {p : Edge} (hp : ∀ t, p.target ≠ .id t) : IdWFv (upd N s (ses ++ [p])) := by
  intro i es hi e he t ht
  unfold upd at hi
  split at hi
  · rename_i his; subst his; cases hi
    have he' : e ∈ ses := by
      rcases List.mem_append.mp he with h' | h'
      · exact h'
      · simp at h'; subst h'; exact absurd ht (hp t)
    obtain ⟨h1, h2, tes, hts, back, hb, hk⟩ := h i ses hs e he' t ht
    refine ⟨h1, by rw [idTo_append_ne (hp t)]; exact h2, ?_⟩
    by_cases hti : t = i
    · exact absurd hti h1
    · exact ⟨tes, by unfold upd; simp [hti, hts], back, hb, hk⟩
  · rename_i his
    obtain ⟨h1, h2, tes, hts, back, hb, hk⟩ := h i es hi e he t ht
    refine ⟨h1, h2, ?_⟩
    by_cases hts' : t = s
    · subst hts'
      have hte : tes = ses := by rw [hs] at hts; exact (Option.some.inj hts).symm
      exact ⟨ses ++ [p], by unfold upd; simp, back, by rw [idTo_append_ne (hp i), ← hte]; exact hb, hk⟩
    · exact ⟨tes, by unfold upd; simp [hts', hts], back, hb, hk⟩

theorem rev_rev (k : BondKind) : k.reverse.reverse = k := by cases k <;> rfl

/-- P2: a new atom `t` bonded to an existing atom `s` -/
theorem IdWFv.link {N : View} (h : IdWFv N) {s t : Nat} {ses : List Edge} (hs : N s = some ses) (ht : N t = none)
    (b : BondKind) : IdWFv (upd (upd N t [⟨b.reverse, .id s⟩]) s (ses ++ [⟨b, .id t⟩])) := by
  have hst : s ≠ t := by intro h'; subst h'; rw [hs] at ht; cases ht
  -- nothing points at the fresh atom
  have hfresh : ∀ i es, N i = some es → ∀ e ∈ es, e.target ≠ .id t := by
    intro i es hi e he htt
    obtain ⟨tes, hts⟩ := h.target_some hi he htt
    rw [ht] at hts; cases hts
  have hN's : upd (upd N t [⟨b.reverse, .id s⟩]) s (ses ++ [⟨b, .id t⟩]) s = some (ses ++ [⟨b, .id t⟩]) := by simp [upd]
  have hN't : upd (upd N t [⟨b.reverse, .id s⟩]) s (ses ++ [⟨b, .id t⟩]) t = some [⟨b.reverse, .id s⟩] := by
    simp [upd, Ne.symm hst]
  have hN'o : ∀ j, j ≠ s → j ≠ t → upd (upd N t [⟨b.reverse, .id s⟩]) s (ses ++ [⟨b, .id t⟩]) j = N j := by
    intro j h1 h2; simp [upd, h1, h2]
  intro i es hi e he u hu
  by_cases his : i = s
  · subst his
    rw [hN's] at hi; cases hi
    rcases List.mem_append.mp he with he' | he'
    · -- an old bond of s
      obtain ⟨h1, h2, tes, hts, back, hb, hk⟩ := h i ses hs e he' u hu
      have hut : u ≠ t := by intro h'; subst h'; exact hfresh i ses hs e he' hu
      refine ⟨h1, by rw [idTo_append_ne (by simp; exact fun h' => hut h'.symm)]; exact h2, tes, ?_, back, hb, hk⟩
      rw [hN'o u h1 hut]; exact hts
    · -- the new bond s → t
      simp at he'; subst he'
      simp at hu; subst hu
      refine ⟨Ne.symm hst, ?_, [⟨b.reverse, .id i⟩], hN't, ⟨b.reverse, .id i⟩, by simp [idTo], rfl⟩
      rw [idTo_append_eq, idTo_nil_of_no_target (hfresh i ses hs)]; rfl
  · by_cases hit : i = t
    · subst hit
      rw [hN't] at hi; cases hi
      simp at he; subst he
      have hus : u = s := by simpa using hu.symm
      subst hus
      refine ⟨hst, by simp [idTo], ses ++ [⟨b, .id i⟩], hN's, ⟨b, .id i⟩, ?_, (rev_rev b).symm⟩
      rw [idTo_append_eq, idTo_nil_of_no_target (hfresh u ses hs)]; rfl
    · rw [hN'o i his hit] at hi
      obtain ⟨h1, h2, tes, hts, back, hb, hk⟩ := h i es hi e he u hu
      have hut : u ≠ t := by intro h'; subst h'; exact hfresh i es hi e he hu
      refine ⟨h1, h2, ?_⟩
      by_cases hus : u = s
      · subst hus
        have hte : tes = ses := by rw [hs] at hts; exact (Option.some.inj hts).symm
        exact ⟨ses ++ [⟨b, .id t⟩], hN's, back, by rw [idTo_append_ne (by simp; exact fun h' => hit h'.symm), ← hte]; exact hb, hk⟩
      · exact ⟨tes, by rw [hN'o u hus hut]; exact hts, back, hb, hk⟩

end Purr

namespace Purr

theorem isOpenFor_not_id {r : Rnum} {e : Edge} (h : isOpenFor r e = true) (u : Nat) : e.target ≠ .id u := by
  intro hu; unfold isOpenFor at h; rw [hu] at h; cases h

theorem idTo_cons_pos {e : Edge} {es : List Edge} {t : Nat} (h : e.target = .id t) : idTo (e :: es) t = e :: idTo es t := by
  simp [idTo, List.filter, h]
theorem idTo_cons_neg {e : Edge} {es : List Edge} {t : Nat} (h : e.target ≠ .id t) : idTo (e :: es) t = idTo es t := by
  have : (e.target == Target.id t) = false := by simpa using h
  simp [idTo, List.filter, this]

/-- closing a placeholder leaves the resolved bonds to every other atom untouched -/
theorem idTo_closeEdge_ne (r : Rnum) (l : BondKind) (s : Nat) {u : Nat} (hu : u ≠ s) : ∀ (es : List Edge),
    idTo (closeEdge r l s es) u = idTo es u
  | [] => rfl
  | e :: es => by
    simp only [closeEdge]
    by_cases he : isOpenFor r e = true
    · rw [if_pos he]
      have h1 : e.target ≠ .id u := isOpenFor_not_id he u
      rw [idTo_cons_neg (by simp; exact fun h' => hu h'.symm), idTo_cons_neg h1]
    · rw [if_neg he]
      have ih := idTo_closeEdge_ne r l s hu es
      by_cases ht : e.target = Target.id u
      · rw [idTo_cons_pos ht, idTo_cons_pos ht, ih]
      · rw [idTo_cons_neg ht, idTo_cons_neg ht, ih]

/-- closing a placeholder adds exactly one resolved bond to `s` -/
theorem idTo_closeEdge_eq (r : Rnum) (l : BondKind) (s : Nat) : ∀ (es : List Edge),
    idTo es s = [] → (es.find? (isOpenFor r)).isSome → idTo (closeEdge r l s es) s = [⟨l, .id s⟩]
  | [], _, h => by simp at h
  | e :: es, hno, hph => by
    simp only [closeEdge]
    have hno' : idTo es s = [] ∧ e.target ≠ Target.id s := by
      by_cases ht : e.target = Target.id s
      · rw [idTo_cons_pos ht] at hno; cases hno
      · rw [idTo_cons_neg ht] at hno; exact ⟨hno, ht⟩
    by_cases he : isOpenFor r e = true
    · rw [if_pos he, idTo_cons_pos rfl, hno'.1]
    · rw [if_neg he]
      rw [List.find?_cons_of_neg he] at hph
      rw [idTo_cons_neg hno'.2]
      exact idTo_closeEdge_eq r l s es hno'.1 hph

theorem mem_closeEdge (r : Rnum) (l : BondKind) (s : Nat) : ∀ (es : List Edge) (e : Edge),
    e ∈ closeEdge r l s es → e ∈ es ∨ e = ⟨l, .id s⟩
  | [], e, h => by simp [closeEdge] at h
  | x :: xs, e, h => by
    simp only [closeEdge] at h
    split at h
    · simp only [List.mem_cons] at h
      rcases h with rfl | h
      · exact Or.inr rfl
      · exact Or.inl (List.mem_cons_of_mem _ h)
    · simp only [List.mem_cons] at h
      rcases h with rfl | h
      · exact Or.inl (by simp)
      · rcases mem_closeEdge r l s xs e h with h' | h'
        · exact Or.inl (List.mem_cons_of_mem _ h')
        · exact Or.inr h'

/-- P3: closing a ring bond between two distinct existing atoms that are not yet bonded -/
theorem IdWFv.close {N : View} (h : IdWFv N) {s t : Nat} {ses tes : List Edge} (hs : N s = some ses) (ht : N t = some tes)
    (hst : s ≠ t) (hno : idTo tes s = []) (r : Rnum) (hph : (tes.find? (isOpenFor r)).isSome)
    (l rt : BondKind) (hl : l = rt.reverse) :
    IdWFv (upd (upd N t (closeEdge r l s tes)) s (ses ++ [⟨rt, .id t⟩])) := by
  -- by symmetry s has no bond to t either
  have hno' : idTo ses t = [] := by
    apply idTo_nil_of_no_target
    intro e he htt
    obtain ⟨_, _, tes', hts, back, hb, _⟩ := h s ses hs e he t htt
    rw [ht] at hts; cases hts
    rw [hno] at hb; cases hb
  have hN's : upd (upd N t (closeEdge r l s tes)) s (ses ++ [⟨rt, .id t⟩]) s = some (ses ++ [⟨rt, .id t⟩]) := by simp [upd]
  have hN't : upd (upd N t (closeEdge r l s tes)) s (ses ++ [⟨rt, .id t⟩]) t = some (closeEdge r l s tes) := by
    simp [upd, Ne.symm hst]
  have hN'o : ∀ j, j ≠ s → j ≠ t → upd (upd N t (closeEdge r l s tes)) s (ses ++ [⟨rt, .id t⟩]) j = N j := by
    intro j h1 h2; simp [upd, h1, h2]
  have hc2 := idTo_closeEdge_eq r l s tes hno hph
  intro i es hi e he u hu
  by_cases his : i = s
  · subst his
    rw [hN's] at hi; cases hi
    rcases List.mem_append.mp he with he' | he'
    · obtain ⟨h1, h2, ues, hus, back, hb, hk⟩ := h i ses hs e he' u hu
      have hut : u ≠ t := by
        intro h'; subst h'
        have := mem_idTo he' hu; rw [hno'] at this; cases this
      refine ⟨h1, by rw [idTo_append_ne (by simp; exact fun h' => hut h'.symm)]; exact h2, ues, ?_, back, hb, hk⟩
      rw [hN'o u h1 hut]; exact hus
    · simp at he'; subst he'
      have hut : u = t := by simpa using hu.symm
      subst hut
      refine ⟨Ne.symm hst, by rw [idTo_append_eq, hno']; rfl, closeEdge r l i tes, hN't, ⟨l, .id i⟩, hc2, hl⟩
  · by_cases hit : i = t
    · subst hit
      rw [hN't] at hi; cases hi
      by_cases hus : u = s
      · subst hus
        have : e ∈ idTo (closeEdge r l u tes) u := mem_idTo he hu
        rw [hc2] at this
        simp at this; subst this
        refine ⟨hst, by rw [hc2]; rfl, ses ++ [⟨rt, .id i⟩], hN's, ⟨rt, .id i⟩, by rw [idTo_append_eq, hno']; rfl, ?_⟩
        simp only [hl, rev_rev]
      · have he' : e ∈ tes := by
          rcases mem_closeEdge r l s tes e he with h' | h'
          · exact h'
          · subst h'; simp at hu; exact absurd hu.symm hus
        obtain ⟨h1, h2, ues, hus', back, hb, hk⟩ := h i tes ht e he' u hu
        refine ⟨h1, by rw [idTo_closeEdge_ne r l s hus]; exact h2, ues, ?_, back, hb, hk⟩
        rw [hN'o u hus h1]; exact hus'
    · rw [hN'o i his hit] at hi
      obtain ⟨h1, h2, ues, hus, back, hb, hk⟩ := h i es hi e he u hu
      refine ⟨h1, h2, ?_⟩
      by_cases hus' : u = s
      · subst hus'
        have hte : ues = ses := by rw [hs] at hus; exact (Option.some.inj hus).symm
        exact ⟨ses ++ [⟨rt, .id t⟩], hN's, back, by rw [idTo_append_ne (by simp; exact fun h' => hit h'.symm), ← hte]; exact hb, hk⟩
      · by_cases hut : u = t
        · subst hut
          have hte : ues = tes := by rw [ht] at hus; exact (Option.some.inj hus).symm
          exact ⟨closeEdge r l s tes, hN't, back, by rw [idTo_closeEdge_ne r l s his, ← hte]; exact hb, hk⟩
        · exact ⟨ues, by rw [hN'o u hus' hut]; exact hus, back, hb, hk⟩

end Purr

namespace Purr
open Purr.Spec

/-! ### connecting the view to the node list -/

theorem view_length (g : List Node) : view g g.length = none := by simp [view]

theorem view_snoc (g : List Node) (k : AtomKind) (es : List Edge) : view (g ++ [⟨k, es⟩]) = upd (view g) g.length es := by
  funext j
  unfold view upd
  by_cases hj : j = g.length
  · subst hj; simp
  · simp only [hj, if_false]
    by_cases hlt : j < g.length
    · rw [List.getElem?_append_left hlt]
    · have h1 : (g ++ [⟨k, es⟩])[j]? = none := by apply List.getElem?_eq_none_iff.mpr; simp; omega
      have h2 : g[j]? = none := by apply List.getElem?_eq_none_iff.mpr; omega
      rw [h1, h2]

theorem view_addEdge {g : List Node} {i : Nat} {n : Node} (h : g[i]? = some n) (e : Edge) :
    view (addEdge g i e) = upd (view g) i (n.edges ++ [e]) := by
  funext j
  unfold view upd
  rw [getElem?_addEdge]
  by_cases hj : j = i
  · subst hj; simp [h]
  · simp [hj, Ne.symm hj]

theorem view_modify {g : List Node} {t : Nat} {n : Node} (h : g[t]? = some n) (f : List Edge → List Edge) :
    view (g.modify t (fun n => { n with edges := f n.edges })) = upd (view g) t (f n.edges) := by
  funext j
  unfold view upd
  rw [List.getElem?_modify]
  by_cases hj : j = t
  · subst hj; simp [h]
  · simp [hj, Ne.symm hj]

theorem reconcile_rev (a b : BondKind) :
    (match reconcile a b with | some (l, rt) => l = rt.reverse | none => True) := by
  cases a <;> cases b <;> simp [reconcile, BondKind.reverse]

theorem reconcile_some_rev {a b l rt : BondKind} (h : reconcile a b = some (l, rt)) : l = rt.reverse := by
  have := reconcile_rev a b; rw [h] at this; exact this

theorem hasIdEdge_false {n : Node} {t : Nat} (h : hasIdEdge n t = false) : idTo n.edges t = [] := by
  unfold hasIdEdge at h
  apply idTo_nil_of_no_target
  intro e he ht
  have := List.any_eq_false.mp h e he
  simp [ht] at this

/-- every builder step keeps the resolved bonds a well-formed simple graph -/
theorem bstep_idwf {ps : Option Nat} {s s' : BState} {e : Event} (hs : BSafe ps s) (hw : IdWFv (view s.graph))
    (hb : bstep s e = some s') : IdWFv (view s'.graph) := by
  cases e with
  | root k =>
    simp only [bstep] at hb; cases hb
    simp only
    rw [view_snoc]
    exact hw.newNode (view_length _)
  | extend b k =>
    simp only [bstep] at hb
    split at hb
    · cases hb
    · rename_i sid rest hst
      split at hb
      · rename_i hsid
        cases hb
        simp only
        have hn : s.graph[sid]? = some s.graph[sid] := List.getElem?_eq_getElem hsid
        have hn' : (s.graph ++ [⟨k.invert, [⟨b.reverse, .id sid⟩]⟩])[sid]? = some s.graph[sid] := by
          rw [getElem?_snoc_lt _ _ hsid]; exact hn
        rw [view_addEdge hn', view_snoc]
        exact hw.link (by simp [view, hn]) (view_length _) b
      · cases hb
  | join b r =>
    simp only [bstep] at hb
    split at hb
    · cases hb
    · rename_i sid rest hst
      split at hb
      · rename_i hsid
        have hn : s.graph[sid]? = some s.graph[sid] := List.getElem?_eq_getElem hsid
        split at hb
        · rename_i tid hl
          split at hb
          · cases hb
          · rename_i tnode htn
            split at hb
            · cases hb
            · rename_i edge hfe
              split at hb
              · cases hb; exact hw
              · rename_i hnot
                simp only [not_or] at hnot
                split at hb
                · rename_i left right hrec
                  cases hb
                  simp only
                  have hne : sid ≠ tid := hnot.1
                  have hmod : (s.graph.modify tid (fun n => { n with edges := closeEdge r left sid n.edges }))[sid]? = some s.graph[sid] := by
                    rw [List.getElem?_modify]; simp [Ne.symm hne, hn]
                  rw [view_addEdge hmod, view_modify htn (closeEdge r left sid)]
                  refine hw.close (by simp [view, hn]) (by simp [view, htn]) hne ?_ r ?_ left right (reconcile_some_rev hrec)
                  · exact hasIdEdge_false (by simpa using hnot.2)
                  · rw [hfe]; rfl
                · cases hb; exact hw
        · cases hb
          simp only
          rw [view_addEdge hn]
          exact hw.addPlaceholder (by simp [view, hn]) (by intro t; simp)
      · cases hb
  | pop d =>
    simp only [bstep] at hb; cases hb; exact hw

theorem brun_idwf : ∀ (es : List Event) {ps : Option Nat} {s s' : BState}, BSafe ps s → IdWFv (view s.graph) →
    (protoRun ps es).isSome → brun s es = some s' → IdWFv (view s'.graph)
  | [], _, _, _, _, hw, _, hb => by simp [brun] at hb; subst hb; exact hw
  | e :: es, ps, s, s', hs, hw, hp, hb => by
    simp only [protoRun] at hp
    split at hp
    · rename_i ps' hstep
      obtain ⟨s1, hb1, hs1⟩ := bstep_safe hs hstep
      simp only [brun, hb1] at hb
      exact brun_idwf es hs1 (bstep_idwf hs hw hb1) hp hb
    · cases hp

theorem IdWFv.init : IdWFv (view BState.init.graph) := by
  intro i es hi; simp [view, BState.init] at hi

end Purr

namespace Purr
open Purr.Spec

/-! ### from the final builder state to the built adjacency list -/

def tidOf (e : Edge) : Nat := match e.target with | .id t => t | .rnum _ _ _ => 0
def toBond (e : Edge) : Bond := ⟨e.kind, tidOf e⟩

theorem nodeBonds_ok : ∀ {es : List Edge} {bs : List Bond}, nodeBonds es = .ok bs →
    bs = es.map toBond ∧ ∀ e ∈ es, ∃ t, e.target = .id t
  | [], bs, h => by simp [nodeBonds] at h; subst h; simp
  | e :: es, bs, h => by
    simp only [nodeBonds] at h
    split at h
    · rename_i t ht
      cases hr : nodeBonds es with
      | error err => rw [hr] at h; simp [Except.map] at h
      | ok bs' =>
        rw [hr] at h
        simp [Except.map] at h
        obtain ⟨h1, h2⟩ := nodeBonds_ok hr
        subst h
        refine ⟨by simp [toBond, tidOf, ht, h1], ?_⟩
        intro e' he'
        simp only [List.mem_cons] at he'
        rcases he' with rfl | he'
        · exact ⟨t, ht⟩
        · exact h2 e' he'
    · cases h

theorem buildNodes_ok : ∀ {ns : List Node} {g : Graph}, buildNodes ns = .ok g →
    ∀ i : Nat, (∀ n : Node, ns[i]? = some n → ∃ bs, nodeBonds n.edges = .ok bs ∧ g[i]? = some (Atom.mk n.kind bs)) ∧
         (ns[i]? = none → g[i]? = none)
  | [], g, h, i => by simp [buildNodes] at h; subst h; simp
  | n :: ns, g, h, i => by
    simp only [buildNodes] at h
    cases hb : nodeBonds n.edges with
    | error e => rw [hb] at h; cases h
    | ok bs =>
      rw [hb] at h
      simp only at h
      cases hr : buildNodes ns with
      | error e => rw [hr] at h; simp [Except.map] at h
      | ok g' =>
        rw [hr] at h
        simp [Except.map] at h
        subst h
        cases i with
        | zero => simp; exact hb
        | succ i =>
          have := buildNodes_ok hr i
          simpa using this

theorem bondsTo_map_toBond {es : List Edge} (hall : ∀ e ∈ es, ∃ t, e.target = .id t) (t : Nat) :
    bondsTo (es.map toBond) t = (idTo es t).map toBond := by
  induction es with
  | nil => rfl
  | cons e es ih =>
    obtain ⟨u, hu⟩ := hall e (by simp)
    have ih' := ih (fun e' he' => hall e' (List.mem_cons_of_mem _ he'))
    by_cases hut : u = t
    · subst hut
      rw [idTo_cons_pos hu]
      simp only [List.map_cons, bondsTo] at ih' ⊢
      rw [List.filter_cons_of_pos (by simp [toBond, tidOf, hu]), ih']
    · rw [idTo_cons_neg (by rw [hu]; simp; exact hut)]
      simp only [List.map_cons, bondsTo] at ih' ⊢
      rw [List.filter_cons_of_neg (by simp [toBond, tidOf, hu]; exact hut), ih']

/-- the built adjacency list of a state whose resolved bonds are well-formed is well-formed -/
theorem build_wellformed {s : BState} {g : Graph} (hw : IdWFv (view s.graph)) (hb : s.build = .ok g) : WellFormed g := by
  unfold BState.build at hb
  split at hb
  · cases hb
  · have hbn := buildNodes_ok hb
    intro a atom ha b hb'
    -- the node behind atom `a`
    cases hn : s.graph[a]? with
    | none => rw [(hbn a).2 hn] at ha; cases ha
    | some node =>
      obtain ⟨bs, hnb, hga⟩ := (hbn a).1 node hn
      rw [hga] at ha; cases ha
      obtain ⟨hbs, hall⟩ := nodeBonds_ok hnb
      subst hbs
      simp only [List.mem_map] at hb'
      obtain ⟨e, he, rfl⟩ := hb'
      obtain ⟨t, ht⟩ := hall e he
      have htid : (toBond e).tid = t := by simp [toBond, tidOf, ht]
      obtain ⟨h1, h2, tes, hts, back, hbk, hk⟩ := hw a node.edges (by simp [view, hn]) e he t ht
      rw [htid]
      refine ⟨h1, by simp only; rw [bondsTo_map_toBond hall, List.length_map]; exact h2, ?_⟩
      simp only [view, Option.map_eq_some_iff] at hts
      obtain ⟨tn, htn, rfl⟩ := hts
      obtain ⟨tbs, htnb, hgt⟩ := (hbn t).1 tn htn
      obtain ⟨htbs, htall⟩ := nodeBonds_ok htnb
      subst htbs
      refine ⟨_, hgt, toBond back, ?_, ?_⟩
      · simp only; rw [bondsTo_map_toBond htall, hbk]; rfl
      · simp [toBond, hk]

end Purr

namespace Purr

/-- the kinds of the atom events, as the builder records them -/
def atomKinds : List Event → List AtomKind
  | [] => []
  | .root k :: es => k :: atomKinds es
  | .extend _ k :: es => k.invert :: atomKinds es
  | _ :: es => atomKinds es

theorem modify_kinds (g : List Node) (i : Nat) (f : List Edge → List Edge) :
    (g.modify i (fun n => { n with edges := f n.edges })).map Node.kind = g.map Node.kind := by
  apply List.ext_getElem?
  intro j
  rw [List.getElem?_map, List.getElem?_map, List.getElem?_modify]
  split <;> cases g[j]? <;> rfl

theorem addEdge_kinds (g : List Node) (i : Nat) (e : Edge) : (addEdge g i e).map Node.kind = g.map Node.kind := by
  unfold addEdge; exact modify_kinds g i (fun es => es ++ [e])

theorem bstep_kinds {s s' : BState} {e : Event} (h : bstep s e = some s') :
    s'.graph.map Node.kind = s.graph.map Node.kind ++ atomKinds [e] := by
  cases e with
  | root k => simp only [bstep] at h; cases h; simp [atomKinds]
  | extend b k =>
    simp only [bstep] at h
    split at h
    · cases h
    · split at h
      · cases h; simp [atomKinds, addEdge_kinds]
      · cases h
  | pop d => simp only [bstep] at h; cases h; simp [atomKinds]
  | join b r =>
    simp only [bstep] at h
    split at h
    · cases h
    · split at h
      · split at h
        · split at h
          · cases h
          · split at h
            · cases h
            · split at h
              · cases h; simp [atomKinds]
              · split at h
                · cases h; simp [atomKinds, addEdge_kinds, modify_kinds]
                · cases h; simp [atomKinds]
        · cases h; simp [atomKinds, addEdge_kinds]
      · cases h

theorem atomKinds_cons (e : Event) (es : List Event) : atomKinds (e :: es) = atomKinds [e] ++ atomKinds es := by
  cases e <;> simp [atomKinds]

theorem brun_kinds : ∀ (es : List Event) {s s' : BState}, brun s es = some s' →
    s'.graph.map Node.kind = s.graph.map Node.kind ++ atomKinds es
  | [], s, s', h => by simp [brun] at h; subst h; simp [atomKinds]
  | e :: es, s, s', h => by
    simp only [brun] at h
    split at h
    · rename_i s1 h1
      rw [brun_kinds es h, bstep_kinds h1, atomKinds_cons e es, List.append_assoc]
    · cases h


end Purr
