/- C06: the `expect` / `unreachable!` sites of the token readers that the model does not carry as an explicit panic outcome
   (because the surrounding code makes them trivially unreachable) — here is the "trivially", as theorems:
   * `read_bracket.rs:81,109` `digits.try_into().expect("number")`: at most three digits were collected, so the value is
     below 1000 and the conversion succeeds (the model's `Number.ofNat?` never returns `none` there);
   * `read_configuration.rs` `unreachable!("TB1X" / "OH1X" / "OH2X")`: after a first digit that may take a second one,
     every two-digit value is a configuration (the model's `cfgRes` never sees `none` on those paths);
   * `read_rnum.rs` `expect("rnum to u16")`, `expect("u16 to rnum")`: the value is built from one or two digits, with the
     bound proved inside the definition of `readRnum`. -/
import Purr.Model.Token
import Purr.Lemmas.GrammarEqL
namespace Purr

theorem takeDigits_one (acc : Nat) (s : Str) : (takeDigits 1 acc s).1 ≤ 10 * acc + 9 := by
  cases s with
  | nil => simp only [takeDigits]; omega
  | cons c r =>
    simp only [takeDigits]
    split
    · rename_i hd
      have := digitVal_le c hd
      simp only [takeDigits]; omega
    · simp only; omega

theorem takeDigits_two (acc : Nat) (s : Str) : (takeDigits 2 acc s).1 ≤ 100 * acc + 99 := by
  cases s with
  | nil => simp only [takeDigits]; omega
  | cons c r =>
    simp only [takeDigits]
    split
    · rename_i hd
      have := digitVal_le c hd
      have h1 := takeDigits_one (10 * acc + digitVal c) r
      omega
    · simp only; omega

/-- `expect("number")` in `read_isotope`: once a digit is seen, an isotope is produced -/
theorem readIsotope_number (c : Char) (r : Str) (h : isDigit c = true) : ((readIsotope (c :: r)).1).isSome = true := by
  simp only [readIsotope, h, if_true]
  have hlt := takeDigits_two (digitVal c) r
  have hv := digitVal_le c h
  have : (takeDigits 2 (digitVal c) r).1 < 1000 := by omega
  simp [Number.ofNat?, this]

/-- `expect("number")` in `read_map`: after `:` and a digit, a map number is produced -/
theorem readMap_number (c : Char) (r : Str) (h : isDigit c = true) : ∃ v rest, readMap (':' :: c :: r) = .ok (some v) rest := by
  simp only [readMap, h, if_true]
  have hlt := takeDigits_two (digitVal c) r
  have hv := digitVal_le c h
  have : (takeDigits 2 (digitVal c) r).1 < 1000 := by omega
  exact ⟨⟨_, this⟩, (takeDigits 2 (digitVal c) r).2, by simp [Number.ofNat?, this]⟩

/-- `unreachable!("TB1X")`: a first digit 1 followed by any digit is one of TB10…TB19; 2 followed by 0 is TB20 -/
theorem tb_two_digit_total : (∀ e, e < 10 → (Configuration.tb? (10 * 1 + e)).isSome = true) ∧ (Configuration.tb? (10 * 2)).isSome = true ∧
    ∀ d, d < 10 → 1 ≤ d → (Configuration.tb? d).isSome = true := by decide

/-- `unreachable!("OH1X")`, `unreachable!("OH2X")`: 1 or 2 followed by any digit is one of OH10…OH29; 3 followed by 0 is OH30 -/
theorem oh_two_digit_total : (∀ d, d < 3 → 1 ≤ d → ∀ e, e < 10 → (Configuration.oh? (10 * d + e)).isSome = true) ∧
    (Configuration.oh? (10 * 3)).isSome = true ∧ ∀ d, d < 10 → 1 ≤ d → (Configuration.oh? d).isSome = true := by decide

end Purr
