/- Helper lemmas for C08: the reader's event stream obeys the follower protocol; a protocol-conformant
   history never drives the string writer into its documented panics. -/
import Purr.Lemmas.ReaderL
import Purr.Model.Writer
namespace Purr

def stOf (stack : List Nat) : Option Nat := if stack.sum = 0 then none else some stack.sum

def Good : Mode → List Nat → Prop
  | .body, st => st ≠ [] ∧ ∀ x ∈ st, 1 ≤ x
  | .afterOpen, st => ∃ t, st = 0 :: t ∧ t ≠ [] ∧ ∀ x ∈ t, 1 ≤ x
  | .needAtom _, st => ∃ t, st = 0 :: t ∧ t ≠ [] ∧ ∀ x ∈ t, 1 ≤ x
  | .needRoot, st => ∃ h t, st = h :: t ∧ ∀ x ∈ t, 1 ≤ x

theorem sum_pos {st : List Nat} (hne : st ≠ []) (h : ∀ x ∈ st, 1 ≤ x) : 1 ≤ st.sum := by
  cases st with
  | nil => exact absurd rfl hne
  | cons a t => have := h a (by simp); simp; omega

theorem stOf_pos {st : List Nat} (h : 1 ≤ st.sum) : stOf st = some st.sum := by
  unfold stOf; split
  · omega
  · rfl

theorem run_conformant (mode : Mode) (stack : List Nat) (s : Str) (hg : Good mode stack) :
    (protoRun (stOf stack) (run mode stack s).1).isSome := by
  fun_induction run mode stack s
  all_goals try (simp [protoRun]; done)
  case case1 stack s k rest h q ih =>
    obtain ⟨hd, t, rfl, ht⟩ := hg
    have hb : Good .body (bump (hd :: t)) := by
      refine ⟨by simp [bump], ?_⟩
      intro x hx; simp only [bump, List.mem_cons] at hx
      rcases hx with rfl | hx
      · omega
      · exact ht x hx
    have hs : stOf (bump (hd :: t)) = some ((hd :: t).sum + 1) := by
      rw [stOf_pos] <;> simp [bump] <;> omega
    have step : stepProto (stOf (hd :: t)) (.root k) = some (some ((hd :: t).sum + 1)) := by
      unfold stOf; split
      · rename_i h0; simp [stepProto, h0]
      · simp [stepProto]
    simp only [protoRun, step]
    rw [← hs]; exact ih hb
  case case5 stack s a k rest h q ih =>
    obtain ⟨t, rfl, hne, ht⟩ := hg
    have hp := sum_pos hne ht
    have hb : Good .body (bump (0 :: t)) := by
      refine ⟨by simp [bump], ?_⟩
      intro x hx; simp only [bump, List.mem_cons] at hx
      rcases hx with rfl | hx
      · omega
      · exact ht x hx
    have hs : stOf (bump (0 :: t)) = some ((0 :: t).sum + 1) := by
      rw [stOf_pos] <;> simp [bump] <;> omega
    have h0 : stOf (0 :: t) = some (0 :: t).sum := stOf_pos (by simp; omega)
    simp only [protoRun, h0, stepProto]
    rw [← hs]; exact ih hb
  case case9 stack rest ih =>
    obtain ⟨t, rfl, hne, ht⟩ := hg
    exact ih ⟨0, t, rfl, ht⟩
  case case10 stack s hx ih => exact ih hg
  case case11 stack s rest h ih =>
    have : stOf (0 :: stack) = stOf stack := by simp [stOf]
    rw [← this]
    exact ih ⟨stack, rfl, hg.1, hg.2⟩
  case case12 stack s rest h ih =>
    obtain ⟨hne, hall⟩ := hg
    cases stack with
    | nil => exact absurd rfl hne
    | cons a t => exact ih ⟨a, t, rfl, fun x hx => hall x (List.mem_cons_of_mem _ hx)⟩
  case case13 stack s b k rest h q ih =>
    obtain ⟨hne, hall⟩ := hg
    have hp := sum_pos hne hall
    cases stack with
    | nil => exact absurd rfl hne
    | cons a t =>
      have hb : Good .body (bump (a :: t)) := by
        refine ⟨by simp [bump], ?_⟩
        intro x hx; simp only [bump, List.mem_cons] at hx
        rcases hx with rfl | hx
        · omega
        · exact hall x (List.mem_cons_of_mem _ hx)
      have hs : stOf (bump (a :: t)) = some ((a :: t).sum + 1) := by
        rw [stOf_pos] <;> simp [bump] <;> omega
      simp only [protoRun, stOf_pos hp, stepProto]
      rw [← hs]; exact ih hb
  case case14 stack s b r rest h q ih =>
    have hp := sum_pos hg.1 hg.2
    simp only [protoRun, stOf_pos hp, stepProto]
    rw [← stOf_pos hp]; exact ih hg
  case case15 s rest h l l' st q ih =>
    obtain ⟨hne, hall⟩ := hg
    have h1 : 1 ≤ l := hall l (by simp)
    have h2 : 1 ≤ l' := hall l' (by simp)
    have hb : Good .body (l' :: st) := ⟨by simp, fun x hx => hall x (List.mem_cons_of_mem _ hx)⟩
    have hp := sum_pos hne hall
    have hp' := sum_pos hb.1 hb.2
    have hcond : 1 ≤ l ∧ l < (l :: l' :: st).sum := by simp; omega
    have hsub : (l :: l' :: st).sum - l = (l' :: st).sum := by simp
    simp only [protoRun, stOf_pos hp, stepProto, hcond, and_self, if_true, hsub]
    rw [← stOf_pos hp']; exact ih hb


/-- writer state vs protocol state: path length = number of segments -/
def WRel (ps : Option Nat) (st : List Str) : Prop :=
  match ps with
  | none => st = []
  | some n => 1 ≤ n ∧ st.length = n

theorem wstep_safe {ps ps' : Option Nat} {st : List Str} {e : Event} (hr : WRel ps st)
    (hp : stepProto ps e = some ps') : ∃ st', wstep st e = some st' ∧ WRel ps' st' := by
  cases e with
  | root k =>
    cases ps with
    | none =>
      simp only [stepProto] at hp; cases hp
      simp only [WRel] at hr; subst hr
      exact ⟨_, rfl, by simp [WRel]⟩
    | some n =>
      simp only [stepProto] at hp; cases hp
      obtain ⟨h1, h2⟩ := hr
      cases st with
      | nil => simp at h2; omega
      | cons a t => exact ⟨_, rfl, by simp [WRel] at *; omega⟩
  | extend b k =>
    cases ps with
    | none => simp [stepProto] at hp
    | some n =>
      simp only [stepProto] at hp; cases hp
      obtain ⟨h1, h2⟩ := hr
      exact ⟨_, rfl, by simp [WRel]; omega⟩
  | join b r =>
    cases ps with
    | none => simp [stepProto] at hp
    | some n =>
      simp only [stepProto] at hp; cases hp
      obtain ⟨h1, h2⟩ := hr
      cases st with
      | nil => simp at h2; omega
      | cons a t => exact ⟨_, rfl, by simp [WRel] at *; omega⟩
  | pop d =>
    cases ps with
    | none => simp [stepProto] at hp
    | some n =>
      simp only [stepProto] at hp
      split at hp
      · rename_i hd
        cases hp
        obtain ⟨h1, h2⟩ := hr
        have hlt : ¬ d ≥ st.length := by omega
        simp only [wstep, hlt, if_false]
        cases hdrop : st.drop d with
        | nil =>
          have := congrArg List.length hdrop
          simp at this; omega
        | cons top rest =>
          refine ⟨_, rfl, ?_⟩
          have := congrArg List.length hdrop
          simp at this
          simp [WRel]; omega
      · cases hp

theorem wrun_safe : ∀ (es : List Event) {ps : Option Nat} {st : List Str}, WRel ps st →
    (protoRun ps es).isSome → (wrun st es).isSome
  | [], _, _, _, _ => rfl
  | e :: es, ps, st, hr, hp => by
    simp only [protoRun] at hp
    split at hp
    · rename_i ps' hs
      obtain ⟨st', hw, hr'⟩ := wstep_safe hr hs
      simp only [wrun, hw]
      exact wrun_safe es hr' hp
    · cases hp

end Purr
