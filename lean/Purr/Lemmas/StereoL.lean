/- Helper lemmas for C03 / C12: what the traversal does to a newly reached atom. -/
import Purr.Lemmas.ValidateL
namespace Purr
open Purr.Spec

/-- the pushes are the child's other bonds, in list order -/
theorem scanChild_pushes_eq (sid tid : Nat) (k : AtomKind) : ∀ (bs : List Bond) (i : Nat),
    (scanChild sid tid k bs i).2.2 = (bs.filter (fun o => !(o.tid == sid))).map (fun o => (tid, o))
  | [], _ => rfl
  | o :: os, i => by
    simp only [scanChild]
    have ih := scanChild_pushes_eq sid tid k os (i + 1)
    generalize scanChild sid tid k os (i + 1) = r at ih ⊢
    obtain ⟨k', backs, pushes⟩ := r
    simp only at ih ⊢
    by_cases ho : o.tid = sid
    · simp [ho, ih]
    · simp [ho, ih]

def flipN (n : Nat) (k : AtomKind) : AtomKind := if n % 2 = 1 then k.flipMark else k

theorem flipMark_flipMark (k : AtomKind) : k.flipMark.flipMark = k := by
  cases k with
  | bracket b =>
    obtain ⟨iso, sym, cfg, h, q, m⟩ := b
    cases cfg with
    | none => rfl
    | some c => cases c <;> rfl
  | _ => rfl

/-- with exactly one back bond, at index `j` of the child's bond list, the kind handed to the follower
    is the child's kind with its mark flipped iff `j + hasH` is odd -/
theorem scanChild_kind (sid tid : Nat) (k : AtomKind) : ∀ (bs : List Bond) (i : Nat) (pre post : List Bond) (back : Bond),
    bs = pre ++ back :: post → back.tid = sid → (∀ o ∈ pre, o.tid ≠ sid) → (∀ o ∈ post, o.tid ≠ sid) →
    (scanChild sid tid k bs i).1 = flipN (i + pre.length + (if hasH k then 1 else 0)) k := by
  intro bs
  induction bs with
  | nil => intro i pre post back h; cases pre <;> simp at h
  | cons o os ih =>
    intro i pre post back h hb hpre hpost
    cases pre with
    | nil =>
      simp only [List.nil_append, List.cons.injEq] at h
      obtain ⟨rfl, rfl⟩ := h
      simp only [scanChild]
      -- the rest has no back bond: kind unchanged
      have hrest : ∀ (l : List Bond) (j : Nat), (∀ o ∈ l, o.tid ≠ sid) → (scanChild sid tid k l j).1 = k := by
        intro l
        induction l with
        | nil => intro j _; rfl
        | cons x xs ihx =>
          intro j hx
          simp only [scanChild]
          have := ihx (j + 1) (fun o ho => hx o (List.mem_cons_of_mem _ ho))
          generalize scanChild sid tid k xs (j + 1) = r at this ⊢
          obtain ⟨k', b', p'⟩ := r
          simp only at this ⊢
          simp [hx x (by simp), this]
      have hr := hrest os (i + 1) hpost
      generalize scanChild sid tid k os (i + 1) = r at hr ⊢
      obtain ⟨k', b', p'⟩ := r
      simp only at hr ⊢
      subst hr
      simp only [hb, if_true, List.length_nil, Nat.add_zero, flipN]
    | cons p ps =>
      simp only [List.cons_append, List.cons.injEq] at h
      obtain ⟨rfl, rfl⟩ := h
      simp only [scanChild]
      have := ih (i + 1) ps post back rfl hb (fun o ho => hpre o (List.mem_cons_of_mem _ ho)) hpost
      generalize scanChild sid tid k (ps ++ back :: post) (i + 1) = r at this ⊢
      obtain ⟨k', b', p'⟩ := r
      simp only at this ⊢
      subst this
      simp only [hpre o (by simp), if_false, List.length_cons]
      congr 1; omega


theorem hasH_flipMark (k : AtomKind) : hasH k.flipMark = hasH k := by
  cases k with
  | bracket b =>
    obtain ⟨iso, sym, cfg, h, q, m⟩ := b
    cases cfg <;> rfl
  | _ => rfl

/-- `invert_configuration` (the builder's `extend`) flips the mark exactly when a virtual hydrogen is present -/
theorem invert_eq (k : AtomKind) : k.invert = if hasH k then k.flipMark else k := by
  cases k with
  | bracket b =>
    obtain ⟨iso, sym, cfg, h, q, m⟩ := b
    cases cfg with
    | none => cases h <;> simp [AtomKind.invert, AtomKind.flipMark, hasH, hasH.hcountOf']
    | some c =>
      cases h with
      | none => simp [AtomKind.invert, AtomKind.flipMark, hasH, hasH.hcountOf']
      | some hh =>
        simp only [AtomKind.invert, AtomKind.flipMark, hasH, hasH.hcountOf', VirtualHydrogen.isZero]
        by_cases h0 : hh.val = 0 <;> simp [h0]
  | _ => simp [AtomKind.invert, hasH, hasH.hcountOf']

/-- walker then builder: entering an atom through the bond at index `j` of its bond list changes the
    mark iff `j` is odd — moving that bond to the front is an odd permutation of the graph's neighbour
    order (virtual hydrogen first) into the text's (preceding atom, hydrogen, the rest) -/
theorem walk_then_build_parity (j : Nat) (k : AtomKind) :
    (flipN (j + (if hasH k then 1 else 0)) k).invert = flipN j k := by
  rw [invert_eq]
  unfold flipN
  by_cases hh : hasH k = true
  · simp only [hh, if_true]
    by_cases hj : j % 2 = 1
    · have : ¬ ((j + 1) % 2 = 1) := by omega
      simp [hj, this, hh]
    · have : (j + 1) % 2 = 1 := by omega
      simp [hj, this, hasH_flipMark, hh, flipMark_flipMark]
  · simp only [hh, Nat.add_zero]
    by_cases hj : j % 2 = 1
    · simp [hj, hasH_flipMark, hh]
    · simp [hj, hh]

end Purr
