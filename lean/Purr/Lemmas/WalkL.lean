/- Helper lemmas for C08 (walker half): the traversal's event stream obeys the follower protocol,
   for any adjacency list whatsoever and up to the point where an error (or a panic) ends it. -/
import Purr.Model.Walk
import Purr.Lemmas.ProtoL
namespace Purr

theorem unwind_spec {sid : Nat} : ∀ {chain : List Nat} {k : Nat} {chain' : List Nat} {k' : Nat},
    unwind sid chain k = some (chain', k') → chain' ≠ [] ∧ k ≤ k' ∧ (k' - k) + chain'.length = chain.length
  | [], _, _, _, h => by simp [unwind] at h
  | a :: t, k, chain', k', h => by
    simp only [unwind] at h
    split at h
    · cases h; simp
    · obtain ⟨h1, h2, h3⟩ := unwind_spec h
      refine ⟨h1, by omega, ?_⟩
      simp; omega

theorem protoRun_append (ps : Option Nat) (a b : List Event) :
    protoRun ps (a ++ b) = (protoRun ps a).bind (fun ps' => protoRun ps' b) := by
  induction a generalizing ps with
  | nil => simp [protoRun]
  | cons e es ih =>
    simp only [List.cons_append, protoRun]
    split
    · exact ih _
    · rfl

theorem pops_proto {base len popcount clen : Nat} (h3 : popcount + clen = len) (hlen : 1 ≤ clen) :
    protoRun (some (base + len)) (if popcount > 0 then [Event.pop popcount] else [])
      = some (some (base + clen)) := by
  split
  · rename_i hp
    have hcond : 1 ≤ popcount ∧ popcount < base + len := by omega
    simp only [protoRun, stepProto, hcond, and_self, if_true]
    congr 2; omega
  · rename_i hp
    have : popcount = 0 := by omega
    subst this
    simp only [protoRun]; congr 2; omega

/-- one iteration of the traversal loop keeps the protocol state `base + chain.length` -/
theorem wkStep_cont (g : Graph) (s : WState) (sid : Nat) (bond : Bond) (rest : List (Nat × Bond)) (base : Nat)
    {s' : WState} {evs : List Event} (h : wkStep g s sid bond rest = .cont s' evs) :
    s'.chain ≠ [] ∧ protoRun (some (base + s.chain.length)) evs = some (some (base + s'.chain.length)) := by
  unfold wkStep at h
  split at h
  · cases h
  · split at h
    · cases h
    · split at h
      · cases h
      · rename_i chain popcount hu
        obtain ⟨h1, _, h3⟩ := unwind_spec hu
        simp only [Nat.sub_zero] at h3
        have hlen : 1 ≤ chain.length := by
          cases chain with
          | nil => exact absurd rfl h1
          | cons a t => simp
        have hpops := pops_proto (base := base) h3 hlen
        simp only at h
        generalize (if popcount > 0 then [Event.pop popcount] else []) = pops at h hpops
        split at h
        · split at h
          · cases h
            refine ⟨h1, ?_⟩
            rw [protoRun_append, hpops]
            simp [protoRun, stepProto]
          · cases h
        · split at h
          · cases h
          · split at h
            · cases h
            · split at h
              · cases h
              · cases h
                refine ⟨by simp, ?_⟩
                rw [protoRun_append, hpops]
                simp [protoRun, stepProto]; omega
            · cases h

theorem wkStep_err (g : Graph) (s : WState) (sid : Nat) (bond : Bond) (rest : List (Nat × Bond)) (base : Nat)
    {e : WalkError} {evs : List Event} (h : wkStep g s sid bond rest = .err e evs) :
    (protoRun (some (base + s.chain.length)) evs).isSome := by
  unfold wkStep at h
  split at h
  · cases h; rfl
  · split at h
    · cases h; rfl
    · split at h
      · cases h
      · rename_i chain popcount hu
        obtain ⟨h1, _, h3⟩ := unwind_spec hu
        simp only [Nat.sub_zero] at h3
        have hlen : 1 ≤ chain.length := by
          cases chain with
          | nil => exact absurd rfl h1
          | cons a t => simp
        have hpops := pops_proto (base := base) h3 hlen
        simp only at h
        generalize (if popcount > 0 then [Event.pop popcount] else []) = pops at h hpops
        split at h
        · split at h <;> cases h
        · split at h
          · cases h
          · split at h
            · cases h; rw [hpops]; rfl
            · split at h
              · cases h; rw [hpops]; rfl
              · cases h
            · cases h; rw [hpops]; rfl

theorem wkStep_panic (g : Graph) (s : WState) (sid : Nat) (bond : Bond) (rest : List (Nat × Bond)) (base : Nat)
    {p : String} {evs : List Event} (h : wkStep g s sid bond rest = .panic p evs) :
    (protoRun (some (base + s.chain.length)) evs).isSome := by
  unfold wkStep at h
  split at h
  · cases h
  · split at h
    · cases h
    · split at h
      · cases h; rfl
      · rename_i chain popcount hu
        obtain ⟨h1, _, h3⟩ := unwind_spec hu
        simp only [Nat.sub_zero] at h3
        have hlen : 1 ≤ chain.length := by
          cases chain with
          | nil => exact absurd rfl h1
          | cons a t => simp
        have hpops := pops_proto (base := base) h3 hlen
        simp only at h
        generalize (if popcount > 0 then [Event.pop popcount] else []) = pops at h hpops
        split at h
        · split at h
          · cases h
          · cases h; rw [hpops]; rfl
        · split at h
          · cases h; rw [hpops]; rfl
          · split at h
            · cases h
            · split at h
              · cases h
              · cases h
            · cases h

/-- the loop of one component: conformant from `base + chain.length`; when it ends normally the
    protocol state is `base +` the final chain length -/
theorem rootLoop_proto (g : Graph) (base : Nat) : ∀ (fuel : Nat) (s : WState), s.chain ≠ [] →
    (protoRun (some (base + s.chain.length)) (rootLoop g fuel s).1).isSome ∧
    ((rootLoop g fuel s).2.1 = .ok →
      (rootLoop g fuel s).2.2.chain ≠ [] ∧
      protoRun (some (base + s.chain.length)) (rootLoop g fuel s).1
        = some (some (base + (rootLoop g fuel s).2.2.chain.length)))
  | 0, s, _ => by simp [rootLoop, protoRun]
  | fuel + 1, s, hc => by
    simp only [rootLoop]
    split
    · simp [protoRun, hc]
    · rename_i sid bond rest hst
      split
      · rename_i e evs hstep
        exact ⟨wkStep_err g s sid bond rest base hstep, by simp⟩
      · rename_i p evs hstep
        exact ⟨wkStep_panic g s sid bond rest base hstep, by simp⟩
      · rename_i s' evs hstep
        obtain ⟨hc', hp⟩ := wkStep_cont g s sid bond rest base hstep
        obtain ⟨ih1, ih2⟩ := rootLoop_proto g base fuel s' hc'
        simp only
        constructor
        · rw [protoRun_append, hp]; exact ih1
        · intro hok
          obtain ⟨h1, h2⟩ := ih2 hok
          exact ⟨h1, by rw [protoRun_append, hp]; exact h2⟩


def psOf (base : Nat) : Option Nat := if base = 0 then none else some base

theorem psOf_root (base : Nat) (k : AtomKind) : stepProto (psOf base) (.root k) = some (some (base + 1)) := by
  unfold psOf; split
  · rename_i h0; subst h0; rfl
  · rfl

theorem compLoop_proto (g : Graph) (fuel : Nat) : ∀ (ids : List Nat) (s : WState) (base : Nat),
    (protoRun (psOf base) (compLoop g fuel ids s).1).isSome
  | [], _, _ => by simp [compLoop, protoRun]
  | id :: ids, s, base => by
    simp only [compLoop]
    by_cases hv : s.visited.contains id = true
    · simp only [hv, if_true]
      exact compLoop_proto g fuel ids s base
    · rw [if_neg hv]
      cases hroot : g[id]? with
      | none => simp [protoRun]
      | some root =>
        simp only []
        generalize hs0 : ({ s with visited := id :: s.visited, stack := root.bonds.map (fun b => (id, b)), chain := [id] } : WState) = s0
        have hc0 : s0.chain ≠ [] := by subst hs0; simp
        have hl0 : s0.chain.length = 1 := by subst hs0; rfl
        obtain ⟨h1, h2⟩ := rootLoop_proto g base fuel s0 hc0
        rw [hl0] at h1 h2
        generalize hrl : rootLoop g fuel s0 = r at h1 h2
        obtain ⟨es, v, s1⟩ := r
        simp only at h1 h2 ⊢
        cases v with
        | ok =>
          obtain ⟨hc1, hp1⟩ := h2 rfl
          have ih := compLoop_proto g fuel ids s1 (base + s1.chain.length)
          have hne : psOf (base + s1.chain.length) = some (base + s1.chain.length) := by
            have : 1 ≤ s1.chain.length := by
              cases hch : s1.chain with
              | nil => exact absurd hch hc1
              | cons a t => simp
            unfold psOf; split
            · omega
            · rfl
          rw [hne] at ih
          simp only [List.cons_append, protoRun, psOf_root]
          rw [protoRun_append, hp1]
          exact ih
        | err e => simp only [protoRun, psOf_root]; exact h1
        | panic p => simp only [protoRun, psOf_root]; exact h1

/-- the traversal's event stream is protocol-conformant for any adjacency list, up to the error -/
theorem walk_proto (g : Graph) : (protoRun none (walk g).1).isSome := by
  unfold walk
  split
  · rfl
  · exact compLoop_proto g (walkFuel g) (List.range g.length) _ 0

end Purr
