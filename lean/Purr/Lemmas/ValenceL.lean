/- Helper lemmas for C16 / C17. -/
import Purr.Spec.ValenceSpec
namespace Purr
open Purr.Spec

theorem subvalence_eq (a : Atom) :
    a.subvalence = hSpec a.kind.targets (hcountOf a.kind + orderSum a.bonds) := by
  unfold Atom.subvalence hSpec
  simp only [ge_iff_le]
  split <;> split <;> simp_all

theorem an_B : atomicNumber .B = 5 := by decide
theorem an_C : atomicNumber .C = 6 := by decide
theorem an_N : atomicNumber .N = 7 := by decide
theorem an_O : atomicNumber .O = 8 := by decide
theorem an_P : atomicNumber .P = 15 := by decide
theorem an_S : atomicNumber .S = 16 := by decide
theorem an_As : atomicNumber .As = 33 := by decide
theorem an_Se : atomicNumber .Se = 34 := by decide

theorem elementalTargets_le_six (e : Element) (q : Option Charge) : ∀ t ∈ elementalTargets e q, t ≤ 6 := by
  intro t ht
  cases e <;> simp only [elementalTargets] at ht <;> (try (simp at ht; done)) <;>
    (repeat' split at ht) <;> simp at ht <;> omega

theorem targets_le_six (k : AtomKind) : ∀ t ∈ k.targets, t ≤ 6 := by
  intro t ht
  cases k with
  | star => simp [AtomKind.targets] at ht
  | aliphatic a => cases a <;> simp [AtomKind.targets, Aliphatic.targets] at ht <;> omega
  | aromatic a => cases a <;> simp [AtomKind.targets, Aromatic.targets] at ht <;> omega
  | bracket b =>
    simp only [AtomKind.targets] at ht
    split at ht
    · simp at ht
    · exact elementalTargets_le_six _ _ t ht
    · exact elementalTargets_le_six _ _ t ht

theorem hSpec_le (vs : List Nat) (v : Nat) (h : ∀ t ∈ vs, t ≤ 6) : hSpec vs v ≤ 6 := by
  unfold hSpec
  split
  · rename_i t ht
    have := h t (List.mem_of_find?_eq_some ht)
    omega
  · omega

theorem hSpec_zero_of_large (vs : List Nat) (v : Nat) (h : ∀ t ∈ vs, t ≤ 6) (hv : 7 ≤ v) : hSpec vs v = 0 := by
  unfold hSpec
  split
  · rename_i t ht
    have h1 := h t (List.mem_of_find?_eq_some ht)
    have h2 := List.find?_some ht
    simp at h2; omega
  · rfl

end Purr
