/- Helper lemmas about the token readers and the reader transducer (no-panic, shape of results). -/
import Purr.Model.Reader
import Purr.Lemmas.Digits
namespace Purr

theorem readFifteen_range {s v r} (h : readFifteen s = some (v, r)) : 1 ≤ v ∧ v ≤ 15 := by
  unfold readFifteen at h
  split at h
  · cases h
  · split at h
    · split at h
      · split at h
        · rename_i hd
          cases h
          simp [isDigit, digitVal] at hd ⊢
          omega
        · cases h; omega
      · cases h; omega
    · split at h
      · rename_i hd
        cases h
        simp only [Bool.and_eq_true, decide_eq_true_eq, isDigit] at hd
        have := hd.1.2
        have := hd.2
        simp only [digitVal] at *
        omega
      · cases h

theorem readCharge_no_panic (s : Str) : ∀ p, readCharge s ≠ .panic p := by
  intro p
  unfold readCharge
  split
  · split
    · rename_i v r' hf
      have := readFifteen_range hf
      have hs : (mkCharge v).isSome := by simp [mkCharge, Charge.ofInt?]; omega
      split
      · simp
      · rename_i hn; rw [hn] at hs; cases hs
    · split <;> simp
  · split
    · rename_i v r' hf
      have := readFifteen_range hf
      have hs : (mkCharge (-(v : Int))).isSome := by simp [mkCharge, Charge.ofInt?]; omega
      split
      · simp
      · rename_i hn; rw [hn] at hs; cases hs
    · split <;> simp
  · simp

theorem cfgRes_no_panic (o r a) : ∀ p, cfgRes o r a ≠ .panic p := by
  intro p; unfold cfgRes; split <;> simp

theorem readCfgDigit_no_panic (f s) : ∀ p, readCfgDigit f s ≠ .panic p := by
  intro p h
  unfold readCfgDigit at h
  split at h
  · cases h
  · split at h
    · exact cfgRes_no_panic _ _ _ p h
    · cases h

theorem readCfgTwoDigit_no_panic (f t u s) : ∀ p, readCfgTwoDigit f t u s ≠ .panic p := by
  intro p h
  unfold readCfgTwoDigit at h
  split at h
  · cases h
  · split at h
    · simp only at h
      split at h
      · split at h
        · split at h <;> exact cfgRes_no_panic _ _ _ p h
        · exact cfgRes_no_panic _ _ _ p h
      · split at h
        · split at h <;> exact cfgRes_no_panic _ _ _ p h
        · exact cfgRes_no_panic _ _ _ p h
    · cases h

theorem readConfiguration_no_panic (s : Str) : ∀ p, readConfiguration s ≠ .panic p := by
  intro p h
  unfold readConfiguration at h
  split at h
  · split at h
    · cases h
    · split at h
      · exact readCfgDigit_no_panic _ _ p h
      · cases h
    · split at h
      · exact readCfgTwoDigit_no_panic _ _ _ _ p h
      · cases h
    · split at h
      · exact readCfgDigit_no_panic _ _ p h
      · cases h
    · split at h
      · exact readCfgTwoDigit_no_panic _ _ _ _ p h
      · exact readCfgDigit_no_panic _ _ p h
      · cases h
    · cases h
  · cases h

theorem readSymbol_no_panic (s : Str) : ∀ p, readSymbol s ≠ .panic p := by
  intro p; unfold readSymbol; repeat' split
  all_goals simp

theorem readMap_no_panic (s : Str) : ∀ p, readMap s ≠ .panic p := by
  intro p; unfold readMap; repeat' split
  all_goals simp

theorem readOrganic_no_panic (s : Str) : ∀ p, readOrganic s ≠ .panic p := by
  intro p; unfold readOrganic; repeat' split
  all_goals simp

theorem readRnum_no_panic (s : Str) : ∀ p, readRnum s ≠ .panic p := by
  intro p; unfold readRnum; repeat' split
  all_goals simp

theorem readBracket_no_panic (s : Str) : ∀ p, readBracket s ≠ .panic p := by
  intro p
  unfold readBracket
  split
  · simp only
    split
    · simp
    · rename_i h; exact absurd h (readSymbol_no_panic _ _)
    · simp
    · split
      · simp
      · rename_i h; exact absurd h (readConfiguration_no_panic _ _)
      · simp
      · split
        · simp
        · rename_i h; exact absurd h (readCharge_no_panic _ _)
        · simp
        · split
          · simp
          · rename_i h; exact absurd h (readMap_no_panic _ _)
          · simp
          · split <;> simp
  · simp

theorem readAtom_no_panic (s : Str) : ∀ p, readAtom s ≠ .panic p := by
  intro p
  unfold readAtom
  split
  · simp
  · simp
  · rename_i h; exact absurd h (readOrganic_no_panic _ _)
  · split
    · simp
    · simp
    · rename_i h; exact absurd h (readBracket_no_panic _ _)
    · split <;> simp


theorem bodyStep_no_panic (s : Str) : ∀ p, bodyStep s ≠ .panic p := by
  intro p h
  unfold bodyStep unionStep at h
  split at h
  · cases h
  · cases h
  · split at h
    · cases h
    · cases h
    · rename_i hp; exact readAtom_no_panic _ _ hp
    · split at h
      · cases h
      · cases h
      · rename_i hp; exact readRnum_no_panic _ _ hp
      · split at h
        · cases h
        · split at h <;> cases h

/-- the reader never reaches one of its `expect` / `unreachable!` sites -/
theorem run_no_panic (mode : Mode) (stack : List Nat) (s : Str) : ∀ p, (run mode stack s).2 ≠ .panic p := by
  fun_induction run mode stack s <;> intro p
  case case4 h => exact absurd h (readAtom_no_panic _ _)
  case case8 h => exact absurd h (readAtom_no_panic _ _)
  case case20 h => exact absurd h (bodyStep_no_panic _ _)
  all_goals first | (simp; done) | (simp_all; done) | skip
  all_goals (rename_i ih; exact ih p)

/-- erasing the locations from `runL` gives `run` -/
theorem runL_erase (mode : Mode) (stack : List Nat) (s : Str) :
    ((runL mode stack s).1.map LEvent.erase, (runL mode stack s).2) = run mode stack s := by
  fun_induction run mode stack s
  all_goals (rw [runL.eq_def]; simp only [])
  all_goals first | assumption | (split <;> simp_all [LEvent.erase])
  all_goals (rename_i ih _; exact ⟨congrArg Prod.fst ih, congrArg Prod.snd ih⟩)

end Purr
