/- The reader model accepts exactly the sentences of the documented productions (Spec/Bnf.lean). -/
import Purr.Model.Reader
import Purr.Spec.Bnf
import Purr.Lemmas.ReaderL
namespace Purr
open Purr.Spec.Bnf

/-! ### first characters of the terminals -/

def isAtomStart (c : Char) : Bool :=
  c == 'b' || c == 'c' || c == 'n' || c == 'o' || c == 'p' || c == 's' || c == 'A' || c == 'B' || c == 'C' ||
  c == 'N' || c == 'O' || c == 'P' || c == 'S' || c == 'F' || c == 'I' || c == 'T' || c == '[' || c == '*'

theorem readAtom_nil : readAtom [] = .absent := by
  simp [readAtom, readOrganic, readBracket]

theorem readAtom_not_start (c : Char) (t : Str) (h : isAtomStart c = false) : readAtom (c :: t) = .absent := by
  simp only [isAtomStart, Bool.or_eq_false_iff, beq_eq_false_iff_ne, ne_eq] at h
  obtain ⟨⟨⟨⟨⟨⟨⟨⟨⟨⟨⟨⟨⟨⟨⟨⟨⟨h1, h2⟩, h3⟩, h4⟩, h5⟩, h6⟩, h7⟩, h8⟩, h9⟩, h10⟩, h11⟩, h12⟩, h13⟩, h14⟩, h15⟩, h16⟩, h17⟩, h18⟩ := h
  have ho : readOrganic (c :: t) = .absent := by
    unfold readOrganic
    split <;> first | rfl | (simp_all; done) | skip
    all_goals (rename_i heq; simp only [List.cons.injEq] at heq; obtain ⟨rfl, _⟩ := heq; simp_all)
  have hb : readBracket (c :: t) = .absent := by
    unfold readBracket
    split
    · rename_i heq; simp only [List.cons.injEq] at heq; obtain ⟨rfl, _⟩ := heq; exact absurd rfl h17
    · rfl
  unfold readAtom
  rw [ho, hb]
  simp only []
  split
  · rename_i heq; simp only [List.cons.injEq] at heq; obtain ⟨rfl, _⟩ := heq; exact absurd rfl h18
  · rfl

theorem readAtom_ok_start {s : Str} {k : AtomKind} {r : Str} (h : readAtom s = .ok k r) :
    ∃ c t, s = c :: t ∧ isAtomStart c = true := by
  cases s with
  | nil => rw [readAtom_nil] at h; cases h
  | cons c t =>
    refine ⟨c, t, rfl, ?_⟩
    cases hc : isAtomStart c with
    | true => rfl
    | false => rw [readAtom_not_start c t hc] at h; cases h

/-- an atom does not begin with a parenthesis, a dot, a bond symbol, a digit or `%` -/
theorem atomStart_facts {c : Char} (h : isAtomStart c = true) (t : Str) :
    c ≠ '(' ∧ c ≠ ')' ∧ c ≠ '.' ∧ readBond (c :: t) = (.elided, c :: t) ∧ readRnum (c :: t) = .absent := by
  simp only [isAtomStart, Bool.or_eq_true, beq_iff_eq] at h
  rcases h with ((((((((((((((((( rfl | rfl) | rfl) | rfl) | rfl) | rfl) | rfl) | rfl) | rfl) | rfl) | rfl) | rfl) | rfl) | rfl) | rfl) | rfl) | rfl) | rfl)
  all_goals exact ⟨by decide, by decide, by decide, rfl, by simp [readRnum, isDigit]⟩

theorem readRnum_ok_start {s : Str} {n : Rnum} {r : Str} (h : readRnum s = .ok n r) :
    ∃ c t, s = c :: t ∧ (isDigit c = true ∨ c = '%') := by
  cases s with
  | nil => simp [readRnum] at h
  | cons c t =>
    refine ⟨c, t, rfl, ?_⟩
    by_cases hd : isDigit c = true
    · exact Or.inl hd
    · by_cases hp : c = '%'
      · exact Or.inr hp
      · simp [readRnum, hd, hp] at h

theorem rnumStart_facts {c : Char} (h : isDigit c = true ∨ c = '%') (t : Str) :
    c ≠ '(' ∧ c ≠ ')' ∧ c ≠ '.' ∧ readBond (c :: t) = (.elided, c :: t) ∧ readAtom (c :: t) = .absent := by
  have hs : isAtomStart c = false := by
    rcases h with h | rfl
    · simp only [isDigit, Bool.and_eq_true, decide_eq_true_eq] at h
      simp only [isAtomStart, Bool.or_eq_false_iff, beq_eq_false_iff_ne, ne_eq]
      have h1 := h.1; have h2 := h.2
      refine ⟨⟨⟨⟨⟨⟨⟨⟨⟨⟨⟨⟨⟨⟨⟨⟨⟨?_, ?_⟩, ?_⟩, ?_⟩, ?_⟩, ?_⟩, ?_⟩, ?_⟩, ?_⟩, ?_⟩, ?_⟩, ?_⟩, ?_⟩, ?_⟩, ?_⟩, ?_⟩, ?_⟩, ?_⟩
      all_goals (intro e; subst e; revert h1 h2; decide)
    · decide
  refine ⟨?_, ?_, ?_, ?_, readAtom_not_start c t hs⟩
  · rcases h with h | rfl
    · intro e; subst e; revert h; decide
    · decide
  · rcases h with h | rfl
    · intro e; subst e; revert h; decide
    · decide
  · rcases h with h | rfl
    · intro e; subst e; revert h; decide
    · decide
  · rcases h with h | rfl
    · have hn : c ≠ '-' ∧ c ≠ '=' ∧ c ≠ '#' ∧ c ≠ '$' ∧ c ≠ ':' ∧ c ≠ '/' ∧ c ≠ '\\' := by
        refine ⟨?_, ?_, ?_, ?_, ?_, ?_, ?_⟩ <;> (intro e; subst e; revert h; decide)
      unfold readBond
      split <;> first | rfl | (rename_i heq; simp only [List.cons.injEq] at heq; obtain ⟨rfl, _⟩ := heq; simp at hn)
    · rfl

/-- a written bond symbol is one character, and not a parenthesis or a dot -/
theorem bondSym_cons {s s1 : Str} (h : BondSym s s1) : ∃ c, s = c :: s1 ∧ c ≠ '(' ∧ c ≠ '.' ∧ c ≠ ')' := by
  obtain ⟨b, hb, hr⟩ := h
  unfold readBond at hr
  split at hr
  all_goals first
    | (simp only [Prod.mk.injEq] at hr; obtain ⟨rfl, rfl⟩ := hr; exact ⟨_, rfl, by decide, by decide, by decide⟩)
    | (simp only [Prod.mk.injEq] at hr; exact absurd hr.1.symm hb)

/-! ### one-step unfoldings of `run` -/

theorem run_needRoot_ok {s : Str} {k : AtomKind} {rest : Str} (st : List Nat) (h : readAtom s = .ok k rest) :
    (run .needRoot st s).2 = (run .body (bump st) rest).2 := by
  rw [run.eq_def]; simp only []
  split <;> simp_all

theorem run_needAtom_ok {s : Str} {k : AtomKind} {rest : Str} (b : BondKind) (st : List Nat) (h : readAtom s = .ok k rest) :
    (run (.needAtom b) st s).2 = (run .body (bump st) rest).2 := by
  rw [run.eq_def]; simp only []
  split <;> simp_all

theorem run_body_of_step {s : Str} (st : List Nat) :
    (run .body st s).2 =
      match bodyStep s with
      | .openParen rest => (run .afterOpen (0 :: st) rest).2
      | .dot rest => (run .needRoot st rest).2
      | .atom b k rest => (run .body (bump st) rest).2
      | .ring b r rest => (run .body st rest).2
      | .close rest => (match st with | l :: l' :: st' => (run .body (l' :: st') rest).2 | _ => .fail s)
      | .eoi => (match st with | [_] => .ok | _ => .fail [])
      | .fail a => .fail a
      | .panic p => .panic p := by
  rw [run.eq_def]; simp only []
  split <;> simp_all
  all_goals (split <;> simp_all)

theorem bodyStep_atom_of {s s1 : Str} {b : BondKind} {k : AtomKind} {r : Str} (hb : readBond s = (b, s1))
    (hne : ∀ c t, s = c :: t → c ≠ '(' ∧ c ≠ '.') (ha : readAtom s1 = .ok k r) : bodyStep s = .atom b k r := by
  unfold bodyStep
  split
  · exact absurd rfl (hne _ _ rfl).1
  · exact absurd rfl (hne _ _ rfl).2
  · unfold unionStep; rw [hb]; simp only [ha]

theorem bodyStep_ring_of {s s1 : Str} {b : BondKind} {n : Rnum} {r : Str} (hb : readBond s = (b, s1))
    (hne : ∀ c t, s = c :: t → c ≠ '(' ∧ c ≠ '.') (ha : readAtom s1 = .absent) (hr : readRnum s1 = .ok n r) :
    bodyStep s = .ring b n r := by
  unfold bodyStep
  split
  · exact absurd rfl (hne _ _ rfl).1
  · exact absurd rfl (hne _ _ rfl).2
  · unfold unionStep; rw [hb]; simp only [ha, hr]

theorem bodyStep_close_of (r : Str) : bodyStep (')' :: r) = .close r := by
  simp [bodyStep, unionStep, readBond, readAtom, readOrganic, readBracket, readRnum, isDigit]

theorem bump_len {st : List Nat} (h : st ≠ []) : (bump st).length = st.length := by
  cases st with
  | nil => exact absurd rfl h
  | cons l t => rfl

theorem bump_ne (st : List Nat) : bump st ≠ [] := by
  cases st <;> simp [bump]

theorem run_afterOpen_dot' (st : List Nat) (rest : Str) : run .afterOpen st ('.' :: rest) = run .needRoot st rest := by
  rw [run.eq_def]; simp only []

theorem run_afterOpen_else (st : List Nat) (s : Str) (h : ∀ rest, s ≠ '.' :: rest) :
    run .afterOpen st s = run (.needAtom (readBond s).1) st (readBond s).2 := by
  rw [run.eq_def]; simp only []

theorem run_body_open' (st : List Nat) (rest : Str) : (run .body st ('(' :: rest)).2 = (run .afterOpen (0 :: st) rest).2 := by
  rw [run_body_of_step]; rfl

theorem run_body_dot' (st : List Nat) (rest : Str) : (run .body st ('.' :: rest)).2 = (run .needRoot st rest).2 := by
  rw [run_body_of_step]; rfl

theorem run_body_close' (l l' : Nat) (st : List Nat) (rest : Str) :
    (run .body (l :: l' :: st) (')' :: rest)).2 = (run .body (l' :: st) rest).2 := by
  rw [run_body_of_step, bodyStep_close_of]

/-! ### every derivation is accepted -/

/-- what a derivation means for the reader: reading the phrase leaves the reader in body mode on the rest, at the same
    parenthesis depth (the stack keeps its length), with the same final verdict -/
def Claim : NT → Str → Str → Prop
  | .smiles, s, r => ∀ st : List Nat, st ≠ [] → ∃ st', st'.length = st.length ∧
      (run .needRoot st s).2 = (run .body st' r).2 ∧ ∀ b, (run (.needAtom b) st s).2 = (run .body st' r).2
  | .bodies, s, r => ∀ st : List Nat, st ≠ [] → ∃ st', st'.length = st.length ∧ (run .body st s).2 = (run .body st' r).2
  | .body, s, r => ∀ st : List Nat, st ≠ [] → ∃ st', st'.length = st.length ∧ (run .body st s).2 = (run .body st' r).2

theorem ne_nil_of_length {st st' : List Nat} (h : st'.length = st.length) (hne : st ≠ []) : st' ≠ [] := by
  intro e; subst e; cases st with
  | nil => exact hne rfl
  | cons _ _ => simp at h

/-- closing the branch: after the inner `<smiles>` the reader stands before `)` one level deeper -/
theorem close_branch {st st' : List Nat} {r : Str} (hl : st'.length = (0 :: st).length) (hne : st ≠ []) :
    ∃ st'', st''.length = st.length ∧ (run .body st' (')' :: r)).2 = (run .body st'' r).2 := by
  cases st' with
  | nil => simp at hl
  | cons l t =>
    cases t with
    | nil => simp at hl; exact absurd hl hne
    | cons l' t' =>
      refine ⟨l' :: t', by simpa using hl, run_body_close' l l' t' r⟩

theorem derives_claim {nt : NT} {s r : Str} (h : Derives nt s r) : Claim nt s r := by
  induction h with
  | smiles ha _ ih =>
    intro st hst
    obtain ⟨st', hl, he⟩ := ih (bump st) (bump_ne st)
    refine ⟨st', by rw [hl, bump_len hst], ?_, ?_⟩
    · rw [run_needRoot_ok st ha]; exact he
    · intro b; rw [run_needAtom_ok b st ha]; exact he
  | nil => intro st _; exact ⟨st, rfl, rfl⟩
  | cons _ _ ih1 ih2 =>
    intro st hst
    obtain ⟨st1, hl1, he1⟩ := ih1 st hst
    obtain ⟨st2, hl2, he2⟩ := ih2 st1 (ne_nil_of_length hl1 hst)
    exact ⟨st2, hl2.trans hl1, he1.trans he2⟩
  | @branch s1 r h ih =>
    intro st hst
    obtain ⟨st', hl, _, he⟩ := ih (0 :: st) (by simp)
    obtain ⟨st'', hl'', hc⟩ := close_branch (r := r) hl hst
    refine ⟨st'', hl'', ?_⟩
    cases h with
    | smiles ha _ =>
      obtain ⟨c, t, rfl, hc1⟩ := readAtom_ok_start ha
      obtain ⟨_, _, hdot, hb, _⟩ := atomStart_facts hc1 t
      rw [run_body_open', run_afterOpen_else _ _ (by intro rest e; simp only [List.cons.injEq] at e; exact hdot e.1), hb]
      exact (he .elided).trans hc
  | @branchDot s1 r _ ih =>
    intro st hst
    obtain ⟨st', hl, he, _⟩ := ih (0 :: st) (by simp)
    obtain ⟨st'', hl'', hc⟩ := close_branch (r := r) hl hst
    refine ⟨st'', hl'', ?_⟩
    rw [run_body_open', run_afterOpen_dot']
    exact he.trans hc
  | @branchBond s0 s1 r hb _ ih =>
    intro st hst
    obtain ⟨st', hl, _, he⟩ := ih (0 :: st) (by simp)
    obtain ⟨st'', hl'', hc⟩ := close_branch (r := r) hl hst
    refine ⟨st'', hl'', ?_⟩
    obtain ⟨c, rfl, _, hdot, _⟩ := bondSym_cons hb
    obtain ⟨b, _, hrb⟩ := hb
    rw [run_body_open', run_afterOpen_else _ _ (by intro rest e; simp only [List.cons.injEq] at e; exact hdot e.1), hrb]
    exact (he b).trans hc
  | split _ ih =>
    intro st hst
    obtain ⟨st', hl, he, _⟩ := ih st hst
    exact ⟨st', hl, by rw [run_body_dot']; exact he⟩
  | @union s r h ih =>
    intro st hst
    cases h with
    | @smiles _ r1 _ k ha hbod =>
      obtain ⟨c, t, rfl, hc1⟩ := readAtom_ok_start ha
      obtain ⟨hp, _, hdot, hb, _⟩ := atomStart_facts hc1 t
      have hstep : bodyStep (c :: t) = .atom .elided k r1 :=
        bodyStep_atom_of hb (by intro c' t' e; simp only [List.cons.injEq] at e; obtain ⟨rfl, _⟩ := e; exact ⟨hp, hdot⟩) ha
      obtain ⟨st', hl, _, he⟩ := ih st hst
      refine ⟨st', hl, ?_⟩
      rw [← he .elided, run_needAtom_ok .elided st ha, run_body_of_step, hstep]
  | @unionBond s s1 r hb h ih =>
    intro st hst
    cases h with
    | @smiles _ r1 _ k ha hbod =>
      obtain ⟨c, rfl, hp, hdot, _⟩ := bondSym_cons hb
      obtain ⟨b, _, hrb⟩ := hb
      have hstep : bodyStep (c :: s1) = .atom b k r1 :=
        bodyStep_atom_of hrb (by intro c' t' e; simp only [List.cons.injEq] at e; obtain ⟨rfl, _⟩ := e; exact ⟨hp, hdot⟩) ha
      obtain ⟨st', hl, _, he⟩ := ih st hst
      refine ⟨st', hl, ?_⟩
      rw [← he b, run_needAtom_ok b st ha, run_body_of_step, hstep]
  | @ring s r n hr =>
    intro st hst
    obtain ⟨c, t, rfl, hc1⟩ := readRnum_ok_start hr
    obtain ⟨hp, _, hdot, hb, ha⟩ := rnumStart_facts hc1 t
    have hstep : bodyStep (c :: t) = .ring .elided n r :=
      bodyStep_ring_of hb (by intro c' t' e; simp only [List.cons.injEq] at e; obtain ⟨rfl, _⟩ := e; exact ⟨hp, hdot⟩) ha hr
    exact ⟨st, rfl, by rw [run_body_of_step, hstep]⟩
  | @ringBond s s1 r n hb hr =>
    intro st hst
    obtain ⟨c, rfl, hp, hdot, _⟩ := bondSym_cons hb
    obtain ⟨b, _, hrb⟩ := hb
    obtain ⟨c2, t2, rfl, hc2⟩ := readRnum_ok_start hr
    obtain ⟨_, _, _, _, ha⟩ := rnumStart_facts hc2 t2
    have hstep : bodyStep (c :: c2 :: t2) = .ring b n r :=
      bodyStep_ring_of hrb (by intro c' t' e; simp only [List.cons.injEq] at e; obtain ⟨rfl, _⟩ := e; exact ⟨hp, hdot⟩) ha hr
    exact ⟨st, rfl, by rw [run_body_of_step, hstep]⟩

/-- every sentence of the documented productions is accepted -/
theorem sentence_accepted {s : Str} (h : Sentence s) : (read s).2 = .ok := by
  obtain ⟨st', hl, he, _⟩ := derives_claim h [0] (by simp)
  unfold read
  rw [he]
  cases st' with
  | nil => simp at hl
  | cons l t =>
    cases t with
    | nil => rw [run_body_of_step]; rfl
    | cons _ _ => simp at hl

/-! ### every accepted string has a derivation -/

/-- what is still owed after the current `<smiles>` when the reader's stack has `n` levels: nothing at the outermost
    level, otherwise the `)` of the enclosing branch, more bodies of the enclosing `<smiles>`, and what that level owes -/
def Owed : Nat → Str → Prop
  | 0, _ => False
  | 1, r => r = []
  | n + 2, r => ∃ r1 r2, r = ')' :: r1 ∧ Derives .bodies r1 r2 ∧ Owed (n + 1) r2

/-- the inside of a branch after `(` -/
def Inner (s r : Str) : Prop :=
  Derives .smiles s r ∨ (∃ s1, s = '.' :: s1 ∧ Derives .smiles s1 r) ∨ (∃ s1, BondSym s s1 ∧ Derives .smiles s1 r)

def Goal : Mode → List Nat → Str → Prop
  | .needRoot, st, s => ∃ r, Derives .smiles s r ∧ Owed st.length r
  | .needAtom _, st, s => ∃ r, Derives .smiles s r ∧ Owed st.length r
  | .afterOpen, st, s => ∃ r, Inner s r ∧ Owed st.length r
  | .body, st, s => ∃ r, Derives .bodies s r ∧ Owed st.length r

theorem bodyStep_eoi {s : Str} (h : bodyStep s = .eoi) : s = [] := by
  unfold bodyStep unionStep at h
  split at h
  · cases h
  · cases h
  · repeat' split at h
    all_goals first | (cases h; done) | rfl

theorem bnf_bodyStep_atom_inv {s : Str} {b : BondKind} {k : AtomKind} {rest : Str} (h : bodyStep s = .atom b k rest) :
    (readBond s).1 = b ∧ readAtom (readBond s).2 = .ok k rest := by
  unfold bodyStep unionStep at h
  split at h
  · cases h
  · cases h
  · split at h
    · rename_i ha; cases h; exact ⟨rfl, ha⟩
    all_goals (repeat' split at h)
    all_goals cases h

theorem bnf_bodyStep_ring_inv {s : Str} {b : BondKind} {n : Rnum} {rest : Str} (h : bodyStep s = .ring b n rest) :
    (readBond s).1 = b ∧ readRnum (readBond s).2 = .ok n rest := by
  unfold bodyStep unionStep at h
  split at h
  · cases h
  · cases h
  · split at h
    · cases h
    · cases h
    · cases h
    · split at h
      · rename_i hr; cases h; exact ⟨rfl, hr⟩
      all_goals (repeat' split at h)
      all_goals cases h

/-- `readBond` either consumes nothing (elided) or is a written bond symbol -/
theorem readBond_cases (s : Str) : ((readBond s).1 = .elided ∧ (readBond s).2 = s) ∨ BondSym s (readBond s).2 := by
  by_cases h : (readBond s).1 = .elided
  · left
    refine ⟨h, ?_⟩
    unfold readBond at h ⊢
    split <;> first | rfl | (simp at h)
  · right; exact ⟨(readBond s).1, h, rfl⟩

theorem owed_bump {st : List Nat} {r : Str} (hne : st ≠ []) (h : Owed (bump st).length r) : Owed st.length r := by
  rw [bump_len hne] at h; exact h

theorem run_ok_goal (mode : Mode) (stack : List Nat) (s : Str) :
    stack ≠ [] → (run mode stack s).2 = .ok → Goal mode stack s := by
  fun_induction run mode stack s <;> intro hne hok
  all_goals try (simp at hok; done)
  case case1 stack s k rest h q ih =>
    obtain ⟨r, hb, ho⟩ := ih (bump_ne _) hok
    exact ⟨r, .smiles h hb, owed_bump hne ho⟩
  case case5 stack s b k rest h q ih =>
    obtain ⟨r, hb, ho⟩ := ih (bump_ne _) hok
    exact ⟨r, .smiles h hb, owed_bump hne ho⟩
  case case9 stack rest ih =>
    obtain ⟨r, hd, ho⟩ := ih hne hok
    exact ⟨r, Or.inr (Or.inl ⟨rest, rfl, hd⟩), ho⟩
  case case10 stack s hns ih =>
    obtain ⟨r, hd, ho⟩ := ih hne hok
    refine ⟨r, ?_, ho⟩
    rcases readBond_cases s with ⟨_, h2⟩ | hb
    · rw [h2] at hd; exact Or.inl hd
    · exact Or.inr (Or.inr ⟨_, hb, hd⟩)
  case case11 stack s rest h ih =>
    have hs := bodyStep_openParen h
    subst hs
    obtain ⟨r, hin, ho⟩ := ih (by simp) hok
    cases stack with
    | nil => exact absurd rfl hne
    | cons l t =>
      simp only [List.length_cons] at ho ⊢
      obtain ⟨r1, r2, rfl, hb, ho2⟩ := ho
      have hbody : Derives .body ('(' :: rest) r1 := by
        rcases hin with hd | ⟨s1, rfl, hd⟩ | ⟨s1, hb', hd⟩
        · exact .branch hd
        · exact .branchDot hd
        · exact .branchBond hb' hd
      exact ⟨r2, .cons hbody hb, ho2⟩
  case case12 stack s rest h ih =>
    have hs := bodyStep_dot h
    subst hs
    obtain ⟨r, hd, ho⟩ := ih hne hok
    exact ⟨r, .cons (.split hd) .nil, ho⟩
  case case13 stack s b k rest h q ih =>
    obtain ⟨r, hb, ho⟩ := ih (bump_ne _) hok
    obtain ⟨h1, h2⟩ := bnf_bodyStep_atom_inv h
    refine ⟨r, .cons ?_ .nil, owed_bump hne ho⟩
    rcases readBond_cases s with ⟨_, e2⟩ | hbs
    · rw [e2] at h2; exact .union (.smiles h2 hb)
    · exact .unionBond hbs (.smiles h2 hb)
  case case14 stack s b n rest h q ih =>
    obtain ⟨r, hb, ho⟩ := ih hne hok
    obtain ⟨h1, h2⟩ := bnf_bodyStep_ring_inv h
    refine ⟨r, .cons ?_ hb, ho⟩
    rcases readBond_cases s with ⟨_, e2⟩ | hbs
    · rw [e2] at h2; exact .ring h2
    · exact .ringBond hbs h2
  case case15 s rest h l l' st q ih =>
    have hs := bodyStep_close h
    subst hs
    obtain ⟨r, hb, ho⟩ := ih (by simp) hok
    refine ⟨')' :: rest, .nil, ?_⟩
    simp only [List.length_cons] at ho ⊢
    exact ⟨rest, r, rfl, hb, ho⟩
  case case17 s h hd =>
    have := bodyStep_eoi h
    subst this
    exact ⟨[], .nil, rfl⟩

/-- every accepted string is a sentence of the documented productions -/
theorem accepted_sentence {s : Str} (h : (read s).2 = .ok) : Sentence s := by
  obtain ⟨r, hd, ho⟩ := run_ok_goal .needRoot [0] s (by simp) h
  simp only [List.length_cons, List.length_nil, Nat.zero_add, Owed] at ho
  subst ho
  exact hd

/-- THE READER ACCEPTS EXACTLY THE SENTENCES OF ITS DOCUMENTED PRODUCTIONS -/
theorem accepted_iff_sentence (s : Str) : (read s).2 = .ok ↔ Sentence s :=
  ⟨accepted_sentence, sentence_accepted⟩

end Purr
