/- C08: the two joins of a ring number sit on the two atoms of a bond of the graph. -/
import Purr.Lemmas.BuildErrL
namespace Purr

/-- a resolved bond, once recorded, stays recorded -/
theorem bstep_keeps_id {s s' : BState} {e : Event} (hb : bstep s e = some s') {x t : Nat} (h : HasBond s.graph x t) :
    HasBond s'.graph x t := by
  obtain ⟨es, hv, ed, hed, ht⟩ := h
  obtain ⟨n, hn, hne⟩ := view_some hv
  have hx : x < s.graph.length := by
    apply Nat.lt_of_not_le; intro hge
    rw [List.getElem?_eq_none_iff.mpr hge] at hn; cases hn
  cases e with
  | root k =>
    simp only [bstep, Option.some.injEq] at hb; subst hb
    refine ⟨es, ?_, ed, hed, ht⟩
    simp only; rw [view_snoc, upd_other _ _ (by omega)]; exact hv
  | pop d =>
    simp only [bstep, Option.some.injEq] at hb; subst hb
    exact ⟨es, hv, ed, hed, ht⟩
  | extend bk k =>
    simp only [bstep] at hb
    split at hb
    · cases hb
    · rename_i sid rest hst
      split at hb
      · rename_i hlt
        simp only [Option.some.injEq] at hb; subst hb
        obtain ⟨ns, hns⟩ : ∃ ns, s.graph[sid]? = some ns := ⟨s.graph[sid], List.getElem?_eq_getElem hlt⟩
        have hns' : (s.graph ++ [⟨k.invert, [⟨bk.reverse, .id sid⟩]⟩])[sid]? = some ns := by
          rw [List.getElem?_append_left hlt]; exact hns
        simp only
        rw [HasBond, view_addEdge hns', view_snoc]
        by_cases hxs : x = sid
        · subst hxs
          rw [hn] at hns; cases hns
          exact ⟨n.edges ++ [⟨bk, .id s.graph.length⟩], by rw [upd_same], ed, by rw [hne]; simp [hed], ht⟩
        · exact ⟨es, by rw [upd_other _ _ hxs, upd_other _ _ (by omega)]; exact hv, ed, hed, ht⟩
      · cases hb
  | join bk r =>
    simp only [bstep] at hb
    split at hb
    · cases hb
    · rename_i sid rest hst
      split at hb
      · rename_i hlt
        obtain ⟨ns, hns⟩ : ∃ ns, s.graph[sid]? = some ns := ⟨s.graph[sid], List.getElem?_eq_getElem hlt⟩
        split at hb
        · rename_i tid hl
          split at hb
          · cases hb
          · rename_i tnode htn
            split at hb
            · cases hb
            · rename_i edge hedge
              split at hb
              · simp only [Option.some.injEq] at hb; subst hb; exact ⟨es, hv, ed, hed, ht⟩
              · split at hb
                · rename_i left right hrec
                  simp only [Option.some.injEq] at hb; subst hb
                  simp only
                  have hmod := view_modify (g := s.graph) htn (closeEdge r left sid)
                  obtain ⟨n', hn'⟩ : ∃ n', (s.graph.modify tid (fun n => { n with edges := closeEdge r left sid n.edges }))[sid]? = some n' := by
                    have hl' : sid < (s.graph.modify tid (fun n => { n with edges := closeEdge r left sid n.edges })).length := by
                      rw [List.length_modify]; exact hlt
                    exact ⟨_, List.getElem?_eq_getElem hl'⟩
                  have hvn' := view_get hn'
                  rw [HasBond, view_addEdge hn']
                  -- the edges of x after the modification
                  have hx' : ∃ es', view (s.graph.modify tid (fun n => { n with edges := closeEdge r left sid n.edges })) x = some es' ∧ ed ∈ es' := by
                    rw [hmod]
                    by_cases hxt : x = tid
                    · subst hxt
                      rw [hn] at htn; cases htn
                      exact ⟨_, upd_same _ _ _, closeEdge_keeps_id r left sid n.edges ed (by rw [hne]; exact hed) ⟨t, ht⟩⟩
                    · exact ⟨es, by rw [upd_other _ _ hxt]; exact hv, hed⟩
                  obtain ⟨es', hv', hed'⟩ := hx'
                  by_cases hxs : x = sid
                  · subst hxs
                    rw [hvn'] at hv'; cases hv'
                    exact ⟨n'.edges ++ [⟨right, .id tid⟩], upd_same _ _ _, ed, by simp [hed'], ht⟩
                  · exact ⟨es', by rw [upd_other _ _ hxs]; exact hv', ed, hed', ht⟩
                · simp only [Option.some.injEq] at hb; subst hb; exact ⟨es, hv, ed, hed, ht⟩
        · simp only [Option.some.injEq] at hb; subst hb
          simp only
          rw [HasBond, view_addEdge hns]
          by_cases hxs : x = sid
          · subst hxs
            rw [hn] at hns; cases hns
            exact ⟨n.edges ++ [⟨bk, .rnum s.rid x r⟩], upd_same _ _ _, ed, by rw [hne]; simp [hed], ht⟩
          · exact ⟨es, by rw [upd_other _ _ hxs]; exact hv, ed, hed, ht⟩
      · cases hb

theorem brun_keeps_id : ∀ (es : List Event) {s s' : BState}, brun s es = some s' → ∀ {x t : Nat}, HasBond s.graph x t → HasBond s'.graph x t
  | [], s, s', h, x, t, hb => by simp only [brun, Option.some.injEq] at h; subst h; exact hb
  | e :: es, s, s', h, x, t, hb => by
    simp only [brun] at h
    cases h1 : bstep s e with
    | none => rw [h1] at h; cases h
    | some s1 => rw [h1] at h; exact brun_keeps_id es h (bstep_keeps_id h1 hb)

/-- a closing digit without defect records the bond between the head and the atom that opened the number -/
theorem bstep_close_records {s s' : BState} {bk : BondKind} {r : Rnum} {a c : Nat} (hb : bstep s (.join bk r) = some s')
    (hst : s.stack.head? = some a) (hop : s.opens.lookup r = some c) (herr : s'.errors = s.errors) :
    HasBond s'.graph a c := by
  simp only [bstep] at hb
  split at hb
  · cases hb
  · rename_i sid rest hst'
    rw [hst'] at hst; simp only [List.head?_cons, Option.some.injEq] at hst; subst hst
    split at hb
    · rename_i hlt
      rw [hop] at hb
      simp only at hb
      split at hb
      · cases hb
      · rename_i tnode htn
        split at hb
        · cases hb
        · rename_i edge hedge
          split at hb
          · simp only [Option.some.injEq] at hb; subst hb
            simp at herr
          · split at hb
            · rename_i left right hrec
              simp only [Option.some.injEq] at hb; subst hb
              obtain ⟨n', hn'⟩ : ∃ n', (s.graph.modify c (fun n => { n with edges := closeEdge r left sid n.edges }))[sid]? = some n' := by
                have hl' : sid < (s.graph.modify c (fun n => { n with edges := closeEdge r left sid n.edges })).length := by
                  rw [List.length_modify]; exact hlt
                exact ⟨_, List.getElem?_eq_getElem hl'⟩
              simp only
              rw [HasBond, view_addEdge hn']
              exact ⟨_, upd_same _ _ _, ⟨right, .id c⟩, by simp, rfl⟩
            · simp only [Option.some.injEq] at hb; subst hb
              simp at herr
    · cases hb

end Purr
