/- The located events of the reader appear in string order: every boundary (remaining length) is at most the remaining
   length at the start of the run, and the boundaries never increase from one event to the next. -/
import Purr.Lemmas.TraceIdxL
namespace Purr

/-- the boundaries of a located event, in order: start of the token (of the bond symbol for a join), end of the token -/
def LEvent.bounds : LEvent → List Nat
  | .root _ a e => [a, e]
  | .extend _ _ a e => [a, e]
  | .join _ _ bc a e => [bc, a, e]
  | .pop _ => []

def allBounds (evs : List LEvent) : List Nat := (evs.map LEvent.bounds).flatten

/-- non-increasing and bounded above by `n` -/
def Desc (n : Nat) : List Nat → Prop
  | [] => True
  | x :: xs => x ≤ n ∧ Desc x xs

theorem Desc.mono {n m : Nat} (h : n ≤ m) : ∀ {l : List Nat}, Desc n l → Desc m l
  | [], _ => trivial
  | _ :: _, ⟨h1, h2⟩ => ⟨Nat.le_trans h1 h, h2⟩

theorem readBond_len' (s : Str) : (readBond s).2.length ≤ s.length := readBond_len s

theorem runL_desc (mode : Mode) (stack : List Nat) (s : Str) : Desc s.length (allBounds (runL mode stack s).1) := by
  fun_induction runL mode stack s
  all_goals try (simp [allBounds, Desc]; done)
  case case1 stack s k rest h q ih =>
    have hl := readAtom_len h
    simp only [allBounds, List.map_cons, List.flatten_cons, LEvent.bounds, List.cons_append, List.nil_append, Desc]
    exact ⟨Nat.le_refl _, Nat.le_of_lt hl, ih⟩
  case case5 stack s b k rest h q ih =>
    have hl := readAtom_len h
    simp only [allBounds, List.map_cons, List.flatten_cons, LEvent.bounds, List.cons_append, List.nil_append, Desc]
    exact ⟨Nat.le_refl _, Nat.le_of_lt hl, ih⟩
  case case9 stack rest ih =>
    exact Desc.mono (by simp) ih
  case case10 stack s hns ih =>
    exact Desc.mono (readBond_len s) ih
  case case11 stack s rest h ih =>
    have := bodyStep_openParen h; subst this
    exact Desc.mono (by simp) ih
  case case12 stack s rest h ih =>
    have := bodyStep_dot h; subst this
    exact Desc.mono (by simp) ih
  case case13 stack s b k rest h q ih =>
    have h1 := bodyStep_atom_len h
    have h2 := readBond_len s
    obtain ⟨_, ha⟩ := bodyStep_atom_inv h
    have h3 := readAtom_len ha
    simp only [allBounds, List.map_cons, List.flatten_cons, LEvent.bounds, List.cons_append, List.nil_append, Desc]
    exact ⟨h2, Nat.le_of_lt h3, ih⟩
  case case14 stack s b r rest h q ih =>
    have h2 := readBond_len s
    obtain ⟨_, hr⟩ := bodyStep_ring_inv h
    have h3 := readRnum_len hr
    simp only [allBounds, List.map_cons, List.flatten_cons, LEvent.bounds, List.cons_append, List.nil_append, Desc]
    exact ⟨Nat.le_refl _, h2, Nat.le_of_lt h3, ih⟩
  case case15 s rest h l l' st q ih =>
    have := bodyStep_close h; subst this
    simp only [allBounds, List.map_cons, List.flatten_cons, LEvent.bounds, List.nil_append]
    exact Desc.mono (by simp) ih

end Purr

namespace Purr

theorem Desc.trans_le {n : Nat} : ∀ {l : List Nat}, Desc n l → ∀ x ∈ l, x ≤ n
  | [], _, x, hx => by cases hx
  | y :: ys, ⟨h1, h2⟩, x, hx => by
    simp only [List.mem_cons] at hx
    rcases hx with rfl | hx
    · exact h1
    · exact Nat.le_trans (Desc.trans_le h2 x hx) h1

/-- the atom tokens of a run lie one after the other: each starts where or after the previous one ended -/
theorem atomToks_in_order : ∀ (evs : List LEvent) (n : Nat), Desc n (allBounds evs) →
    (∀ p ∈ atomToks evs, p.2.2.1 ≤ n) ∧ (atomToks evs).Pairwise (fun p q => q.2.2.1 ≤ p.2.2.2)
  | [], _, _ => ⟨fun p hp => by simp [atomToks] at hp, by simp [atomToks]⟩
  | .root k a e :: evs, n, h => by
    simp only [allBounds, List.map_cons, List.flatten_cons, LEvent.bounds, List.cons_append, List.nil_append, Desc] at h
    obtain ⟨h1, h2, h3⟩ := h
    obtain ⟨ih1, ih2⟩ := atomToks_in_order evs e h3
    refine ⟨?_, ?_⟩
    · intro p hp
      simp only [atomToks, List.mem_cons] at hp
      rcases hp with rfl | hp
      · exact h1
      · exact Nat.le_trans (ih1 p hp) (Nat.le_trans h2 h1)
    · simp only [atomToks]
      exact List.Pairwise.cons (fun q hq => ih1 q hq) ih2
  | .extend b k a e :: evs, n, h => by
    simp only [allBounds, List.map_cons, List.flatten_cons, LEvent.bounds, List.cons_append, List.nil_append, Desc] at h
    obtain ⟨h1, h2, h3⟩ := h
    obtain ⟨ih1, ih2⟩ := atomToks_in_order evs e h3
    refine ⟨?_, ?_⟩
    · intro p hp
      simp only [atomToks, List.mem_cons] at hp
      rcases hp with rfl | hp
      · exact h1
      · exact Nat.le_trans (ih1 p hp) (Nat.le_trans h2 h1)
    · simp only [atomToks]
      exact List.Pairwise.cons (fun q hq => ih1 q hq) ih2
  | .join b r bc a e :: evs, n, h => by
    simp only [allBounds, List.map_cons, List.flatten_cons, LEvent.bounds, List.cons_append, List.nil_append, Desc] at h
    obtain ⟨h1, h2, h3, h4⟩ := h
    obtain ⟨ih1, ih2⟩ := atomToks_in_order evs e h4
    refine ⟨?_, by simpa [atomToks] using ih2⟩
    intro p hp
    simp only [atomToks] at hp
    exact Nat.le_trans (ih1 p hp) (Nat.le_trans h3 (Nat.le_trans h2 h1))
  | .pop d :: evs, n, h => by
    simp only [allBounds, List.map_cons, List.flatten_cons, LEvent.bounds, List.nil_append] at h
    obtain ⟨ih1, ih2⟩ := atomToks_in_order evs n h
    exact ⟨by simpa [atomToks] using ih1, by simpa [atomToks] using ih2⟩

/-- the ring-closure tokens likewise: bounded by `n`, and each one ends before the next one starts -/
theorem joinToks_in_order : ∀ (evs : List LEvent) (n : Nat), Desc n (allBounds evs) →
    (∀ p ∈ joinToks evs, p.2.2.2.1 ≤ n) ∧ (joinToks evs).Pairwise (fun p q => q.2.2.2.1 ≤ p.2.2.2.2)
  | [], _, _ => ⟨fun p hp => by simp [joinToks] at hp, by simp [joinToks]⟩
  | .root k a e :: evs, n, h => by
    simp only [allBounds, List.map_cons, List.flatten_cons, LEvent.bounds, List.cons_append, List.nil_append, Desc] at h
    obtain ⟨h1, h2, h3⟩ := h
    obtain ⟨ih1, ih2⟩ := joinToks_in_order evs e h3
    refine ⟨?_, by simpa [joinToks] using ih2⟩
    intro p hp
    simp only [joinToks] at hp
    exact Nat.le_trans (ih1 p hp) (Nat.le_trans h2 h1)
  | .extend b k a e :: evs, n, h => by
    simp only [allBounds, List.map_cons, List.flatten_cons, LEvent.bounds, List.cons_append, List.nil_append, Desc] at h
    obtain ⟨h1, h2, h3⟩ := h
    obtain ⟨ih1, ih2⟩ := joinToks_in_order evs e h3
    refine ⟨?_, by simpa [joinToks] using ih2⟩
    intro p hp
    simp only [joinToks] at hp
    exact Nat.le_trans (ih1 p hp) (Nat.le_trans h2 h1)
  | .join b r bc a e :: evs, n, h => by
    simp only [allBounds, List.map_cons, List.flatten_cons, LEvent.bounds, List.cons_append, List.nil_append, Desc] at h
    obtain ⟨h1, h2, h3, h4⟩ := h
    obtain ⟨ih1, ih2⟩ := joinToks_in_order evs e h4
    refine ⟨?_, ?_⟩
    · intro p hp
      simp only [joinToks, List.mem_cons] at hp
      rcases hp with rfl | hp
      · exact Nat.le_trans h2 h1
      · exact Nat.le_trans (ih1 p hp) (Nat.le_trans h3 (Nat.le_trans h2 h1))
    · simp only [joinToks]
      exact List.Pairwise.cons (fun q hq => ih1 q hq) ih2
  | .pop d :: evs, n, h => by
    simp only [allBounds, List.map_cons, List.flatten_cons, LEvent.bounds, List.nil_append] at h
    obtain ⟨ih1, ih2⟩ := joinToks_in_order evs n h
    exact ⟨by simpa [joinToks] using ih1, by simpa [joinToks] using ih2⟩

end Purr
