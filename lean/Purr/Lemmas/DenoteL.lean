/-
  `build = denote`: the incremental, mutating graph builder computes the declarative denotation of
  Purr/Spec/Denote.lean.  Invariant after every prefix of the history: the builder's node for atom `i` lists
  exactly the half-bonds that the events so far contribute to `i`, a ring-closure digit whose partner has
  not been seen yet being the placeholder for its number.
-/
import Purr.Spec.Denote
import Purr.Lemmas.RtcRing
namespace Purr
open Purr.Spec

/-! ### replay, annotate and scan over a prefix -/

theorem replay_append : ∀ (es1 es2 : List Event) (st : List Nat) (n : Nat),
    replay st n (es1 ++ es2) = replay (replay st n es1).1 (replay st n es1).2 es2
  | [], _, _, _ => rfl
  | e :: es1, es2, st, n => by
    cases e <;> simp only [List.cons_append, replay] <;> exact replay_append es1 es2 _ _

theorem annotate_append : ∀ (es1 es2 : List Event) (st : List Nat) (n : Nat),
    annotate st n (es1 ++ es2) = annotate st n es1 ++ annotate (replay st n es1).1 (replay st n es1).2 es2
  | [], _, _, _ => rfl
  | e :: es1, es2, st, n => by
    simp only [List.cons_append, annotate]
    rw [annotate_append es1 es2]
    congr 2
    all_goals (cases e <;> rfl)

theorem annotate_length : ∀ (es : List Event) (st : List Nat) (n : Nat), (annotate st n es).length = es.length
  | [], _, _ => rfl
  | e :: es, st, n => by simp [annotate, annotate_length es]

theorem scan_append : ∀ (A1 A2 : List Ann) (k : Nat) (PO : List (Nat × Nat) × List (Rnum × Nat)),
    scan k (A1 ++ A2) PO = scan (k + A1.length) A2 (scan k A1 PO)
  | [], _, _, _ => rfl
  | x :: A1, A2, k, PO => by
    simp only [List.cons_append, scan, List.length_cons]
    rw [scan_append A1 A2]
    congr 1; omega

end Purr

namespace Purr
open Purr.Spec

def halfOf (e : Edge) : Half :=
  match e.target with
  | .id t => .bond ⟨e.kind, t⟩
  | .rnum _ _ r => .pending e.kind r

def annA (es : List Event) : List Ann := annotate [] 0 es
def scanPO (es : List Event) : List (Nat × Nat) × List (Rnum × Nat) := scan 0 (annA es) ([], [])

def isAtomEv : Event → Bool
  | .root _ => true
  | .extend _ _ => true
  | _ => false

structure DInv (es1 : List Event) (s : BState) : Prop where
  stk : s.stack = (replay [] 0 es1).1
  len : s.graph.length = (replay [] 0 es1).2
  errs : s.errors = []
  stlt : ∀ x ∈ s.stack, x < s.graph.length
  abnd : ∀ (k : Nat) (x : Ann), (annA es1)[k]? = some x → (∀ h, x.head = some h → h < s.graph.length) ∧ (isAtomEv x.ev = true → x.count < s.graph.length)
  sa : ∀ p ∈ (scanPO es1).1, p.1 < p.2 ∧ p.2 < (annA es1).length
  sb : ∀ q ∈ (scanPO es1).2, q.2 < (annA es1).length ∧ ∃ b t c, (annA es1)[q.2]? = some ⟨.join b q.1, some t, c⟩
  sd : ∀ q ∈ (scanPO es1).2, ∀ p ∈ (scanPO es1).1, p.1 ≠ q.2 ∧ p.2 ≠ q.2
  se : ∀ k b r h c, (annA es1)[k]? = some ⟨.join b r, h, c⟩ →
        (∃ p ∈ (scanPO es1).1, p.1 = k ∨ p.2 = k) ∨ (scanPO es1).2.lookup r = some k
  vw : ∀ i, i < s.graph.length → ∃ esi, view s.graph i = some esi ∧
        esi.map halfOf = (List.range (annA es1).length).filterMap (contribH (annA es1) (scanPO es1).1 i)
  opn : ∀ r, s.opens.lookup r = ((scanPO es1).2.lookup r).bind (fun k => (joinAt (annA es1) k).map (·.2))

theorem range_filterMap_succ {β} (f : Nat → Option β) (m : Nat) :
    (List.range (m + 1)).filterMap f = (List.range m).filterMap f ++ (f m).toList := by
  rw [List.range_succ, List.filterMap_append]
  cases h : f m <;> simp [List.filterMap_cons, h]

theorem annA_snoc (es1 : List Event) (e : Event) :
    annA (es1 ++ [e]) = annA es1 ++ [⟨e, (replay [] 0 es1).1.head?, (replay [] 0 es1).2⟩] := by
  unfold annA; rw [annotate_append]; rfl

theorem annA_length (es : List Event) : (annA es).length = es.length := annotate_length es [] 0

theorem scanPO_snoc (es1 : List Event) (e : Event) :
    scanPO (es1 ++ [e]) = scanStep (annA es1).length ⟨e, (replay [] 0 es1).1.head?, (replay [] 0 es1).2⟩ (scanPO es1) := by
  unfold scanPO
  rw [annA_snoc, scan_append]
  simp [scan]

theorem joinAt_append_left {A B : List Ann} {k : Nat} (hk : k < A.length) : joinAt (A ++ B) k = joinAt A k := by
  unfold joinAt; rw [List.getElem?_append_left hk]

theorem contribH_append_left {A B : List Ann} {P : List (Nat × Nat)} (ha : ∀ p ∈ P, p.1 < A.length ∧ p.2 < A.length)
    (i : Nat) {k : Nat} (hk : k < A.length) : contribH (A ++ B) P i k = contribH A P i k := by
  unfold contribH
  rw [List.getElem?_append_left hk]
  have hc : ∀ k', closerOf P k = some k' → k' < A.length := by
    intro k' h
    unfold closerOf at h
    simp only [Option.map_eq_some_iff] at h
    obtain ⟨p, hp, rfl⟩ := h
    exact (ha p (List.mem_of_find?_eq_some hp)).2
  have ho : ∀ k0, openerOf P k = some k0 → k0 < A.length := by
    intro k0 h
    unfold openerOf at h
    simp only [Option.map_eq_some_iff] at h
    obtain ⟨p, hp, rfl⟩ := h
    exact (ha p (List.mem_of_find?_eq_some hp)).1
  cases hA : A[k]? with
  | none => rfl
  | some x =>
    obtain ⟨ev, hd, c⟩ := x
    cases ev with
    | join b r =>
      cases hd with
      | none => rfl
      | some h =>
        simp only
        split
        · cases hcl : closerOf P k with
          | some k' => simp only [joinAt_append_left (hc k' hcl)]
          | none =>
            simp only
            cases hop : openerOf P k with
            | some k0 => simp only [joinAt_append_left (ho k0 hop)]
            | none => rfl
        · rfl
    | extend b kd => cases hd <;> rfl
    | root kd => cases hd <;> rfl
    | pop d => cases hd <;> rfl

/-- contributions of existing events to an atom that does not exist yet -/
theorem contribH_none_of_ge {es1 : List Event} {s : BState} (h : DInv es1 s) {i : Nat} (hi : s.graph.length ≤ i) (k : Nat) :
    contribH (annA es1) (scanPO es1).1 i k = none := by
  unfold contribH
  cases hA : (annA es1)[k]? with
  | none => rfl
  | some x =>
    obtain ⟨ev, hd, c⟩ := x
    have hb := h.abnd k _ hA
    cases ev with
    | extend b kd =>
      cases hd with
      | none => rfl
      | some hh =>
        have h1 := hb.1 hh rfl
        have h2 := hb.2 rfl
        simp only at h2
        have : i ≠ hh := by omega
        have : i ≠ c := by omega
        simp [*]
    | join b r =>
      cases hd with
      | none => rfl
      | some hh =>
        have h1 := hb.1 hh rfl
        have : i ≠ hh := by omega
        simp [*]
    | _ => rfl

end Purr

namespace Purr
open Purr.Spec

theorem replay_snoc (es1 : List Event) (e : Event) :
    replay [] 0 (es1 ++ [e]) = replay (replay [] 0 es1).1 (replay [] 0 es1).2 [e] := replay_append es1 [e] [] 0

theorem filterMap_range_congr {β} {f g : Nat → Option β} {m : Nat} (h : ∀ k, k < m → f k = g k) :
    (List.range m).filterMap f = (List.range m).filterMap g := by
  have : ∀ (l : List Nat), (∀ k ∈ l, k < m) → l.filterMap f = l.filterMap g := by
    intro l
    induction l with
    | nil => intro _; rfl
    | cons a l ih =>
      intro hl
      simp only [List.filterMap_cons, h a (hl a (by simp))]
      rw [ih (fun k hk => hl k (by simp [hk]))]
  exact this _ (fun k hk => List.mem_range.mp hk)

theorem scanStep_nonjoin {k : Nat} {x : Ann} {PO} (h : ∀ b r, x.ev ≠ .join b r) : scanStep k x PO = PO := by
  unfold scanStep
  cases hx : x.ev with
  | join b r => exact absurd hx (h b r)
  | _ => rfl

/-- the scan facts and the old atoms' bond lists survive an event that is not a ring-closure digit -/
theorem DInv.nonjoin_core {es1 : List Event} {s : BState} (h : DInv es1 s) (e : Event) (hnj : ∀ b r, e ≠ .join b r) :
    scanPO (es1 ++ [e]) = scanPO es1 ∧
    (∀ p ∈ (scanPO es1).1, p.1 < p.2 ∧ p.2 < (annA (es1 ++ [e])).length) ∧
    (∀ q ∈ (scanPO es1).2, q.2 < (annA (es1 ++ [e])).length ∧ ∃ b t c, (annA (es1 ++ [e]))[q.2]? = some ⟨.join b q.1, some t, c⟩) ∧
    (∀ k b r hh c, (annA (es1 ++ [e]))[k]? = some ⟨.join b r, hh, c⟩ →
        (∃ p ∈ (scanPO es1).1, p.1 = k ∨ p.2 = k) ∨ (scanPO es1).2.lookup r = some k) ∧
    (∀ i, (List.range (annA es1).length).filterMap (contribH (annA (es1 ++ [e])) (scanPO es1).1 i) =
          (List.range (annA es1).length).filterMap (contribH (annA es1) (scanPO es1).1 i)) ∧
    (∀ r, ((scanPO es1).2.lookup r).bind (fun k => (joinAt (annA (es1 ++ [e])) k).map (·.2)) =
          ((scanPO es1).2.lookup r).bind (fun k => (joinAt (annA es1) k).map (·.2))) := by
  have hP : scanPO (es1 ++ [e]) = scanPO es1 := by
    rw [scanPO_snoc]; exact scanStep_nonjoin (fun b r => by simpa using hnj b r)
  have hlen : (annA (es1 ++ [e])).length = (annA es1).length + 1 := by rw [annA_snoc]; simp
  have hPb : ∀ p ∈ (scanPO es1).1, p.1 < (annA es1).length ∧ p.2 < (annA es1).length :=
    fun p hp => ⟨by have := h.sa p hp; omega, (h.sa p hp).2⟩
  refine ⟨hP, ?_, ?_, ?_, ?_, ?_⟩
  · intro p hp; have := h.sa p hp; rw [hlen]; omega
  · intro q hq
    obtain ⟨h1, b, hh, c, h2⟩ := h.sb q hq
    refine ⟨by rw [hlen]; omega, b, hh, c, ?_⟩
    rw [annA_snoc, List.getElem?_append_left h1]; exact h2
  · intro k b r hh c hk
    rw [annA_snoc] at hk
    by_cases hkl : k < (annA es1).length
    · rw [List.getElem?_append_left hkl] at hk
      exact h.se k b r hh c hk
    · have hkl' : (annA es1).length ≤ k := by omega
      rw [List.getElem?_append_right hkl'] at hk
      cases hk0 : k - (annA es1).length with
      | zero =>
        rw [hk0] at hk
        simp only [List.getElem?_cons_zero, Option.some.injEq, Ann.mk.injEq] at hk
        exact absurd hk.1 (hnj b r)
      | succ j => rw [hk0] at hk; simp at hk
  · intro i
    apply filterMap_range_congr
    intro k hk
    rw [annA_snoc]
    exact contribH_append_left hPb i hk
  · intro r
    cases hl : (scanPO es1).2.lookup r with
    | none => rfl
    | some k =>
      simp only [Option.bind_some]
      have hk := (h.sb (r, k) (lookup_mem hl)).1
      rw [annA_snoc, joinAt_append_left hk]

end Purr

namespace Purr
open Purr.Spec

theorem annA_last (es1 : List Event) (e : Event) :
    (annA (es1 ++ [e]))[(annA es1).length]? = some ⟨e, (replay [] 0 es1).1.head?, (replay [] 0 es1).2⟩ := by
  rw [annA_snoc, List.getElem?_append_right (Nat.le_refl _)]; simp

theorem DInv.abnd_snoc {es1 : List Event} {s s1 : BState} (h : DInv es1 s) (e : Event) (hle : s.graph.length ≤ s1.graph.length)
    (hnew : isAtomEv e = true → s.graph.length < s1.graph.length) :
    ∀ (k : Nat) (x : Ann), (annA (es1 ++ [e]))[k]? = some x →
      (∀ hh, x.head = some hh → hh < s1.graph.length) ∧ (isAtomEv x.ev = true → x.count < s1.graph.length) := by
  intro k x hk
  rw [annA_snoc] at hk
  by_cases hkl : k < (annA es1).length
  · rw [List.getElem?_append_left hkl] at hk
    have := h.abnd k x hk
    exact ⟨fun hh e' => by have := this.1 hh e'; omega, fun e' => by have := this.2 e'; omega⟩
  · have hkl' : (annA es1).length ≤ k := by omega
    rw [List.getElem?_append_right hkl'] at hk
    cases hk0 : k - (annA es1).length with
    | zero =>
      rw [hk0] at hk
      simp only [List.getElem?_cons_zero, Option.some.injEq] at hk
      subst hk
      simp only
      refine ⟨?_, ?_⟩
      · intro hh hhd
        rw [← h.stk] at hhd
        have : hh ∈ s.stack := List.mem_of_head? hhd
        have := h.stlt hh this; omega
      · intro hat; rw [← h.len]; exact hnew hat
    | succ j => rw [hk0] at hk; simp at hk

/-- a dot / the first atom -/
theorem DInv.root {es1 : List Event} {s : BState} (h : DInv es1 s) (k : AtomKind) :
    ∃ s1, bstep s (.root k) = some s1 ∧ DInv (es1 ++ [.root k]) s1 := by
  obtain ⟨s1, hb1, hst1, hlen1, hop1, herr1, hview1, _⟩ := bstep_root_view s k
  obtain ⟨hP, hsa, hsb, hse, hstab, hopn⟩ := h.nonjoin_core (.root k) (by intro b r e; cases e)
  refine ⟨s1, hb1, ?_⟩
  have hlenA : (annA (es1 ++ [.root k])).length = (annA es1).length + 1 := by rw [annA_snoc]; simp
  refine ⟨by rw [hst1, replay_snoc, h.stk, h.len]; rfl, by rw [hlen1, replay_snoc, h.len]; rfl, by rw [herr1]; exact h.errs,
    ?_, h.abnd_snoc _ (by omega) (fun _ => by omega), by rw [hP]; exact hsa, by rw [hP]; exact hsb, by rw [hP]; exact h.sd,
    by rw [hP]; exact hse, ?_, by intro r; rw [hop1, hP, hopn, h.opn]⟩
  · intro x hx
    rw [hst1] at hx
    simp only [List.mem_cons] at hx
    rcases hx with rfl | hx
    · omega
    · have := h.stlt x hx; omega
  · intro i hi
    rw [hP, hlenA, range_filterMap_succ, hstab]
    have hnew : contribH (annA (es1 ++ [.root k])) (scanPO es1).1 i (annA es1).length = none := by
      unfold contribH; rw [annA_last]
    rw [hnew]
    simp only [Option.toList, List.append_nil]
    by_cases hio : i < s.graph.length
    · obtain ⟨esi, hv, hes⟩ := h.vw i hio
      exact ⟨esi, by rw [hview1, upd_other _ _ (by omega)]; exact hv, hes⟩
    · have : i = s.graph.length := by omega
      subst this
      refine ⟨[], by rw [hview1, upd_same], ?_⟩
      have : ∀ k', contribH (annA es1) (scanPO es1).1 s.graph.length k' = none := fun k' => contribH_none_of_ge h (Nat.le_refl _) k'
      simp [this]

/-- a closing parenthesis -/
theorem DInv.pop {es1 : List Event} {s : BState} (h : DInv es1 s) (d : Nat) :
    ∃ s1, bstep s (.pop d) = some s1 ∧ DInv (es1 ++ [.pop d]) s1 := by
  obtain ⟨hP, hsa, hsb, hse, hstab, hopn⟩ := h.nonjoin_core (.pop d) (by intro b r e; cases e)
  refine ⟨{ s with stack := s.stack.drop d }, rfl, ?_⟩
  have hlenA : (annA (es1 ++ [.pop d])).length = (annA es1).length + 1 := by rw [annA_snoc]; simp
  refine ⟨by simp only; rw [replay_snoc, h.stk]; rfl, by simp only; rw [replay_snoc, h.len]; rfl, h.errs,
    ?_, h.abnd_snoc _ (Nat.le_refl _) (fun e => by cases e), by rw [hP]; exact hsa, by rw [hP]; exact hsb, by rw [hP]; exact h.sd,
    by rw [hP]; exact hse, ?_, by intro r; rw [hP, hopn]; exact h.opn r⟩
  · intro x hx
    exact h.stlt x (List.mem_of_mem_drop hx)
  · intro i hi
    rw [hP, hlenA, range_filterMap_succ, hstab]
    have hnew : contribH (annA (es1 ++ [.pop d])) (scanPO es1).1 i (annA es1).length = none := by
      unfold contribH; rw [annA_last]
    rw [hnew]
    simp only [Option.toList, List.append_nil]
    exact h.vw i hi

end Purr

namespace Purr
open Purr.Spec

/-- an atom token after a (possibly elided) bond -/
theorem DInv.extend {es1 : List Event} {s s1 : BState} (h : DInv es1 s) (b : BondKind) (k : AtomKind)
    (hb : bstep s (.extend b k) = some s1) : DInv (es1 ++ [.extend b k]) s1 := by
  -- the head
  cases hst : s.stack with
  | nil => simp [bstep, hst] at hb
  | cons sid rest =>
    have hsid : sid < s.graph.length := h.stlt sid (by rw [hst]; simp)
    obtain ⟨aes, hva, haes⟩ := h.vw sid hsid
    obtain ⟨s1', hb1, hst1, hlen1, hop1, herr1, hview1, _⟩ := bstep_extend_view b k hst hva
    rw [hb] at hb1; cases hb1
    obtain ⟨hP, hsa, hsb, hse, hstab, hopn⟩ := h.nonjoin_core (.extend b k) (by intro b r e; cases e)
    have hlenA : (annA (es1 ++ [.extend b k])).length = (annA es1).length + 1 := by rw [annA_snoc]; simp
    have hhead : (replay [] 0 es1).1.head? = some sid := by rw [← h.stk, hst]; rfl
    refine ⟨by rw [hst1, replay_snoc, ← hst, h.stk, h.len]; rfl, by rw [hlen1, replay_snoc, h.len]; rfl, by rw [herr1]; exact h.errs,
      ?_, h.abnd_snoc _ (by omega) (fun _ => by omega), by rw [hP]; exact hsa, by rw [hP]; exact hsb, by rw [hP]; exact h.sd,
      by rw [hP]; exact hse, ?_, by intro r; rw [hop1, hP, hopn, h.opn]⟩
    · intro x hx
      rw [hst1] at hx
      simp only [List.mem_cons] at hx
      rcases hx with rfl | rfl | hx
      · omega
      · omega
      · have := h.stlt x (by rw [hst]; simp [hx]); omega
    · intro i hi
      rw [hP, hlenA, range_filterMap_succ, hstab]
      have hnew : contribH (annA (es1 ++ [.extend b k])) (scanPO es1).1 i (annA es1).length =
          if i = sid then some (.bond ⟨b, s.graph.length⟩) else if i = s.graph.length then some (.bond ⟨b.reverse, sid⟩) else none := by
        unfold contribH; rw [annA_last, hhead, ← h.len]
      rw [hnew]
      by_cases his : i = sid
      · subst his
        refine ⟨aes ++ [⟨b, .id s.graph.length⟩], by rw [hview1, upd_same], ?_⟩
        simp only [if_true, List.map_append, haes, Option.toList, List.map_cons, List.map_nil, halfOf]
      · by_cases hin : i = s.graph.length
        · subst hin
          refine ⟨[⟨b.reverse, .id sid⟩], by rw [hview1, upd_other _ _ his, upd_same], ?_⟩
          have : ∀ k', contribH (annA es1) (scanPO es1).1 s.graph.length k' = none := fun k' => contribH_none_of_ge h (Nat.le_refl _) k'
          simp [this, his, halfOf]
        · have hio : i < s.graph.length := by omega
          obtain ⟨esi, hv, hes⟩ := h.vw i hio
          refine ⟨esi, by rw [hview1, upd_other _ _ his, upd_other _ _ hin]; exact hv, ?_⟩
          simp [his, hin, hes]

end Purr

namespace Purr
open Purr.Spec

theorem closerOf_none_of_lt {P : List (Nat × Nat)} {m : Nat} (h : ∀ p ∈ P, p.1 < m) : closerOf P m = none := by
  unfold closerOf
  rw [Option.map_eq_none_iff, List.find?_eq_none]
  intro p hp
  have := h p hp
  simp only [beq_iff_eq]; omega

theorem openerOf_none_of_lt {P : List (Nat × Nat)} {m : Nat} (h : ∀ p ∈ P, p.2 < m) : openerOf P m = none := by
  unfold openerOf
  rw [Option.map_eq_none_iff, List.find?_eq_none]
  intro p hp
  have := h p hp
  simp only [beq_iff_eq]; omega

theorem joinAt_last (es1 : List Event) (b : BondKind) (r : Rnum) (sid : Nat) (hhead : (replay [] 0 es1).1.head? = some sid) :
    joinAt (annA (es1 ++ [.join b r])) (annA es1).length = some (b, sid) := by
  unfold joinAt; rw [annA_last, hhead]

/-- a ring-closure digit whose number is not open: it opens -/
theorem DInv.join_open {es1 : List Event} {s s1 : BState} (h : DInv es1 s) (b : BondKind) (r : Rnum)
    (hb : bstep s (.join b r) = some s1) (hl : (scanPO es1).2.lookup r = none) : DInv (es1 ++ [.join b r]) s1 := by
  cases hst : s.stack with
  | nil => simp [bstep, hst] at hb
  | cons sid rest =>
    have hsid : sid < s.graph.length := h.stlt sid (by rw [hst]; simp)
    obtain ⟨aes, hva, haes⟩ := h.vw sid hsid
    have hlk : s.opens.lookup r = none := by rw [h.opn r, hl]; rfl
    obtain ⟨s1', hb1, hst1, hlen1, hop1, herr1, hview1, _⟩ := bstep_join_open_view b r hst hva hlk
    rw [hb] at hb1; cases hb1
    have hhead : (replay [] 0 es1).1.head? = some sid := by rw [← h.stk, hst]; rfl
    have hlenA : (annA (es1 ++ [.join b r])).length = (annA es1).length + 1 := by rw [annA_snoc]; simp
    have hPO : scanPO (es1 ++ [.join b r]) = ((scanPO es1).1, (r, (annA es1).length) :: (scanPO es1).2) := by
      rw [scanPO_snoc]; simp only [scanStep, hl]
    have hPb : ∀ p ∈ (scanPO es1).1, p.1 < (annA es1).length ∧ p.2 < (annA es1).length :=
      fun p hp => ⟨by have := h.sa p hp; omega, (h.sa p hp).2⟩
    have hstab : ∀ i, (List.range (annA es1).length).filterMap (contribH (annA (es1 ++ [.join b r])) (scanPO es1).1 i) =
          (List.range (annA es1).length).filterMap (contribH (annA es1) (scanPO es1).1 i) := by
      intro i
      apply filterMap_range_congr
      intro k hk
      rw [annA_snoc]
      exact contribH_append_left hPb i hk
    refine ⟨by rw [hst1, replay_snoc, h.stk]; rfl, by rw [hlen1, replay_snoc, h.len]; rfl, by rw [herr1]; exact h.errs,
      by rw [hst1, hlen1]; exact h.stlt, h.abnd_snoc _ (by omega) (fun e => by cases e), ?_, ?_, ?_, ?_, ?_, ?_⟩
    · rw [hPO]; intro p hp; have := h.sa p hp; rw [hlenA]; omega
    · rw [hPO]; intro q hq
      simp only [List.mem_cons] at hq
      rcases hq with rfl | hq
      · exact ⟨by rw [hlenA]; omega, b, sid, (replay [] 0 es1).2, by simp only; rw [annA_last, hhead]⟩
      · obtain ⟨h1, b', t, c, h2⟩ := h.sb q hq
        exact ⟨by rw [hlenA]; omega, b', t, c, by rw [annA_snoc, List.getElem?_append_left h1]; exact h2⟩
    · rw [hPO]; intro q hq p hp
      simp only [List.mem_cons] at hq
      rcases hq with rfl | hq
      · have := hPb p hp; simp only; omega
      · exact h.sd q hq p hp
    · rw [hPO]; intro k b' r' hh c hk
      simp only [List.lookup_cons]
      rw [annA_snoc] at hk
      by_cases hkl : k < (annA es1).length
      · rw [List.getElem?_append_left hkl] at hk
        rcases h.se k b' r' hh c hk with hp | ho
        · exact Or.inl hp
        · right
          have : (r' == r) = false := by
            simp only [beq_eq_false_iff_ne]; intro e; subst e; rw [hl] at ho; cases ho
          rw [this]; exact ho
      · have hkl' : (annA es1).length ≤ k := by omega
        rw [List.getElem?_append_right hkl'] at hk
        cases hk0 : k - (annA es1).length with
        | zero =>
          rw [hk0] at hk
          simp only [List.getElem?_cons_zero, Option.some.injEq, Ann.mk.injEq, Event.join.injEq] at hk
          right
          obtain ⟨⟨_, rfl⟩, _, _⟩ := hk
          have : k = (annA es1).length := by omega
          simp [this]
        | succ j => rw [hk0] at hk; simp at hk
    · intro i hi
      rw [hlen1] at hi
      rw [hPO, hlenA, range_filterMap_succ, hstab]
      have hnew : contribH (annA (es1 ++ [.join b r])) (scanPO es1).1 i (annA es1).length =
          if i = sid then some (.pending b r) else none := by
        unfold contribH
        rw [annA_last, hhead]
        simp only [closerOf_none_of_lt (fun p hp => (hPb p hp).1), openerOf_none_of_lt (fun p hp => (hPb p hp).2)]
      rw [hnew]
      by_cases his : i = sid
      · subst his
        refine ⟨aes ++ [⟨b, .rnum s.rid i r⟩], by rw [hview1, upd_same], ?_⟩
        simp only [if_true, List.map_append, haes, Option.toList, List.map_cons, List.map_nil, halfOf]
      · obtain ⟨esi, hv, hes⟩ := h.vw i hi
        refine ⟨esi, by rw [hview1, upd_other _ _ his]; exact hv, ?_⟩
        simp [his, hes]
    · intro r'
      rw [hop1, hPO]
      simp only [List.lookup_cons]
      by_cases hr : r' = r
      · subst hr
        simp only [beq_self_eq_true, Option.bind_some, joinAt_last es1 b r' sid hhead, Option.map_some]
      · have : (r' == r) = false := by simpa using hr
        rw [this, h.opn r']
        cases hl' : (scanPO es1).2.lookup r' with
        | none => rfl
        | some k =>
          simp only [Option.bind_some]
          have hk := (h.sb (r', k) (lookup_mem hl')).1
          rw [annA_snoc, joinAt_append_left hk]

end Purr

namespace Purr
open Purr.Spec

theorem isOpenFor_halfOf (r : Rnum) (e : Edge) : isOpenFor r e = true ↔ ∃ k, halfOf e = .pending k r := by
  unfold isOpenFor halfOf
  cases e.target with
  | id t => simp
  | rnum a b r' =>
    simp only [beq_iff_eq, Half.pending.injEq, exists_eq_left']

theorem halfOf_pending_kind {e : Edge} {k : BondKind} {r : Rnum} (h : halfOf e = .pending k r) : e.kind = k := by
  unfold halfOf at h
  split at h <;> simp at h
  exact h.1

theorem range_split {k0 m : Nat} (h : k0 < m) : List.range m = List.range k0 ++ k0 :: List.range' (k0 + 1) (m - (k0 + 1)) := by
  rw [List.range_eq_range', List.range_eq_range']
  have e1 : m = k0 + ((m - (k0 + 1)) + 1) := by omega
  conv => lhs; rw [e1]
  rw [← List.range'_append_1, List.range'_succ]
  simp

theorem bstep_join_close_inv {s s1 : BState} {sid tid : Nat} {rest : List Nat} {b : BondKind} {r : Rnum} {tnode : Node} {e : Edge}
    (hst : s.stack = sid :: rest) (hlt : sid < s.graph.length) (hop : s.opens.lookup r = some tid)
    (htn : s.graph[tid]? = some tnode) (hfind : tnode.edges.find? (isOpenFor r) = some e)
    (hb : bstep s (.join b r) = some s1) (herr0 : s.errors = []) (herr : s1.errors = []) :
    sid ≠ tid ∧ hasIdEdge tnode sid = false ∧ ∃ l rt, reconcile e.kind b = some (l, rt) := by
  simp only [bstep, hst, hlt, if_true, hop, htn, hfind] at hb
  split at hb
  · simp only [Option.some.injEq] at hb
    rw [← hb] at herr; simp [herr0] at herr
  · rename_i hc
    cases hrec : reconcile e.kind b with
    | none =>
      rw [hrec] at hb
      simp only [Option.some.injEq] at hb
      rw [← hb] at herr; simp [herr0] at herr
    | some lr =>
      simp only [not_or] at hc
      exact ⟨hc.1, by simpa using hc.2, lr.1, lr.2, rfl⟩

theorem closerOf_snoc_ne {P : List (Nat × Nat)} {k0 m k : Nat} (h : k ≠ k0) : closerOf (P ++ [(k0, m)]) k = closerOf P k := by
  unfold closerOf
  rw [List.find?_append]
  cases hf : P.find? (fun p => p.1 == k) with
  | some p => rfl
  | none =>
    have : ((k0 == k) = false) := by simpa using (Ne.symm h)
    simp [List.find?_cons, this]

theorem openerOf_snoc_ne {P : List (Nat × Nat)} {k0 m k : Nat} (h : k ≠ m) : openerOf (P ++ [(k0, m)]) k = openerOf P k := by
  unfold openerOf
  rw [List.find?_append]
  cases hf : P.find? (fun p => p.2 == k) with
  | some p => rfl
  | none =>
    have : ((m == k) = false) := by simpa using (Ne.symm h)
    simp [List.find?_cons, this]

theorem closerOf_snoc_self {P : List (Nat × Nat)} {k0 m : Nat} (h : closerOf P k0 = none) : closerOf (P ++ [(k0, m)]) k0 = some m := by
  unfold closerOf at h ⊢
  rw [Option.map_eq_none_iff] at h
  rw [List.find?_append, h]
  simp

theorem openerOf_snoc_self {P : List (Nat × Nat)} {k0 m : Nat} (h : openerOf P m = none) : openerOf (P ++ [(k0, m)]) m = some k0 := by
  unfold openerOf at h ⊢
  rw [Option.map_eq_none_iff] at h
  rw [List.find?_append, h]
  simp

theorem closerOf_none_of_not_fst {P : List (Nat × Nat)} {k : Nat} (h : ∀ p ∈ P, p.1 ≠ k) : closerOf P k = none := by
  unfold closerOf
  rw [Option.map_eq_none_iff, List.find?_eq_none]
  intro p hp; simpa using h p hp

theorem openerOf_none_of_not_snd {P : List (Nat × Nat)} {k : Nat} (h : ∀ p ∈ P, p.2 ≠ k) : openerOf P k = none := by
  unfold openerOf
  rw [Option.map_eq_none_iff, List.find?_eq_none]
  intro p hp; simpa using h p hp

theorem closerOf_some_of_mem_fst {P : List (Nat × Nat)} {p : Nat × Nat} (hp : p ∈ P) : (closerOf P p.1).isSome = true := by
  unfold closerOf
  rw [Option.isSome_map]
  cases hf : P.find? (fun q => q.1 == p.1) with
  | some q => rfl
  | none => have := List.find?_eq_none.mp hf p hp; simp at this

theorem openerOf_some_of_mem_snd {P : List (Nat × Nat)} {p : Nat × Nat} (hp : p ∈ P) : (openerOf P p.2).isSome = true := by
  unfold openerOf
  rw [Option.isSome_map]
  cases hf : P.find? (fun q => q.2 == p.2) with
  | some q => rfl
  | none => have := List.find?_eq_none.mp hf p hp; simp at this

end Purr

namespace Purr
open Purr.Spec

theorem filterMap_congr_mem {β} {f g : Nat → Option β} : ∀ {l : List Nat}, (∀ k ∈ l, f k = g k) → l.filterMap f = l.filterMap g
  | [], _ => rfl
  | a :: l, h => by
    simp only [List.filterMap_cons, h a (by simp)]
    rw [filterMap_congr_mem (fun k hk => h k (by simp [hk]))]

/-- a pending contribution comes from the digit that is currently open for its number -/
theorem DInv.pending_index {es1 : List Event} {s : BState} (h : DInv es1 s) {i k : Nat} {bk : BondKind} {r : Rnum}
    (hc : contribH (annA es1) (scanPO es1).1 i k = some (.pending bk r)) : (scanPO es1).2.lookup r = some k := by
  unfold contribH at hc
  cases hA : (annA es1)[k]? with
  | none => rw [hA] at hc; cases hc
  | some x =>
    obtain ⟨ev, hd, c⟩ := x
    rw [hA] at hc
    cases ev with
    | join b r' =>
      cases hd with
      | none => cases hc
      | some hh =>
        simp only at hc
        split at hc
        · cases hcl : closerOf (scanPO es1).1 k with
          | some k' =>
            rw [hcl] at hc
            simp only at hc
            split at hc
            · split at hc <;> cases hc
            · cases hc
          | none =>
            rw [hcl] at hc
            simp only at hc
            cases hop : openerOf (scanPO es1).1 k with
            | some k0 =>
              rw [hop] at hc
              simp only at hc
              split at hc
              · split at hc <;> cases hc
              · cases hc
            | none =>
              rw [hop] at hc
              simp only [Option.some.injEq, Half.pending.injEq] at hc
              obtain ⟨_, rfl⟩ := hc
              rcases h.se k b r' (some hh) c hA with ⟨p, hp, hpk | hpk⟩ | ho
              · have := closerOf_some_of_mem_fst hp
                rw [hpk, hcl] at this; cases this
              · have := openerOf_some_of_mem_snd hp
                rw [hpk, hop] at this; cases this
              · exact ho
        · cases hc
    | extend b kd =>
      cases hd with
      | none => cases hc
      | some hh =>
        simp only at hc
        split at hc
        · cases hc
        · split at hc <;> cases hc
    | root kd => cases hd <;> cases hc
    | pop d => cases hd <;> cases hc

end Purr

namespace Purr
open Purr.Spec

/-- a ring-closure digit whose number is open: it closes the nearest preceding open digit with that number -/
theorem DInv.join_close {es1 : List Event} {s s1 : BState} (h : DInv es1 s) (b : BondKind) (r : Rnum)
    (hb : bstep s (.join b r) = some s1) (herr : s1.errors = []) {k0 : Nat} (hl : (scanPO es1).2.lookup r = some k0) :
    DInv (es1 ++ [.join b r]) s1 := by
  cases hst : s.stack with
  | nil => simp [bstep, hst] at hb
  | cons sid rest =>
    have hsid : sid < s.graph.length := h.stlt sid (by rw [hst]; simp)
    obtain ⟨aes, hva, haes⟩ := h.vw sid hsid
    have hhead : (replay [] 0 es1).1.head? = some sid := by rw [← h.stk, hst]; rfl
    have hlenA : (annA (es1 ++ [.join b r])).length = (annA es1).length + 1 := by rw [annA_snoc]; simp
    have hPb : ∀ p ∈ (scanPO es1).1, p.1 < (annA es1).length ∧ p.2 < (annA es1).length :=
      fun p hp => ⟨by have := h.sa p hp; omega, (h.sa p hp).2⟩
    -- the open digit
    have hq := lookup_mem hl
    obtain ⟨hk0, b0, t, c0, hA0⟩ := h.sb (r, k0) hq
    simp only at hk0 hA0
    have hj0 : joinAt (annA es1) k0 = some (b0, t) := by unfold joinAt; rw [hA0]
    have hlk : s.opens.lookup r = some t := by rw [h.opn r, hl]; simp [hj0]
    have ht : t < s.graph.length := (h.abnd k0 _ hA0).1 t rfl
    have hcl0 : closerOf (scanPO es1).1 k0 = none := closerOf_none_of_not_fst (fun p hp => (h.sd (r, k0) hq p hp).1)
    have hop0 : openerOf (scanPO es1).1 k0 = none := openerOf_none_of_not_snd (fun p hp => (h.sd (r, k0) hq p hp).2)
    have hf0 : ∀ i, contribH (annA es1) (scanPO es1).1 i k0 = if i = t then some (.pending b0 r) else none := by
      intro i; unfold contribH; rw [hA0]; simp only [hcl0, hop0]
    -- the opener's node
    obtain ⟨tes, hvt, htes⟩ := h.vw t ht
    rw [range_split hk0, List.filterMap_append, List.filterMap_cons, hf0 t] at htes
    simp only [if_true] at htes
    obtain ⟨es1', rest', rfl, hes1, hrest⟩ := List.map_eq_append_iff.mp htes
    obtain ⟨e, es2', rfl, he, hes2⟩ := List.map_eq_cons_iff.mp hrest
    have he1 : isOpenFor r e = true := (isOpenFor_halfOf r e).mpr ⟨b0, he⟩
    have h1 : ∀ e' ∈ es1', isOpenFor r e' = false := by
      intro e' he'
      cases hio : isOpenFor r e' with
      | false => rfl
      | true =>
        obtain ⟨kk, hkk⟩ := (isOpenFor_halfOf r e').mp hio
        have : halfOf e' ∈ (List.range k0).filterMap (contribH (annA es1) (scanPO es1).1 t) := by
          rw [← hes1]; exact List.mem_map_of_mem he'
        obtain ⟨k'', hk'', hc''⟩ := List.mem_filterMap.mp this
        rw [hkk] at hc''
        have := h.pending_index hc''
        rw [hl] at this
        have : k0 = k'' := Option.some.inj this
        have := List.mem_range.mp hk''
        omega
    obtain ⟨tnode, htn, htne⟩ := view_some hvt
    have hfind : tnode.edges.find? (isOpenFor r) = some e := by rw [htne]; exact find_split r es1' e es2' h1 he1
    obtain ⟨hne, hhas, l, rt, hrec⟩ := bstep_join_close_inv hst hsid hlk htn hfind hb h.errs herr
    have hno : ∀ e' ∈ es1' ++ e :: es2', e'.target ≠ .id sid := by
      intro e' he'
      unfold hasIdEdge at hhas
      rw [List.any_eq_false] at hhas
      have := hhas e' (by rw [htne]; exact he')
      simpa using this
    obtain ⟨s1', hb1, hst1, hlen1, hop1, herr1, hview1, _⟩ :=
      bstep_join_close_view b r l rt hst hva hlk hvt h1 he1 hne hno hrec
    rw [hb] at hb1; cases hb1
    have hek : e.kind = b0 := halfOf_pending_kind he
    rw [hek] at hrec
    -- the scan
    have hPO : scanPO (es1 ++ [.join b r]) = ((scanPO es1).1 ++ [(k0, (annA es1).length)], (scanPO es1).2.filter (fun p => p.1 != r)) := by
      rw [scanPO_snoc]; simp only [scanStep, hl]
    have hjm : joinAt (annA (es1 ++ [.join b r])) (annA es1).length = some (b, sid) := joinAt_last es1 b r sid hhead
    have hj0' : joinAt (annA (es1 ++ [.join b r])) k0 = some (b0, t) := by rw [annA_snoc, joinAt_append_left hk0]; exact hj0
    -- contributions under the new pairing
    have hstab : ∀ i k, k < (annA es1).length → k ≠ k0 →
        contribH (annA (es1 ++ [.join b r])) ((scanPO es1).1 ++ [(k0, (annA es1).length)]) i k = contribH (annA es1) (scanPO es1).1 i k := by
      intro i k hk hkk
      rw [← contribH_append_left (B := [⟨.join b r, (replay [] 0 es1).1.head?, (replay [] 0 es1).2⟩]) hPb i hk, ← annA_snoc]
      unfold contribH
      rw [closerOf_snoc_ne hkk, openerOf_snoc_ne (by omega : k ≠ (annA es1).length)]
    have hnew0 : ∀ i, contribH (annA (es1 ++ [.join b r])) ((scanPO es1).1 ++ [(k0, (annA es1).length)]) i k0 =
        if i = t then some (.bond ⟨l, sid⟩) else none := by
      intro i
      unfold contribH
      rw [annA_snoc, List.getElem?_append_left hk0, hA0, ← annA_snoc]
      simp only [closerOf_snoc_self hcl0, hjm, hrec]
    have hnewm : ∀ i, contribH (annA (es1 ++ [.join b r])) ((scanPO es1).1 ++ [(k0, (annA es1).length)]) i (annA es1).length =
        if i = sid then some (.bond ⟨rt, t⟩) else none := by
      intro i
      have hcm : closerOf ((scanPO es1).1 ++ [(k0, (annA es1).length)]) (annA es1).length = none := by
        apply closerOf_none_of_not_fst
        intro p hp
        rcases List.mem_append.mp hp with hp | hp
        · have := (hPb p hp).1; omega
        · simp only [List.mem_singleton] at hp; subst hp; simp only; omega
      have hom : openerOf ((scanPO es1).1 ++ [(k0, (annA es1).length)]) (annA es1).length = some k0 :=
        openerOf_snoc_self (openerOf_none_of_lt (fun p hp => (hPb p hp).2))
      unfold contribH
      rw [annA_last, hhead]
      simp only [hcm, hom, hj0', hrec]
    have hpost : t ≠ sid := fun e' => hne e'.symm
    refine ⟨by rw [hst1, replay_snoc, h.stk]; rfl, by rw [hlen1, replay_snoc, h.len]; rfl, herr,
      by rw [hst1, hlen1]; exact h.stlt, h.abnd_snoc _ (by omega) (fun e => by cases e), ?_, ?_, ?_, ?_, ?_, ?_⟩
    · rw [hPO]; intro p hp
      rcases List.mem_append.mp hp with hp | hp
      · have := h.sa p hp; rw [hlenA]; omega
      · simp only [List.mem_singleton] at hp; subst hp; simp only; rw [hlenA]; omega
    · rw [hPO]; intro q hq'
      have hq0 := (List.mem_filter.mp hq').1
      obtain ⟨h1', b', t', c', h2'⟩ := h.sb q hq0
      exact ⟨by rw [hlenA]; omega, b', t', c', by rw [annA_snoc, List.getElem?_append_left h1']; exact h2'⟩
    · rw [hPO]; intro q hq' p hp
      have hq0 := (List.mem_filter.mp hq').1
      have hqr : q.1 ≠ r := by simpa using (List.mem_filter.mp hq').2
      rcases List.mem_append.mp hp with hp | hp
      · exact h.sd q hq0 p hp
      · simp only [List.mem_singleton] at hp; subst hp
        simp only
        obtain ⟨hq2, b', t', c', hA'⟩ := h.sb q hq0
        refine ⟨?_, by omega⟩
        intro e'
        rw [← e', hA0] at hA'
        simp only [Option.some.injEq, Ann.mk.injEq, Event.join.injEq] at hA'
        exact hqr hA'.1.2.symm
    · rw [hPO]; intro k b' r' hh c hk
      rw [annA_snoc] at hk
      by_cases hkl : k < (annA es1).length
      · rw [List.getElem?_append_left hkl] at hk
        rcases h.se k b' r' hh c hk with ⟨p, hp, hpk⟩ | ho
        · exact Or.inl ⟨p, List.mem_append_left _ hp, hpk⟩
        · by_cases hr : r' = r
          · subst hr
            rw [hl] at ho
            have : k0 = k := Option.some.inj ho
            exact Or.inl ⟨(k0, (annA es1).length), by simp, Or.inl this⟩
          · right; rw [lookup_filter_ne hr]; exact ho
      · have hkl' : (annA es1).length ≤ k := by omega
        rw [List.getElem?_append_right hkl'] at hk
        cases hk0' : k - (annA es1).length with
        | zero => exact Or.inl ⟨(k0, (annA es1).length), by simp, Or.inr (by simp only; omega)⟩
        | succ j => rw [hk0'] at hk; simp at hk
    · intro i hi
      rw [hlen1] at hi
      rw [hPO, hlenA, range_filterMap_succ, hnewm i]
      by_cases hit : i = t
      · subst hit
        refine ⟨es1' ++ ⟨l, .id sid⟩ :: es2', by rw [hview1, upd_other _ _ hpost, upd_same], ?_⟩
        rw [range_split hk0, List.filterMap_append, List.filterMap_cons, hnew0 i]
        simp only [if_true, if_neg hpost, Option.toList, List.append_nil, List.map_append, List.map_cons]
        rw [hes1, hes2]
        congr 1
        · exact (filterMap_congr_mem (fun k hk => hstab i k (by have := List.mem_range.mp hk; omega) (by have := List.mem_range.mp hk; omega))).symm
        · congr 1
          exact (filterMap_congr_mem (fun k hk => hstab i k (by have := List.mem_range'_1.mp hk; omega) (by have := List.mem_range'_1.mp hk; omega))).symm
      · have hold : (List.range (annA es1).length).filterMap (contribH (annA (es1 ++ [.join b r])) ((scanPO es1).1 ++ [(k0, (annA es1).length)]) i) =
            (List.range (annA es1).length).filterMap (contribH (annA es1) (scanPO es1).1 i) := by
          apply filterMap_range_congr
          intro k hk
          by_cases hkk : k = k0
          · subst hkk; rw [hnew0 i, hf0 i, if_neg hit, if_neg hit]
          · exact hstab i k hk hkk
        rw [hold]
        by_cases his : i = sid
        · subst his
          refine ⟨aes ++ [⟨rt, .id t⟩], by rw [hview1, upd_same], ?_⟩
          simp only [if_true, List.map_append, haes, Option.toList, List.map_cons, List.map_nil, halfOf]
        · obtain ⟨esi, hv, hes⟩ := h.vw i hi
          refine ⟨esi, by rw [hview1, upd_other _ _ his, upd_other _ _ hit]; exact hv, ?_⟩
          simp [his, hes]
    · intro r'
      rw [hop1, hPO]
      simp only
      by_cases hr : r' = r
      · subst hr
        rw [lookup_filter_self, lookup_filter_self]; rfl
      · rw [lookup_filter_ne hr, lookup_filter_ne hr, h.opn r']
        cases hl' : (scanPO es1).2.lookup r' with
        | none => rfl
        | some k =>
          simp only [Option.bind_some]
          have hk := (h.sb (r', k) (lookup_mem hl')).1
          rw [annA_snoc, joinAt_append_left hk]

end Purr

namespace Purr
open Purr.Spec

theorem bstep_errors {s s1 : BState} {e : Event} (h : bstep s e = some s1) : ∃ l, s1.errors = s.errors ++ l := by
  cases e with
  | root k => simp only [bstep, Option.some.injEq] at h; subst h; exact ⟨[], by simp⟩
  | pop d => simp only [bstep, Option.some.injEq] at h; subst h; exact ⟨[], by simp⟩
  | extend b k =>
    simp only [bstep] at h
    split at h
    · cases h
    · split at h
      · simp only [Option.some.injEq] at h; subst h; exact ⟨[], by simp⟩
      · cases h
  | join b r =>
    simp only [bstep] at h
    split at h
    · cases h
    · split at h
      · split at h
        · split at h
          · cases h
          · split at h
            · cases h
            · split at h
              · simp only [Option.some.injEq] at h; subst h; exact ⟨_, rfl⟩
              · split at h
                · simp only [Option.some.injEq] at h; subst h; exact ⟨[], by simp⟩
                · simp only [Option.some.injEq] at h; subst h; exact ⟨_, rfl⟩
        · simp only [Option.some.injEq] at h; subst h; exact ⟨[], by simp⟩
      · cases h

theorem brun_errors : ∀ {es : List Event} {s s' : BState}, brun s es = some s' → ∃ l, s'.errors = s.errors ++ l
  | [], s, s', h => by simp only [brun, Option.some.injEq] at h; subst h; exact ⟨[], by simp⟩
  | e :: es, s, s', h => by
    simp only [brun] at h
    cases hb : bstep s e with
    | none => rw [hb] at h; cases h
    | some s1 =>
      rw [hb] at h
      obtain ⟨l1, h1⟩ := bstep_errors hb
      obtain ⟨l2, h2⟩ := brun_errors h
      exact ⟨l1 ++ l2, by rw [h2, h1]; simp⟩

theorem DInv.init : DInv [] BState.init := by
  refine ⟨rfl, rfl, rfl, by simp [BState.init], by simp [annA, annotate], by simp [scanPO, annA, annotate, scan],
    by simp [scanPO, annA, annotate, scan], by simp [scanPO, annA, annotate, scan], by simp [annA, annotate], ?_, ?_⟩
  · intro i hi; simp [BState.init] at hi
  · intro r; rfl

/-- the invariant along any run of the builder that records no error -/
theorem DInv.run : ∀ (es2 : List Event) {es1 : List Event} {s s' : BState}, DInv es1 s → brun s es2 = some s' → s'.errors = [] →
    DInv (es1 ++ es2) s'
  | [], es1, s, s', h, hr, _ => by
    simp only [brun, Option.some.injEq] at hr; subst hr; simpa using h
  | e :: es2, es1, s, s', h, hr, herr => by
    simp only [brun] at hr
    cases hb : bstep s e with
    | none => rw [hb] at hr; cases hr
    | some s1 =>
      rw [hb] at hr
      have herr1 : s1.errors = [] := by
        obtain ⟨l, hl⟩ := brun_errors hr
        rw [herr] at hl
        exact (List.append_eq_nil_iff.mp hl.symm).1
      have hstep : DInv (es1 ++ [e]) s1 := by
        cases e with
        | root k =>
          obtain ⟨s1', hb', hd⟩ := h.root k
          rw [hb] at hb'; cases hb'; exact hd
        | pop d =>
          obtain ⟨s1', hb', hd⟩ := h.pop d
          rw [hb] at hb'; cases hb'; exact hd
        | extend b k => exact h.extend b k hb
        | join b r =>
          cases hl : (scanPO es1).2.lookup r with
          | none => exact h.join_open b r hb hl
          | some k0 => exact h.join_close b r hb herr1 hl
      have := DInv.run es2 hstep hr herr
      simpa using this

theorem kinds_annotate : ∀ (es : List Event) (st : List Nat) (n : Nat), (annotate st n es).filterMap kindOfAnn = atomKinds es
  | [], _, _ => rfl
  | e :: es, st, n => by
    cases e <;> simp only [annotate, List.filterMap_cons, kindOfAnn, atomKinds, kinds_annotate es]

/-- **build = denote**: whenever the builder succeeds, it returns the denotation of the history. -/
theorem build_eq_denote (es : List Event) (g : Graph) (h : build? es = some (.ok g)) : g = denote es := by
  unfold build? at h
  cases hr : brun .init es with
  | none => rw [hr] at h; cases h
  | some s =>
    rw [hr] at h
    simp only [Option.map_some, Option.some.injEq] at h
    have herr : s.errors = [] := by
      unfold BState.build at h
      cases he : s.errors with
      | nil => rfl
      | cons e l => rw [he] at h; cases h
    have hbn : buildNodes s.graph = .ok g := by
      unfold BState.build at h; rw [herr] at h; exact h
    have hinv : DInv es s := by simpa using DInv.run es DInv.init hr herr
    have hbo := buildNodes_ok hbn
    -- pointwise
    apply List.ext_getElem?
    intro i
    unfold denote
    simp only
    rw [List.getElem?_map, List.getElem?_zipIdx]
    have hkinds : (annotate [] 0 es).filterMap kindOfAnn = s.graph.map Node.kind := by
      rw [kinds_annotate]
      have := brun_kinds es hr
      simp only [BState.init, List.map_nil, List.nil_append] at this
      exact this.symm
    rw [hkinds, List.getElem?_map]
    cases hn : s.graph[i]? with
    | none =>
      rw [(hbo i).2 hn]; rfl
    | some n =>
      obtain ⟨bs, hnb, hgi⟩ := (hbo i).1 n hn
      rw [hgi]
      simp only [Option.map_some, Nat.zero_add]
      have hi : i < s.graph.length := by
        apply Nat.lt_of_not_le; intro hge
        rw [List.getElem?_eq_none_iff.mpr hge] at hn; cases hn
      obtain ⟨esi, hv, hes⟩ := hinv.vw i hi
      have hesi : esi = n.edges := by
        unfold view at hv; rw [hn] at hv; simpa using hv.symm
      subst hesi
      obtain ⟨hbs, hall⟩ := nodeBonds_ok hnb
      congr 2
      rw [hbs]
      have : (List.range (annA es).length).filterMap (fun j => (contribH (annA es) (scanPO es).1 i j).bind Half.toBond?) =
          ((List.range (annA es).length).filterMap (contribH (annA es) (scanPO es).1 i)).filterMap Half.toBond? := by
        rw [List.filterMap_filterMap]
      show _ = (List.range (annA es).length).filterMap (fun j => (contribH (annA es) (scanPO es).1 i j).bind Half.toBond?)
      rw [this, ← hes, List.filterMap_map]
      have key : ∀ (l : List Edge), (∀ e ∈ l, ∃ t, e.target = .id t) → l.map toBond = l.filterMap (Half.toBond? ∘ halfOf) := by
        intro l
        induction l with
        | nil => intro _; rfl
        | cons e l ih =>
          intro hl
          obtain ⟨t, ht⟩ := hl e (by simp)
          have he : (Half.toBond? ∘ halfOf) e = some (toBond e) := by
            simp only [Function.comp, halfOf, ht, Half.toBond?, toBond, tidOf]
          rw [List.map_cons, List.filterMap_cons, he, ih (fun e' he' => hl e' (List.mem_cons_of_mem _ he'))]
      exact key n.edges hall

end Purr
