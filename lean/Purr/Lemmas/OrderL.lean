/- C12, the visit order: every component starts at the lowest-numbered atom not yet visited. -/
import Purr.Lemmas.FixL
namespace Purr

theorem kids_no_root (g : Graph) : ∀ (f : Nat) (ord : List Nat) (pool : Pool) (a : Nat) (p : Option Nat) (bs : List Bond) (cur : Nat)
    (es : List (Event × Nat)) (ord' : List Nat) (pool' : Pool) (c : Nat),
    kids g f ord pool a p bs cur = some (es, ord', pool', c) → ∀ e ∈ es, ∀ k, e.1 ≠ .root k := by
  intro f
  induction f with
  | zero => intro ord pool a p bs cur es ord' pool' c h; simp [kids] at h
  | succ f ih =>
    intro ord pool a p bs cur es ord' pool' c h
    cases bs with
    | nil =>
      simp only [kids, Option.some.injEq, Prod.mk.injEq] at h
      obtain ⟨rfl, _⟩ := h
      intro e he; cases he
    | cons b bs =>
      simp only [kids] at h
      split at h
      · exact ih _ _ _ _ _ _ _ _ _ _ h
      · split at h
        · split at h
          · split at h
            · rename_i es1 o1 p1 c1 hk
              simp only [Option.some.injEq, Prod.mk.injEq] at h
              obtain ⟨rfl, _⟩ := h
              intro e he k
              simp only [List.mem_append, List.mem_cons] at he
              rcases he with he | rfl | he
              · unfold popEv at he; split at he
                · simp only [List.mem_singleton] at he; subst he; simp
                · cases he
              · simp
              · exact ih _ _ _ _ _ _ _ _ _ _ hk e he k
            · cases h
          · cases h
        · split at h
          · cases h
          · split at h
            · cases h
            · rename_i es1 o1 p1 d1 hk1
              split at h
              · cases h
              · rename_i es2 o2 p2 c2 hk2
                simp only [Option.some.injEq, Prod.mk.injEq] at h
                obtain ⟨rfl, _⟩ := h
                intro e he k
                simp only [List.mem_append, List.mem_cons] at he
                rcases he with (he | rfl | he) | he
                · unfold popEv at he; split at he
                  · simp only [List.mem_singleton] at he; subst he; simp
                  · cases he
                · simp
                · exact ih _ _ _ _ _ _ _ _ _ _ hk1 e he k
                · exact ih _ _ _ _ _ _ _ _ _ _ hk2 e he k

/-- where each root stands in the final order: everything smaller has been visited before it -/
theorem comps_roots (g : Graph) (f : Nat) : ∀ (ids ord : List Nat) (pool : Pool) (es : List (Event × Nat)) (ord' : List Nat) (pool' : Pool),
    comps g f ids ord pool = some (es, ord', pool') → ids.Pairwise (· < ·) →
    (∀ i ∈ ids, ∀ z, z < i → z ∈ ord ∨ z ∈ ids) →
    ∀ e ∈ es, ∀ k, e.1 = .root k → ∃ pre post, ord' = pre ++ e.2 :: post ∧ e.2 ∉ pre ∧ ∀ z, z < e.2 → z ∈ pre
  | [], ord, pool, es, ord', pool', h, _, _ => by
    simp only [comps, Option.some.injEq, Prod.mk.injEq] at h
    obtain ⟨rfl, _⟩ := h
    intro e he; cases he
  | id :: ids, ord, pool, es, ord', pool', h, hsorted, hcov => by
    have hsorted' : ids.Pairwise (· < ·) := (List.pairwise_cons.mp hsorted).2
    have hlt : ∀ i ∈ ids, id < i := (List.pairwise_cons.mp hsorted).1
    simp only [comps] at h
    split at h
    · rename_i hc
      -- id already visited
      apply comps_roots g f ids ord pool es ord' pool' h hsorted'
      intro i hi z hz
      rcases hcov i (by simp [hi]) z hz with h1 | h1
      · exact Or.inl h1
      · simp only [List.mem_cons] at h1
        rcases h1 with rfl | h1
        · exact Or.inl (by simpa using hc)
        · exact Or.inr h1
    · rename_i hc
      split at h
      · cases h
      · rename_i root hroot
        split at h
        · cases h
        · rename_i es1 ord1 pool1 c1 hk
          split at h
          · cases h
          · rename_i es2 ord2 pool2 hrest
            simp only [Option.some.injEq, Prod.mk.injEq] at h
            obtain ⟨rfl, rfl, _⟩ := h
            obtain ⟨new1, hn1⟩ := kids_ord_prefix g f _ _ _ _ _ _ _ _ _ _ hk
            obtain ⟨new2, hn2⟩ := comps_ord_prefix g f _ _ _ _ _ _ hrest
            have hbelow : ∀ z, z < id → z ∈ ord := by
              intro z hz
              rcases hcov id (by simp) z hz with h1 | h1
              · exact h1
              · simp only [List.mem_cons] at h1
                rcases h1 with rfl | h1
                · omega
                · have := hlt z h1; omega
            intro e he k hk'
            simp only [List.mem_cons, List.mem_append] at he
            rcases he with (rfl | he) | he
            · -- the new root
              refine ⟨ord, new1 ++ new2, by rw [hn2, hn1]; simp, by simpa using hc, hbelow⟩
            · exact absurd hk' (kids_no_root g f _ _ _ _ _ _ _ _ _ _ hk e he k)
            · refine comps_roots g f ids ord1 pool1 es2 ord2 pool2 hrest hsorted' ?_ e he k hk'
              intro i hi z hz
              rcases hcov i (by simp [hi]) z hz with h1 | h1
              · exact Or.inl (by rw [hn1]; simp [h1])
              · simp only [List.mem_cons] at h1
                rcases h1 with rfl | h1
                · exact Or.inl (by rw [hn1]; simp)
                · exact Or.inr h1

end Purr

namespace Purr

/-- every bond of every atom of `S` leads into `T` -/
def Closed (g : Graph) (S T : List Nat) : Prop :=
  ∀ a ∈ S, ∀ atom, g[a]? = some atom → ∀ b ∈ atom.bonds, b.tid ∈ T

theorem Closed.mono {g : Graph} {S T T' : List Nat} (h : Closed g S T) (hs : ∀ x ∈ T, x ∈ T') : Closed g S T' :=
  fun a ha atom hg b hb => hs _ (h a ha atom hg b hb)

theorem Closed.append {g : Graph} {S1 S2 T : List Nat} (h1 : Closed g S1 T) (h2 : Closed g S2 T) : Closed g (S1 ++ S2) T := by
  intro a ha
  rcases List.mem_append.mp ha with h | h
  · exact h1 a h
  · exact h2 a h

/-- the search from atom `a` explores everything it reaches: the remaining bonds of `a` and every bond of every newly
    visited atom lead to visited atoms -/
theorem kids_closed (g : Graph) : ∀ (f : Nat) (ord : List Nat) (pool : Pool) (a : Nat) (p : Option Nat) (bs : List Bond) (cur : Nat)
    (es : List (Event × Nat)) (ord' : List Nat) (pool' : Pool) (c : Nat),
    kids g f ord pool a p bs cur = some (es, ord', pool', c) → (∀ q, p = some q → q ∈ ord) → a ∈ ord →
    ∃ new, ord' = ord ++ new ∧ (∀ b ∈ bs, b.tid ∈ ord') ∧ Closed g new ord' := by
  intro f
  induction f with
  | zero => intro ord pool a p bs cur es ord' pool' c h; simp [kids] at h
  | succ f ih =>
    intro ord pool a p bs cur es ord' pool' c h hp ha
    cases bs with
    | nil =>
      simp only [kids, Option.some.injEq, Prod.mk.injEq] at h
      obtain ⟨_, rfl, _⟩ := h
      refine ⟨[], by simp, ?_, ?_⟩
      · intro b hb; cases hb
      · intro x hx; cases hx
    | cons b bs =>
      simp only [kids] at h
      split at h
      · rename_i hpb
        obtain ⟨new, h1, h2, h3⟩ := ih _ _ _ _ _ _ _ _ _ _ h hp ha
        refine ⟨new, h1, ?_, h3⟩
        intro b' hb'
        simp only [List.mem_cons] at hb'
        rcases hb' with rfl | hb'
        · rw [h1]; simp [hp _ hpb]
        · exact h2 b' hb'
      · split at h
        · rename_i hvis
          split at h
          · split at h
            · rename_i es1 o1 p1 c1 hk
              simp only [Option.some.injEq, Prod.mk.injEq] at h
              obtain ⟨_, rfl, _⟩ := h
              obtain ⟨new, h1, h2, h3⟩ := ih _ _ _ _ _ _ _ _ _ _ hk hp ha
              refine ⟨new, h1, ?_, h3⟩
              intro b' hb'
              simp only [List.mem_cons] at hb'
              rcases hb' with rfl | hb'
              · rw [h1]; simp [by simpa using hvis]
              · exact h2 b' hb'
            · cases h
          · cases h
        · split at h
          · cases h
          · rename_i child hchild
            split at h
            · cases h
            · rename_i es1 ord1 pool1 d1 hk1
              split at h
              · cases h
              · rename_i es2 ord2 pool2 c2 hk2
                simp only [Option.some.injEq, Prod.mk.injEq] at h
                obtain ⟨_, rfl, _⟩ := h
                obtain ⟨new1, h11, h12, h13⟩ := ih _ _ _ _ _ _ _ _ _ _ hk1
                  (by intro q hq; cases hq; simp [ha]) (by simp)
                have ha1 : a ∈ ord1 := by rw [h11]; simp [ha]
                obtain ⟨new2, h21, h22, h23⟩ := ih _ _ _ _ _ _ _ _ _ _ hk2
                  (by intro q hq; rw [h11]; simp [hp q hq]) ha1
                have hsub : ∀ x ∈ ord1, x ∈ ord2 := by intro x hx; rw [h21]; simp [hx]
                refine ⟨b.tid :: new1 ++ new2, by rw [h21, h11]; simp, ?_, ?_⟩
                · intro b' hb'
                  simp only [List.mem_cons] at hb'
                  rcases hb' with rfl | hb'
                  · rw [h21, h11]; simp
                  · exact h22 b' hb'
                · have hc0 : Closed g [b.tid] ord2 := by
                    intro x hx atom hg b' hb'
                    simp only [List.mem_singleton] at hx; subst hx
                    rw [hchild] at hg; cases hg
                    exact hsub _ (h12 b' hb')
                  have := (hc0.append (h13.mono hsub)).append h23
                  simpa using this

/-- every component starts when everything visited so far is explored: no visited atom has a bond to an unvisited one -/
theorem comps_roots_closed (g : Graph) (f : Nat) : ∀ (ids ord : List Nat) (pool : Pool) (es : List (Event × Nat)) (ord' : List Nat) (pool' : Pool),
    comps g f ids ord pool = some (es, ord', pool') → Closed g ord ord →
    Closed g ord' ord' ∧ ∀ e ∈ es, ∀ k, e.1 = .root k → ∃ pre post, ord' = pre ++ e.2 :: post ∧ e.2 ∉ pre ∧ Closed g pre pre
  | [], ord, pool, es, ord', pool', h, hcl => by
    simp only [comps, Option.some.injEq, Prod.mk.injEq] at h
    obtain ⟨rfl, rfl, _⟩ := h
    exact ⟨hcl, by intro e he; cases he⟩
  | id :: ids, ord, pool, es, ord', pool', h, hcl => by
    simp only [comps] at h
    split at h
    · exact comps_roots_closed g f ids ord pool es ord' pool' h hcl
    · rename_i hc
      split at h
      · cases h
      · rename_i root hroot
        split at h
        · cases h
        · rename_i es1 ord1 pool1 c1 hk
          split at h
          · cases h
          · rename_i es2 ord2 pool2 hrest
            simp only [Option.some.injEq, Prod.mk.injEq] at h
            obtain ⟨rfl, rfl, _⟩ := h
            obtain ⟨new1, h11, h12, h13⟩ := kids_closed g f _ _ _ _ _ _ _ _ _ _ hk (by intro q hq; cases hq) (by simp)
            have hsub : ∀ x ∈ ord, x ∈ ord1 := by intro x hx; rw [h11]; simp [hx]
            have hcl1 : Closed g ord1 ord1 := by
              rw [h11]
              have hc0 : Closed g [id] ord1 := by
                intro x hx atom hg b hb
                simp only [List.mem_singleton] at hx; subst hx
                rw [hroot] at hg; cases hg
                exact h12 b hb
              have := ((hcl.mono hsub).append hc0).append h13
              rw [h11] at this
              simpa [List.append_assoc] using this
            obtain ⟨hcl2, hrec⟩ := comps_roots_closed g f ids ord1 pool1 es2 ord2 pool2 hrest hcl1
            obtain ⟨new2, hn2⟩ := comps_ord_prefix g f _ _ _ _ _ _ hrest
            refine ⟨hcl2, ?_⟩
            intro e he k hk'
            simp only [List.mem_cons, List.mem_append] at he
            rcases he with (rfl | he) | he
            · exact ⟨ord, new1 ++ new2, by rw [hn2, h11]; simp, by simpa using hc, hcl⟩
            · exact absurd hk' (kids_no_root g f _ _ _ _ _ _ _ _ _ _ hk e he k)
            · exact hrec e he k hk'

end Purr
