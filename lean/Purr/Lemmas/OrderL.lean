/- C12, the visit order: every component starts at the lowest-numbered atom not yet visited. -/
import Purr.Lemmas.FixL
namespace Purr

theorem kids_no_root (g : Graph) : ∀ (f : Nat) (ord : List Nat) (pool : Pool) (a : Nat) (p : Option Nat) (bs : List Bond) (cur : Nat)
    (es : List (Event × Nat)) (ord' : List Nat) (pool' : Pool) (c : Nat),
    kids g f ord pool a p bs cur = some (es, ord', pool', c) → ∀ e ∈ es, ∀ k, e.1 ≠ .root k := by
  intro f
  induction f with
  | zero => intro ord pool a p bs cur es ord' pool' c h; simp [kids] at h
  | succ f ih =>
    intro ord pool a p bs cur es ord' pool' c h
    cases bs with
    | nil =>
      simp only [kids, Option.some.injEq, Prod.mk.injEq] at h
      obtain ⟨rfl, _⟩ := h
      intro e he; cases he
    | cons b bs =>
      simp only [kids] at h
      split at h
      · exact ih _ _ _ _ _ _ _ _ _ _ h
      · split at h
        · split at h
          · split at h
            · rename_i es1 o1 p1 c1 hk
              simp only [Option.some.injEq, Prod.mk.injEq] at h
              obtain ⟨rfl, _⟩ := h
              intro e he k
              simp only [List.mem_append, List.mem_cons] at he
              rcases he with he | rfl | he
              · unfold popEv at he; split at he
                · simp only [List.mem_singleton] at he; subst he; simp
                · cases he
              · simp
              · exact ih _ _ _ _ _ _ _ _ _ _ hk e he k
            · cases h
          · cases h
        · split at h
          · cases h
          · split at h
            · cases h
            · rename_i es1 o1 p1 d1 hk1
              split at h
              · cases h
              · rename_i es2 o2 p2 c2 hk2
                simp only [Option.some.injEq, Prod.mk.injEq] at h
                obtain ⟨rfl, _⟩ := h
                intro e he k
                simp only [List.mem_append, List.mem_cons] at he
                rcases he with (he | rfl | he) | he
                · unfold popEv at he; split at he
                  · simp only [List.mem_singleton] at he; subst he; simp
                  · cases he
                · simp
                · exact ih _ _ _ _ _ _ _ _ _ _ hk1 e he k
                · exact ih _ _ _ _ _ _ _ _ _ _ hk2 e he k

/-- where each root stands in the final order: everything smaller has been visited before it -/
theorem comps_roots (g : Graph) (f : Nat) : ∀ (ids ord : List Nat) (pool : Pool) (es : List (Event × Nat)) (ord' : List Nat) (pool' : Pool),
    comps g f ids ord pool = some (es, ord', pool') → ids.Pairwise (· < ·) →
    (∀ i ∈ ids, ∀ z, z < i → z ∈ ord ∨ z ∈ ids) →
    ∀ e ∈ es, ∀ k, e.1 = .root k → ∃ pre post, ord' = pre ++ e.2 :: post ∧ e.2 ∉ pre ∧ ∀ z, z < e.2 → z ∈ pre
  | [], ord, pool, es, ord', pool', h, _, _ => by
    simp only [comps, Option.some.injEq, Prod.mk.injEq] at h
    obtain ⟨rfl, _⟩ := h
    intro e he; cases he
  | id :: ids, ord, pool, es, ord', pool', h, hsorted, hcov => by
    have hsorted' : ids.Pairwise (· < ·) := (List.pairwise_cons.mp hsorted).2
    have hlt : ∀ i ∈ ids, id < i := (List.pairwise_cons.mp hsorted).1
    simp only [comps] at h
    split at h
    · rename_i hc
      -- id already visited
      apply comps_roots g f ids ord pool es ord' pool' h hsorted'
      intro i hi z hz
      rcases hcov i (by simp [hi]) z hz with h1 | h1
      · exact Or.inl h1
      · simp only [List.mem_cons] at h1
        rcases h1 with rfl | h1
        · exact Or.inl (by simpa using hc)
        · exact Or.inr h1
    · rename_i hc
      split at h
      · cases h
      · rename_i root hroot
        split at h
        · cases h
        · rename_i es1 ord1 pool1 c1 hk
          split at h
          · cases h
          · rename_i es2 ord2 pool2 hrest
            simp only [Option.some.injEq, Prod.mk.injEq] at h
            obtain ⟨rfl, rfl, _⟩ := h
            obtain ⟨new1, hn1⟩ := kids_ord_prefix g f _ _ _ _ _ _ _ _ _ _ hk
            obtain ⟨new2, hn2⟩ := comps_ord_prefix g f _ _ _ _ _ _ hrest
            have hbelow : ∀ z, z < id → z ∈ ord := by
              intro z hz
              rcases hcov id (by simp) z hz with h1 | h1
              · exact h1
              · simp only [List.mem_cons] at h1
                rcases h1 with rfl | h1
                · omega
                · have := hlt z h1; omega
            intro e he k hk'
            simp only [List.mem_cons, List.mem_append] at he
            rcases he with (rfl | he) | he
            · -- the new root
              refine ⟨ord, new1 ++ new2, by rw [hn2, hn1]; simp, by simpa using hc, hbelow⟩
            · exact absurd hk' (kids_no_root g f _ _ _ _ _ _ _ _ _ _ hk e he k)
            · refine comps_roots g f ids ord1 pool1 es2 ord2 pool2 hrest hsorted' ?_ e he k hk'
              intro i hi z hz
              rcases hcov i (by simp [hi]) z hz with h1 | h1
              · exact Or.inl (by rw [hn1]; simp [h1])
              · simp only [List.mem_cons] at h1
                rcases h1 with rfl | h1
                · exact Or.inl (by rw [hn1]; simp)
                · exact Or.inr h1

end Purr
