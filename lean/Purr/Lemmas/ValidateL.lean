/- Helper lemmas for C11: `validate` decides `WellFormed`. -/
import Purr.Model.Walk
import Purr.Spec.WellFormed
namespace Purr
open Purr.Spec

theorem rev_eq_iff (x y : BondKind) : x = y.reverse ↔ y = x.reverse := by
  cases x <;> cases y <;> simp [BondKind.reverse]

theorem countTo_eq (bs : List Bond) (t : Nat) : countTo bs t = (bondsTo bs t).length := rfl

theorem checkBonds_none {g : Graph} {sid : Nat} : ∀ {bs : List Bond},
    checkBonds g sid bs = none ↔ ∀ b ∈ bs, checkBond g sid b = none
  | [] => by simp [checkBonds]
  | b :: bs => by
    simp only [checkBonds, List.mem_cons, forall_eq_or_imp]
    cases h : checkBond g sid b with
    | none => simp [checkBonds_none]
    | some e => simp

theorem checkAtoms_none {g : Graph} : ∀ {as : List Atom} {k : Nat},
    checkAtoms g k as = none ↔ ∀ j atom, as[j]? = some atom → checkBonds g (k + j) atom.bonds = none
  | [], k => by simp [checkAtoms]
  | a :: as, k => by
    simp only [checkAtoms]
    cases h : checkBonds g k a.bonds with
    | some e =>
      constructor
      · intro h'; cases h'
      · intro hall
        have := hall 0 a (by simp)
        simp [h] at this
    | none =>
      simp only
      rw [checkAtoms_none]
      constructor
      · intro hall j atom hj
        cases j with
        | zero => simp at hj; subst hj; simpa using h
        | succ j =>
          simp at hj
          have := hall j atom hj
          rw [show k + (j + 1) = k + 1 + j by omega]; exact this
      · intro hall j atom hj
        have := hall (j + 1) atom (by simpa using hj)
        rw [show k + (j + 1) = k + 1 + j by omega] at this; exact this

theorem bondsTo_length_pos {bs : List Bond} {b : Bond} (h : b ∈ bs) : 1 ≤ (bondsTo bs b.tid).length := by
  have : b ∈ bondsTo bs b.tid := by simp [bondsTo, h]
  exact List.length_pos_of_mem this

/-- `checkBond` accepts exactly the half-bonds that satisfy the clauses of `WellFormed` -/
theorem checkBond_none_iff {g : Graph} {a : Nat} {atom : Atom} (ha : g[a]? = some atom) {b : Bond} (hb : b ∈ atom.bonds) :
    checkBond g a b = none ↔
      (b.tid ≠ a ∧ (bondsTo atom.bonds b.tid).length = 1 ∧
        ∃ tatom, g[b.tid]? = some tatom ∧ ∃ back, bondsTo tatom.bonds a = [back] ∧ back.kind = b.kind.reverse) := by
  unfold checkBond
  by_cases hlen : b.tid ≥ g.length
  · simp only [hlen, if_true]
    constructor
    · intro h; cases h
    · intro ⟨_, _, tatom, ht, _⟩
      have := List.getElem?_eq_none_iff.mpr hlen
      rw [this] at ht; cases ht
  · simp only [hlen, if_false]
    by_cases hself : b.tid = a
    · simp [hself]
    · simp only [hself, if_false, ha]
      have hlt : b.tid < g.length := by omega
      obtain ⟨tatom, ht⟩ : ∃ tatom, g[b.tid]? = some tatom := ⟨g[b.tid], List.getElem?_eq_getElem hlt⟩
      simp only [ht, countTo_eq]
      have hpos := bondsTo_length_pos hb
      by_cases hdup : (bondsTo atom.bonds b.tid).length > 1
      · simp only [hdup, if_true]
        constructor
        · intro h; cases h
        · intro ⟨_, h1, _⟩; omega
      · simp only [hdup, if_false]
        have h1 : (bondsTo atom.bonds b.tid).length = 1 := by omega
        show (match bondsTo tatom.bonds a with
              | [] => some (WalkError.halfBond a b.tid)
              | [back] => if b.kind ≠ back.kind.reverse then some (WalkError.incompatibleBond b.tid a) else none
              | _ => some (WalkError.duplicateBond a b.tid)) = none ↔ _
        split
        · rename_i hnil
          constructor
          · intro h; cases h
          · intro ⟨_, _, tatom', ht', back, hb', _⟩
            cases ht'; rw [hnil] at hb'; cases hb'
        · rename_i back hone
          split
          · rename_i hk
            constructor
            · intro h; cases h
            · intro ⟨_, _, tatom', ht', back', hb', hk'⟩
              cases ht'; rw [hone] at hb'; cases hb'
              exact absurd ((rev_eq_iff _ _).mpr hk') hk
          · rename_i hk
            simp only [true_iff]
            refine ⟨hself, h1, tatom, rfl, back, hone, ?_⟩
            simp at hk; exact (rev_eq_iff _ _).mp hk
        · rename_i hne1 hne2
          constructor
          · intro h; cases h
          · intro ⟨_, _, tatom', ht', back, hb', _⟩
            cases ht'
            exact absurd hb' (hne2 back)

/-- the validation pre-pass accepts exactly the well-formed adjacency lists -/
theorem validate_none_iff (g : Graph) : validate g = none ↔ WellFormed g := by
  unfold validate WellFormed
  rw [checkAtoms_none]
  constructor
  · intro h a atom ha b hb
    have := h a atom ha
    simp only [Nat.zero_add] at this
    exact (checkBond_none_iff ha hb).mp (checkBonds_none.mp this b hb)
  · intro h j atom hj
    simp only [Nat.zero_add]
    exact checkBonds_none.mpr (fun b hb => (checkBond_none_iff hj hb).mpr (h j atom hj b hb))


theorem checkBonds_some {g : Graph} {sid : Nat} {e : WalkError} : ∀ {bs : List Bond},
    checkBonds g sid bs = some e → ∃ b ∈ bs, checkBond g sid b = some e
  | [], h => by simp [checkBonds] at h
  | b :: bs, h => by
    simp only [checkBonds] at h
    cases hb : checkBond g sid b with
    | some e' => rw [hb] at h; simp at h; subst h; exact ⟨b, by simp, hb⟩
    | none =>
      rw [hb] at h
      obtain ⟨b', hm, hc⟩ := checkBonds_some (bs := bs) h
      exact ⟨b', List.mem_cons_of_mem _ hm, hc⟩

theorem checkAtoms_some {g : Graph} {e : WalkError} : ∀ {as : List Atom} {k : Nat},
    checkAtoms g k as = some e → ∃ j atom, as[j]? = some atom ∧ checkBonds g (k + j) atom.bonds = some e
  | [], _, h => by simp [checkAtoms] at h
  | a :: as, k, h => by
    simp only [checkAtoms] at h
    cases ha : checkBonds g k a.bonds with
    | some e' => rw [ha] at h; simp at h; subst h; exact ⟨0, a, by simp, by simpa using ha⟩
    | none =>
      rw [ha] at h
      obtain ⟨j, atom, hj, hc⟩ := checkAtoms_some (as := as) h
      exact ⟨j + 1, atom, by simpa using hj, by rw [show k + (j + 1) = k + 1 + j by omega]; exact hc⟩

/-- a rejected adjacency list has a bond on which `checkBond` reports that very error -/
theorem validate_some {g : Graph} {e : WalkError} (h : validate g = some e) :
    ∃ a atom b, g[a]? = some atom ∧ b ∈ atom.bonds ∧ checkBond g a b = some e := by
  unfold validate at h
  obtain ⟨j, atom, hj, hc⟩ := checkAtoms_some h
  obtain ⟨b, hb, hcb⟩ := checkBonds_some hc
  exact ⟨j, atom, b, hj, hb, by simpa using hcb⟩

end Purr

namespace Purr
open Purr.Spec

theorem scanChild_backs (sid tid : Nat) (k : AtomKind) : ∀ (bs : List Bond) (i : Nat),
    (scanChild sid tid k bs i).2.1 = bondsTo bs sid
  | [], _ => rfl
  | o :: os, i => by
    simp only [scanChild]
    have ih := scanChild_backs sid tid k os (i + 1)
    generalize scanChild sid tid k os (i + 1) = r at ih ⊢
    obtain ⟨k', backs, pushes⟩ := r
    simp only at ih ⊢
    by_cases ho : o.tid = sid
    · simp [ho, bondsTo, ih]
    · simp [ho, bondsTo, ih]

theorem scanChild_pushes (sid tid : Nat) (k : AtomKind) : ∀ (bs : List Bond) (i : Nat),
    ∀ p ∈ (scanChild sid tid k bs i).2.2, p.1 = tid ∧ p.2 ∈ bs
  | [], _, p, hp => by simp [scanChild] at hp
  | o :: os, i, p, hp => by
    simp only [scanChild] at hp
    have ih := scanChild_pushes sid tid k os (i + 1)
    generalize scanChild sid tid k os (i + 1) = r at ih hp
    obtain ⟨k', backs, pushes⟩ := r
    simp only at ih hp
    by_cases ho : o.tid = sid
    · simp only [ho, if_true] at hp
      obtain ⟨h1, h2⟩ := ih p hp
      exact ⟨h1, List.mem_cons_of_mem _ h2⟩
    · simp only [ho, if_false, List.mem_cons] at hp
      rcases hp with rfl | hp
      · exact ⟨rfl, by simp⟩
      · obtain ⟨h1, h2⟩ := ih p hp
        exact ⟨h1, List.mem_cons_of_mem _ h2⟩

/-- every stack entry is a half-bond of the graph -/
def StackReal (g : Graph) (stack : List (Nat × Bond)) : Prop :=
  ∀ p ∈ stack, ∃ atom, g[p.1]? = some atom ∧ p.2 ∈ atom.bonds

/-- on a well-formed graph one iteration of the traversal never reports an error, and keeps the
    stack made of real half-bonds -/
theorem wkStep_wellformed {g : Graph} (hw : WellFormed g) (s : WState) (sid : Nat) (bond : Bond)
    (rest : List (Nat × Bond)) (hreal : StackReal g ((sid, bond) :: rest)) :
    (∀ e evs, wkStep g s sid bond rest ≠ .err e evs) ∧
    (∀ s' evs, wkStep g s sid bond rest = .cont s' evs → StackReal g s'.stack) := by
  obtain ⟨atom, ha, hb⟩ := hreal (sid, bond) (by simp)
  have hrest : StackReal g rest := fun p hp => hreal p (List.mem_cons_of_mem _ hp)
  obtain ⟨hne, hone, tatom, ht, back, hback, hk⟩ := hw sid atom ha bond hb
  have hlt : bond.tid < g.length := by
    apply Nat.lt_of_not_le
    intro hge
    rw [List.getElem?_eq_none_iff.mpr hge] at ht; cases ht
  unfold wkStep
  have h1 : ¬ bond.tid ≥ g.length := by omega
  simp only [h1, if_false, hne]
  cases hu : unwind sid s.chain 0 with
  | none => exact ⟨(by intro e evs h; cases h), (by intro s' evs h; cases h)⟩
  | some cp =>
    obtain ⟨chain, popcount⟩ := cp
    simp only
    by_cases hv : s.visited.contains bond.tid = true
    · simp only [hv, if_true]
      cases s.pool.hit (sid, bond.tid) with
      | ok r pool =>
        exact ⟨(by intro e evs h; cases h), (by intro s' evs h; cases h; exact hrest)⟩
      | panic n p => exact ⟨(by intro e evs h; cases h), (by intro s' evs h; cases h)⟩
    · simp only [hv, ht]
      have hbacks := scanChild_backs sid bond.tid tatom.kind tatom.bonds 0
      have hpush := scanChild_pushes sid bond.tid tatom.kind tatom.bonds 0
      generalize scanChild sid bond.tid tatom.kind tatom.bonds 0 = r at hbacks hpush
      obtain ⟨kind, backs, pushes⟩ := r
      simp only at hbacks hpush ⊢
      rw [hback] at hbacks
      subst hbacks
      have hkk : ¬ (bond.kind ≠ back.kind.reverse) := by
        simp; exact (rev_eq_iff _ _).mp hk
      simp only [hkk, if_false]
      refine ⟨(by intro e evs h; cases h), ?_⟩
      intro s' evs h
      cases h
      intro p hp
      simp only [List.mem_append] at hp
      rcases hp with hp | hp
      · obtain ⟨h1', h2'⟩ := hpush p hp
        exact ⟨tatom, by rw [h1']; exact ht, h2'⟩
      · exact hrest p hp

theorem rootLoop_wellformed {g : Graph} (hw : WellFormed g) : ∀ (fuel : Nat) (s : WState), StackReal g s.stack →
    ∀ e, (rootLoop g fuel s).2.1 ≠ .err e
  | 0, _, _, e => by simp [rootLoop]
  | fuel + 1, s, hreal, e => by
    simp only [rootLoop]
    split
    · simp
    · rename_i sid bond rest hst
      rw [hst] at hreal
      obtain ⟨h1, h2⟩ := wkStep_wellformed hw s sid bond rest hreal
      split
      · rename_i e' evs hstep; exact absurd hstep (h1 e' evs)
      · simp
      · rename_i s' evs hstep
        exact rootLoop_wellformed hw fuel s' (h2 s' evs hstep) e

theorem compLoop_wellformed {g : Graph} (hw : WellFormed g) (fuel : Nat) : ∀ (ids : List Nat) (s : WState),
    ∀ e, (compLoop g fuel ids s).2 ≠ .err e
  | [], _, e => by simp [compLoop]
  | id :: ids, s, e => by
    simp only [compLoop]
    by_cases hv : s.visited.contains id = true
    · rw [if_pos hv]; exact compLoop_wellformed hw fuel ids s e
    · rw [if_neg hv]
      cases hroot : g[id]? with
      | none => simp
      | some root =>
        simp only []
        generalize hs0 : ({ s with visited := id :: s.visited, stack := root.bonds.map (fun b => (id, b)), chain := [id] } : WState) = s0
        have hreal : StackReal g s0.stack := by
          subst hs0
          intro p hp
          simp only [List.mem_map] at hp
          obtain ⟨b, hb, rfl⟩ := hp
          exact ⟨root, hroot, hb⟩
        have hne := rootLoop_wellformed hw fuel s0 hreal
        generalize rootLoop g fuel s0 = r at hne
        obtain ⟨es, v, s1⟩ := r
        simp only at hne ⊢
        cases v with
        | ok => simp only; exact compLoop_wellformed hw fuel ids s1 e
        | err e' => exact absurd rfl (hne e')
        | panic p => simp

end Purr
