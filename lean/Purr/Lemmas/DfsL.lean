/- C12: the visit order of the traversal is the textbook depth-first preorder (`Spec.dfsOrder`). -/
import Purr.Lemmas.OrderL
import Purr.Spec.Dfs
namespace Purr
open Purr.Spec

theorem kids_dfs (g : Graph) : ∀ (f : Nat) (ord : List Nat) (pool : Pool) (a : Nat) (p : Option Nat) (bs : List Bond) (cur : Nat)
    (es : List (Event × Nat)) (ord' : List Nat) (pool' : Pool) (c : Nat),
    kids g f ord pool a p bs cur = some (es, ord', pool', c) → a ∈ ord → (∀ q, p = some q → q ∈ ord) →
    dfsBonds g f ord bs = some ord' := by
  intro f
  induction f with
  | zero => intro ord pool a p bs cur es ord' pool' c h; simp [kids] at h
  | succ f ih =>
    intro ord pool a p bs cur es ord' pool' c h ha hp
    cases bs with
    | nil =>
      simp only [kids, Option.some.injEq, Prod.mk.injEq] at h
      obtain ⟨_, rfl, _⟩ := h
      rfl
    | cons b bs =>
      simp only [kids] at h
      simp only [dfsBonds]
      split at h
      · rename_i hpar
        have : ord.contains b.tid = true := by simpa using hp b.tid hpar
        rw [if_pos this]
        exact ih _ _ _ _ _ _ _ _ _ _ h ha hp
      · split at h
        · rename_i hseen
          rw [if_pos hseen]
          split at h
          · split at h
            · rename_i es1 o1 p1 c1 hk
              simp only [Option.some.injEq, Prod.mk.injEq] at h
              obtain ⟨_, rfl, _⟩ := h
              exact ih _ _ _ _ _ _ _ _ _ _ hk ha hp
            · cases h
          · cases h
        · rename_i hseen
          rw [if_neg hseen]
          split at h
          · cases h
          · rename_i child hchild
            simp only [hchild]
            split at h
            · cases h
            · rename_i es1 o1 p1 d1 hk1
              split at h
              · cases h
              · rename_i es2 o2 p2 c2 hk2
                simp only [Option.some.injEq, Prod.mk.injEq] at h
                obtain ⟨_, rfl, _⟩ := h
                have h1 := ih _ _ _ _ _ _ _ _ _ _ hk1 (by simp) (by intro q hq; cases hq; simp [ha])
                rw [h1]
                obtain ⟨new, hnew⟩ := kids_ord_prefix g f _ _ _ _ _ _ _ _ _ _ hk1
                have hsub : ∀ x ∈ ord, x ∈ o1 := by intro x hx; rw [hnew]; simp [hx]
                exact ih _ _ _ _ _ _ _ _ _ _ hk2 (hsub a ha) (fun q hq => hsub q (hp q hq))

theorem comps_dfs (g : Graph) (f : Nat) : ∀ (ids ord : List Nat) (pool : Pool) (es : List (Event × Nat)) (ord' : List Nat) (pool' : Pool),
    comps g f ids ord pool = some (es, ord', pool') → dfsFrom g f ids ord = some ord'
  | [], ord, pool, es, ord', pool', h => by
    simp only [comps, Option.some.injEq, Prod.mk.injEq] at h
    obtain ⟨_, rfl, _⟩ := h
    rfl
  | id :: ids, ord, pool, es, ord', pool', h => by
    simp only [comps] at h
    simp only [dfsFrom]
    split at h
    · rename_i hc
      rw [if_pos hc]
      exact comps_dfs g f ids ord pool es ord' pool' h
    · rename_i hc
      rw [if_neg hc]
      split at h
      · cases h
      · rename_i root hroot
        simp only [hroot]
        split at h
        · cases h
        · rename_i es1 ord1 pool1 c1 hk
          split at h
          · cases h
          · rename_i es2 ord2 pool2 hrest
            simp only [Option.some.injEq, Prod.mk.injEq] at h
            obtain ⟨_, rfl, _⟩ := h
            rw [kids_dfs g f _ _ _ _ _ _ _ _ _ _ hk (by simp) (by intro q hq; cases hq)]
            exact comps_dfs g f ids ord1 pool1 es2 ord2 pool2 hrest

/-- more fuel never changes the answer of the textbook search -/
theorem dfsBonds_mono (g : Graph) : ∀ (f : Nat) (seen : List Nat) (bs : List Bond) (r : List Nat),
    dfsBonds g f seen bs = some r → dfsBonds g (f + 1) seen bs = some r := by
  intro f
  induction f with
  | zero => intro seen bs r h; simp [dfsBonds] at h
  | succ f ih =>
    intro seen bs r h
    cases bs with
    | nil => simpa [dfsBonds] using h
    | cons b bs =>
      simp only [dfsBonds] at h
      rw [dfsBonds]
      split
      · rename_i hs; rw [if_pos hs] at h; exact ih _ _ _ h
      · rename_i hs; rw [if_neg hs] at h
        split at h
        · cases h
        · rename_i child hchild
          split at h
          · cases h
          · rename_i s1 h1
            rw [ih _ _ _ h1]
            exact ih _ _ _ h

theorem dfsBonds_mono_le (g : Graph) {f f' : Nat} (hle : f ≤ f') {seen bs r} (h : dfsBonds g f seen bs = some r) :
    dfsBonds g f' seen bs = some r := by
  induction hle with
  | refl => exact h
  | step _ ih => exact dfsBonds_mono g _ _ _ _ ih

theorem dfsFrom_mono_le (g : Graph) {f f' : Nat} (hle : f ≤ f') : ∀ (ids seen : List Nat) (r : List Nat),
    dfsFrom g f ids seen = some r → dfsFrom g f' ids seen = some r
  | [], seen, r, h => by simpa [dfsFrom] using h
  | id :: ids, seen, r, h => by
    simp only [dfsFrom] at h ⊢
    split
    · rename_i hs; rw [if_pos hs] at h; exact dfsFrom_mono_le g hle ids seen r h
    · rename_i hs; rw [if_neg hs] at h
      split at h
      · cases h
      · rename_i root hroot
        split at h
        · cases h
        · rename_i s1 h1
          rw [dfsBonds_mono_le g hle h1]
          exact dfsFrom_mono_le g hle ids s1 r h

/-- the atom an event creates (its label), if it creates one -/
def atomLabel (e : Event × Nat) : Option Nat :=
  match e.1 with
  | .root _ => some e.2
  | .extend _ _ => some e.2
  | _ => none

theorem popEv_labels (cur : Nat) : (popEv cur).filterMap atomLabel = [] := by
  unfold popEv; split <;> simp [atomLabel]

/-- `ord` is the order in which the atom events are emitted -/
theorem kids_labels (g : Graph) : ∀ (f : Nat) (ord : List Nat) (pool : Pool) (a : Nat) (p : Option Nat) (bs : List Bond) (cur : Nat)
    (es : List (Event × Nat)) (ord' : List Nat) (pool' : Pool) (c : Nat),
    kids g f ord pool a p bs cur = some (es, ord', pool', c) → ord' = ord ++ es.filterMap atomLabel := by
  intro f
  induction f with
  | zero => intro ord pool a p bs cur es ord' pool' c h; simp [kids] at h
  | succ f ih =>
    intro ord pool a p bs cur es ord' pool' c h
    cases bs with
    | nil =>
      simp only [kids, Option.some.injEq, Prod.mk.injEq] at h
      obtain ⟨rfl, rfl, _⟩ := h
      simp
    | cons b bs =>
      simp only [kids] at h
      split at h
      · exact ih _ _ _ _ _ _ _ _ _ _ h
      · split at h
        · split at h
          · split at h
            · rename_i es1 o1 p1 c1 hk
              simp only [Option.some.injEq, Prod.mk.injEq] at h
              obtain ⟨rfl, rfl, _⟩ := h
              rw [ih _ _ _ _ _ _ _ _ _ _ hk]
              simp [List.filterMap_append, popEv_labels, List.filterMap_cons, atomLabel]
            · cases h
          · cases h
        · split at h
          · cases h
          · split at h
            · cases h
            · rename_i es1 o1 p1 d1 hk1
              split at h
              · cases h
              · rename_i es2 o2 p2 c2 hk2
                simp only [Option.some.injEq, Prod.mk.injEq] at h
                obtain ⟨rfl, rfl, _⟩ := h
                rw [ih _ _ _ _ _ _ _ _ _ _ hk2, ih _ _ _ _ _ _ _ _ _ _ hk1]
                simp [List.filterMap_append, popEv_labels, List.filterMap_cons, atomLabel]

theorem comps_labels (g : Graph) (f : Nat) : ∀ (ids ord : List Nat) (pool : Pool) (es : List (Event × Nat)) (ord' : List Nat) (pool' : Pool),
    comps g f ids ord pool = some (es, ord', pool') → ord' = ord ++ es.filterMap atomLabel
  | [], ord, pool, es, ord', pool', h => by
    simp only [comps, Option.some.injEq, Prod.mk.injEq] at h
    obtain ⟨rfl, rfl, _⟩ := h
    simp
  | id :: ids, ord, pool, es, ord', pool', h => by
    simp only [comps] at h
    split at h
    · exact comps_labels g f ids ord pool es ord' pool' h
    · split at h
      · cases h
      · split at h
        · cases h
        · rename_i es1 ord1 pool1 c1 hk
          split at h
          · cases h
          · rename_i es2 ord2 pool2 hrest
            simp only [Option.some.injEq, Prod.mk.injEq] at h
            obtain ⟨rfl, rfl, _⟩ := h
            rw [comps_labels g f ids ord1 pool1 es2 ord2 pool2 hrest, kids_labels g f _ _ _ _ _ _ _ _ _ _ hk]
            simp [List.filterMap_append, List.filterMap_cons, atomLabel]

end Purr
