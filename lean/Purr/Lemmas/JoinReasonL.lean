/-
  The reason of a `Join(a, c)` error, read off the history: from the builder-state `JoinDefect` to the
  declarative reading of the history (`Spec.annotate` / `Spec.scan` / `Spec.contribH`).
-/
import Purr.Lemmas.DenoteL
import Purr.Lemmas.BuildErrL
namespace Purr
open Purr.Spec

theorem mem_filterMap_range {β} {f : Nat → Option β} {n : Nat} {y : β} (h : y ∈ (List.range n).filterMap f) :
    ∃ j, j < n ∧ f j = some y := by
  rw [List.mem_filterMap] at h
  obtain ⟨j, hj, hf⟩ := h
  exact ⟨j, List.mem_range.mp hj, hf⟩

theorem closerOf_none {P : List (Nat × Nat)} {k : Nat} (h : closerOf P k = none) : ∀ p ∈ P, p.1 ≠ k := by
  intro p hp he
  unfold closerOf at h
  simp only [Option.map_eq_none_iff, List.find?_eq_none] at h
  exact h p hp (by simp [he])

theorem openerOf_none {P : List (Nat × Nat)} {k : Nat} (h : openerOf P k = none) : ∀ p ∈ P, p.2 ≠ k := by
  intro p hp he
  unfold openerOf at h
  simp only [Option.map_eq_none_iff, List.find?_eq_none] at h
  exact h p hp (by simp [he])

/-- a pending half at atom `i` comes from an unpaired digit written at head `i` -/
theorem contribH_pending {A : List Ann} {P : List (Nat × Nat)} {i j : Nat} {b : BondKind} {r : Rnum}
    (h : contribH A P i j = some (.pending b r)) :
    (∃ c, A[j]? = some ⟨.join b r, some i, c⟩) ∧ closerOf P j = none ∧ openerOf P j = none := by
  unfold contribH at h
  split at h
  · split at h
    · cases h
    · split at h <;> cases h
  · rename_i b' r' h' c' hA
    split at h
    · rename_i hi
      split at h
      · split at h
        · split at h <;> cases h
        · cases h
      · rename_i hcl
        split at h
        · split at h
          · split at h <;> cases h
          · cases h
        · rename_i hop
          cases h
          exact ⟨⟨c', by rw [hA, hi]⟩, hcl, hop⟩
    · cases h
  · cases h

/-- THE REASON, ON THE HISTORY: a builder-state `JoinDefect` after the error-free prefix `pre` says, about the written
    history alone: the closing digit is written at head `a`; the scan has digit `k` open for its number, written at
    head `c` with bond kind `bk0`; and `a = c`, or some earlier event already contributes a bond to `a` in `c`'s bond
    list, or the two written kinds are irreconcilable -/
theorem joinDefect_history {pre : List Event} {s1 : BState} {bk : BondKind} {r : Rnum} {a c : Nat}
    (hinv : DInv pre s1) (hdef : JoinDefect s1 bk r a c) :
    ∃ k bk0, (replay [] 0 pre).1.head? = some a ∧ (scanPO pre).2.lookup r = some k ∧ joinAt (annA pre) k = some (bk0, c) ∧
      (a = c ∨ (∃ j b, contribH (annA pre) (scanPO pre).1 c j = some (.bond ⟨b, a⟩)) ∨ reconcile bk0 bk = none) := by
  obtain ⟨hhead, hopen, tnode, edge, hg, hfind, hwhy⟩ := hdef
  have h1 : (replay [] 0 pre).1.head? = some a := by rw [← hinv.stk]; exact hhead
  have h2 := hinv.opn r
  rw [hopen] at h2
  cases hk : (scanPO pre).2.lookup r with
  | none => rw [hk] at h2; simp at h2
  | some k =>
    rw [hk] at h2
    simp only [Option.bind_some] at h2
    cases hj : joinAt (annA pre) k with
    | none => rw [hj] at h2; simp at h2
    | some p =>
      rw [hj] at h2
      simp only [Option.map_some, Option.some.injEq] at h2
      obtain ⟨bk0, c0⟩ := p
      simp only at h2
      subst h2
      refine ⟨k, bk0, h1, rfl, hj, ?_⟩
      have hclt : c < s1.graph.length := by
        rcases Nat.lt_or_ge c s1.graph.length with h | h
        · exact h
        · rw [List.getElem?_eq_none h] at hg; cases hg
      obtain ⟨esi, hv, hmap⟩ := hinv.vw c hclt
      rw [view_get hg] at hv
      cases hv
      rcases hwhy with h | h | h
      · exact Or.inl h
      · refine Or.inr (Or.inl ?_)
        unfold hasIdEdge at h
        simp only [List.any_eq_true, beq_iff_eq] at h
        obtain ⟨e, he, het⟩ := h
        have hm : halfOf e ∈ tnode.edges.map halfOf := List.mem_map_of_mem he
        rw [hmap] at hm
        obtain ⟨j, _, hc⟩ := mem_filterMap_range hm
        refine ⟨j, e.kind, ?_⟩
        rw [hc]; unfold halfOf; rw [het]
      · refine Or.inr (Or.inr ?_)
        obtain ⟨hmem, hop⟩ := find_mem_filter hfind
        obtain ⟨i0, x0, ht⟩ := isOpenFor_target hop
        have hm : halfOf edge ∈ tnode.edges.map halfOf := List.mem_map_of_mem hmem
        rw [hmap] at hm
        obtain ⟨j, _, hc⟩ := mem_filterMap_range hm
        have hh : halfOf edge = .pending edge.kind r := by unfold halfOf; rw [ht]
        rw [hh] at hc
        obtain ⟨⟨cnt, hA⟩, hcl, hopn⟩ := contribH_pending hc
        have hjk : j = k := by
          rcases hinv.se j edge.kind r (some c) cnt hA with ⟨p, hp, hp1 | hp2⟩ | hl
          · exact absurd hp1 (closerOf_none hcl p hp)
          · exact absurd hp2 (openerOf_none hopn p hp)
          · rw [hk] at hl; cases hl; rfl
        subst hjk
        have : joinAt (annA pre) j = some (edge.kind, c) := by unfold joinAt; rw [hA]
        rw [hj] at this
        cases this
        exact h

/-- a ring-closure defect, stated on the written history alone -/
def HistDefect (pre : List Event) (bk : BondKind) (r : Rnum) (a c : Nat) : Prop :=
  ∃ k bk0, (replay [] 0 pre).1.head? = some a ∧ (scanPO pre).2.lookup r = some k ∧ joinAt (annA pre) k = some (bk0, c) ∧
    (a = c ∨ (∃ j b, contribH (annA pre) (scanPO pre).1 c j = some (.bond ⟨b, a⟩)) ∨ reconcile bk0 bk = none)

theorem joinDefect_history' {pre : List Event} {s1 : BState} {bk : BondKind} {r : Rnum} {a c : Nat}
    (hinv : DInv pre s1) (hdef : JoinDefect s1 bk r a c) : HistDefect pre bk r a c := joinDefect_history hinv hdef

theorem lookup_mem' {α β} [BEq α] [LawfulBEq α] {l : List (α × β)} {a : α} {b : β} (h : l.lookup a = some b) : (a, b) ∈ l := by
  induction l with
  | nil => cases h
  | cons p l ih =>
    obtain ⟨x, y⟩ := p
    simp only [List.lookup] at h
    split at h
    · rename_i heq
      cases h
      have : a = x := by simpa using heq
      subst this; exact List.mem_cons_self
    · exact List.mem_cons_of_mem _ (ih h)

theorem closerOf_none_of {P : List (Nat × Nat)} {k : Nat} (h : ∀ p ∈ P, p.1 ≠ k) : closerOf P k = none := by
  unfold closerOf
  simp only [Option.map_eq_none_iff, List.find?_eq_none]
  intro p hp; simpa using h p hp

theorem openerOf_none_of {P : List (Nat × Nat)} {k : Nat} (h : ∀ p ∈ P, p.2 ≠ k) : openerOf P k = none := by
  unfold openerOf
  simp only [Option.map_eq_none_iff, List.find?_eq_none]
  intro p hp; simpa using h p hp

theorem contribH_lt {A : List Ann} {P : List (Nat × Nat)} {i j : Nat} {x : Half} (h : contribH A P i j = some x) : j < A.length := by
  rcases Nat.lt_or_ge j A.length with hlt | hge
  · exact hlt
  · unfold contribH at h
    rw [List.getElem?_eq_none hge] at h
    cases h

theorem mem_range_filterMap {β} {f : Nat → Option β} {n j : Nat} {y : β} (hj : j < n) (h : f j = some y) :
    y ∈ (List.range n).filterMap f := by
  rw [List.mem_filterMap]; exact ⟨j, List.mem_range.mpr hj, h⟩

/-- … and back: the written-history defect is the builder's defect in every error-free state reached on that prefix -/
theorem history_joinDefect {pre : List Event} {s1 : BState} {bk : BondKind} {r : Rnum} {a c : Nat}
    (hinv : DInv pre s1) (hdef : HistDefect pre bk r a c) : JoinDefect s1 bk r a c := by
  obtain ⟨k, bk0, hhead, hk, hj, hwhy⟩ := hdef
  have hq : (r, k) ∈ (scanPO pre).2 := lookup_mem' hk
  obtain ⟨hklt, b', t', c', hA⟩ := hinv.sb (r, k) hq
  simp only at hklt hA
  have hjj : joinAt (annA pre) k = some (b', t') := by unfold joinAt; rw [hA]
  rw [hj] at hjj; cases hjj
  have hclt : c < s1.graph.length := ((hinv.abnd k _ hA).1 c rfl)
  have hcl : closerOf (scanPO pre).1 k = none := closerOf_none_of (fun p hp => (hinv.sd (r, k) hq p hp).1)
  have hop : openerOf (scanPO pre).1 k = none := openerOf_none_of (fun p hp => (hinv.sd (r, k) hq p hp).2)
  have hpend : contribH (annA pre) (scanPO pre).1 c k = some (.pending bk0 r) := by
    unfold contribH; rw [hA]; simp only [if_true, hcl, hop]
  obtain ⟨esi, hv, hmap⟩ := hinv.vw c hclt
  obtain ⟨tnode, hg⟩ : ∃ tnode, s1.graph[c]? = some tnode := by
    cases hh : s1.graph[c]? with
    | none => rw [List.getElem?_eq_none_iff] at hh; omega
    | some n => exact ⟨n, rfl⟩
  rw [view_get hg] at hv
  cases hv
  have hm : Half.pending bk0 r ∈ tnode.edges.map halfOf := by rw [hmap]; exact mem_range_filterMap hklt hpend
  obtain ⟨e0, he0, hh0⟩ := List.mem_map.mp hm
  have hopen0 : isOpenFor r e0 = true := by
    unfold halfOf at hh0
    unfold isOpenFor
    cases ht : e0.target with
    | id t => rw [ht] at hh0; cases hh0
    | rnum i x r' => rw [ht] at hh0; cases hh0; simp
  have hsome : (tnode.edges.find? (isOpenFor r)).isSome := by
    rw [List.find?_isSome]; exact ⟨e0, he0, hopen0⟩
  obtain ⟨edge, hfind⟩ := Option.isSome_iff_exists.mp hsome
  refine ⟨by rw [hinv.stk]; exact hhead, ?_, tnode, edge, hg, hfind, ?_⟩
  · rw [hinv.opn r, hk]; simp [hj]
  · -- the found edge is the one of digit `k`
    have hkind : edge.kind = bk0 := by
      obtain ⟨hmem, hop'⟩ := find_mem_filter hfind
      obtain ⟨i0, x0, ht⟩ := isOpenFor_target hop'
      have hm' : halfOf edge ∈ tnode.edges.map halfOf := List.mem_map_of_mem hmem
      rw [hmap] at hm'
      obtain ⟨j, _, hc⟩ := mem_filterMap_range hm'
      have hh : halfOf edge = .pending edge.kind r := by unfold halfOf; rw [ht]
      rw [hh] at hc
      obtain ⟨⟨cnt, hA'⟩, hcl', hopn'⟩ := contribH_pending hc
      have hjk : j = k := by
        rcases hinv.se j edge.kind r (some c) cnt hA' with ⟨p, hp, hp1 | hp2⟩ | hl
        · exact absurd hp1 (closerOf_none hcl' p hp)
        · exact absurd hp2 (openerOf_none hopn' p hp)
        · rw [hk] at hl; cases hl; rfl
      subst hjk
      rw [hA] at hA'
      cases hA'; rfl
    rcases hwhy with h | ⟨j, b, h⟩ | h
    · exact Or.inl h
    · refine Or.inr (Or.inl ?_)
      have hm' : Half.bond ⟨b, a⟩ ∈ tnode.edges.map halfOf := by rw [hmap]; exact mem_range_filterMap (contribH_lt h) h
      obtain ⟨e1, he1, hh1⟩ := List.mem_map.mp hm'
      unfold hasIdEdge
      simp only [List.any_eq_true, beq_iff_eq]
      refine ⟨e1, he1, ?_⟩
      unfold halfOf at hh1
      cases ht : e1.target with
      | id t => rw [ht] at hh1; cases hh1; rfl
      | rnum i x r' => rw [ht] at hh1; cases hh1
    · exact Or.inr (Or.inr (by rw [hkind]; exact h))

end Purr
