/-
  The round-trip core (RTC), forest case: running the graph builder over the events of the recursive
  traversal of a well-formed graph rebuilds the graph, renumbered in visit order, with each atom's
  arrival bond first.  The simulation is stated on the pointwise `view` of the builder's node list
  (Purr/Lemmas/BuilderL.lean), keyed by the position of an atom in the visit order.
-/
import Purr.Model.WalkRec
import Purr.Lemmas.BuilderL
import Purr.Lemmas.StereoL
import Purr.Lemmas.WalkL
namespace Purr
open Purr.Spec

/-- position of atom `x` in the visit order -/
def pos (ord : List Nat) (x : Nat) : Nat := ord.idxOf x

theorem pos_append_of_mem {ord : List Nat} {x : Nat} (h : x ∈ ord) (more : List Nat) : pos (ord ++ more) x = pos ord x := by
  unfold pos; rw [List.idxOf_append, if_pos h]

theorem pos_lt_of_mem {ord : List Nat} {x : Nat} (h : x ∈ ord) : pos ord x < ord.length := by
  unfold pos; exact List.idxOf_lt_length_of_mem h

theorem pos_snoc_new {ord : List Nat} {x : Nat} (h : x ∉ ord) : pos (ord ++ [x]) x = ord.length := by
  unfold pos
  rw [List.idxOf_append, if_neg h]
  simp

theorem pos_inj {ord : List Nat} {x y : Nat} (hx : x ∈ ord) (hy : y ∈ ord) (h : pos ord x = pos ord y) : x = y := by
  unfold pos at h
  have h1 := List.getElem_idxOf (List.idxOf_lt_length_of_mem hx)
  have h2 := List.getElem_idxOf (List.idxOf_lt_length_of_mem hy)
  rw [← h1, ← h2]
  simp only [h]

/-- the builder's edge for a half-bond of the original graph -/
def edgeOf (ord : List Nat) (b : Bond) : Edge := ⟨b.kind, .id (pos ord b.tid)⟩

/-- the bonds of an atom that the traversal follows or closes from it: all but the one back to its parent -/
def keep (p : Option Nat) (bs : List Bond) : List Bond := bs.filter (fun b => decide (p ≠ some b.tid))

theorem keep_cons_parent {p : Option Nat} {b : Bond} {bs : List Bond} (h : p = some b.tid) : keep p (b :: bs) = keep p bs := by
  unfold keep; rw [List.filter_cons_of_neg (by simp [h])]

theorem keep_cons_other {p : Option Nat} {b : Bond} {bs : List Bond} (h : p ≠ some b.tid) : keep p (b :: bs) = b :: keep p bs := by
  unfold keep; rw [List.filter_cons_of_pos (by simp [h])]

def isJoin : Event × Nat → Bool
  | (.join _ _, _) => true
  | _ => false

theorem brun_append (s : BState) (es fs : List Event) :
    brun s (es ++ fs) = (brun s es).bind (fun s' => brun s' fs) := by
  induction es generalizing s with
  | nil => simp [brun]
  | cons e es ih =>
    simp only [List.cons_append, brun]
    cases bstep s e with
    | none => simp
    | some s1 => exact ih s1

theorem brun_chain {s s0 s1 s2 s3 : BState} {xs ys zs : List Event} {e : Event}
    (h0 : brun s xs = some s0) (h1 : bstep s0 e = some s1) (h2 : brun s1 ys = some s2) (h3 : brun s2 zs = some s3) :
    brun s (xs ++ e :: (ys ++ zs)) = some s3 := by
  rw [brun_append, h0]
  simp only [Option.bind_some, brun, h1]
  rw [brun_append, h2]
  simpa using h3

theorem popEv_map (cur : Nat) : (popEv cur).map (·.1) = if cur > 0 then [Event.pop cur] else [] := by
  unfold popEv; split <;> simp

/-- the optional pop removes the chain above the current atom and nothing else -/
theorem brun_popEv (s : BState) (C : List Nat) (rest : List Nat) (cur : Nat) (hs : s.stack = C ++ rest) (hc : C.length = cur) :
    brun s ((popEv cur).map (·.1)) = some { s with stack := rest } := by
  rw [popEv_map]
  split
  · simp only [brun, bstep]
    congr 2
    rw [hs, ← hc]; simp
  · have : C = [] := by cases C <;> simp_all
    subst this
    simp only [brun]
    congr 1
    cases s; simp_all

end Purr

namespace Purr
open Purr.Spec

theorem view_some {g : List Node} {i : Nat} {es : List Edge} (h : view g i = some es) : ∃ n, g[i]? = some n ∧ n.edges = es := by
  unfold view at h
  cases hn : g[i]? with
  | none => rw [hn] at h; cases h
  | some n => rw [hn] at h; exact ⟨n, rfl, by simpa using h⟩

theorem view_none_of_ge {g : List Node} {i : Nat} (h : g.length ≤ i) : view g i = none := by
  unfold view; rw [List.getElem?_eq_none_iff.mpr h]; rfl

def kindAt (G : List Node) (i : Nat) : Option AtomKind := (G[i]?).map Node.kind

theorem kindAt_eq (G : List Node) (i : Nat) : kindAt G i = (G.map Node.kind)[i]? := by
  unfold kindAt; rw [List.getElem?_map]

/-- running the builder never changes the kind of an existing node -/
theorem brun_kindAt {s s' : BState} {es : List Event} (h : brun s es = some s') {i : Nat} (hi : i < s.graph.length) :
    kindAt s'.graph i = kindAt s.graph i := by
  rw [kindAt_eq, kindAt_eq, brun_kinds es h, List.getElem?_append_left (by simpa using hi)]

/-- the builder's `extend` on the view -/
theorem bstep_extend_view {s : BState} {sid : Nat} {rest : List Nat} {aes : List Edge} (b : BondKind) (k : AtomKind)
    (hst : s.stack = sid :: rest) (hv : view s.graph sid = some aes) :
    ∃ s1, bstep s (.extend b k) = some s1 ∧ s1.stack = s.graph.length :: sid :: rest ∧
      s1.graph.length = s.graph.length + 1 ∧ s1.opens = s.opens ∧ s1.errors = s.errors ∧
      view s1.graph = upd (upd (view s.graph) s.graph.length [⟨b.reverse, .id sid⟩]) sid (aes ++ [⟨b, .id s.graph.length⟩]) ∧
      kindAt s1.graph s.graph.length = some k.invert := by
  obtain ⟨n, hn, hne⟩ := view_some hv
  have hlt : sid < s.graph.length := by
    apply Nat.lt_of_not_le; intro hge
    rw [List.getElem?_eq_none_iff.mpr hge] at hn; cases hn
  have hb : bstep s (.extend b k) = some { s with
      stack := s.graph.length :: s.stack
      graph := addEdge (s.graph ++ [⟨k.invert, [⟨b.reverse, .id sid⟩]⟩]) sid ⟨b, .id s.graph.length⟩ } := by
    simp only [bstep, hst, hlt, if_true]
  refine ⟨_, hb, by simp [hst], by simp [length_addEdge], rfl, rfl, ?_, ?_⟩
  · simp only
    have hn' : (s.graph ++ [⟨k.invert, [⟨b.reverse, .id sid⟩]⟩])[sid]? = some n := by
      rw [getElem?_snoc_lt _ _ hlt]; exact hn
    rw [view_addEdge hn', view_snoc, hne]
  · simp only
    rw [kindAt_eq, addEdge_kinds]
    simp

theorem upd_same (N : View) (i : Nat) (v : List Edge) : upd N i v i = some v := by simp [upd]
theorem upd_other (N : View) {i j : Nat} (v : List Edge) (h : j ≠ i) : upd N i v j = N j := by simp [upd, h]

end Purr

namespace Purr
open Purr.Spec

theorem edgeOf_append {ord : List Nat} {b : Bond} (h : b.tid ∈ ord) (more : List Nat) : edgeOf (ord ++ more) b = edgeOf ord b := by
  unfold edgeOf; rw [pos_append_of_mem h]

theorem map_edgeOf_append {ord : List Nat} {bs : List Bond} (h : ∀ b ∈ bs, b.tid ∈ ord) (more : List Nat) :
    bs.map (edgeOf (ord ++ more)) = bs.map (edgeOf ord) := by
  apply List.map_congr_left
  intro b hb; exact edgeOf_append (h b hb) more

theorem keep_subset {p : Option Nat} {bs : List Bond} {b : Bond} (h : b ∈ keep p bs) : b ∈ bs ∧ p ≠ some b.tid := by
  unfold keep at h
  simp only [List.mem_filter, decide_eq_true_eq] at h
  exact h

/-- what the simulation establishes for a node created during it -/
def NewNode (g : Graph) (G : List Node) (ord : List Nat) (x : Nat) : Prop :=
  ∃ q atomX, q ∈ ord ∧ g[x]? = some atomX ∧ (∃ back, bondsTo atomX.bonds q = [back]) ∧ (∀ b ∈ atomX.bonds, b.tid ∈ ord) ∧
    view G (pos ord x) = some ((bondsTo atomX.bonds q ++ keep (some q) atomX.bonds).map (edgeOf ord)) ∧
    kindAt G (pos ord x) = some (enterKind q atomX.kind atomX.bonds).invert

/-- RTC, forest case: the simulation between the recursive traversal and the graph builder. -/
theorem kids_sim (g : Graph) (hw : WellFormed g) : ∀ (fuel : Nat) (ord : List Nat) (pool : Pool) (a : Nat) (p : Option Nat)
    (bs : List Bond) (cur : Nat) (es : List (Event × Nat)) (ord' : List Nat) (pool' : Pool) (c : Nat),
    kids g fuel ord pool a p bs cur = some (es, ord', pool', c) →
    (∀ e ∈ es, isJoin e = false) → a ∈ ord → ord.Nodup →
    (∃ atomA, g[a]? = some atomA ∧ ∀ b ∈ bs, b ∈ atomA.bonds) →
    ∀ (s : BState) (C S : List Nat) (aes : List Edge), s.stack = C ++ pos ord a :: S → C.length = cur →
      s.graph.length = ord.length → view s.graph (pos ord a) = some aes →
      ∃ s' new, brun s (es.map (·.1)) = some s' ∧ ord' = ord ++ new ∧ ord'.Nodup ∧
        (∃ C', s'.stack = C' ++ pos ord a :: S ∧ C'.length = c) ∧
        s'.graph.length = ord'.length ∧
        (∀ b ∈ keep p bs, b.tid ∈ ord') ∧
        view s'.graph (pos ord a) = some (aes ++ (keep p bs).map (edgeOf ord')) ∧
        (∀ x ∈ new, NewNode g s'.graph ord' x) ∧
        (∀ i, i < ord.length → i ≠ pos ord a → view s'.graph i = view s.graph i) ∧
        s'.opens = s.opens ∧ s'.errors = s.errors := by
  intro fuel
  induction fuel with
  | zero => intro ord pool a p bs cur es ord' pool' c h; simp [kids] at h
  | succ f ih =>
    intro ord pool a p bs cur es ord' pool' c h hj ha hnd hreal s C S aes hs hc hlen hva
    cases bs with
    | nil =>
      simp only [kids, Option.some.injEq, Prod.mk.injEq] at h
      obtain ⟨rfl, rfl, rfl, rfl⟩ := h
      refine ⟨s, [], by simp [brun], by simp, hnd, ⟨C, hs, hc⟩, by simpa using hlen, by simp [keep], by simp [keep, hva],
        by simp, fun i _ _ => rfl, rfl, rfl⟩
    | cons b bs =>
      obtain ⟨atomA, hga, hbonds⟩ := hreal
      have hreal' : ∃ atomA, g[a]? = some atomA ∧ ∀ b' ∈ bs, b' ∈ atomA.bonds :=
        ⟨atomA, hga, fun b' hb' => hbonds b' (List.mem_cons_of_mem _ hb')⟩
      simp only [kids] at h
      split at h
      · -- the arrival bond is skipped
        rename_i hp
        obtain ⟨s', new, h1, h2, h3, h4, h5, h6, h7, h8⟩ := ih ord pool a p bs cur es ord' pool' c h hj ha hnd hreal' s C S aes hs hc hlen hva
        exact ⟨s', new, h1, h2, h3, h4, h5, by rw [keep_cons_parent hp]; exact h6, by rw [keep_cons_parent hp]; exact h7, h8⟩
      · rename_i hp
        split at h
        · -- a ring closure: excluded in the forest case
          split at h
          · split at h
            · simp only [Option.some.injEq, Prod.mk.injEq] at h
              obtain ⟨rfl, _⟩ := h
              have := hj _ (List.mem_append_right _ List.mem_cons_self)
              simp [isJoin] at this
            · cases h
          · cases h
        · rename_i hvis
          have htn : b.tid ∉ ord := by simpa using hvis
          split at h
          · cases h
          · rename_i child hchild
            split at h
            · cases h
            · rename_i es1 ord1 pool1 d1 h1
              split at h
              · cases h
              · rename_i es2 ord2 pool2 c2 h2
                simp only [Option.some.injEq, Prod.mk.injEq] at h
                obtain ⟨rfl, rfl, rfl, rfl⟩ := h
                -- no joins in the pieces
                have hj1 : ∀ e ∈ es1, isJoin e = false := fun e he => hj e (by simp [he])
                have hj2 : ∀ e ∈ es2, isJoin e = false := fun e he => hj e (by simp [he])
                -- well-formedness at the bond a → b.tid
                have hb_in : b ∈ atomA.bonds := hbonds b (by simp)
                obtain ⟨hne, _, tatom, htat, back, hback, hkback⟩ := hw a atomA hga b hb_in
                have : tatom = child := by rw [hchild] at htat; exact (Option.some.inj htat).symm
                subst this
                have hat : a ≠ b.tid := fun e => htn (e ▸ ha)
                -- after the optional pop
                have hpop := brun_popEv s C (pos ord a :: S) cur hs hc
                -- after extend
                obtain ⟨s1, hb1, hst1, hlen1, hop1, herr1, hview1, hkind1⟩ :=
                  bstep_extend_view (s := { s with stack := pos ord a :: S }) b.kind (enterKind a tatom.kind tatom.bonds) rfl hva
                simp only at hst1 hlen1 hop1 herr1 hview1 hkind1
                have hg0 : s.graph.length = ord.length := hlen
                -- positions
                have hpos_t : pos (ord ++ [b.tid]) b.tid = ord.length := pos_snoc_new htn
                have hpos_a : pos (ord ++ [b.tid]) a = pos ord a := pos_append_of_mem ha _
                have hnd1 : (ord ++ [b.tid]).Nodup := by
                  rw [List.nodup_append]; exact ⟨hnd, by simp, by intro x hx y hy; simp at hy; subst hy; exact fun e => htn (e ▸ hx)⟩
                -- the child's subtree
                have hv1t : view s1.graph (pos (ord ++ [b.tid]) b.tid) = some [⟨b.kind.reverse, .id (pos ord a)⟩] := by
                  rw [hview1, hpos_t, hg0]
                  have : ord.length ≠ pos ord a := Nat.ne_of_gt (pos_lt_of_mem ha)
                  rw [upd_other _ _ this, upd_same]
                obtain ⟨s2, new1, hrun1, hord1, hnd_1, ⟨C1, hst2, hC1⟩, hlen2, hin1, hvt, hnew1, hfr1, hop2, herr2⟩ :=
                  ih (ord ++ [b.tid]) pool b.tid (some a) tatom.bonds 0 es1 ord1 pool1 d1 h1 hj1 (by simp) hnd1
                    ⟨tatom, htat, fun _ h => h⟩ s1 [] (pos ord a :: S) _
                    (by rw [hst1, hpos_t, hg0]; rfl) rfl (by rw [hlen1, hg0]; simp) hv1t
                -- back at a
                have ha1 : a ∈ ord1 := by rw [hord1]; simp [ha]
                have hpos_a1 : pos ord1 a = pos ord a := by rw [hord1, List.append_assoc]; exact pos_append_of_mem ha _
                have hva2 : view s2.graph (pos ord1 a) = some (aes ++ [⟨b.kind, .id ord.length⟩]) := by
                  rw [hpos_a1, hfr1 (pos ord a) (by simp; have := pos_lt_of_mem ha; omega) (by rw [hpos_t]; exact Nat.ne_of_lt (pos_lt_of_mem ha)),
                    hview1, hg0, upd_same]
                obtain ⟨s3, new2, hrun2, hord2, hnd_2, ⟨C2, hst3, hC2⟩, hlen3, hin2, hva3, hnew2, hfr2, hop3, herr3⟩ :=
                  ih ord1 pool1 a p bs (1 + d1) es2 ord2 pool2 c2 h2 hj2 ha1 hnd_1 hreal' s2 (C1 ++ [ord.length]) S _
                    (by rw [hst2, hpos_t, hpos_a1]; simp) (by simp [hC1]; omega) hlen2 hva2
                -- assemble
                have hord2' : ord2 = ord ++ (b.tid :: new1 ++ new2) := by rw [hord2, hord1]; simp
                have ht1 : b.tid ∈ ord1 := by rw [hord1]; simp
                have ht2 : b.tid ∈ ord2 := by rw [hord2]; simp [ht1]
                have hrun : brun s ((popEv cur ++ (Event.extend b.kind (enterKind a tatom.kind tatom.bonds), b.tid) :: es1 ++ es2).map (·.1)) = some s3 := by
                  simp only [List.map_append, List.map_cons, List.append_assoc]
                  exact brun_chain hpop hb1 hrun1 hrun2
                refine ⟨s3, b.tid :: new1 ++ new2, hrun, hord2', hnd_2, ⟨C2, by rw [hst3, hpos_a1], hC2⟩, hlen3, ?_, ?_, ?_, ?_, ?_, ?_⟩
                · -- all processed bonds lead to visited atoms
                  intro b' hb'
                  rw [keep_cons_other hp] at hb'
                  simp only [List.mem_cons] at hb'
                  rcases hb' with rfl | hb'
                  · exact ht2
                  · exact hin2 b' hb'
                · -- the edges appended at a
                  rw [← hpos_a1, hva3, keep_cons_other hp]
                  simp only [List.map_cons, List.append_assoc, List.cons_append, List.nil_append]
                  have hpt2 : pos ord2 b.tid = ord.length := by
                    rw [hord2, pos_append_of_mem ht1, hord1, pos_append_of_mem (by simp : b.tid ∈ ord ++ [b.tid])]
                    exact hpos_t
                  simp only [edgeOf, hpt2]
                · -- new nodes
                  intro x hx
                  simp only [List.cons_append, List.mem_cons, List.mem_append] at hx
                  have lift : ∀ y, y ∈ ord1 → NewNode g s2.graph ord1 y → y ≠ a → NewNode g s3.graph ord2 y := by
                    intro y hy ⟨q, atomY, hq, hgy, hbk, hall, hvy, hky⟩ hya
                    have hpy : pos ord2 y = pos ord1 y := by rw [hord2]; exact pos_append_of_mem hy _
                    refine ⟨q, atomY, by rw [hord2]; simp [hq], hgy, hbk, fun b' hb' => by rw [hord2]; simp [hall b' hb'], ?_, ?_⟩
                    · rw [hpy, hfr2 (pos ord1 y) (pos_lt_of_mem hy) (fun e => hya (pos_inj hy ha1 e)), hvy, hord2]
                      congr 1
                      apply (map_edgeOf_append _ new2).symm
                      intro b' hb'
                      simp only [List.mem_append] at hb'
                      rcases hb' with hb' | hb'
                      · exact hall b' (by unfold bondsTo at hb'; exact (List.mem_filter.mp hb').1)
                      · exact hall b' (keep_subset hb').1
                    · rw [hpy, brun_kindAt hrun2 (by rw [hlen2]; exact pos_lt_of_mem hy)]; exact hky
                  rcases hx with hx | hx | hx
                  · -- the child itself
                    subst hx
                    apply lift b.tid ht1 _ (Ne.symm hat)
                    have hpx : pos ord1 b.tid = pos (ord ++ [b.tid]) b.tid := by rw [hord1]; exact pos_append_of_mem (by simp) _
                    refine ⟨a, tatom, ha1, htat, ⟨back, hback⟩, ?_, ?_, ?_⟩
                    rotate_left 2
                    · rw [hpx, hpos_t, brun_kindAt hrun1 (by rw [hlen1, hg0]; omega), ← hg0]; exact hkind1
                    · intro b' hb'
                      by_cases hb'a : b'.tid = a
                      · rw [hb'a]; exact ha1
                      · exact hin1 b' (by unfold keep; simp [hb']; exact fun e => hb'a e.symm)
                    · rw [hpx, hvt, hback]
                      simp only [List.map_append, List.map_cons, List.map_nil, List.cons_append, List.nil_append]
                      congr 2
                      unfold edgeOf
                      have hbt : back.tid = a := by
                        have : back ∈ bondsTo tatom.bonds a := by rw [hback]; simp
                        unfold bondsTo at this
                        simpa using (List.mem_filter.mp this).2
                      rw [hkback, hbt, hpos_a1]
                  · have hx1 : x ∈ ord1 := by rw [hord1]; simp [hx]
                    have hxa : x ≠ a := by
                      intro e; subst e
                      rw [hord1] at hnd_1
                      have := (List.nodup_append.mp hnd_1).2.2 x (by simp [ha]) x hx
                      exact this rfl
                    exact lift x hx1 (hnew1 x hx) hxa
                  · exact hnew2 x hx
                · -- frame
                  intro i hi hia
                  have hi1 : i < ord1.length := by rw [hord1]; simp; omega
                  rw [hfr2 i hi1 (by rw [hpos_a1]; exact hia), hfr1 i (by simp; omega) (by rw [hpos_t]; omega), hview1,
                    upd_other _ _ hia, upd_other _ _ (by rw [hg0]; omega)]
                · rw [hop3, hop2, hop1]
                · rw [herr3, herr2, herr1]

end Purr

namespace Purr
open Purr.Spec

/-- an atom's bond list with the bond it was entered through (if any) moved to the front -/
def arrivalFirst (arr : Option Nat) (bs : List Bond) : List Bond :=
  match arr with
  | none => bs
  | some q => bondsTo bs q ++ keep (some q) bs

/-- the kind the builder ends up recording for an atom entered from `arr` -/
def enteredKind (arr : Option Nat) (atom : Atom) : AtomKind :=
  match arr with
  | none => atom.kind
  | some q => (enterKind q atom.kind atom.bonds).invert

/-- the builder's node for atom `x` is `x` itself, renumbered, arrival bond first -/
def NodeOK (g : Graph) (G : List Node) (ord : List Nat) (x : Nat) : Prop :=
  ∃ atomX arr, g[x]? = some atomX ∧ (∀ b ∈ atomX.bonds, b.tid ∈ ord) ∧
    (∀ q, arr = some q → q ∈ ord ∧ ∃ back, bondsTo atomX.bonds q = [back]) ∧
    view G (pos ord x) = some ((arrivalFirst arr atomX.bonds).map (edgeOf ord)) ∧
    kindAt G (pos ord x) = some (enteredKind arr atomX)

theorem NewNode.nodeOK {g : Graph} {G : List Node} {ord : List Nat} {x : Nat} (h : NewNode g G ord x) : NodeOK g G ord x := by
  obtain ⟨q, atomX, hq, hg, hbk, hall, hv, hk⟩ := h
  exact ⟨atomX, some q, hg, hall, fun q' h' => by cases h'; exact ⟨hq, hbk⟩, hv, hk⟩

theorem keep_none (bs : List Bond) : keep none bs = bs := by
  unfold keep; simp

theorem NodeOK.extend {g : Graph} {G G' : List Node} {ord : List Nat} {x : Nat} (h : NodeOK g G ord x) (hx : x ∈ ord)
    (more : List Nat) (hv : view G' (pos ord x) = view G (pos ord x)) (hk : kindAt G' (pos ord x) = kindAt G (pos ord x)) :
    NodeOK g G' (ord ++ more) x := by
  obtain ⟨atomX, arr, hg, hall, harr, hvx, hkx⟩ := h
  refine ⟨atomX, arr, hg, fun b hb => by simp [hall b hb], fun q hq => ⟨by simp [(harr q hq).1], (harr q hq).2⟩, ?_, ?_⟩
  · rw [pos_append_of_mem hx, hv, hvx]
    congr 1
    apply (map_edgeOf_append _ more).symm
    intro b hb
    cases arr with
    | none => exact hall b hb
    | some q =>
      simp only [arrivalFirst, List.mem_append] at hb
      rcases hb with hb | hb
      · exact hall b (by unfold bondsTo at hb; exact (List.mem_filter.mp hb).1)
      · exact hall b (keep_subset hb).1
  · rw [pos_append_of_mem hx, hk, hkx]

/-- the builder's `root` on the view -/
theorem bstep_root_view (s : BState) (k : AtomKind) :
    ∃ s1, bstep s (.root k) = some s1 ∧ s1.stack = s.graph.length :: s.stack ∧ s1.graph.length = s.graph.length + 1 ∧
      s1.opens = s.opens ∧ s1.errors = s.errors ∧ view s1.graph = upd (view s.graph) s.graph.length [] ∧
      kindAt s1.graph s.graph.length = some k := by
  refine ⟨_, rfl, rfl, by simp, rfl, rfl, by simp only; rw [view_snoc], ?_⟩
  simp only
  rw [kindAt_eq]; simp

/-- RTC, forest case, all components -/
theorem comps_sim (g : Graph) (hw : WellFormed g) (fuel : Nat) : ∀ (ids : List Nat) (ord : List Nat) (pool : Pool)
    (es : List (Event × Nat)) (ord' : List Nat) (pool' : Pool),
    comps g fuel ids ord pool = some (es, ord', pool') → (∀ e ∈ es, isJoin e = false) → ord.Nodup →
    ∀ (s : BState), s.graph.length = ord.length → (∀ x ∈ ord, NodeOK g s.graph ord x) →
      ∃ s' new, brun s (es.map (·.1)) = some s' ∧ ord' = ord ++ new ∧ ord'.Nodup ∧ s'.graph.length = ord'.length ∧
        (∀ x ∈ ord', NodeOK g s'.graph ord' x) ∧ (∀ id ∈ ids, id < g.length → id ∈ ord') ∧
        s'.opens = s.opens ∧ s'.errors = s.errors
  | [], ord, pool, es, ord', pool', h, _, hnd, s, hlen, hok => by
    simp only [comps, Option.some.injEq, Prod.mk.injEq] at h
    obtain ⟨rfl, rfl, rfl⟩ := h
    exact ⟨s, [], by simp [brun], by simp, hnd, hlen, hok, by simp, rfl, rfl⟩
  | id :: ids, ord, pool, es, ord', pool', h, hj, hnd, s, hlen, hok => by
    simp only [comps] at h
    split at h
    · rename_i hvis
      obtain ⟨s', new, h1, h2, h3, h4, h5, h6, h7, h8⟩ := comps_sim g hw fuel ids ord pool es ord' pool' h hj hnd s hlen hok
      refine ⟨s', new, h1, h2, h3, h4, h5, ?_, h7, h8⟩
      intro i hi hlt
      simp only [List.mem_cons] at hi
      rcases hi with rfl | hi
      · rw [h2]; simp [by simpa using hvis]
      · exact h6 i hi hlt
    · rename_i hvis
      have hid : id ∉ ord := by simpa using hvis
      split at h
      · cases h
      · rename_i root hroot
        split at h
        · cases h
        · rename_i es1 ord1 pool1 c1 h1
          split at h
          · cases h
          · rename_i es2 ord2 pool2 h2
            simp only [Option.some.injEq, Prod.mk.injEq] at h
            obtain ⟨rfl, rfl, rfl⟩ := h
            have hj1 : ∀ e ∈ es1, isJoin e = false := fun e he => hj e (by simp [he])
            have hj2 : ∀ e ∈ es2, isJoin e = false := fun e he => hj e (by simp [he])
            obtain ⟨s1, hb1, hst1, hlen1, hop1, herr1, hview1, hkind1⟩ := bstep_root_view s root.kind
            have hnd1 : (ord ++ [id]).Nodup := by
              rw [List.nodup_append]; exact ⟨hnd, by simp, by intro x hx y hy; simp at hy; subst hy; exact fun e => hid (e ▸ hx)⟩
            have hpos : pos (ord ++ [id]) id = ord.length := pos_snoc_new hid
            have hv1 : view s1.graph (pos (ord ++ [id]) id) = some [] := by rw [hview1, hpos, hlen, upd_same]
            obtain ⟨s2, new1, hrun1, hord1, hnd_1, _, hlen2, hin1, hva, hnew1, hfr1, hop2, herr2⟩ :=
              kids_sim g hw fuel (ord ++ [id]) pool id none root.bonds 0 es1 ord1 pool1 c1 h1 hj1 (by simp) hnd1
                ⟨root, hroot, fun _ h => h⟩ s1 [] s.stack []
                (by rw [hst1, hpos, hlen]; rfl) rfl (by rw [hlen1, hlen]; simp) hv1
            -- every atom visited so far is described correctly in s2
            have hok2 : ∀ x ∈ ord1, NodeOK g s2.graph ord1 x := by
              intro x hx
              rw [hord1] at hx ⊢
              simp only [List.mem_append, List.mem_singleton] at hx
              rcases hx with (hx | hx) | hx
              · -- an atom of an earlier component: untouched
                have hpx : pos ord x < ord.length := pos_lt_of_mem hx
                have hne : pos ord x ≠ pos (ord ++ [id]) id := by rw [hpos]; omega
                have hx' : x ∈ ord ++ [id] := by simp [hx]
                have hpx' : pos (ord ++ [id]) x = pos ord x := pos_append_of_mem hx _
                rw [List.append_assoc]
                apply (hok x hx).extend hx
                · rw [← hpx', hfr1 (pos (ord ++ [id]) x) (by rw [hpx']; simp; omega) (by rw [hpx']; exact hne), hview1, hpx',
                    upd_other _ _ (by omega)]
                · rw [brun_kindAt hrun1 (by rw [hlen1]; omega), kindAt_eq, kindAt_eq]
                  have := bstep_kinds hb1
                  rw [this, List.getElem?_append_left (by simpa using (by omega : pos ord x < s.graph.length))]
              · -- the root of this component
                subst hx
                refine ⟨root, none, hroot, ?_, (by intro q h; cases h), ?_, ?_⟩
                · intro b hb; rw [← hord1]; exact hin1 b (by rw [keep_none]; exact hb)
                · have : pos ((ord ++ [x]) ++ new1) x = pos (ord ++ [x]) x := pos_append_of_mem (by simp) _
                  rw [this, hva, keep_none, ← hord1]; simp [arrivalFirst]
                · have : pos ((ord ++ [x]) ++ new1) x = pos (ord ++ [x]) x := pos_append_of_mem (by simp) _
                  rw [this, hpos, brun_kindAt hrun1 (by rw [hlen1]; omega), ← hlen]; exact hkind1
              · rw [← hord1]; exact (hnew1 x hx).nodeOK
            obtain ⟨s3, new2, hrun2, hord2, hnd_2, hlen3, hok3, hids, hop3, herr3⟩ :=
              comps_sim g hw fuel ids ord1 pool1 es2 ord2 pool2 h2 hj2 hnd_1 s2 hlen2 hok2
            refine ⟨s3, id :: new1 ++ new2, ?_, by rw [hord2, hord1]; simp, hnd_2, hlen3, hok3, ?_, by rw [hop3, hop2, hop1], by rw [herr3, herr2, herr1]⟩
            · simp only [List.map_cons, List.map_append]
              have : brun s ([] ++ Event.root root.kind :: (es1.map (·.1) ++ es2.map (·.1))) = some s3 :=
                brun_chain (s0 := s) rfl hb1 hrun1 hrun2
              simpa using this
            · intro i hi hlt
              simp only [List.mem_cons] at hi
              rcases hi with rfl | hi
              · rw [hord2, hord1]; simp
              · exact hids i hi hlt

end Purr

namespace Purr
open Purr.Spec

theorem nodeBonds_all_id : ∀ (es : List Edge), (∀ e ∈ es, ∃ t, e.target = .id t) → nodeBonds es = .ok (es.map toBond)
  | [], _ => rfl
  | e :: es, h => by
    obtain ⟨t, ht⟩ := h e (by simp)
    have ih := nodeBonds_all_id es (fun e' he' => h e' (List.mem_cons_of_mem _ he'))
    simp only [nodeBonds, ht, ih, Except.map, List.map_cons, toBond, tidOf]

theorem buildNodes_all_id : ∀ (G : List Node), (∀ n ∈ G, ∀ e ∈ n.edges, ∃ t, e.target = .id t) →
    buildNodes G = .ok (G.map (fun n => ⟨n.kind, n.edges.map toBond⟩))
  | [], _ => rfl
  | n :: ns, h => by
    have h1 := nodeBonds_all_id n.edges (h n (by simp))
    have ih := buildNodes_all_id ns (fun n' hn' => h n' (List.mem_cons_of_mem _ hn'))
    simp only [buildNodes, h1, ih, Except.map, List.map_cons]

theorem toBond_edgeOf (ord : List Nat) (b : Bond) : toBond (edgeOf ord b) = ⟨b.kind, pos ord b.tid⟩ := rfl

/-- the graph the round trip builds: `g` renumbered in visit order, arrival bonds first -/
def Relabelled (g : Graph) (ord : List Nat) (g' : Graph) : Prop :=
  g'.length = ord.length ∧
  ∀ x ∈ ord, ∃ atomX arr, g[x]? = some atomX ∧ (∀ q, arr = some q → q ∈ ord ∧ ∃ back, bondsTo atomX.bonds q = [back]) ∧
    g'[pos ord x]? = some ⟨enteredKind arr atomX, (arrivalFirst arr atomX.bonds).map (fun b => ⟨b.kind, pos ord b.tid⟩)⟩

/-- the same with the arrival atom pinned down: it was visited before the atom it leads to (so a component root, which is
    bonded to nothing visited before it, has none: `Lemmas/OrderL.lean`) -/
def RelabelledP (g : Graph) (ord : List Nat) (g' : Graph) : Prop :=
  g'.length = ord.length ∧
  ∀ x ∈ ord, ∃ atomX arr, g[x]? = some atomX ∧
    (∀ q, arr = some q → (q ∈ ord ∧ pos ord q < pos ord x) ∧ ∃ back, bondsTo atomX.bonds q = [back]) ∧
    g'[pos ord x]? = some ⟨enteredKind arr atomX, (arrivalFirst arr atomX.bonds).map (fun b => ⟨b.kind, pos ord b.tid⟩)⟩

theorem RelabelledP.relabelled {g : Graph} {ord : List Nat} {g' : Graph} (h : RelabelledP g ord g') : Relabelled g ord g' :=
  ⟨h.1, fun x hx => by
    obtain ⟨atomX, arr, h1, h2, h3⟩ := h.2 x hx
    exact ⟨atomX, arr, h1, fun q hq => ⟨(h2 q hq).1.1, (h2 q hq).2⟩, h3⟩⟩

/-- RTC for forests: building from the events of the traversal of a well-formed graph, when the traversal
    meets no ring closure, gives the graph renumbered in visit order with every arrival bond first. -/
theorem rtc_forest (g : Graph) (hw : WellFormed g) (es : List (Event × Nat)) (ord : List Nat)
    (h : walkRecL g = some (es, ord)) (hj : ∀ e ∈ es, isJoin e = false) :
    ∃ g', build? (es.map (·.1)) = some (.ok g') ∧ Relabelled g ord g' ∧ ord.Nodup ∧ (∀ x, x < g.length ↔ x ∈ ord) := by
  unfold walkRecL at h
  split at h
  · cases h
  · simp only [Option.map_eq_some_iff] at h
    obtain ⟨⟨es0, ord0, pool0⟩, hc, heq⟩ := h
    simp only [Prod.mk.injEq] at heq
    obtain ⟨rfl, rfl⟩ := heq
    obtain ⟨s', new, hrun, hord, hnd, hlen, hok, hids, hop, herr⟩ :=
      comps_sim g hw (recFuel g) (List.range g.length) [] .init es0 ord0 pool0 hc hj (by simp) .init rfl (by simp)
    simp only [BState.init] at hop herr
    -- every node has only resolved bonds
    have hpos_surj : ∀ i, i < s'.graph.length → ∃ x ∈ ord0, pos ord0 x = i := by
      intro i hi
      rw [hlen] at hi
      refine ⟨ord0[i], List.getElem_mem hi, ?_⟩
      unfold pos
      exact (List.Nodup.idxOf_getElem hnd i hi)
    have hall : ∀ n ∈ s'.graph, ∀ e ∈ n.edges, ∃ t, e.target = .id t := by
      intro n hn e he
      obtain ⟨i, hi, hni⟩ := List.getElem_of_mem hn
      obtain ⟨x, hx, hpx⟩ := hpos_surj i hi
      obtain ⟨atomX, arr, _, _, _, hv, _⟩ := hok x hx
      rw [hpx] at hv
      obtain ⟨n', hn', hne'⟩ := view_some hv
      rw [List.getElem?_eq_getElem hi, hni] at hn'
      cases hn'
      rw [hne'] at he
      simp only [List.mem_map] at he
      obtain ⟨b, _, rfl⟩ := he
      exact ⟨_, rfl⟩
    have hbuild := buildNodes_all_id s'.graph hall
    refine ⟨s'.graph.map (fun n => ⟨n.kind, n.edges.map toBond⟩), ?_, ⟨by simp [hlen], ?_⟩, hnd, ?_⟩
    · unfold build?
      rw [hrun]
      simp only [Option.map_some, BState.build, herr, hbuild]
    · intro x hx
      obtain ⟨atomX, arr, hg, _, harr, hv, hk⟩ := hok x hx
      refine ⟨atomX, arr, hg, harr, ?_⟩
      obtain ⟨n, hn, hne⟩ := view_some hv
      rw [List.getElem?_map, hn]
      simp only [Option.map_some]
      have hkn : n.kind = enteredKind arr atomX := by
        unfold kindAt at hk; rw [hn] at hk; simpa using hk
      rw [hkn, hne, List.map_map]
      rfl
    · intro x
      constructor
      · intro hx
        have := hids x (by simp [hx]) hx
        simpa using this
      · intro hx
        obtain ⟨atomX, _, hg, _⟩ := hok x hx
        apply Nat.lt_of_not_le; intro hge
        rw [List.getElem?_eq_none_iff.mpr hge] at hg; cases hg

end Purr

namespace Purr
open Purr.Spec

theorem protoRun_popEv (m cur : Nat) (hm : 1 ≤ m) :
    protoRun (some (m + cur)) ((popEv cur).map (·.1)) = some (some m) := by
  rw [popEv_map]
  split
  · rename_i h
    have : 1 ≤ cur ∧ cur < m + cur := by omega
    simp only [protoRun, stepProto, this, and_self, if_true]
    congr 2; omega
  · have : cur = 0 := by omega
    subst this; simp [protoRun]

theorem protoRun_append' (ps : Option Nat) (a b : List Event) (ps' : Option Nat) (h : protoRun ps a = some ps') :
    protoRun ps (a ++ b) = protoRun ps' b := by
  rw [protoRun_append, h]; rfl

/-- the events of a recursive descent obey the follower protocol: from path length `m + cur` (with `m ≥ 1`
    atoms up to the current one) they lead to `m + c` -/
theorem kids_proto (g : Graph) : ∀ (fuel : Nat) (ord : List Nat) (pool : Pool) (a : Nat) (p : Option Nat) (bs : List Bond) (cur : Nat)
    (es : List (Event × Nat)) (ord' : List Nat) (pool' : Pool) (c : Nat),
    kids g fuel ord pool a p bs cur = some (es, ord', pool', c) → ∀ m, 1 ≤ m →
    protoRun (some (m + cur)) (es.map (·.1)) = some (some (m + c)) := by
  intro fuel
  induction fuel with
  | zero => intro ord pool a p bs cur es ord' pool' c h; simp [kids] at h
  | succ f ih =>
    intro ord pool a p bs cur es ord' pool' c h m hm
    cases bs with
    | nil =>
      simp only [kids, Option.some.injEq, Prod.mk.injEq] at h
      obtain ⟨rfl, _, _, rfl⟩ := h
      simp [protoRun]
    | cons b bs =>
      simp only [kids] at h
      split at h
      · exact ih ord pool a p bs cur es ord' pool' c h m hm
      · split at h
        · split at h
          · split at h
            · rename_i es0 o0 p0 c0 h0
              simp only [Option.some.injEq, Prod.mk.injEq] at h
              obtain ⟨rfl, _, _, rfl⟩ := h
              simp only [List.map_append, List.map_cons]
              rw [protoRun_append' _ _ _ _ (protoRun_popEv m cur hm)]
              simp only [protoRun, stepProto]
              have := ih ord _ a p bs 0 es0 o0 p0 c0 h0 m hm
              simpa using this
            · cases h
          · cases h
        · split at h
          · cases h
          · rename_i child _
            split at h
            · cases h
            · rename_i es1 ord1 pool1 d1 h1
              split at h
              · cases h
              · rename_i es2 ord2 pool2 c2 h2
                simp only [Option.some.injEq, Prod.mk.injEq] at h
                obtain ⟨rfl, _, _, rfl⟩ := h
                simp only [List.map_append, List.map_cons, List.append_assoc]
                rw [protoRun_append' _ _ _ _ (protoRun_popEv m cur hm)]
                simp only [List.cons_append, protoRun, stepProto]
                have e1 := ih _ pool b.tid (some a) child.bonds 0 es1 ord1 pool1 d1 h1 (m + 1) (by omega)
                rw [protoRun_append' _ _ _ _ e1]
                have e2 := ih ord1 pool1 a p bs (1 + d1) es2 ord2 pool2 c2 h2 m hm
                rw [show m + 1 + d1 = m + (1 + d1) by omega]
                exact e2

theorem comps_proto (g : Graph) (fuel : Nat) : ∀ (ids : List Nat) (ord : List Nat) (pool : Pool)
    (es : List (Event × Nat)) (ord' : List Nat) (pool' : Pool),
    comps g fuel ids ord pool = some (es, ord', pool') → ∀ n,
    (protoRun (if n = 0 then none else some n) (es.map (·.1))).isSome
  | [], ord, pool, es, ord', pool', h, n => by
    simp only [comps, Option.some.injEq, Prod.mk.injEq] at h
    obtain ⟨rfl, _, _⟩ := h
    simp [protoRun]
  | id :: ids, ord, pool, es, ord', pool', h, n => by
    simp only [comps] at h
    split at h
    · exact comps_proto g fuel ids ord pool es ord' pool' h n
    · split at h
      · cases h
      · rename_i root _
        split at h
        · cases h
        · rename_i es1 ord1 pool1 c1 h1
          split at h
          · cases h
          · rename_i es2 ord2 pool2 h2
            simp only [Option.some.injEq, Prod.mk.injEq] at h
            obtain ⟨rfl, _, _⟩ := h
            simp only [List.map_cons, List.map_append]
            have hroot : stepProto (if n = 0 then none else some n) (.root root.kind) = some (some (n + 1)) := by
              split
              · rename_i h0; subst h0; rfl
              · rfl
            simp only [List.cons_append, protoRun, hroot]
            have e1 := kids_proto g fuel _ pool id none root.bonds 0 es1 ord1 pool1 c1 h1 (n + 1) (by omega)
            rw [protoRun_append' _ _ _ _ e1]
            have := comps_proto g fuel ids ord1 pool1 es2 ord2 pool2 h2 (n + 1 + c1)
            have hne : ¬ (n + 1 + c1 = 0) := by omega
            simpa [hne] using this

theorem conformant_of_walkRec (g : Graph) (es : List (Event × Nat)) (ord : List Nat) (h : walkRecL g = some (es, ord)) :
    Conformant (es.map (·.1)) := by
  unfold walkRecL at h
  split at h
  · cases h
  · simp only [Option.map_eq_some_iff] at h
    obtain ⟨⟨es0, ord0, pool0⟩, hc, heq⟩ := h
    simp only [Prod.mk.injEq] at heq
    obtain ⟨rfl, rfl⟩ := heq
    have := comps_proto g (recFuel g) _ _ _ _ _ _ hc 0
    simpa [Conformant] using this

end Purr
