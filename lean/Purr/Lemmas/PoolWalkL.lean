/-
  C13 at the level of a whole traversal: the ring numbers still open in what has been written so far are
  exactly the numbers the pool holds open, so the traversal can only fail for lack of a ring number when at
  least 99 closures are open in the text written so far — it never runs out early.
-/
import Purr.Lemmas.PoolL
import Purr.Lemmas.RtcRing
import Purr.Model.Walk
namespace Purr

/-- a ring-closure digit opens its number if it is not open, closes it otherwise -/
def toggle (l : List Nat) (n : Nat) : List Nat := if n ∈ l then l.erase n else n :: l

/-- the ring numbers open after a sequence of follower calls -/
def openAfter : List Nat → List Event → List Nat
  | l, [] => l
  | l, .join _ r :: es => openAfter (toggle l r.val) es
  | l, _ :: es => openAfter l es

theorem openAfter_append : ∀ (a b : List Event) (l : List Nat), openAfter l (a ++ b) = openAfter (openAfter l a) b
  | [], _, _ => rfl
  | e :: a, b, l => by cases e <;> simp only [List.cons_append, openAfter] <;> exact openAfter_append a b _

theorem openAfter_pops (l : List Nat) (n : Nat) : openAfter l (if n > 0 then [Event.pop n] else []) = l := by
  split <;> rfl

structure PoolEv (l : List Nat) (pool : Pool) : Prop where
  inv : pool.Inv
  small : ∀ n ∈ pool.opens, n < 100
  nd : l.Nodup
  same : ∀ n, n ∈ l ↔ n ∈ pool.opens

theorem PoolEv.length {l : List Nat} {pool : Pool} (h : PoolEv l pool) : l.length = pool.opens.length :=
  ((List.perm_ext_iff_of_nodup h.nd h.inv.nodupOpen).mpr h.same).length_eq

theorem hit_panic_many {pool : Pool} {l : List Nat} (h : PoolEv l pool) {ab : Nat × Nat} {n : Nat} {p' : Pool}
    (hh : pool.hit ab = .panic n p') : 99 ≤ l.length := by
  unfold Pool.hit at hh
  have hnat : ∃ q, pool.hitNat ab = q := ⟨_, rfl⟩
  obtain ⟨q, hq⟩ := hnat
  rw [hq] at hh
  obtain ⟨m, p1⟩ := q
  simp only at hh
  cases hr : Rnum.ofNat? m with
  | some r => rw [hr] at hh; cases hh
  | none =>
    have hm : 100 ≤ m := by
      unfold Rnum.ofNat? at hr
      split at hr
      · cases hr
      · omega
    cases hf : pool.find ab with
    | some k =>
      have : m = k := by rw [← hitNat_close_fst hf, hq]
      have := h.small k (find_mem_opens hf)
      omega
    | none =>
      have hspec := hit_open_spec h.inv hf
      simp only [hq] at hspec
      have := C13_count_le_length m pool.opens hspec.2.2.1
      rw [h.length]; omega
where
  C13_count_le_length : ∀ (n : Nat) (l : List Nat), (∀ m, 1 ≤ m → m < n → m ∈ l) → n - 1 ≤ l.length
    | 0, _, _ => by omega
    | 1, _, _ => by omega
    | n + 2, l, h => by
      have hmem : n + 1 ∈ l := h (n + 1) (by omega) (by omega)
      have ih := C13_count_le_length (n + 1) (l.erase (n + 1)) (by
        intro m h1 h2
        exact (List.mem_erase_of_ne (by omega)).mpr (h m h1 (by omega)))
      have := List.length_erase_of_mem hmem
      have : 0 < l.length := List.length_pos_of_mem hmem
      omega

theorem hit_ok_toggle {pool pool1 : Pool} {l : List Nat} (h : PoolEv l pool) {ab : Nat × Nat} {r : Rnum}
    (hh : pool.hit ab = .ok r pool1) : PoolEv (toggle l r.val) pool1 := by
  have hn := hit_ok hh
  have hp1 : pool1 = (pool.hitNat ab).2 := by rw [hn]
  have hr1 : r.val = (pool.hitNat ab).1 := by rw [hn]
  cases hf : pool.find ab with
  | some k =>
    have hrk : r.val = k := by rw [hr1, hitNat_close_fst hf]
    have hk : k ∈ pool.opens := find_mem_opens hf
    have hmem := mem_opens_filter h.inv hf
    have hop : ∀ m, m ∈ pool1.opens ↔ (m ∈ pool.opens ∧ m ≠ k) := by
      intro m; rw [hp1]
      have : (pool.hitNat ab).2.opens = (pool.borrowed.filter (fun e => !pairEq e.1 ab)).map (·.2) := by
        simp only [Pool.hitNat, hf, Pool.opens]
      rw [this]; exact hmem m
    have hkl : k ∈ l := (h.same k).mpr hk
    refine ⟨by rw [hp1]; exact inv_hit h.inv ab, fun n hn' => h.small n ((hop n).mp hn').1, ?_, ?_⟩
    · unfold toggle; rw [hrk, if_pos hkl]; exact h.nd.erase k
    · intro m
      unfold toggle; rw [hrk, if_pos hkl, hop m, h.nd.mem_erase_iff, h.same m]
      exact ⟨fun ⟨a, b⟩ => ⟨b, a⟩, fun ⟨a, b⟩ => ⟨b, a⟩⟩
  | none =>
    have hspec := hit_open_spec h.inv hf
    simp only at hspec
    obtain ⟨_, hnotin, _, hopens⟩ := hspec
    rw [← hr1] at hnotin hopens
    have hnl : r.val ∉ l := fun hm => hnotin ((h.same _).mp hm)
    refine ⟨by rw [hp1]; exact inv_hit h.inv ab, ?_, ?_, ?_⟩
    · intro n hn'
      rw [hp1, hopens] at hn'
      simp only [List.mem_cons] at hn'
      rcases hn' with rfl | hn'
      · exact r.lt
      · exact h.small n hn'
    · unfold toggle; rw [if_neg hnl]; exact List.nodup_cons.mpr ⟨hnl, h.nd⟩
    · intro m
      unfold toggle; rw [if_neg hnl, hp1, hopens]
      simp only [List.mem_cons, h.same m]

end Purr

namespace Purr

/-- one iteration -/
theorem wkStep_pool (g : Graph) (s : WState) (sid : Nat) (bond : Bond) (rest : List (Nat × Bond)) (l : List Nat) (h : PoolEv l s.pool) :
    (∀ evs, wkStep g s sid bond rest = .panic "join_pool.rs:rnum" evs → 99 ≤ (openAfter l evs).length) ∧
    (∀ s' evs, wkStep g s sid bond rest = .cont s' evs → PoolEv (openAfter l evs) s'.pool) := by
  unfold wkStep
  split
  · exact ⟨fun _ h' => (by simp at h'), fun _ _ h' => (by simp at h')⟩
  · split
    · exact ⟨fun _ h' => (by simp at h'), fun _ _ h' => (by simp at h')⟩
    · split
      · exact ⟨fun _ h' => (by simp at h'), fun _ _ h' => (by simp at h')⟩
      · rename_i chain popcount hu
        simp only
        split
        · -- ring bond
          cases hh : s.pool.hit (sid, bond.tid) with
          | ok r pool1 =>
            refine ⟨fun _ h' => (by simp at h'), ?_⟩
            intro s' evs h'
            cases h'
            rw [openAfter_append, openAfter_pops]
            exact hit_ok_toggle h hh
          | panic n p' =>
            refine ⟨?_, fun _ _ h' => (by simp at h')⟩
            intro evs h'
            cases h'
            rw [openAfter_pops]
            exact hit_panic_many h hh
        · split
          · exact ⟨fun _ h' => (by simp at h'), fun _ _ h' => (by simp at h')⟩
          · rename_i child hchild
            generalize scanChild sid bond.tid child.kind child.bonds 0 = r
            obtain ⟨kind, backs, pushes⟩ := r
            simp only
            split
            · exact ⟨fun _ h' => (by simp at h'), fun _ _ h' => (by simp at h')⟩
            · split
              · exact ⟨fun _ h' => (by simp at h'), fun _ _ h' => (by simp at h')⟩
              · refine ⟨fun _ h' => (by simp at h'), ?_⟩
                intro s' evs h'
                cases h'
                rw [openAfter_append, openAfter_pops]
                exact h
            · exact ⟨fun _ h' => (by simp at h'), fun _ _ h' => (by simp at h')⟩

theorem rootLoop_pool (g : Graph) : ∀ (fuel : Nat) (s : WState) (l : List Nat), PoolEv l s.pool →
    ((rootLoop g fuel s).2.1 = .panic "join_pool.rs:rnum" → 99 ≤ (openAfter l (rootLoop g fuel s).1).length) ∧
    ((rootLoop g fuel s).2.1 = .ok → PoolEv (openAfter l (rootLoop g fuel s).1) (rootLoop g fuel s).2.2.pool)
  | 0, s, l, _ => by simp [rootLoop]
  | fuel + 1, s, l, h => by
    rw [rootLoop.eq_def]
    simp only
    cases hst : s.stack with
    | nil => exact ⟨fun h' => (by simp at h'), fun _ => h⟩
    | cons p rest =>
      obtain ⟨sid, bond⟩ := p
      simp only
      obtain ⟨hp, hc⟩ := wkStep_pool g s sid bond rest l h
      cases hw : wkStep g s sid bond rest with
      | err e evs => exact ⟨fun h' => (by simp at h'), fun h' => (by simp at h')⟩
      | panic p evs =>
        simp only
        refine ⟨fun h' => ?_, fun h' => (by simp at h')⟩
        simp only [WalkVerdict.panic.injEq] at h'
        subst h'
        exact hp evs hw
      | cont s' evs =>
        simp only
        obtain ⟨ih1, ih2⟩ := rootLoop_pool g fuel s' (openAfter l evs) (hc s' evs hw)
        rw [openAfter_append]
        exact ⟨ih1, ih2⟩

theorem compLoop_pool (g : Graph) (fuel : Nat) : ∀ (ids : List Nat) (s : WState) (l : List Nat), PoolEv l s.pool →
    (compLoop g fuel ids s).2 = .panic "join_pool.rs:rnum" → 99 ≤ (openAfter l (compLoop g fuel ids s).1).length
  | [], _, _, _, h => by simp [compLoop] at h
  | id :: ids, s, l, hl, h => by
    simp only [compLoop] at h ⊢
    split at h
    · rename_i hv
      rw [if_pos hv]
      exact compLoop_pool g fuel ids s l hl h
    · rename_i hv
      rw [if_neg hv]
      cases hroot : g[id]? with
      | none => rw [hroot] at h; simp at h
      | some root =>
        rw [hroot] at h
        simp only at h ⊢
        have hr := rootLoop_pool g fuel { s with visited := id :: s.visited, stack := root.bonds.map (fun b => (id, b)), chain := [id] } l hl
        generalize rootLoop g fuel { s with visited := id :: s.visited, stack := root.bonds.map (fun b => (id, b)), chain := [id] } = r at hr h
        obtain ⟨es, v, s1⟩ := r
        simp only at hr h ⊢
        cases v with
        | ok =>
          simp only at h ⊢
          have hl1 := hr.2 rfl
          have := compLoop_pool g fuel ids s1 (openAfter l es) hl1 h
          show 99 ≤ (openAfter l (Event.root root.kind :: (es ++ (compLoop g fuel ids s1).1))).length
          simp only [openAfter]
          rw [openAfter_append]; exact this
        | err e => simp only at h; cases h
        | panic p =>
          simp only at h ⊢
          simp only [WalkVerdict.panic.injEq] at h
          subst h
          show 99 ≤ (openAfter l (Event.root root.kind :: es)).length
          simp only [openAfter]
          exact hr.1 rfl

/-- the traversal gives up for lack of a ring number only when at least 99 ring closures are open in what it
    has handed to the follower so far -/
theorem walk_pool_exhausted_late (g : Graph) (evs : List Event) (h : walk g = (evs, .panic "join_pool.rs:rnum")) :
    99 ≤ (openAfter [] evs).length := by
  unfold walk at h
  cases hv : validate g with
  | some e => rw [hv] at h; cases h
  | none =>
    rw [hv] at h
    simp only at h
    have hinit : PoolEv [] Pool.init := ⟨Pool.inv_init, by simp [Pool.opens, Pool.init], by simp, by simp [Pool.opens, Pool.init]⟩
    have := compLoop_pool g (walkFuel g) (List.range g.length) ⟨[], [], [], .init⟩ [] hinit (by rw [h])
    rw [h] at this
    exact this

end Purr

namespace Purr

/-- every ring-closure event that opens a number uses the least number (from 1) not open before it -/
def LeastOpens : List Nat → List Event → Prop
  | _, [] => True
  | l, .join _ r :: es =>
    (r.val ∉ l → 1 ≤ r.val ∧ ∀ m, 1 ≤ m → m < r.val → m ∈ l) ∧ LeastOpens (toggle l r.val) es
  | l, .root _ :: es => LeastOpens l es
  | l, .extend _ _ :: es => LeastOpens l es
  | l, .pop _ :: es => LeastOpens l es

theorem LeastOpens_append : ∀ (a b : List Event) (l : List Nat),
    LeastOpens l (a ++ b) ↔ LeastOpens l a ∧ LeastOpens (openAfter l a) b
  | [], b, l => by simp [LeastOpens, openAfter]
  | e :: a, b, l => by
    cases e with
    | join bk r =>
      simp only [List.cons_append, LeastOpens, openAfter]
      rw [LeastOpens_append a b]
      exact ⟨fun ⟨h1, h2, h3⟩ => ⟨⟨h1, h2⟩, h3⟩, fun ⟨⟨h1, h2⟩, h3⟩ => ⟨h1, h2, h3⟩⟩
    | root k => simp only [List.cons_append, LeastOpens, openAfter]; exact LeastOpens_append a b l
    | extend bk k => simp only [List.cons_append, LeastOpens, openAfter]; exact LeastOpens_append a b l
    | pop n => simp only [List.cons_append, LeastOpens, openAfter]; exact LeastOpens_append a b l

theorem LeastOpens_pops (l : List Nat) (n : Nat) : LeastOpens l (if n > 0 then [Event.pop n] else []) := by
  split <;> simp [LeastOpens]

theorem hit_ok_least {pool pool1 : Pool} {l : List Nat} (h : PoolEv l pool) {ab : Nat × Nat} {r : Rnum}
    (hh : pool.hit ab = .ok r pool1) : r.val ∉ l → 1 ≤ r.val ∧ ∀ m, 1 ≤ m → m < r.val → m ∈ l := by
  intro hnl
  have hn := hit_ok hh
  have hr1 : r.val = (pool.hitNat ab).1 := by rw [hn]
  cases hf : pool.find ab with
  | some k =>
    exfalso
    have hrk : r.val = k := by rw [hr1, hitNat_close_fst hf]
    exact hnl ((h.same _).mpr (hrk ▸ find_mem_opens hf))
  | none =>
    have hspec := hit_open_spec h.inv hf
    simp only at hspec
    rw [← hr1] at hspec
    exact ⟨hspec.1, fun m h1 h2 => (h.same m).mpr (hspec.2.2.1 m h1 h2)⟩

theorem wkStep_least (g : Graph) (s : WState) (sid : Nat) (bond : Bond) (rest : List (Nat × Bond)) (l : List Nat) (h : PoolEv l s.pool) :
    (∀ s' evs, wkStep g s sid bond rest = .cont s' evs → LeastOpens l evs) ∧
    (∀ e evs, wkStep g s sid bond rest = .err e evs → LeastOpens l evs) ∧
    (∀ p evs, wkStep g s sid bond rest = .panic p evs → LeastOpens l evs) := by
  unfold wkStep
  split
  · exact ⟨fun _ _ h' => (by simp at h'), fun _ _ h' => (by simp at h'; obtain ⟨_, rfl⟩ := h'; trivial), fun _ _ h' => (by simp at h')⟩
  · split
    · exact ⟨fun _ _ h' => (by simp at h'), fun _ _ h' => (by simp at h'; obtain ⟨_, rfl⟩ := h'; trivial), fun _ _ h' => (by simp at h')⟩
    · split
      · exact ⟨fun _ _ h' => (by simp at h'), fun _ _ h' => (by simp at h'), fun _ _ h' => (by simp at h'; obtain ⟨_, rfl⟩ := h'; trivial)⟩
      · rename_i chain popcount hu
        simp only
        split
        · cases hh : s.pool.hit (sid, bond.tid) with
          | ok r pool1 =>
            refine ⟨?_, fun _ _ h' => (by simp at h'), fun _ _ h' => (by simp at h')⟩
            intro s' evs h'
            cases h'
            rw [LeastOpens_append, openAfter_pops]
            exact ⟨LeastOpens_pops l _, hit_ok_least h hh, trivial⟩
          | panic n p' =>
            refine ⟨fun _ _ h' => (by simp at h'), fun _ _ h' => (by simp at h'), ?_⟩
            intro p evs h'
            cases h'
            exact LeastOpens_pops l _
        · split
          · refine ⟨fun _ _ h' => (by simp at h'), fun _ _ h' => (by simp at h'), ?_⟩
            intro p evs h'; cases h'; exact LeastOpens_pops l _
          · rename_i child hchild
            generalize scanChild sid bond.tid child.kind child.bonds 0 = r
            obtain ⟨kind, backs, pushes⟩ := r
            simp only
            split
            · refine ⟨fun _ _ h' => (by simp at h'), ?_, fun _ _ h' => (by simp at h')⟩
              intro e evs h'; cases h'; exact LeastOpens_pops l _
            · split
              · refine ⟨fun _ _ h' => (by simp at h'), ?_, fun _ _ h' => (by simp at h')⟩
                intro e evs h'; cases h'; exact LeastOpens_pops l _
              · refine ⟨?_, fun _ _ h' => (by simp at h'), fun _ _ h' => (by simp at h')⟩
                intro s' evs h'
                cases h'
                rw [LeastOpens_append, openAfter_pops]
                exact ⟨LeastOpens_pops l _, trivial⟩
            · refine ⟨fun _ _ h' => (by simp at h'), ?_, fun _ _ h' => (by simp at h')⟩
              intro e evs h'; cases h'; exact LeastOpens_pops l _

theorem rootLoop_least (g : Graph) : ∀ (fuel : Nat) (s : WState) (l : List Nat), PoolEv l s.pool →
    LeastOpens l (rootLoop g fuel s).1
  | 0, s, l, _ => by simp [rootLoop, LeastOpens]
  | fuel + 1, s, l, h => by
    rw [rootLoop.eq_def]
    simp only
    cases hst : s.stack with
    | nil => trivial
    | cons p rest =>
      obtain ⟨sid, bond⟩ := p
      simp only
      obtain ⟨hc, he, hp⟩ := wkStep_least g s sid bond rest l h
      cases hw : wkStep g s sid bond rest with
      | err e evs => exact he e evs hw
      | panic p evs => exact hp p evs hw
      | cont s' evs =>
        simp only
        rw [LeastOpens_append]
        exact ⟨hc s' evs hw, rootLoop_least g fuel s' (openAfter l evs) ((wkStep_pool g s sid bond rest l h).2 s' evs hw)⟩

theorem compLoop_least (g : Graph) (fuel : Nat) : ∀ (ids : List Nat) (s : WState) (l : List Nat), PoolEv l s.pool →
    LeastOpens l (compLoop g fuel ids s).1
  | [], _, _, _ => by simp [compLoop, LeastOpens]
  | id :: ids, s, l, hl => by
    simp only [compLoop]
    split
    · exact compLoop_least g fuel ids s l hl
    · cases hroot : g[id]? with
      | none => simp [LeastOpens]
      | some root =>
        simp only
        have hr := rootLoop_pool g fuel { s with visited := id :: s.visited, stack := root.bonds.map (fun b => (id, b)), chain := [id] } l hl
        have hle := rootLoop_least g fuel { s with visited := id :: s.visited, stack := root.bonds.map (fun b => (id, b)), chain := [id] } l hl
        generalize rootLoop g fuel { s with visited := id :: s.visited, stack := root.bonds.map (fun b => (id, b)), chain := [id] } = r at hr hle
        obtain ⟨es, v, s1⟩ := r
        simp only at hr hle ⊢
        cases v with
        | ok =>
          simp only
          show LeastOpens l (Event.root root.kind :: (es ++ (compLoop g fuel ids s1).1))
          simp only [LeastOpens]
          rw [LeastOpens_append]
          exact ⟨hle, compLoop_least g fuel ids s1 (openAfter l es) (hr.2 rfl)⟩
        | err e => simp only; show LeastOpens l (Event.root root.kind :: es); simp only [LeastOpens]; exact hle
        | panic p => simp only; show LeastOpens l (Event.root root.kind :: es); simp only [LeastOpens]; exact hle

/-- along the whole traversal of any adjacency list, every ring closure is opened with the smallest number from 1
    upward that is not open in what has been handed to the follower so far -/
theorem walk_opens_least (g : Graph) : LeastOpens [] (walk g).1 := by
  unfold walk
  cases hv : validate g with
  | some e => simp [LeastOpens]
  | none =>
    simp only
    have hinit : PoolEv [] Pool.init := ⟨Pool.inv_init, by simp [Pool.opens, Pool.init], by simp, by simp [Pool.opens, Pool.init]⟩
    exact compLoop_least g (walkFuel g) (List.range g.length) ⟨[], [], [], .init⟩ [] hinit

end Purr
