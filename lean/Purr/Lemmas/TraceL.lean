/- Helper lemmas for C15: the locations the reader attaches to its events are token boundaries. -/
import Purr.Lemmas.ShapeL
import Purr.Model.Trace
namespace Purr

/-- a located event of a run over `s` names suffixes of `s` at which the corresponding token reader
    succeeds with exactly that value -/
def SpanOK (s : Str) : LEvent → Prop
  | .root k a e => ∃ x y, Suffix x s ∧ x.length = a ∧ y.length = e ∧ readAtom x = .ok k y
  | .extend _ k a e => ∃ x y, Suffix x s ∧ x.length = a ∧ y.length = e ∧ readAtom x = .ok k y
  | .join b r bc a e => ∃ w x y, Suffix w s ∧ w.length = bc ∧ readBond w = (b, x) ∧ x.length = a ∧ y.length = e ∧
      readRnum x = .ok r y
  | .pop _ => True

theorem SpanOK.mono {s s' : Str} (h : Suffix s' s) {ev : LEvent} (hs : SpanOK s' ev) : SpanOK s ev := by
  cases ev with
  | root k a e => obtain ⟨x, y, h1, h2⟩ := hs; exact ⟨x, y, h1.trans h, h2⟩
  | extend b k a e => obtain ⟨x, y, h1, h2⟩ := hs; exact ⟨x, y, h1.trans h, h2⟩
  | join b r bc a e => obtain ⟨w, x, y, h1, h2⟩ := hs; exact ⟨w, x, y, h1.trans h, h2⟩
  | pop d => trivial

theorem unionStep_atom_inv {s : Str} {b k rest} (h : unionStep s = .atom b k rest) :
    b = (readBond s).1 ∧ readAtom (readBond s).2 = .ok k rest := by
  unfold unionStep at h
  split at h
  · rename_i ha; cases h; exact ⟨rfl, ha⟩
  all_goals (repeat' split at h)
  all_goals cases h

theorem unionStep_ring_inv {s : Str} {b r rest} (h : unionStep s = .ring b r rest) :
    b = (readBond s).1 ∧ readRnum (readBond s).2 = .ok r rest := by
  unfold unionStep at h
  split at h
  · cases h
  · cases h
  · cases h
  · split at h
    · rename_i hr; cases h; exact ⟨rfl, hr⟩
    all_goals (repeat' split at h)
    all_goals cases h

theorem bodyStep_atom_inv {s : Str} {b k rest} (h : bodyStep s = .atom b k rest) :
    b = (readBond s).1 ∧ readAtom (readBond s).2 = .ok k rest := by
  unfold bodyStep at h
  split at h
  · cases h
  · cases h
  · exact unionStep_atom_inv h

theorem bodyStep_ring_inv {s : Str} {b r rest} (h : bodyStep s = .ring b r rest) :
    b = (readBond s).1 ∧ readRnum (readBond s).2 = .ok r rest := by
  unfold bodyStep at h
  split at h
  · cases h
  · cases h
  · exact unionStep_ring_inv h

theorem runL_spans (mode : Mode) (stack : List Nat) (s : Str) : ∀ ev ∈ (runL mode stack s).1, SpanOK s ev := by
  fun_induction runL mode stack s <;> intro ev hev
  case case1 stack s k rest h q ih =>
    simp only [List.mem_cons] at hev
    rcases hev with rfl | hev
    · exact ⟨s, rest, Suffix.refl _, rfl, rfl, h⟩
    · exact (ih ev hev).mono ((readAtom_shape s).ok h).suffix
  case case2 => cases hev
  case case3 => cases hev
  case case4 => cases hev
  case case5 stack s b k rest h q ih =>
    simp only [List.mem_cons] at hev
    rcases hev with rfl | hev
    · exact ⟨s, rest, Suffix.refl _, rfl, rfl, h⟩
    · exact (ih ev hev).mono ((readAtom_shape s).ok h).suffix
  case case6 => cases hev
  case case7 => cases hev
  case case8 => cases hev
  case case9 stack rest ih => exact (ih ev hev).mono (Suffix.refl _).tail
  case case10 stack s hx ih => exact (ih ev hev).mono (readBond_consumes s).suffix
  case case11 stack s rest h ih =>
    have := bodyStep_openParen h; subst this; exact (ih ev hev).mono (Suffix.refl _).tail
  case case12 stack s rest h ih =>
    have := bodyStep_dot h; subst this; exact (ih ev hev).mono (Suffix.refl _).tail
  case case13 stack s b k rest h q ih =>
    simp only [List.mem_cons] at hev
    rcases hev with rfl | hev
    · obtain ⟨_, ha⟩ := bodyStep_atom_inv h
      exact ⟨(readBond s).2, rest, (readBond_consumes s).suffix, rfl, rfl, ha⟩
    · exact (ih ev hev).mono (bodyStep_atom_consumes h).suffix
  case case14 stack s b r rest h q ih =>
    simp only [List.mem_cons] at hev
    rcases hev with rfl | hev
    · obtain ⟨hb, hr⟩ := bodyStep_ring_inv h
      exact ⟨s, (readBond s).2, rest, Suffix.refl _, rfl, by rw [hb], rfl, rfl, hr⟩
    · exact (ih ev hev).mono (bodyStep_ring_consumes h).suffix
  case case15 s rest h l l' st q ih =>
    have := bodyStep_close h; subst this
    simp only [List.mem_cons] at hev
    rcases hev with rfl | hev
    · trivial
    · exact (ih ev hev).mono (Suffix.refl _).tail
  case case16 => cases hev
  case case17 => cases hev
  case case18 => cases hev
  case case19 => cases hev
  case case20 => cases hev

/-- a suffix of known length is the corresponding drop -/
theorem Suffix.eq_drop {x s : Str} (h : Suffix x s) : s.drop (s.length - x.length) = x := by
  obtain ⟨p, rfl⟩ := h; simp

/-! ### what the trace records -/

/-- the cursor ranges the located events of a run give to atoms, in order -/
def atomSpans (n : Nat) : List LEvent → List (Nat × Nat)
  | [] => []
  | .root _ a e :: evs => (n - a, n - e) :: atomSpans n evs
  | .extend _ _ a e :: evs => (n - a, n - e) :: atomSpans n evs
  | _ :: evs => atomSpans n evs

def rnumSpans (n : Nat) : List LEvent → List (Nat × Nat)
  | [] => []
  | .join _ _ _ a e :: evs => (n - a, n - e) :: rnumSpans n evs
  | _ :: evs => rnumSpans n evs

theorem trun_atoms (n : Nat) : ∀ (evs : List LEvent) (t t' : TState), trun n t evs = some t' →
    t'.atoms = t.atoms ++ atomSpans n evs ∧ t'.rnums = t.rnums ++ rnumSpans n evs
  | [], t, t', h => by simp [trun] at h; subst h; simp [atomSpans, rnumSpans]
  | ev :: evs, t, t', h => by
    simp only [trun] at h
    split at h
    · rename_i t1 hstep
      obtain ⟨ih1, ih2⟩ := trun_atoms n evs t1 t' h
      cases ev with
      | root k a e =>
        simp only [tstep] at hstep; cases hstep
        simp [atomSpans, rnumSpans, ih1, ih2]
      | extend b k a e =>
        simp only [tstep] at hstep
        split at hstep
        · cases hstep
        · cases hstep; simp [atomSpans, rnumSpans, ih1, ih2]
      | join b r bc a e =>
        simp only [tstep] at hstep
        split at hstep
        · cases hstep
        · split at hstep <;> (cases hstep; simp [atomSpans, rnumSpans, ih1, ih2])
      | pop d =>
        simp only [tstep] at hstep
        split at hstep
        · cases hstep
        · cases hstep; simp [atomSpans, rnumSpans, ih1, ih2]
    · cases h

end Purr

namespace Purr

theorem mem_atomSpans {n : Nat} {p : Nat × Nat} : ∀ {evs : List LEvent}, p ∈ atomSpans n evs →
    ∃ ev ∈ evs, (∃ k a e, ev = .root k a e ∧ p = (n - a, n - e)) ∨ (∃ b k a e, ev = .extend b k a e ∧ p = (n - a, n - e))
  | [], h => by simp [atomSpans] at h
  | ev :: evs, h => by
    cases ev with
    | root k a e =>
      simp only [atomSpans, List.mem_cons] at h
      rcases h with rfl | h
      · exact ⟨_, by simp, Or.inl ⟨k, a, e, rfl, rfl⟩⟩
      · obtain ⟨ev', hm, hp⟩ := mem_atomSpans h; exact ⟨ev', List.mem_cons_of_mem _ hm, hp⟩
    | extend b k a e =>
      simp only [atomSpans, List.mem_cons] at h
      rcases h with rfl | h
      · exact ⟨_, by simp, Or.inr ⟨b, k, a, e, rfl, rfl⟩⟩
      · obtain ⟨ev', hm, hp⟩ := mem_atomSpans h; exact ⟨ev', List.mem_cons_of_mem _ hm, hp⟩
    | join b r bc a e =>
      simp only [atomSpans] at h
      obtain ⟨ev', hm, hp⟩ := mem_atomSpans h; exact ⟨ev', List.mem_cons_of_mem _ hm, hp⟩
    | pop d =>
      simp only [atomSpans] at h
      obtain ⟨ev', hm, hp⟩ := mem_atomSpans h; exact ⟨ev', List.mem_cons_of_mem _ hm, hp⟩

theorem mem_rnumSpans {n : Nat} {p : Nat × Nat} : ∀ {evs : List LEvent}, p ∈ rnumSpans n evs →
    ∃ ev ∈ evs, ∃ b r bc a e, ev = .join b r bc a e ∧ p = (n - a, n - e)
  | [], h => by simp [rnumSpans] at h
  | ev :: evs, h => by
    cases ev with
    | join b r bc a e =>
      simp only [rnumSpans, List.mem_cons] at h
      rcases h with rfl | h
      · exact ⟨_, by simp, b, r, bc, a, e, rfl, rfl⟩
      · obtain ⟨ev', hm, hp⟩ := mem_rnumSpans h; exact ⟨ev', List.mem_cons_of_mem _ hm, hp⟩
    | root k a e =>
      simp only [rnumSpans] at h
      obtain ⟨ev', hm, hp⟩ := mem_rnumSpans h; exact ⟨ev', List.mem_cons_of_mem _ hm, hp⟩
    | extend b k a e =>
      simp only [rnumSpans] at h
      obtain ⟨ev', hm, hp⟩ := mem_rnumSpans h; exact ⟨ev', List.mem_cons_of_mem _ hm, hp⟩
    | pop d =>
      simp only [rnumSpans] at h
      obtain ⟨ev', hm, hp⟩ := mem_rnumSpans h; exact ⟨ev', List.mem_cons_of_mem _ hm, hp⟩

/-- trace state vs protocol state -/
def TRel (ps : Option Nat) (t : TState) : Prop :=
  match ps with
  | none => t.stack = []
  | some n => 1 ≤ n ∧ t.stack.length = n

theorem tstep_safe (n : Nat) {ps ps' : Option Nat} {t : TState} {ev : LEvent} (hr : TRel ps t)
    (hp : stepProto ps ev.erase = some ps') : ∃ t', tstep n t ev = some t' ∧ TRel ps' t' := by
  cases ev with
  | root k a e =>
    cases ps with
    | none =>
      simp only [LEvent.erase, stepProto] at hp; cases hp
      simp only [TRel] at hr
      exact ⟨_, rfl, by simp [TRel, hr]⟩
    | some m =>
      simp only [LEvent.erase, stepProto] at hp; cases hp
      obtain ⟨h1, h2⟩ := hr
      exact ⟨_, rfl, by simp [TRel]; omega⟩
  | extend b k a e =>
    cases ps with
    | none => simp [LEvent.erase, stepProto] at hp
    | some m =>
      simp only [LEvent.erase, stepProto] at hp; cases hp
      obtain ⟨h1, h2⟩ := hr
      cases hst : t.stack with
      | nil => rw [hst] at h2; simp at h2; omega
      | cons sid rest =>
        simp only [tstep, hst]
        refine ⟨_, rfl, ?_⟩
        rw [hst] at h2; simp [TRel] at h2 ⊢; omega
  | join b r bc a e =>
    cases ps with
    | none => simp [LEvent.erase, stepProto] at hp
    | some m =>
      simp only [LEvent.erase, stepProto] at hp; cases hp
      obtain ⟨h1, h2⟩ := hr
      cases hst : t.stack with
      | nil => rw [hst] at h2; simp at h2; omega
      | cons sid rest =>
        simp only [tstep, hst]
        split
        · exact ⟨_, rfl, by rw [hst] at h2; exact ⟨h1, h2⟩⟩
        · exact ⟨_, rfl, by rw [hst] at h2; exact ⟨h1, h2⟩⟩
  | pop d =>
    cases ps with
    | none => simp [LEvent.erase, stepProto] at hp
    | some m =>
      simp only [LEvent.erase, stepProto] at hp
      split at hp
      · rename_i hd
        cases hp
        obtain ⟨h1, h2⟩ := hr
        have : ¬ d ≥ t.stack.length := by omega
        simp only [tstep, this, if_false]
        exact ⟨_, rfl, by simp [TRel]; omega⟩
      · cases hp

theorem trun_safe (n : Nat) : ∀ (evs : List LEvent) {ps : Option Nat} {t : TState}, TRel ps t →
    (protoRun ps (evs.map LEvent.erase)).isSome → (trun n t evs).isSome
  | [], _, _, _, _ => rfl
  | ev :: evs, ps, t, hr, hp => by
    simp only [List.map_cons, protoRun] at hp
    split at hp
    · rename_i ps' hs
      obtain ⟨t', ht, hr'⟩ := tstep_safe n hr hs
      simp only [trun, ht]
      exact trun_safe n evs hr' hp
    · cases hp

end Purr
