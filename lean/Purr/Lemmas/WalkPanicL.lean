/-
  The traversal loop of `walk` never reaches its internal panic sites on a well-formed adjacency list:
    * `expect("chain head")` — every scheduled half-bond's source atom is on the chain, in stack order;
    * the `atoms` lookups — targets are validated, component roots are atoms;
    * the model's fuel — the loop makes at most (scheduled half-bonds + bonds of unvisited atoms) iterations,
      which `walkFuel` exceeds: the loop model terminates for the same reason the Rust loop does.
  The only panic left is the ring-number pool running out (known finding D17).
-/
import Purr.Lemmas.ValidateL
import Purr.Lemmas.WalkL
import Purr.Lemmas.StereoL
namespace Purr
open Purr.Spec

/-- the sources of the scheduled half-bonds lie on the chain, deeper atoms first -/
def SC : List (Nat × Bond) → List Nat → Prop
  | [], _ => True
  | (x, _) :: rest, chain => ∃ pre post, chain = pre ++ x :: post ∧ x ∉ pre ∧ SC rest (x :: post)

theorem unwind_of_split {x : Nat} : ∀ (pre post : List Nat) (k : Nat), x ∉ pre →
    unwind x (pre ++ x :: post) k = some (x :: post, k + pre.length)
  | [], post, k, _ => by simp [unwind]
  | a :: pre, post, k, h => by
    have ha : a ≠ x := fun e => h (by simp [e])
    simp only [List.cons_append, unwind, ha, if_false]
    rw [unwind_of_split pre post (k + 1) (fun hx => h (by simp [hx]))]
    simp; omega

theorem SC_src : ∀ {st : List (Nat × Bond)} {c : List Nat}, SC st c → ∀ p ∈ st, p.1 ∈ c
  | [], _, _, p, hp => by cases hp
  | (x, b) :: rest, c, h, p, hp => by
    obtain ⟨pre, post, rfl, _, hr⟩ := h
    simp only [List.mem_cons] at hp
    rcases hp with rfl | hp
    · simp
    · have := SC_src hr p hp
      simp only [List.mem_cons] at this
      simp only [List.mem_append, List.mem_cons]
      rcases this with h1 | h1
      · exact Or.inr (Or.inl h1)
      · exact Or.inr (Or.inr h1)

theorem SC_cons {y : Nat} : ∀ {st : List (Nat × Bond)} {c : List Nat}, SC st c → (∀ p ∈ st, p.1 ≠ y) → SC st (y :: c)
  | [], _, _, _ => trivial
  | (x, b) :: rest, c, h, hne => by
    obtain ⟨pre, post, rfl, hx, hr⟩ := h
    refine ⟨y :: pre, post, rfl, ?_, hr⟩
    intro hm
    simp only [List.mem_cons] at hm
    rcases hm with rfl | hm
    · exact hne (x, b) (by simp) rfl
    · exact hx hm

theorem SC_pushes {t : Nat} {c : List Nat} {rest : List (Nat × Bond)} : ∀ (ps : List (Nat × Bond)), (∀ p ∈ ps, p.1 = t) →
    SC rest (t :: c) → SC (ps ++ rest) (t :: c)
  | [], _, h => h
  | (x, b) :: ps, hp, h => by
    have hx : x = t := hp (x, b) (by simp)
    subst hx
    exact ⟨[], c, rfl, by simp, SC_pushes ps (fun p hp' => hp p (by simp [hp'])) h⟩

/-! ### the weight of the unvisited atoms -/

def deg (g : Graph) (x : Nat) : Nat := ((g[x]?).map (fun a => a.bonds.length)).getD 0

def wsum (g : Graph) (vis : List Nat) (l : List Nat) : Nat :=
  ((l.filter (fun x => decide (x ∉ vis))).map (deg g)).sum

def W (g : Graph) (vis : List Nat) : Nat := wsum g vis (List.range g.length)

theorem wsum_visit (g : Graph) (vis : List Nat) (t : Nat) (ht : t ∉ vis) : ∀ (l : List Nat), l.Nodup → t ∈ l →
    wsum g (t :: vis) l + deg g t = wsum g vis l
  | [], _, h => by cases h
  | a :: l, hnd, hm => by
    have hnd' := (List.nodup_cons.mp hnd)
    unfold wsum
    by_cases hat : a = t
    · subst hat
      rw [List.filter_cons_of_neg (by simp), List.filter_cons_of_pos (by simpa using ht)]
      simp only [List.map_cons, List.sum_cons]
      have : l.filter (fun x => decide (x ∉ a :: vis)) = l.filter (fun x => decide (x ∉ vis)) := by
        apply List.filter_congr
        intro x hx
        have : x ≠ a := fun e => hnd'.1 (e ▸ hx)
        simp [this]
      rw [this]; omega
    · have hml : t ∈ l := by
        simp only [List.mem_cons] at hm
        rcases hm with rfl | hm
        · exact absurd rfl hat
        · exact hm
      have ih := wsum_visit g vis t ht l hnd'.2 hml
      unfold wsum at ih
      by_cases hav : a ∈ vis
      · rw [List.filter_cons_of_neg (by simp [hav]), List.filter_cons_of_neg (by simp [hav])]
        exact ih
      · rw [List.filter_cons_of_pos (by simp [hav, hat]), List.filter_cons_of_pos (by simp [hav])]
        simp only [List.map_cons, List.sum_cons]
        omega

theorem W_visit (g : Graph) (vis : List Nat) (t : Nat) (ht : t ∉ vis) (hlt : t < g.length) :
    W g (t :: vis) + deg g t = W g vis :=
  wsum_visit g vis t ht _ List.nodup_range (List.mem_range.mpr hlt)

theorem wsum_le_all (g : Graph) (vis : List Nat) : ∀ (l : List Nat), wsum g vis l ≤ (l.map (deg g)).sum
  | [] => by simp [wsum]
  | a :: l => by
    have ih := wsum_le_all g vis l
    unfold wsum at ih ⊢
    by_cases h : a ∈ vis
    · rw [List.filter_cons_of_neg (by simp [h])]; simp only [List.map_cons, List.sum_cons]; omega
    · rw [List.filter_cons_of_pos (by simp [h])]; simp only [List.map_cons, List.sum_cons]; omega

theorem sum_deg_range (g : Graph) : ((List.range g.length).map (deg g)).sum = (g.map (fun a => a.bonds.length)).sum := by
  congr 1
  apply List.ext_getElem
  · simp
  · intro i h1 h2
    have hi : i < g.length := by simpa using h2
    simp [deg, List.getElem?_eq_getElem hi]

theorem W_lt_walkFuel (g : Graph) (vis : List Nat) : W g vis < walkFuel g := by
  have h1 := wsum_le_all g vis (List.range g.length)
  rw [sum_deg_range] at h1
  unfold W walkFuel
  have : ∀ (l : List Atom), (l.map (fun a => a.bonds.length)).sum ≤ (l.map (fun a => a.bonds.length + 1)).sum := by
    intro l; induction l with
    | nil => simp
    | cons a l ih => simp only [List.map_cons, List.sum_cons]; omega
  have := this g
  omega

end Purr

namespace Purr
open Purr.Spec

theorem scanChild_lengths (sid tid : Nat) (k : AtomKind) : ∀ (bs : List Bond) (i : Nat),
    (scanChild sid tid k bs i).2.1.length + (scanChild sid tid k bs i).2.2.length = bs.length
  | [], _ => rfl
  | o :: os, i => by
    simp only [scanChild]
    have ih := scanChild_lengths sid tid k os (i + 1)
    generalize scanChild sid tid k os (i + 1) = r at ih ⊢
    obtain ⟨k', backs, pushes⟩ := r
    simp only at ih ⊢
    split <;> simp <;> omega

structure LoopInv (g : Graph) (s : WState) : Prop where
  real : StackReal g s.stack
  sc : SC s.stack s.chain
  cv : ∀ x ∈ s.chain, x ∈ s.visited

def Phi (g : Graph) (s : WState) : Nat := s.stack.length + W g s.visited

/-- one iteration on a well-formed graph: either the pool runs out of ring numbers, or the loop continues in
    a state that satisfies the invariant again and is strictly smaller -/
theorem wkStep_inv {g : Graph} (hw : WellFormed g) (s : WState) (sid : Nat) (bond : Bond) (rest : List (Nat × Bond))
    (hst : s.stack = (sid, bond) :: rest) (hi : LoopInv g s) :
    (∃ evs, wkStep g s sid bond rest = .panic "join_pool.rs:rnum" evs) ∨
    ∃ s' evs, wkStep g s sid bond rest = .cont s' evs ∧ LoopInv g s' ∧ Phi g s' < Phi g s := by
  have hreal := hi.real
  rw [hst] at hreal
  obtain ⟨atom, ha, hb⟩ := hreal (sid, bond) (by simp)
  have hrest : StackReal g rest := fun p hp => hreal p (List.mem_cons_of_mem _ hp)
  obtain ⟨hne, hone, tatom, ht, back, hback, hk⟩ := hw sid atom ha bond hb
  have hlt : bond.tid < g.length := by
    apply Nat.lt_of_not_le
    intro hge
    rw [List.getElem?_eq_none_iff.mpr hge] at ht; cases ht
  have hsc := hi.sc
  rw [hst] at hsc
  obtain ⟨pre, post, hchain, hpre, hscr⟩ := hsc
  have hun : unwind sid s.chain 0 = some (sid :: post, 0 + pre.length) := by rw [hchain]; exact unwind_of_split pre post 0 hpre
  have hcv' : ∀ x ∈ sid :: post, x ∈ s.visited := by
    intro x hx; apply hi.cv; rw [hchain]
    simp only [List.mem_cons] at hx
    simp only [List.mem_append, List.mem_cons]
    rcases hx with h | h
    · exact Or.inr (Or.inl h)
    · exact Or.inr (Or.inr h)
  unfold wkStep
  have h1 : ¬ bond.tid ≥ g.length := by omega
  simp only [h1, if_false, hne, hun]
  by_cases hv : s.visited.contains bond.tid = true
  · simp only [hv, if_true]
    cases s.pool.hit (sid, bond.tid) with
    | ok r pool =>
      right
      refine ⟨_, _, rfl, ⟨hrest, hscr, hcv'⟩, ?_⟩
      simp only [Phi, hst, List.length_cons]; omega
    | panic n p => left; exact ⟨_, rfl⟩
  · simp only [hv, ht]
    have hvn : bond.tid ∉ s.visited := by simpa using hv
    have hbacks := scanChild_backs sid bond.tid tatom.kind tatom.bonds 0
    have hpush := scanChild_pushes sid bond.tid tatom.kind tatom.bonds 0
    have hlens := scanChild_lengths sid bond.tid tatom.kind tatom.bonds 0
    generalize scanChild sid bond.tid tatom.kind tatom.bonds 0 = r at hbacks hpush hlens
    obtain ⟨kind, backs, pushes⟩ := r
    simp only at hbacks hpush hlens ⊢
    rw [hback] at hbacks
    subst hbacks
    have hkk : ¬ (bond.kind ≠ back.kind.reverse) := by
      simp; exact (rev_eq_iff _ _).mp hk
    simp only [hkk, if_false]
    right
    refine ⟨_, _, rfl, ⟨?_, ?_, ?_⟩, ?_⟩
    · intro p hp
      simp only [List.mem_append] at hp
      rcases hp with hp | hp
      · obtain ⟨h1', h2'⟩ := hpush p hp
        exact ⟨tatom, by rw [h1']; exact ht, h2'⟩
      · exact hrest p hp
    · simp only
      apply SC_pushes pushes (fun p hp => (hpush p hp).1)
      apply SC_cons hscr
      intro p hp e
      have := SC_src hscr p hp
      exact hvn (e ▸ hcv' _ this)
    · simp only
      intro x hx
      simp only [List.mem_cons] at hx ⊢
      rcases hx with h | h
      · exact Or.inl h
      · exact Or.inr (hcv' x (by simpa using h))
    · simp only [Phi, hst, List.length_cons, List.length_append]
      have hW := W_visit g s.visited bond.tid hvn hlt
      have hdeg : deg g bond.tid = tatom.bonds.length := by simp [deg, ht]
      simp only [List.length_cons, List.length_nil] at hlens
      omega

end Purr

namespace Purr
open Purr.Spec

theorem rootLoop_inv {g : Graph} (hw : WellFormed g) : ∀ (fuel : Nat) (s : WState), LoopInv g s → Phi g s < fuel →
    (rootLoop g fuel s).2.1 = .ok ∨ (rootLoop g fuel s).2.1 = .panic "join_pool.rs:rnum"
  | 0, _, _, h => by omega
  | fuel + 1, s, hi, hphi => by
    simp only [rootLoop]
    cases hst : s.stack with
    | nil => left; rfl
    | cons p rest =>
      obtain ⟨sid, bond⟩ := p
      simp only
      rcases wkStep_inv hw s sid bond rest hst hi with ⟨evs, hp⟩ | ⟨s', evs, hc, hi', hlt⟩
      · rw [hp]; right; rfl
      · rw [hc]
        simp only
        exact rootLoop_inv hw fuel s' hi' (by omega)

theorem compLoop_inv {g : Graph} (hw : WellFormed g) : ∀ (ids : List Nat) (s : WState), (∀ id ∈ ids, id < g.length) →
    (compLoop g (walkFuel g) ids s).2 = .ok ∨ (compLoop g (walkFuel g) ids s).2 = .panic "join_pool.rs:rnum"
  | [], _, _ => Or.inl rfl
  | id :: ids, s, hids => by
    simp only [compLoop]
    split
    · exact compLoop_inv hw ids s (fun i hi => hids i (by simp [hi]))
    · rename_i hvis
      have hidlt : id < g.length := hids id (by simp)
      cases hroot : g[id]? with
      | none => rw [List.getElem?_eq_none_iff] at hroot; omega
      | some root =>
        simp only
        have hvn : id ∉ s.visited := by simpa using hvis
        have hi0 : LoopInv g { s with visited := id :: s.visited, stack := root.bonds.map (fun b => (id, b)), chain := [id] } := by
          refine ⟨?_, ?_, ?_⟩
          · intro p hp
            simp only [List.mem_map] at hp
            obtain ⟨b, hb, rfl⟩ := hp
            exact ⟨root, hroot, hb⟩
          · have := SC_pushes (t := id) (c := []) (rest := []) (root.bonds.map (fun b => (id, b)))
              (by intro p hp; simp only [List.mem_map] at hp; obtain ⟨b, _, rfl⟩ := hp; rfl) trivial
            simpa using this
          · intro x hx; simp only [List.mem_singleton] at hx; subst hx; simp
        have hphi : Phi g { s with visited := id :: s.visited, stack := root.bonds.map (fun b => (id, b)), chain := [id] } < walkFuel g := by
          simp only [Phi, List.length_map]
          have hW := W_visit g s.visited id hvn hidlt
          have hdeg : deg g id = root.bonds.length := by simp [deg, hroot]
          have := W_lt_walkFuel g s.visited
          omega
        have hr := rootLoop_inv hw (walkFuel g) _ hi0 hphi
        generalize rootLoop g (walkFuel g) { s with visited := id :: s.visited, stack := root.bonds.map (fun b => (id, b)), chain := [id] } = r at hr
        obtain ⟨es, v, s1⟩ := r
        simp only at hr ⊢
        rcases hr with hr | hr
        · subst hr
          simp only
          exact compLoop_inv hw ids s1 (fun i hi => hids i (by simp [hi]))
        · subst hr; right; rfl

/-- the traversal of ANY adjacency list ends with `ok`, with one of the five documented errors, or — only when
    the ring-number pool is exhausted (more than 99 closures open at once, known finding D17) — with that one
    panic: the loop's `expect("chain head")` and `atoms` lookups are unreachable and the loop terminates. -/
theorem walk_panic_only_rnum (g : Graph) (site : String) (h : (walk g).2 = .panic site) : site = "join_pool.rs:rnum" := by
  unfold walk at h
  cases hv : validate g with
  | some e => rw [hv] at h; cases h
  | none =>
    rw [hv] at h
    simp only at h
    have hw := (validate_none_iff g).mp hv
    rcases compLoop_inv hw (List.range g.length) ⟨[], [], [], .init⟩ (fun i hi => List.mem_range.mp hi) with h1 | h1
    · rw [h1] at h; cases h
    · rw [h1] at h; cases h; rfl

end Purr
