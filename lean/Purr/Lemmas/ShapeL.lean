/-
  Shape lemmas for the token readers: what a reader consumed is a prefix of its input that contains
  no parenthesis, and a reported failure position is a suffix of the input.
-/
import Purr.Lemmas.ReaderL
import Purr.Lemmas.TokenL
namespace Purr

def NoParen (c : Char) : Prop := c ≠ '(' ∧ c ≠ ')'

/-- `rest` is what remains of `s` after a parenthesis-free token -/
def Consumes (s rest : Str) : Prop := ∃ tok, s = tok ++ rest ∧ ∀ c ∈ tok, NoParen c

theorem Consumes.refl (s : Str) : Consumes s s := ⟨[], rfl, by simp⟩

theorem Consumes.cons {c : Char} {r : Str} (hc : NoParen c) : Consumes (c :: r) r :=
  ⟨[c], rfl, by simpa using hc⟩

theorem Consumes.trans {a b c : Str} (h1 : Consumes a b) (h2 : Consumes b c) : Consumes a c := by
  obtain ⟨t1, rfl, p1⟩ := h1
  obtain ⟨t2, rfl, p2⟩ := h2
  exact ⟨t1 ++ t2, by simp, by
    intro x hx
    rcases List.mem_append.mp hx with h | h
    · exact p1 x h
    · exact p2 x h⟩

theorem Consumes.cons' {c : Char} {r rest : Str} (hc : NoParen c) (h : Consumes r rest) : Consumes (c :: r) rest :=
  (Consumes.cons hc).trans h

theorem isDigit_noParen {c : Char} (h : isDigit c = true) : NoParen c := by
  constructor <;> (intro hc; subst hc; revert h; decide)

/-- `a` is a suffix of `s` -/
def Suffix (a s : Str) : Prop := ∃ p, s = p ++ a

theorem Suffix.refl (s : Str) : Suffix s s := ⟨[], rfl⟩
theorem Suffix.tail {c : Char} {a r : Str} (h : Suffix a r) : Suffix a (c :: r) := by
  obtain ⟨p, rfl⟩ := h; exact ⟨c :: p, rfl⟩
theorem Suffix.trans {a b c : Str} (h1 : Suffix a b) (h2 : Suffix b c) : Suffix a c := by
  obtain ⟨p, rfl⟩ := h1; obtain ⟨q, rfl⟩ := h2; exact ⟨q ++ p, by simp⟩
theorem Consumes.suffix {s rest : Str} (h : Consumes s rest) : Suffix rest s := by
  obtain ⟨t, rfl, _⟩ := h; exact ⟨t, rfl⟩
theorem Suffix.nil (s : Str) : Suffix [] s := ⟨s, by simp⟩
theorem Suffix.length_le {a s : Str} (h : Suffix a s) : a.length ≤ s.length := by
  obtain ⟨p, rfl⟩ := h; simp

macro "np" : tactic => `(tactic| (unfold NoParen; decide))

theorem readBond_consumes (s : Str) : Consumes s (readBond s).2 := by
  unfold readBond
  split <;> first | exact Consumes.cons (by np) | exact Consumes.refl _

theorem takeDigits_consumes : ∀ (n acc : Nat) (s : Str), Consumes s (takeDigits n acc s).2
  | 0, _, s => Consumes.refl s
  | _ + 1, _, [] => Consumes.refl _
  | n + 1, acc, c :: r => by
    simp only [takeDigits]
    split
    · rename_i h; exact Consumes.cons' (isDigit_noParen h) (takeDigits_consumes n _ r)
    · exact Consumes.refl _

/-- what a reader result says about its input: the rest follows a parenthesis-free token, a failure
    position is a suffix -/
def ResShape {α : Type} (s : Str) : Res α → Prop
  | .ok _ r => Consumes s r
  | .fail a => Suffix a s
  | _ => True

theorem ResShape.ok {α} {s : Str} {x : α} {r : Str} {res : Res α} (h : ResShape s res) (e : res = .ok x r) : Consumes s r := by
  subst e; exact h
theorem ResShape.fail {α} {s a : Str} {res : Res α} (h : ResShape s res) (e : res = .fail a) : Suffix a s := by
  subst e; exact h

/-- reading continues inside `s'`, a remainder of `s`: shapes compose -/
theorem ResShape.after {α} {s s' : Str} {res : Res α} (hc : Consumes s s') (h : ResShape s' res) : ResShape s res := by
  cases res with
  | ok x r => exact hc.trans h
  | fail a => exact Suffix.trans h hc.suffix
  | absent => trivial
  | panic p => trivial

theorem readRnum_shape (s : Str) : ResShape s (readRnum s) := by
  unfold readRnum
  split
  · trivial
  · rename_i c r
    split
    · rename_i hd; exact Consumes.cons (isDigit_noParen hd)
    · split
      · rename_i hp
        subst hp
        split
        · exact Suffix.nil _
        · rename_i d1 r1
          split
          · rename_i hd1
            split
            · exact Suffix.nil _
            · rename_i d2 r2
              split
              · rename_i hd2
                exact Consumes.cons' (by np) (Consumes.cons' (isDigit_noParen hd1) (Consumes.cons (isDigit_noParen hd2)))
              · exact ((Suffix.refl _).tail).tail
          · exact (Suffix.refl _).tail
      · trivial

theorem readOrganic_shape (s : Str) : ResShape s (readOrganic s) := by
  unfold readOrganic
  split
  all_goals first
    | exact Consumes.cons (by np)
    | trivial
    | (split
       · exact Consumes.cons' (by np) (Consumes.cons (by np))
       · first | exact (Suffix.refl _).tail | exact Consumes.cons (by np))

theorem readSymbol_shape (s : Str) : ResShape s (readSymbol s) := by
  unfold readSymbol
  split
  · exact Suffix.nil _
  · rename_i c r
    split
    · rename_i hc
      have hcp : NoParen c := by
        constructor <;> (intro h; subst h; revert hc; decide)
      split
      · split
        · exact Consumes.cons hcp
        · exact Suffix.nil _
      · rename_i d r'
        split
        · rename_i x hx
          have hd : NoParen d := by
            have hl : isLower d = true := List.all_eq_true.mp symTwo_lower _ (lookup2_mem hx)
            constructor <;> (intro h; subst h; revert hl; decide)
          exact Consumes.cons' hcp (Consumes.cons hd)
        · split
          · exact Consumes.cons hcp
          · exact (Suffix.refl _).tail
    · exact Suffix.refl _


theorem cfgRes_shape {s rest at_ : Str} (o : Option Configuration) (hr : Consumes s rest) (ha : Suffix at_ s) :
    ResShape s (cfgRes o rest at_) := by
  unfold cfgRes; split
  · exact hr
  · exact ha

theorem readCfgDigit_shape (f : Nat → Option Configuration) (s : Str) : ResShape s (readCfgDigit f s) := by
  unfold readCfgDigit
  split
  · exact Suffix.nil _
  · split
    · rename_i hd; exact cfgRes_shape _ (Consumes.cons (isDigit_noParen hd)) (Suffix.refl _)
    · exact Suffix.refl _

theorem readCfgTwoDigit_shape (f : Nat → Option Configuration) (t u : Nat) (s : Str) :
    ResShape s (readCfgTwoDigit f t u s) := by
  unfold readCfgTwoDigit
  split
  · exact Suffix.nil _
  · rename_i c r
    split
    · rename_i hd
      have hc : NoParen c := by
        simp only [Bool.and_eq_true] at hd; exact isDigit_noParen hd.1
      simp only
      split
      · split
        · split
          · rename_i he; exact cfgRes_shape _ (Consumes.cons' hc (Consumes.cons (isDigit_noParen he))) (Suffix.refl _)
          · exact cfgRes_shape _ (Consumes.cons hc) (Suffix.refl _)
        · exact cfgRes_shape _ (Consumes.cons hc) (Suffix.refl _)
      · split
        · split
          · exact cfgRes_shape _ (Consumes.cons' hc (Consumes.cons (by np))) (Suffix.refl _)
          · exact cfgRes_shape _ (Consumes.cons hc) (Suffix.refl _)
        · exact cfgRes_shape _ (Consumes.cons hc) (Suffix.refl _)
    · exact Suffix.refl _

theorem readConfiguration_shape (s : Str) : ResShape s (readConfiguration s) := by
  unfold readConfiguration
  split
  · split
    · exact Consumes.cons' (by np) (Consumes.cons (by np))
    · split
      · exact ResShape.after (Consumes.cons' (by np) (Consumes.cons' (by np) (Consumes.cons (by np)))) (readCfgDigit_shape _ _)
      · exact ((Suffix.refl _).tail).tail
    · split
      · exact ResShape.after (Consumes.cons' (by np) (Consumes.cons' (by np) (Consumes.cons (by np)))) (readCfgTwoDigit_shape _ _ _ _)
      · exact ((Suffix.refl _).tail).tail
    · split
      · exact ResShape.after (Consumes.cons' (by np) (Consumes.cons' (by np) (Consumes.cons (by np)))) (readCfgDigit_shape _ _)
      · exact ((Suffix.refl _).tail).tail
    · split
      · exact ResShape.after (Consumes.cons' (by np) (Consumes.cons' (by np) (Consumes.cons (by np)))) (readCfgTwoDigit_shape _ _ _ _)
      · exact ResShape.after (Consumes.cons' (by np) (Consumes.cons' (by np) (Consumes.cons (by np)))) (readCfgDigit_shape _ _)
      · exact ((Suffix.refl _).tail).tail
    · exact Consumes.cons (by np)
  · exact Consumes.refl _

theorem readHcount_consumes (s : Str) : Consumes s (readHcount s).2 := by
  unfold readHcount
  split
  · split
    · split
      · rename_i hd; exact Consumes.cons' (by np) (Consumes.cons (isDigit_noParen hd))
      · exact Consumes.cons (by np)
    · exact Consumes.cons (by np)
  · exact Consumes.refl _

theorem readFifteen_consumes {s : Str} {v : Nat} {r : Str} (h : readFifteen s = some (v, r)) : Consumes s r := by
  unfold readFifteen at h
  split at h
  · cases h
  · split at h
    · rename_i hc; subst hc
      split at h
      · split at h
        · rename_i hd; cases h
          simp only [Bool.and_eq_true] at hd
          exact Consumes.cons' (by np) (Consumes.cons (isDigit_noParen hd.1))
        · cases h; exact Consumes.cons (by np)
      · cases h; exact Consumes.cons (by np)
    · split at h
      · rename_i hd; cases h
        simp only [Bool.and_eq_true] at hd
        exact Consumes.cons (isDigit_noParen hd.1)
      · cases h

theorem readCharge_shape (s : Str) : ResShape s (readCharge s) := by
  unfold readCharge
  split
  · split
    · rename_i hf
      split
      · exact Consumes.cons' (by np) (readFifteen_consumes hf)
      · trivial
    · split
      · exact Consumes.cons' (by np) (Consumes.cons (by np))
      · exact Consumes.cons (by np)
  · split
    · rename_i hf
      split
      · exact Consumes.cons' (by np) (readFifteen_consumes hf)
      · trivial
    · split
      · exact Consumes.cons' (by np) (Consumes.cons (by np))
      · exact Consumes.cons (by np)
  · exact Consumes.refl _

theorem readIsotope_consumes (s : Str) : Consumes s (readIsotope s).2 := by
  unfold readIsotope
  split
  · exact Consumes.refl _
  · split
    · rename_i hd; exact Consumes.cons' (isDigit_noParen hd) (takeDigits_consumes _ _ _)
    · exact Consumes.refl _

theorem readMap_shape (s : Str) : ResShape s (readMap s) := by
  unfold readMap
  split
  · split
    · exact Suffix.nil _
    · split
      · rename_i hd; exact Consumes.cons' (by np) (Consumes.cons' (isDigit_noParen hd) (takeDigits_consumes _ _ _))
      · exact (Suffix.refl _).tail
  · exact Consumes.refl _

theorem readBracket_shape (s : Str) : ResShape s (readBracket s) := by
  unfold readBracket
  split
  · rename_i r
    simp only
    have c1 : Consumes ('[' :: r) (readIsotope r).2 := Consumes.cons' (by np) (readIsotope_consumes r)
    generalize readIsotope r = iso at c1
    obtain ⟨isotope, r1⟩ := iso
    simp only at c1 ⊢
    have hs := readSymbol_shape r1
    split
    · rename_i a hf; exact Suffix.trans (hs.fail hf) c1.suffix
    · trivial
    · exact c1.suffix
    · rename_i symbol r2 hsym
      have c2 := c1.trans (hs.ok hsym)
      have hc := readConfiguration_shape r2
      split
      · rename_i a hf; exact Suffix.trans (hc.fail hf) c2.suffix
      · trivial
      · exact c2.suffix
      · rename_i configuration r3 hcfg
        have c3 := c2.trans (hc.ok hcfg)
        have c4 := c3.trans (readHcount_consumes r3)
        generalize readHcount r3 = hh at c4
        obtain ⟨hcount, r4⟩ := hh
        simp only at c4 ⊢
        have hq := readCharge_shape r4
        split
        · rename_i a hf; exact Suffix.trans (hq.fail hf) c4.suffix
        · trivial
        · exact c4.suffix
        · rename_i charge r5 hch
          have c5 := c4.trans (hq.ok hch)
          have hm := readMap_shape r5
          split
          · rename_i a hf; exact Suffix.trans (hm.fail hf) c5.suffix
          · trivial
          · exact c5.suffix
          · rename_i map r6 hmap
            have c6 := c5.trans (hm.ok hmap)
            split
            · exact c6.trans (Consumes.cons (by np))
            · exact c6.suffix
  · trivial

theorem readAtom_shape (s : Str) : ResShape s (readAtom s) := by
  unfold readAtom
  have ho := readOrganic_shape s
  split
  · rename_i h; exact ho.ok h
  · rename_i h; exact ho.fail h
  · trivial
  · have hb := readBracket_shape s
    split
    · rename_i h; exact hb.ok h
    · rename_i h; exact hb.fail h
    · trivial
    · split
      · exact Consumes.cons (by np)
      · trivial


/-! ### body steps -/

theorem unionStep_atom_consumes {s : Str} {b k rest} (h : unionStep s = .atom b k rest) : Consumes s rest := by
  unfold unionStep at h
  split at h
  · rename_i ha; cases h
    exact (readBond_consumes s).trans ((readAtom_shape _).ok ha)
  all_goals (repeat' split at h)
  all_goals cases h

theorem unionStep_ring_consumes {s : Str} {b r rest} (h : unionStep s = .ring b r rest) : Consumes s rest := by
  unfold unionStep at h
  split at h
  · cases h
  · cases h
  · cases h
  · split at h
    · rename_i hr; cases h
      exact (readBond_consumes s).trans ((readRnum_shape _).ok hr)
    all_goals (repeat' split at h)
    all_goals cases h

theorem unionStep_fail_suffix {s a : Str} (h : unionStep s = .fail a) : Suffix a s := by
  unfold unionStep at h
  split at h
  · cases h
  · rename_i hf; cases h
    exact Suffix.trans ((readAtom_shape _).fail hf) (readBond_consumes s).suffix
  · cases h
  · split at h
    · cases h
    · rename_i hf; cases h
      exact Suffix.trans ((readRnum_shape _).fail hf) (readBond_consumes s).suffix
    · cases h
    · split at h
      · cases h; exact (readBond_consumes s).suffix
      · split at h
        · cases h
        · cases h
        · cases h; exact Suffix.refl _

theorem bodyStep_atom_consumes {s : Str} {b k rest} (h : bodyStep s = .atom b k rest) : Consumes s rest := by
  unfold bodyStep at h
  split at h
  · cases h
  · cases h
  · exact unionStep_atom_consumes h

theorem bodyStep_ring_consumes {s : Str} {b r rest} (h : bodyStep s = .ring b r rest) : Consumes s rest := by
  unfold bodyStep at h
  split at h
  · cases h
  · cases h
  · exact unionStep_ring_consumes h

theorem bodyStep_fail_suffix {s a : Str} (h : bodyStep s = .fail a) : Suffix a s := by
  unfold bodyStep at h
  split at h
  · cases h
  · cases h
  · exact unionStep_fail_suffix h

/-! ### C05 (range): a reported failure position lies inside the input -/

theorem run_fail_suffix (mode : Mode) (stack : List Nat) (s : Str) :
    ∀ a, (run mode stack s).2 = .fail a → Suffix a s := by
  fun_induction run mode stack s <;> intro a hv
  case case1 stack s k rest h q ih =>
    exact Suffix.trans (ih a hv) ((readAtom_shape s).ok h).suffix
  case case2 => cases hv; exact Suffix.refl _
  case case3 h => cases hv; exact (readAtom_shape _).fail h
  case case4 => cases hv
  case case5 stack s b k rest h q ih =>
    exact Suffix.trans (ih a hv) ((readAtom_shape s).ok h).suffix
  case case6 => cases hv; exact Suffix.refl _
  case case7 h => cases hv; exact (readAtom_shape _).fail h
  case case8 => cases hv
  case case9 stack rest ih => exact (ih a hv).tail
  case case10 stack s hx ih => exact Suffix.trans (ih a hv) (readBond_consumes s).suffix
  case case11 stack s rest h ih =>
    have := bodyStep_openParen h; subst this; exact (ih a hv).tail
  case case12 stack s rest h ih =>
    have := bodyStep_dot h; subst this; exact (ih a hv).tail
  case case13 stack s b k rest h q ih =>
    exact Suffix.trans (ih a hv) (bodyStep_atom_consumes h).suffix
  case case14 stack s b r rest h q ih =>
    exact Suffix.trans (ih a hv) (bodyStep_ring_consumes h).suffix
  case case15 s rest h l l' st q ih =>
    have := bodyStep_close h; subst this; exact (ih a hv).tail
  case case16 => cases hv; exact Suffix.refl _
  case case17 => cases hv
  case case18 => cases hv; exact Suffix.nil _
  case case19 h => cases hv; exact bodyStep_fail_suffix h
  case case20 => cases hv

/-! ### C19: the stack of open parentheses never exceeds the nesting of the raw input -/

/-- running parenthesis depth of a raw string, started at `cur`; the result is the maximum reached -/
def nestFrom : Nat → Str → Nat
  | cur, [] => cur
  | cur, '(' :: r => max cur (nestFrom (cur + 1) r)
  | cur, ')' :: r => max cur (nestFrom (cur - 1) r)
  | cur, _ :: r => nestFrom cur r

theorem le_nestFrom : ∀ (s : Str) (cur : Nat), cur ≤ nestFrom cur s
  | [], cur => Nat.le_refl _
  | c :: r, cur => by
    unfold nestFrom
    split
    · cases ‹c :: r = []›
    · exact Nat.le_max_left _ _
    · exact Nat.le_max_left _ _
    · rename_i heq; cases heq; exact le_nestFrom _ _

theorem nestFrom_noParen {c : Char} (h : NoParen c) (cur : Nat) (r : Str) : nestFrom cur (c :: r) = nestFrom cur r := by
  conv => lhs; unfold nestFrom
  split
  · cases ‹c :: r = []›
  · rename_i heq; cases heq; exact absurd rfl h.1
  · rename_i heq; cases heq; exact absurd rfl h.2
  · rename_i heq; cases heq; rfl

theorem nestFrom_consumes {s rest : Str} (h : Consumes s rest) (cur : Nat) : nestFrom cur s = nestFrom cur rest := by
  obtain ⟨tok, rfl, hp⟩ := h
  induction tok with
  | nil => rfl
  | cons c t ih =>
    rw [List.cons_append, nestFrom_noParen (hp c (by simp))]
    exact ih (fun x hx => hp x (List.mem_cons_of_mem _ hx))

theorem bump_length {stack : List Nat} (h : stack ≠ []) : (bump stack).length = stack.length := by
  cases stack with
  | nil => exact absurd rfl h
  | cons a t => rfl

theorem bump_ne_nil (stack : List Nat) : bump stack ≠ [] := by
  cases stack <;> simp [bump]

theorem runDepth_le_nest (mode : Mode) (stack : List Nat) (s : Str) (hne : stack ≠ []) :
    runDepth mode stack s ≤ nestFrom stack.length s := by
  fun_induction runDepth mode stack s
  case case1 stack s k rest h ih =>
    have := ih (bump_ne_nil _)
    rw [bump_length hne] at this
    rw [nestFrom_consumes ((readAtom_shape s).ok h)]
    exact Nat.max_le.mpr ⟨le_nestFrom _ _, this⟩
  case case2 => exact le_nestFrom _ _
  case case3 stack s b k rest h ih =>
    have := ih (bump_ne_nil _)
    rw [bump_length hne] at this
    rw [nestFrom_consumes ((readAtom_shape s).ok h)]
    exact Nat.max_le.mpr ⟨le_nestFrom _ _, this⟩
  case case4 => exact le_nestFrom _ _
  case case5 stack rest ih =>
    rw [nestFrom_noParen (by np)]; exact ih hne
  case case6 stack s hx ih =>
    rw [nestFrom_consumes (readBond_consumes s)]; exact ih hne
  case case7 stack s rest h ih =>
    have := bodyStep_openParen h; subst this
    have := ih (by simp)
    simp only [List.length_cons] at this
    unfold nestFrom
    exact Nat.le_trans this (Nat.le_max_right _ _)
  case case8 stack s rest h ih =>
    have := bodyStep_dot h; subst this
    rw [nestFrom_noParen (by np)]; exact ih hne
  case case9 stack s b k rest h ih =>
    have := ih (bump_ne_nil _)
    rw [bump_length hne] at this
    rw [nestFrom_consumes (bodyStep_atom_consumes h)]
    exact Nat.max_le.mpr ⟨le_nestFrom _ _, this⟩
  case case10 stack s b r rest h ih =>
    rw [nestFrom_consumes (bodyStep_ring_consumes h)]
    exact Nat.max_le.mpr ⟨le_nestFrom _ _, ih hne⟩
  case case11 s rest h l l' st ih =>
    have := bodyStep_close h; subst this
    have := ih (by simp)
    simp only [List.length_cons] at this ⊢
    unfold nestFrom
    apply Nat.max_le.mpr
    constructor
    · exact Nat.le_max_left _ _
    · exact Nat.le_trans this (by simp only [Nat.add_sub_cancel]; exact Nat.le_max_right _ _)
  case case12 => exact le_nestFrom _ _
  case case13 => exact le_nestFrom _ _

end Purr
