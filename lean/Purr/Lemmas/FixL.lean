/-
  The written form of a graph is a fixed point of the round trip (C14): traversing the graph that was
  read back from the written text emits the same events (up to the C07 shorthands), hence writes the same
  text.  The traversal of the original `g` and of the re-read `g'` are run in lockstep; `g'` is `g`
  renumbered by visit position (`π = pos ordF`) with every arrival bond first, so an atom entered from its
  parent through bond index 0 — the parity compensation of walker and builder cancel exactly.

  The simulation of Purr/Lemmas/RtcRing.lean is repeated here with one more conclusion (the lockstep
  clause), because the lockstep needs the ghost `proc` of that simulation at every tree edge.
-/
import Purr.Lemmas.RtcRing
import Purr.Lemmas.NormL
namespace Purr
open Purr.Spec

/-! ### fuel monotonicity of the recursive traversal -/

theorem kids_mono (g : Graph) : ∀ (f : Nat) (ord : List Nat) (pool : Pool) (a : Nat) (p : Option Nat) (bs : List Bond) (cur : Nat)
    (r : List (Event × Nat) × List Nat × Pool × Nat),
    kids g f ord pool a p bs cur = some r → kids g (f + 1) ord pool a p bs cur = some r := by
  intro f
  induction f with
  | zero => intro ord pool a p bs cur r h; simp [kids] at h
  | succ f ih =>
    intro ord pool a p bs cur r h
    cases bs with
    | nil => simpa [kids] using h
    | cons b bs =>
      simp only [kids] at h ⊢
      split
      · rename_i hp; rw [if_pos hp] at h; exact ih _ _ _ _ _ _ _ h
      · rename_i hp; rw [if_neg hp] at h
        split
        · rename_i hv; rw [if_pos hv] at h
          split at h
          · rename_i r1 pool1 hhit
            split at h
            · rename_i es ord' pool'' c h2
              simp only [ih _ _ _ _ _ _ _ h2]
              exact h
            · cases h
          · cases h
        · rename_i hv; rw [if_neg hv] at h
          split at h
          · cases h
          · rename_i child hc
            split at h
            · cases h
            · rename_i es1 ord1 pool1 d1 h1
              split at h
              · cases h
              · rename_i es2 ord2 pool2 c h2
                simp only [ih _ _ _ _ _ _ _ h1, ih _ _ _ _ _ _ _ h2]
                exact h

theorem kids_mono_le (g : Graph) {f f' : Nat} (hle : f ≤ f') {ord pool a p bs cur r}
    (h : kids g f ord pool a p bs cur = some r) : kids g f' ord pool a p bs cur = some r := by
  induction hle with
  | refl => exact h
  | step _ ih => exact kids_mono g _ _ _ _ _ _ _ _ ih

theorem comps_mono_le (g : Graph) {f f' : Nat} (hle : f ≤ f') : ∀ (ids ord : List Nat) (pool : Pool) r,
    comps g f ids ord pool = some r → comps g f' ids ord pool = some r
  | [], ord, pool, r, h => by simpa [comps] using h
  | id :: ids, ord, pool, r, h => by
    simp only [comps] at h ⊢
    split
    · rename_i hv; rw [if_pos hv] at h; exact comps_mono_le g hle ids ord pool r h
    · rename_i hv; rw [if_neg hv] at h
      split at h
      · cases h
      · rename_i root hr
        split at h
        · cases h
        · rename_i es ord1 pool1 c1 h1
          split at h
          · cases h
          · rename_i es' ord2 pool2 h2
            simp only [kids_mono_le g hle h1, comps_mono_le g hle ids ord1 pool1 _ h2]
            exact h

end Purr

namespace Purr
open Purr.Spec

/-! ### renumbering the pool's keys -/

def Pool.mapK (π : Nat → Nat) (p : Pool) : Pool :=
  { p with borrowed := p.borrowed.map (fun e => ((π e.1.1, π e.1.2), e.2)) }

/-- the keys of the pool are visited atoms -/
def PoolKeys (D : List Nat) (p : Pool) : Prop := ∀ e ∈ p.borrowed, e.1.1 ∈ D ∧ e.1.2 ∈ D

def InjOn (π : Nat → Nat) (D : List Nat) : Prop := ∀ x ∈ D, ∀ y ∈ D, π x = π y → x = y

theorem pairEq_map {π : Nat → Nat} {D : List Nat} (hi : InjOn π D) {a t x y : Nat} (ha : a ∈ D) (ht : t ∈ D) (hx : x ∈ D) (hy : y ∈ D) :
    pairEq (π x, π y) (π a, π t) = pairEq (x, y) (a, t) := by
  apply Bool.eq_iff_iff.mpr
  rw [pairEq_iff, pairEq_iff]
  simp only
  constructor
  · rintro (⟨h1, h2⟩ | ⟨h1, h2⟩)
    · exact Or.inl ⟨hi x hx a ha h1, hi y hy t ht h2⟩
    · exact Or.inr ⟨hi x hx t ht h1, hi y hy a ha h2⟩
  · rintro (⟨h1, h2⟩ | ⟨h1, h2⟩)
    · exact Or.inl ⟨by rw [h1], by rw [h2]⟩
    · exact Or.inr ⟨by rw [h1], by rw [h2]⟩

theorem find_mapK {π : Nat → Nat} {D : List Nat} (hi : InjOn π D) {p : Pool} (hk : PoolKeys D p) {a t : Nat} (ha : a ∈ D) (ht : t ∈ D) :
    (p.mapK π).find (π a, π t) = p.find (a, t) := by
  unfold Pool.find Pool.mapK
  simp only
  have : ∀ (l : List ((Nat × Nat) × Nat)), (∀ e ∈ l, e.1.1 ∈ D ∧ e.1.2 ∈ D) →
      ((l.map (fun e => ((π e.1.1, π e.1.2), e.2))).find? (fun e => pairEq e.1 (π a, π t))).map (·.2) =
      (l.find? (fun e => pairEq e.1 (a, t))).map (·.2) := by
    intro l
    induction l with
    | nil => intro _; rfl
    | cons e l ih =>
      intro hl
      have he := hl e (by simp)
      simp only [List.map_cons, List.find?_cons]
      rw [pairEq_map hi ha ht he.1 he.2]
      cases pairEq (e.1.1, e.1.2) (a, t) with
      | true => rfl
      | false => exact ih (fun e' he' => hl e' (List.mem_cons_of_mem _ he'))
  exact this p.borrowed hk

theorem hitNat_mapK {π : Nat → Nat} {D : List Nat} (hi : InjOn π D) {p : Pool} (hk : PoolKeys D p) {a t : Nat} (ha : a ∈ D) (ht : t ∈ D) :
    (p.mapK π).hitNat (π a, π t) = ((p.hitNat (a, t)).1, (p.hitNat (a, t)).2.mapK π) := by
  have hf := find_mapK hi hk ha ht
  unfold Pool.hitNat
  rw [hf]
  cases hfa : p.find (a, t) with
  | some n =>
    simp only [Pool.mapK, List.filter_map]
    congr 2
    apply congrArg
    apply List.filter_congr
    intro e he
    have hke := hk e he
    simp only [Function.comp]
    rw [pairEq_map hi ha ht hke.1 hke.2]
  | none =>
    simp only
    have hrep : (p.mapK π).replaced = p.replaced := rfl
    have hcnt : (p.mapK π).counter = p.counter := rfl
    rw [hrep]
    cases hm : minOf p.replaced with
    | some m => simp [Pool.mapK]
    | none => simp [Pool.mapK]

theorem hit_mapK {π : Nat → Nat} {D : List Nat} (hi : InjOn π D) {p : Pool} (hk : PoolKeys D p) {a t : Nat} (ha : a ∈ D) (ht : t ∈ D)
    {r : Rnum} {p' : Pool} (h : p.hit (a, t) = .ok r p') : (p.mapK π).hit (π a, π t) = .ok r (p'.mapK π) := by
  have hn := hit_ok h
  unfold Pool.hit
  rw [hitNat_mapK hi hk ha ht, hn]
  simp only
  have : Rnum.ofNat? r.val = some r := by
    unfold Rnum.ofNat?; rw [dif_pos r.lt]
  rw [this]

theorem poolKeys_hit {D : List Nat} {p : Pool} (hk : PoolKeys D p) {a t : Nat} (ha : a ∈ D) (ht : t ∈ D) :
    PoolKeys D (p.hitNat (a, t)).2 := by
  unfold Pool.hitNat
  cases hf : p.find (a, t) with
  | some n =>
    intro e he
    exact hk e (List.mem_filter.mp he).1
  | none =>
    simp only
    cases minOf p.replaced with
    | some m =>
      intro e he
      simp only [List.mem_cons] at he
      rcases he with rfl | he
      · exact ⟨ha, ht⟩
      · exact hk e he
    | none =>
      intro e he
      simp only [List.mem_cons] at he
      rcases he with rfl | he
      · exact ⟨ha, ht⟩
      · exact hk e he

theorem PoolKeys.mono {D D' : List Nat} {p : Pool} (h : PoolKeys D p) (hs : ∀ x ∈ D, x ∈ D') : PoolKeys D' p :=
  fun e he => ⟨hs _ (h e he).1, hs _ (h e he).2⟩

/-! ### kinds: entering through bond index 0 undoes the builder's compensation -/

theorem hasH_norm (k : AtomKind) : hasH k.norm = hasH k := by
  cases k with
  | bracket b =>
    obtain ⟨iso, sym, cfg, h, q, m⟩ := b
    simp only [AtomKind.norm, Bracket.norm, hasH, hasH.hcountOf']
    cases h with
    | none => rfl
    | some hh =>
      simp only [hnorm]
      by_cases h0 : hh.val = 0
      · simp [h0]
      · simp [h0]
  | _ => rfl

theorem norm_flipMark (k : AtomKind) : k.flipMark.norm = k.norm.flipMark := by
  cases k with
  | bracket b =>
    obtain ⟨iso, sym, cfg, h, q, m⟩ := b
    cases cfg with
    | none => rfl
    | some c => cases c <;> rfl
  | _ => rfl

/-- re-entering an atom of the re-read graph through its first bond gives the kind the original traversal
    handed to the follower (normalised): `k0` is that kind, `k0.invert` what the builder stored -/
theorem reenter_kind (k0 : AtomKind) :
    flipN (0 + 0 + (if hasH k0.invert.norm then 1 else 0)) k0.invert.norm = k0.norm := by
  rw [invert_eq]
  by_cases hh : hasH k0 = true
  · have h1 : hasH k0.flipMark.norm = true := by rw [hasH_norm, hasH_flipMark]; exact hh
    rw [if_pos hh, if_pos h1]
    show flipN 1 k0.flipMark.norm = k0.norm
    unfold flipN
    rw [if_pos (by decide), ← norm_flipMark, flipMark_flipMark]
  · have h1 : ¬ hasH k0.norm = true := by rw [hasH_norm]; exact hh
    rw [if_neg hh, if_neg h1]
    show flipN 0 k0.norm = k0.norm
    unfold flipN
    rw [if_neg (by decide)]

end Purr

namespace Purr
open Purr.Spec

/-! ### unfolding lemmas for `kids` -/

theorem kids_skip_eq (g : Graph) (f : Nat) (ord : List Nat) (pool : Pool) (a : Nat) (p : Option Nat) (b : Bond) (bs : List Bond) (cur : Nat)
    (hp : p = some b.tid) : kids g (f + 1) ord pool a p (b :: bs) cur = kids g f ord pool a p bs cur := by
  simp only [kids, hp, if_true]

theorem kids_join_eq (g : Graph) (f : Nat) (ord : List Nat) (pool pool1 : Pool) (a : Nat) (p : Option Nat) (b : Bond) (bs : List Bond) (cur : Nat)
    (r : Rnum) {es ord' pool' c} (hp : p ≠ some b.tid) (hv : ord.contains b.tid = true) (hh : pool.hit (a, b.tid) = .ok r pool1)
    (hk : kids g f ord pool1 a p bs 0 = some (es, ord', pool', c)) :
    kids g (f + 1) ord pool a p (b :: bs) cur = some (popEv cur ++ (.join b.kind r, 0) :: es, ord', pool', c) := by
  simp only [kids, hp, if_false, hv, if_true, hh, hk]

theorem kids_tree_eq (g : Graph) (f : Nat) (ord : List Nat) (pool : Pool) (a : Nat) (p : Option Nat) (b : Bond) (bs : List Bond) (cur : Nat)
    (child : Atom) {es1 ord1 pool1 d1 es2 ord2 pool2 c} (hp : p ≠ some b.tid) (hv : ord.contains b.tid = false)
    (hc : g[b.tid]? = some child)
    (h1 : kids g f (ord ++ [b.tid]) pool b.tid (some a) child.bonds 0 = some (es1, ord1, pool1, d1))
    (h2 : kids g f ord1 pool1 a p bs (1 + d1) = some (es2, ord2, pool2, c)) :
    kids g (f + 1) ord pool a p (b :: bs) cur =
      some (popEv cur ++ (.extend b.kind (enterKind a child.kind child.bonds), b.tid) :: es1 ++ es2, ord2, pool2, c) := by
  simp only [kids, hp, if_false, hv, Bool.false_eq_true, hc, h1, h2]

/-! ### the lockstep -/

/-- a half-bond of `g` in the numbering of the re-read graph -/
def relB (ordF : List Nat) (b : Bond) : Bond := ⟨b.kind, pos ordF b.tid⟩

/-- an event of the traversal of `g`, as the traversal of the re-read graph emits it -/
def evMap (ordF : List Nat) : Event × Nat → Event × Nat
  | (.root k, x) => (.root k.norm, pos ordF x)
  | (.extend b k, x) => (.extend b k.norm, pos ordF x)
  | e => e

theorem evMap_fst (ordF : List Nat) (e : Event × Nat) : (evMap ordF e).1 = e.1.norm := by
  obtain ⟨ev, x⟩ := e
  cases ev <;> rfl

theorem evMap_popEv (ordF : List Nat) (cur : Nat) : (popEv cur).map (evMap ordF) = popEv cur := by
  unfold popEv; split <;> rfl

/-- the re-read graph's node for `x` carries the kind the builder stored (normalised) and the processed
    bonds of `x`, renumbered -/
def NodeAgree (g' : Graph) (ordF : List Nat) (G : List Node) (ordc : List Nat) (proc : Nat → List Bond) (x : Nat) : Prop :=
  ∃ k, kindAt G (pos ordc x) = some k ∧ g'[pos ordF x]? = some ⟨k.norm, (proc x).map (relB ordF)⟩

theorem injOn_pos {ordF : List Nat} : InjOn (pos ordF) ordF := fun _ hx _ hy h => pos_inj hx hy h

theorem contains_map_pos {ordF ord : List Nat} (hord : ∀ x ∈ ord, x ∈ ordF) {t : Nat} (ht : t ∈ ordF) :
    (ord.map (pos ordF)).contains (pos ordF t) = ord.contains t := by
  apply Bool.eq_iff_iff.mpr
  simp only [List.contains_iff_mem, List.mem_map]
  constructor
  · rintro ⟨x, hx, hxt⟩
    have := pos_inj (hord x hx) ht hxt
    rw [← this]; exact hx
  · intro h; exact ⟨t, h, rfl⟩

theorem pmap_ne {ordF : List Nat} {p : Option Nat} (hp_in : ∀ q, p = some q → q ∈ ordF) {t : Nat} (ht : t ∈ ordF)
    (h : p ≠ some t) : p.map (pos ordF) ≠ some (pos ordF t) := by
  cases p with
  | none => simp
  | some q =>
    simp only [Option.map_some, ne_eq, Option.some.injEq]
    intro e
    exact h (by rw [pos_inj (hp_in q rfl) ht e])

end Purr

namespace Purr
open Purr.Spec

/-- the simulation of `kids_simR` with the lockstep clause: the traversal of the re-read graph `g'` from the
    corresponding state emits the corresponding events -/
theorem kids_fix (g : Graph) (hw : WellFormed g) (g' : Graph) (ordF : List Nat)
    (hFall : ∀ (x : Nat) (atomX : Atom), g[x]? = some atomX → ∀ b ∈ atomX.bonds, b.tid ∈ ordF) :
    ∀ (fuel : Nat) (ord : List Nat) (pool : Pool) (a : Nat) (p : Option Nat)
    (bs : List Bond) (cur : Nat) (es : List (Event × Nat)) (ord' : List Nat) (pool' : Pool) (c : Nat),
    kids g fuel ord pool a p bs cur = some (es, ord', pool', c) → a ∈ ord →
    ∀ (atomA : Atom) (pre : List Bond), g[a]? = some atomA → atomA.bonds = pre ++ bs →
    ∀ (s : BState) (C S : List Nat) (proc : Nat → List Bond), RInv g ord pool s proc →
      s.stack = C ++ pos ord a :: S → C.length = cur → proc a = procAt p atomA.bonds pre →
      (∀ x ∈ ord, x ∈ ordF) → PoolKeys ord pool → (∀ q, p = some q → q ∈ ordF) →
      ∃ s' new proc', brun s (es.map (·.1)) = some s' ∧ ord' = ord ++ new ∧
        (∃ C', s'.stack = C' ++ pos ord a :: S ∧ C'.length = c) ∧
        RInv g ord' pool' s' proc' ∧ proc' a = procAt p atomA.bonds (pre ++ bs) ∧
        (∀ x ∈ ord, x ≠ a → proc' x = proc x) ∧
        (∀ x ∈ new, Done g s'.graph ord' proc' x) ∧
        (∀ x ∈ ord', x ∈ ordF) ∧ PoolKeys ord' pool' ∧
        ((∀ x ∈ new, NodeAgree g' ordF s'.graph ord' proc' x) → ∀ f2, 2 * fuel ≤ f2 →
          kids g' f2 (ord.map (pos ordF)) (pool.mapK (pos ordF)) (pos ordF a) (p.map (pos ordF))
              ((keep p bs).map (relB ordF)) cur
            = some (es.map (evMap ordF), ord'.map (pos ordF), pool'.mapK (pos ordF), c)) := by
  intro fuel
  induction fuel with
  | zero => intro ord pool a p bs cur es ord' pool' c h; simp [kids] at h
  | succ f ih =>
    intro ord pool a p bs cur es ord' pool' c h ha atomA pre hga hbonds s C S proc hinv hs hc hpa hordF hkeys hp_in
    have haF : a ∈ ordF := hordF a ha
    cases bs with
    | nil =>
      simp only [kids, Option.some.injEq, Prod.mk.injEq] at h
      obtain ⟨rfl, rfl, rfl, rfl⟩ := h
      refine ⟨s, [], proc, by simp [brun], by simp, ⟨C, hs, hc⟩, by simpa using hinv, by simpa using hpa, fun _ _ _ => rfl,
        by simp, hordF, hkeys, ?_⟩
      intro _ f2 hf2
      obtain ⟨k, rfl⟩ : ∃ k, f2 = k + 1 := ⟨f2 - 1, by omega⟩
      simp [kids, keep]
    | cons b bs =>
      have hbonds' : atomA.bonds = (pre ++ [b]) ++ bs := by rw [hbonds]; simp
      have hb_in : b ∈ atomA.bonds := by rw [hbonds]; simp
      have htF : b.tid ∈ ordF := hFall a atomA hga b hb_in
      obtain ⟨hne, huniq, tatom, htat, back, hback, hkback⟩ := hw a atomA hga b hb_in
      have hbt : back.tid = a := by
        have : back ∈ bondsTo tatom.bonds a := by rw [hback]; simp
        unfold bondsTo at this
        simpa using (List.mem_filter.mp this).2
      have hback_in : back ∈ tatom.bonds := by
        have : back ∈ bondsTo tatom.bonds a := by rw [hback]; simp
        unfold bondsTo at this
        exact (List.mem_filter.mp this).1
      simp only [kids] at h
      split at h
      · -- the bond back to the parent
        rename_i hp
        obtain ⟨s', new, proc', h1, h2, h3, h4, h5, h6, h7, h8, h9, h10⟩ :=
          ih ord pool a p bs cur es ord' pool' c h ha atomA (pre ++ [b]) hga hbonds' s C S proc hinv hs hc
            (by rw [procAt_snoc_parent hp]; exact hpa) hordF hkeys hp_in
        refine ⟨s', new, proc', h1, h2, h3, h4, by rw [h5]; simp, h6, h7, h8, h9, ?_⟩
        intro hag f2 hf2
        rw [keep_cons_parent hp]
        exact h10 hag f2 (by omega)
      · rename_i hp
        have hnew : ¬ PH proc a b.tid := notPH_current hpa hbonds hp huniq
        have hat : a ≠ b.tid := fun e => hne e.symm
        have hpop := brun_popEv s C (pos ord a :: S) cur hs hc
        have hinv0 : RInv g ord pool { s with stack := pos ord a :: S } proc := hinv.of_eq rfl rfl rfl
        obtain ⟨aes, hva, haes⟩ := hinv.vw a ha
        have hpπ : p.map (pos ordF) ≠ some (pos ordF b.tid) := pmap_ne hp_in htF hp
        split at h
        · -- a ring bond
          rename_i hvis
          have htn : b.tid ∈ ord := by simpa using hvis
          split at h
          · rename_i r pool1 hhit
            have hnat := hit_ok hhit
            have hp1 : pool1 = (pool.hitNat (a, b.tid)).2 := by rw [hnat]
            have hr1 : r.val = (pool.hitNat (a, b.tid)).1 := by rw [hnat]
            split at h
            · rename_i es2 ord2 pool2 c2 h2
              simp only [Option.some.injEq, Prod.mk.injEq] at h
              obtain ⟨rfl, rfl, rfl, rfl⟩ := h
              have hstep : ∃ s1, bstep { s with stack := pos ord a :: S } (.join b.kind r) = some s1 ∧
                  s1.stack = pos ord a :: S ∧ RInv g ord pool1 s1 (setProc proc a (proc a ++ [b])) := by
                cases hf : pool.find (a, b.tid) with
                | none =>
                  have hfresh := hit_open_spec hinv.pinv hf
                  simp only at hfresh
                  have hlk : s.opens.lookup r = none := hinv.o2 r (by rw [hr1]; exact hfresh.2.1)
                  obtain ⟨s1, hb1, hst1, hlen1, hop1, herr1, hview1, _⟩ :=
                    bstep_join_open_view (s := { s with stack := pos ord a :: S }) b.kind r rfl hva hlk
                  refine ⟨s1, hb1, hst1, ?_⟩
                  rw [hp1]
                  exact hinv0.opn ha htn hat rfl hnew ⟨atomA, hga, hb_in⟩ hf hr1 hlen1 hop1 herr1 hva hview1
                | some n =>
                  have hrn : r.val = n := by rw [hr1, hitNat_close_fst hf]
                  have hPHta : PH proc b.tid a := by
                    apply Classical.byContradiction; intro hno
                    have := (hinv.j2 a b.tid).mpr ⟨fun h' => absurd h' hnew, fun h' => absurd h' hno⟩
                    rw [hf] at this; cases this
                  obtain ⟨back', hback'_in, hback't⟩ := hPHta
                  obtain ⟨_, _, atomT, hgT, hbkT⟩ := hinv.real b.tid back' hback'_in
                  have : atomT = tatom := by rw [htat] at hgT; exact (Option.some.inj hgT).symm
                  subst this
                  have hbb : back' = back := by
                    have : back' ∈ bondsTo atomT.bonds a := by
                      unfold bondsTo; exact List.mem_filter.mpr ⟨hbkT, by simpa using hback't⟩
                    rw [hback] at this; simpa using this
                  subst hbb
                  obtain ⟨l1, l2, hsplit, hl1, hl2⟩ := mem_split_tid hback'_in (hinv.uniq b.tid)
                  rw [hbt] at hl1 hl2
                  obtain ⟨tes, hvt, htes⟩ := hinv.vw b.tid htn
                  rw [hsplit, List.map_append, List.map_cons] at htes
                  obtain ⟨es1, rest, rfl, hes1, hrest⟩ := List.map_eq_append_iff.mp htes
                  obtain ⟨e, es2', rfl, he, hes2⟩ := List.map_eq_cons_iff.mp hrest
                  have hfta : pool.find (b.tid, a) = some n := by rw [Pool.find_symm]; exact hf
                  have he' : eraseE e = .opn back'.kind n := by
                    rw [he]; simp only [edgeP, hbt, hfta]
                  have h1 : ∀ e' ∈ es1, isOpenFor r e' = false := by
                    intro e' he'm
                    rw [isOpenFor_iff]
                    have : eraseE e' ∈ l1.map (edgeP ord pool b.tid) := by rw [← hes1]; exact List.mem_map_of_mem he'm
                    obtain ⟨o, ho, hoe⟩ := List.mem_map.mp this
                    rw [← hoe]
                    unfold edgeP
                    cases hfo : pool.find (b.tid, o.tid) with
                    | none => rfl
                    | some m =>
                      simp only [AEdge.isOpn]
                      cases hmn : (m == r.val) with
                      | false => rfl
                      | true =>
                        simp only [beq_iff_eq] at hmn
                        have := find_inj hinv.pinv hf (by rw [hfo, hmn, hrn])
                        rw [pairEq_mk] at this
                        rcases this with ⟨h', _⟩ | ⟨h', _⟩
                        · exact absurd h' hat
                        · exact absurd h'.symm (hl1 o ho)
                  have he1 : isOpenFor r e = true := by
                    rw [isOpenFor_iff, he']; simp [AEdge.isOpn, hrn]
                  have hno : ∀ e' ∈ es1 ++ e :: es2', e'.target ≠ .id (pos ord a) := by
                    intro e' he'm htgt
                    have : eraseE e' ∈ (proc b.tid).map (edgeP ord pool b.tid) := by
                      rw [hsplit, List.map_append, List.map_cons, ← hes1, ← he, ← hes2, ← List.map_cons, ← List.map_append]
                      exact List.mem_map_of_mem he'm
                    obtain ⟨o, ho, hoe⟩ := List.mem_map.mp this
                    have he'id : eraseE e' = .id e'.kind (pos ord a) := by
                      unfold eraseE; rw [htgt]
                    rw [he'id] at hoe
                    unfold edgeP at hoe
                    cases hfo : pool.find (b.tid, o.tid) with
                    | some m => rw [hfo] at hoe; cases hoe
                    | none =>
                      rw [hfo] at hoe
                      simp only [AEdge.id.injEq] at hoe
                      have : o.tid = a := pos_inj (hinv.real b.tid o ho).2.1 ha hoe.2
                      rw [this, hfta] at hfo; cases hfo
                  have hlk : s.opens.lookup r = some (pos ord b.tid) := hinv.o1 b.tid back' hback'_in n (by rw [hbt]; exact hfta) r hrn
                  have hrec : reconcile e.kind b.kind = some (back'.kind, b.kind) := by
                    rw [eraseE_kind he', hkback]; exact reconcile_rev_self b.kind
                  have hposne : pos ord a ≠ pos ord b.tid := fun e => hat (pos_inj ha htn e)
                  obtain ⟨s1, hb1, hst1, hlen1, hop1, herr1, hview1, _⟩ :=
                    bstep_join_close_view (s := { s with stack := pos ord a :: S }) b.kind r back'.kind b.kind rfl hva hlk hvt h1 he1
                      hposne hno hrec
                  refine ⟨s1, hb1, hst1, ?_⟩
                  rw [hp1]
                  exact hinv0.cls ha htn hat rfl hnew ⟨atomA, hga, hb_in⟩ hf hsplit hbt hl1 hl2 hlen1 hrn hop1 herr1 hes1 hes2 hview1 hva
              obtain ⟨s1, hb1, hst1, hinv1⟩ := hstep
              have hpa1 : setProc proc a (proc a ++ [b]) a = procAt p atomA.bonds (pre ++ [b]) := by
                rw [procAt_snoc_other hp, ← hpa]; simp [setProc]
              have hkeys1 : PoolKeys ord pool1 := by rw [hp1]; exact poolKeys_hit hkeys ha htn
              obtain ⟨s', new, proc', h1, h2', h3, h4, h5, h6, h7, h8, h9, h10⟩ :=
                ih ord pool1 a p bs 0 es2 ord2 pool2 c2 h2 ha atomA (pre ++ [b]) hga hbonds' s1 [] S _ hinv1
                  (by rw [hst1]; rfl) rfl hpa1 hordF hkeys1 hp_in
              refine ⟨s', new, proc', ?_, h2', h3, h4, by rw [h5]; simp, ?_, h7, h8, h9, ?_⟩
              · simp only [List.map_append, List.map_cons]
                rw [brun_append, hpop]
                simp only [Option.bind_some, brun, hb1]
                exact h1
              · intro x hx hxa
                rw [h6 x hx hxa]; simp [setProc, hxa]
              · intro hag f2 hf2
                obtain ⟨k, rfl⟩ : ∃ k, f2 = k + 1 := ⟨f2 - 1, by omega⟩
                rw [keep_cons_other hp, List.map_cons]
                have hrec := h10 hag k (by omega)
                have hhit' := hit_mapK injOn_pos (hkeys.mono hordF) haF htF hhit
                have hv' : (ord.map (pos ordF)).contains (relB ordF b).tid = true := by
                  show (ord.map (pos ordF)).contains (pos ordF b.tid) = true
                  rw [contains_map_pos hordF htF]; exact hvis
                rw [kids_join_eq g' k _ _ _ _ _ (relB ordF b) _ cur r hpπ hv' hhit' hrec]
                simp only [List.map_append, List.map_cons, evMap_popEv]
                rfl
            · cases h
          · cases h
        · -- a tree edge
          rename_i hvis
          have htn : b.tid ∉ ord := by simpa using hvis
          split at h
          · cases h
          · rename_i child hchild
            have : tatom = child := by rw [hchild] at htat; exact (Option.some.inj htat).symm
            subst this
            split at h
            · cases h
            · rename_i es1 ord1 pool1 d1 h1
              split at h
              · cases h
              · rename_i es2 ord2 pool2 c2 h2
                simp only [Option.some.injEq, Prod.mk.injEq] at h
                obtain ⟨rfl, rfl, rfl, rfl⟩ := h
                obtain ⟨s1, hb1, hst1, hlen1, hop1, herr1, hview1, hkind1⟩ :=
                  bstep_extend_view (s := { s with stack := pos ord a :: S }) b.kind (enterKind a tatom.kind tatom.bonds) rfl hva
                simp only at hst1 hlen1 hop1 herr1 hview1 hkind1
                have hg0 : s.graph.length = ord.length := hinv.len
                have hinv1 := hinv0.extend ha htn (b := b) (back := back) rfl hbt hnew ⟨atomA, hga, hb_in⟩ ⟨tatom, htat, hback_in⟩
                  hlen1 hop1 herr1 hva (by rw [hview1, hkback])
                have hpos_t : pos (ord ++ [b.tid]) b.tid = ord.length := pos_snoc_new htn
                have hpos_a : pos (ord ++ [b.tid]) a = pos ord a := pos_append_of_mem ha _
                have hordF1 : ∀ x ∈ ord ++ [b.tid], x ∈ ordF := by
                  intro x hx; simp only [List.mem_append, List.mem_singleton] at hx
                  rcases hx with hx | rfl
                  · exact hordF x hx
                  · exact htF
                have hkeys0 : PoolKeys (ord ++ [b.tid]) pool := hkeys.mono (fun x hx => by simp [hx])
                -- the child's subtree
                obtain ⟨s2, new1, proc2, hrun1, hord1, ⟨C1, hst2, hC1⟩, hinv2, hp2t, hfr1, hdone1, hordF2, hkeys2, hS2a⟩ :=
                  ih (ord ++ [b.tid]) pool b.tid (some a) tatom.bonds 0 es1 ord1 pool1 d1 h1 (by simp) tatom [] htat rfl
                    s1 [] (pos ord a :: S) _ hinv1 (by rw [hst1, hpos_t, hg0]; rfl) rfl
                    (by simp [setProc, procAt, hback, keep]) hordF1 hkeys0 (fun q hq => by cases hq; exact haF)
                simp only [List.nil_append] at hp2t
                have ha1 : a ∈ ord1 := by rw [hord1]; simp [ha]
                have ht1 : b.tid ∈ ord1 := by rw [hord1]; simp
                have hpos_a1 : pos ord1 a = pos ord a := by rw [hord1, List.append_assoc]; exact pos_append_of_mem ha _
                have hp2a : proc2 a = procAt p atomA.bonds (pre ++ [b]) := by
                  rw [hfr1 a (by simp [ha]) hat, procAt_snoc_other hp, ← hpa]; simp [setProc, hat]
                -- the remaining bonds of a
                obtain ⟨s3, new2, proc3, hrun2, hord2, ⟨C2, hst3, hC2⟩, hinv3, hp3a, hfr2, hdone2, hordF3, hkeys3, hS2b⟩ :=
                  ih ord1 pool1 a p bs (1 + d1) es2 ord2 pool2 c2 h2 ha1 atomA (pre ++ [b]) hga hbonds' s2 (C1 ++ [ord.length]) S proc2 hinv2
                    (by rw [hst2, hpos_t, hpos_a1]; simp) (by simp [hC1]; omega) hp2a hordF2 hkeys2 hp_in
                have hord2' : ord2 = ord ++ (b.tid :: new1 ++ new2) := by rw [hord2, hord1]; simp
                have hnd1 : ord1.Nodup := hinv2.nd
                have hrun : brun s ((popEv cur ++ (Event.extend b.kind (enterKind a tatom.kind tatom.bonds), b.tid) :: es1 ++ es2).map (·.1)) = some s3 := by
                  simp only [List.map_append, List.map_cons, List.append_assoc]
                  exact brun_chain hpop hb1 hrun1 hrun2
                have lift : ∀ y, y ∈ ord1 → y ≠ a → Done g s2.graph ord1 proc2 y → Done g s3.graph ord2 proc3 y := by
                  intro y hy hya hd
                  rw [hord2]
                  exact hd.lift hy new2 (hfr2 y hy hya)
                    (brun_kindAt hrun2 (by rw [hinv2.len]; exact pos_lt_of_mem hy))
                have hpx : pos ord1 b.tid = ord.length := by
                  rw [hord1, pos_append_of_mem (by simp : b.tid ∈ ord ++ [b.tid])]; exact hpos_t
                have hkt2 : kindAt s2.graph (pos ord1 b.tid) = some (enterKind a tatom.kind tatom.bonds).invert := by
                  rw [hpx, brun_kindAt hrun1 (by rw [hlen1, hg0]; omega), ← hg0]; exact hkind1
                have hpa : pos ord1 a < pos ord1 b.tid := by
                  rw [hpx, hord1, List.append_assoc, pos_append_of_mem ha]; exact pos_lt_of_mem ha
                have hdone_t : Done g s2.graph ord1 proc2 b.tid :=
                  ⟨a, tatom, back, ⟨ha1, hpa⟩, htat, hback, by rw [hp2t, procAt_all], hkt2⟩
                refine ⟨s3, b.tid :: new1 ++ new2, proc3, hrun, hord2', ⟨C2, by rw [hst3, hpos_a1], hC2⟩, hinv3,
                  by rw [hp3a]; simp, ?_, ?_, hordF3, hkeys3, ?_⟩
                · intro x hx hxa
                  have hx1 : x ∈ ord1 := by rw [hord1]; simp [hx]
                  have hxt : x ≠ b.tid := fun e => htn (e ▸ hx)
                  rw [hfr2 x hx1 hxa, hfr1 x (by simp [hx]) hxt]
                  simp [setProc, hxa, hxt]
                · intro x hx
                  simp only [List.cons_append, List.mem_cons, List.mem_append] at hx
                  rcases hx with hx | hx | hx
                  · subst hx; exact lift b.tid ht1 (Ne.symm hat) hdone_t
                  · have hx1 : x ∈ ord1 := by rw [hord1]; simp [hx]
                    have hxa : x ≠ a := by
                      intro e; subst e
                      rw [hord1] at hnd1
                      exact (List.nodup_append.mp hnd1).2.2 x (by simp [ha]) x hx rfl
                    exact lift x hx1 hxa (hdone1 x hx)
                  · exact hdone2 x hx
                · -- the lockstep clause
                  intro hag f2 hf2
                  obtain ⟨k, rfl⟩ : ∃ k, f2 = k + 1 := ⟨f2 - 1, by omega⟩
                  obtain ⟨k', rfl⟩ : ∃ k', k = k' + 1 := ⟨k - 1, by omega⟩
                  rw [keep_cons_other hp, List.map_cons]
                  -- the re-read node of the child
                  have hp3t : proc3 b.tid = back :: keep (some a) tatom.bonds := by
                    rw [hfr2 b.tid ht1 (Ne.symm hat), hp2t, procAt_all]; simp only [arrivalFirst, hback]; rfl
                  obtain ⟨kk, hkk, hnode⟩ := hag b.tid (by simp)
                  have hkk' : kk = (enterKind a tatom.kind tatom.bonds).invert := by
                    have h3 : kindAt s3.graph (pos ord2 b.tid) = kindAt s2.graph (pos ord1 b.tid) := by
                      rw [hord2, pos_append_of_mem ht1]
                      exact brun_kindAt hrun2 (by rw [hinv2.len]; exact pos_lt_of_mem ht1)
                    rw [h3, hkt2] at hkk; exact (Option.some.inj hkk).symm
                  subst hkk'
                  rw [hp3t, List.map_cons] at hnode
                  -- the child's run on g'
                  have hag1 : ∀ x ∈ new1, NodeAgree g' ordF s2.graph ord1 proc2 x := by
                    intro x hx
                    have hx1 : x ∈ ord1 := by rw [hord1]; simp [hx]
                    have hxa : x ≠ a := by
                      intro e; subst e
                      rw [hord1] at hnd1
                      exact (List.nodup_append.mp hnd1).2.2 x (by simp [ha]) x hx rfl
                    obtain ⟨k1, hk1, hn1⟩ := hag x (by simp [hx])
                    refine ⟨k1, ?_, by rw [← hfr2 x hx1 hxa]; exact hn1⟩
                    rw [← hk1, hord2, pos_append_of_mem hx1]
                    exact (brun_kindAt hrun2 (by rw [hinv2.len]; exact pos_lt_of_mem hx1)).symm
                  have hrec1 := hS2a hag1 k' (by omega)
                  have hrec2 := hS2b (fun x hx => hag x (by simp [hx])) (k' + 1) (by omega)
                  simp only [Option.map_some] at hrec1
                  -- one step on g' at the child: skip the arrival bond
                  have hchild' : kids g' (k' + 1) ((ord ++ [b.tid]).map (pos ordF)) (pool.mapK (pos ordF)) (pos ordF b.tid) (some (pos ordF a))
                      (relB ordF back :: (keep (some a) tatom.bonds).map (relB ordF)) 0
                      = some (es1.map (evMap ordF), ord1.map (pos ordF), pool1.mapK (pos ordF), d1) := by
                    rw [kids_skip_eq g' k' _ _ _ _ (relB ordF back) _ 0 (by simp [relB, hbt])]
                    exact hrec1
                  have hv' : (ord.map (pos ordF)).contains (relB ordF b).tid = false := by
                    show (ord.map (pos ordF)).contains (pos ordF b.tid) = false
                    rw [contains_map_pos hordF htF]; simpa using htn
                  have hmap1 : (ord ++ [b.tid]).map (pos ordF) = ord.map (pos ordF) ++ [(relB ordF b).tid] := by
                    simp [relB]
                  rw [hmap1] at hchild'
                  have hnode' : g'[(relB ordF b).tid]? = some ⟨(enterKind a tatom.kind tatom.bonds).invert.norm,
                      relB ordF back :: (keep (some a) tatom.bonds).map (relB ordF)⟩ := hnode
                  rw [kids_tree_eq g' (k' + 1) _ _ (pos ordF a) _ (relB ordF b) _ cur _ hpπ hv' hnode' hchild' hrec2]
                  -- the events agree
                  have hkind : enterKind (pos ordF a) (enterKind a tatom.kind tatom.bonds).invert.norm
                      (relB ordF back :: (keep (some a) tatom.bonds).map (relB ordF)) = (enterKind a tatom.kind tatom.bonds).norm := by
                    have hothers : ∀ o ∈ (keep (some a) tatom.bonds).map (relB ordF), o.tid ≠ pos ordF a := by
                      intro o ho
                      obtain ⟨o0, ho0, rfl⟩ := List.mem_map.mp ho
                      have ho0' := keep_subset ho0
                      show pos ordF o0.tid ≠ pos ordF a
                      intro e
                      have := pos_inj (hFall b.tid tatom htat o0 ho0'.1) haF e
                      exact ho0'.2 (by rw [this])
                    have hsc := scanChild_kind (pos ordF a) 0 (enterKind a tatom.kind tatom.bonds).invert.norm
                      (relB ordF back :: (keep (some a) tatom.bonds).map (relB ordF)) 0 [] _ (relB ordF back) rfl
                      (by simp [relB, hbt]) (by simp) hothers
                    unfold enterKind at hsc ⊢
                    rw [hsc]
                    exact reenter_kind _
                  simp only [hkind, List.map_append, List.map_cons, evMap_popEv]
                  rfl

end Purr

namespace Purr
open Purr.Spec

theorem comps_skip (g : Graph) (f : Nat) (V : List Nat) (pool : Pool) : ∀ (ids1 ids2 : List Nat), (∀ i ∈ ids1, V.contains i = true) →
    comps g f (ids1 ++ ids2) V pool = comps g f ids2 V pool
  | [], _, _ => rfl
  | i :: ids1, ids2, h => by
    simp only [List.cons_append, comps, h i (by simp), if_true]
    exact comps_skip g f V pool ids1 ids2 (fun j hj => h j (by simp [hj]))

theorem map_pos_prefix {ordF ord more : List Nat} (h : ordF = ord ++ more) (hnd : ordF.Nodup) :
    ord.map (pos ordF) = List.range ord.length := by
  apply List.ext_getElem
  · simp
  · intro i h1 h2
    simp only [List.getElem_map, List.getElem_range]
    have hi : i < ord.length := by simpa using h1
    subst h
    rw [pos_append_of_mem (List.getElem_mem hi)]
    unfold pos
    have hnd' : ord.Nodup := (List.nodup_append.mp hnd).1
    exact List.Nodup.idxOf_getElem hnd' i hi

theorem pos_prefix_new {ordF ord more : List Nat} {x : Nat} (h : ordF = ord ++ x :: more) (hnd : ordF.Nodup) :
    pos ordF x = ord.length := by
  rw [h]
  have hx : x ∉ ord := by
    rw [h] at hnd
    intro hx
    exact (List.nodup_append.mp hnd).2.2 x hx x (by simp) rfl
  unfold pos
  rw [List.idxOf_append, if_neg hx]
  simp

theorem kids_ord_prefix (g : Graph) : ∀ (f : Nat) (ord : List Nat) (pool : Pool) (a : Nat) (p : Option Nat) (bs : List Bond) (cur : Nat)
    (es : List (Event × Nat)) (ord' : List Nat) (pool' : Pool) (c : Nat),
    kids g f ord pool a p bs cur = some (es, ord', pool', c) → ∃ new, ord' = ord ++ new := by
  intro f
  induction f with
  | zero => intro ord pool a p bs cur es ord' pool' c h; simp [kids] at h
  | succ f ih =>
    intro ord pool a p bs cur es ord' pool' c h
    cases bs with
    | nil =>
      simp only [kids, Option.some.injEq, Prod.mk.injEq] at h
      exact ⟨[], by simp [h.2.1]⟩
    | cons b bs =>
      simp only [kids] at h
      split at h
      · exact ih _ _ _ _ _ _ _ _ _ _ h
      · split at h
        · split at h
          · split at h
            · rename_i es2 ord2 pool2 c2 h2
              simp only [Option.some.injEq, Prod.mk.injEq] at h
              obtain ⟨_, rfl, _, _⟩ := h
              exact ih _ _ _ _ _ _ _ _ _ _ h2
            · cases h
          · cases h
        · split at h
          · cases h
          · split at h
            · cases h
            · rename_i es1 ord1 pool1 d1 h1
              split at h
              · cases h
              · rename_i es2 ord2 pool2 c2 h2
                simp only [Option.some.injEq, Prod.mk.injEq] at h
                obtain ⟨_, rfl, _, _⟩ := h
                obtain ⟨n1, rfl⟩ := ih _ _ _ _ _ _ _ _ _ _ h1
                obtain ⟨n2, rfl⟩ := ih _ _ _ _ _ _ _ _ _ _ h2
                exact ⟨b.tid :: n1 ++ n2, by simp⟩

theorem comps_ord_prefix (g : Graph) (f : Nat) : ∀ (ids ord : List Nat) (pool : Pool) (es : List (Event × Nat)) (ord' : List Nat) (pool' : Pool),
    comps g f ids ord pool = some (es, ord', pool') → ∃ new, ord' = ord ++ new
  | [], ord, pool, es, ord', pool', h => by
    simp only [comps, Option.some.injEq, Prod.mk.injEq] at h
    exact ⟨[], by simp [h.2.1]⟩
  | id :: ids, ord, pool, es, ord', pool', h => by
    simp only [comps] at h
    split at h
    · exact comps_ord_prefix g f ids ord pool es ord' pool' h
    · split at h
      · cases h
      · split at h
        · cases h
        · rename_i es1 ord1 pool1 c1 h1
          split at h
          · cases h
          · rename_i es2 ord2 pool2 h2
            simp only [Option.some.injEq, Prod.mk.injEq] at h
            obtain ⟨_, rfl, _⟩ := h
            obtain ⟨n1, rfl⟩ := kids_ord_prefix g _ _ _ _ _ _ _ _ _ _ _ h1
            obtain ⟨n2, rfl⟩ := comps_ord_prefix g f ids _ _ _ _ _ h2
            exact ⟨id :: n1 ++ n2, by simp⟩

end Purr

namespace Purr
open Purr.Spec

/-- the components, in lockstep -/
theorem comps_fix (g : Graph) (hw : WellFormed g) (g' : Graph) (ordF : List Nat)
    (hFall : ∀ (x : Nat) (atomX : Atom), g[x]? = some atomX → ∀ b ∈ atomX.bonds, b.tid ∈ ordF)
    (hlenF : ordF.length = g'.length) (fuel : Nat) :
    ∀ (ids : List Nat) (ord : List Nat) (pool : Pool) (es : List (Event × Nat)) (ord' : List Nat) (pool' : Pool),
    comps g fuel ids ord pool = some (es, ord', pool') → ord' = ordF →
    ∀ (s : BState) (proc : Nat → List Bond), RInv g ord pool s proc → (∀ x ∈ ord, Fin g s.graph ord proc x) →
      PoolKeys ord pool →
      ∃ s' new proc', brun s (es.map (·.1)) = some s' ∧ ord' = ord ++ new ∧ RInv g ord' pool' s' proc' ∧
        (∀ x ∈ ord', Fin g s'.graph ord' proc' x) ∧ (∀ id ∈ ids, id < g.length → id ∈ ord') ∧
        (∀ x ∈ ord, proc' x = proc x) ∧
        ((∀ x ∈ new, NodeAgree g' ordF s'.graph ord' proc' x) → ∀ f2, 2 * fuel ≤ f2 → ∀ j, j ≤ ord.length →
          comps g' f2 (List.range' j (g'.length - j)) (ord.map (pos ordF)) (pool.mapK (pos ordF))
            = some (es.map (evMap ordF), ord'.map (pos ordF), pool'.mapK (pos ordF)))
  | [], ord, pool, es, ord', pool', h, hF, s, proc, hinv, hfin, hkeys => by
    simp only [comps, Option.some.injEq, Prod.mk.injEq] at h
    obtain ⟨rfl, rfl, rfl⟩ := h
    refine ⟨s, [], proc, by simp [brun], by simp, hinv, hfin, by simp, fun _ _ => rfl, ?_⟩
    intro _ f2 _ j hj
    have hV : ord.map (pos ordF) = List.range ord.length := map_pos_prefix (more := []) (by rw [hF]; simp) (hF ▸ hinv.nd)
    have := comps_skip g' f2 (ord.map (pos ordF)) (pool.mapK (pos ordF)) (List.range' j (g'.length - j)) [] (by
      intro i hi
      rw [hV]
      simp only [List.mem_range'_1] at hi
      simp only [List.contains_iff_mem, List.mem_range]
      rw [hF, hlenF]; omega)
    simp only [List.append_nil] at this
    rw [this]; simp [comps]
  | id :: ids, ord, pool, es, ord', pool', h, hF, s, proc, hinv, hfin, hkeys => by
    simp only [comps] at h
    split at h
    · rename_i hvis
      obtain ⟨s', new, proc', h1, h2, h3, h4, h5, h6, h7⟩ :=
        comps_fix g hw g' ordF hFall hlenF fuel ids ord pool es ord' pool' h hF s proc hinv hfin hkeys
      refine ⟨s', new, proc', h1, h2, h3, h4, ?_, h6, h7⟩
      intro i hi hlt
      simp only [List.mem_cons] at hi
      rcases hi with rfl | hi
      · rw [h2]; simp [by simpa using hvis]
      · exact h5 i hi hlt
    · rename_i hvis
      have hid : id ∉ ord := by simpa using hvis
      split at h
      · cases h
      · rename_i root hroot
        split at h
        · cases h
        · rename_i es1 ord1 pool1 c1 h1
          split at h
          · cases h
          · rename_i es2 ord2 pool2 h2
            simp only [Option.some.injEq, Prod.mk.injEq] at h
            obtain ⟨rfl, rfl, rfl⟩ := h
            -- the shape of the final order
            obtain ⟨n1, hn1⟩ := kids_ord_prefix g _ _ _ _ _ _ _ _ _ _ _ h1
            obtain ⟨n2, hn2⟩ := comps_ord_prefix g fuel ids _ _ _ _ _ h2
            have hFshape : ordF = ord ++ id :: (n1 ++ n2) := by rw [← hF, hn2, hn1]; simp
            have hFnd : ordF.Nodup := hF ▸ (by
              obtain ⟨_, _, _, _, _, hinvX, _⟩ := comps_simR g hw fuel (id :: ids) ord pool
                ((Event.root root.kind, id) :: es1 ++ es2) ord2 pool2
                (by simp only [comps, hvis, Bool.false_eq_true, if_false, hroot, h1, h2]) s proc hinv hfin
              exact hinvX.nd)
            have hordF0 : ∀ x ∈ ord, x ∈ ordF := by intro x hx; rw [hFshape]; simp [hx]
            have hordF1 : ∀ x ∈ ord ++ [id], x ∈ ordF := by
              intro x hx; rw [hFshape]
              simp only [List.mem_append, List.mem_singleton] at hx
              rcases hx with hx | rfl <;> simp [*]
            have hπid : pos ordF id = ord.length := pos_prefix_new hFshape hFnd
            obtain ⟨s1, hb1, hst1, hlen1, hop1, herr1, hview1, hkind1⟩ := bstep_root_view s root.kind
            have hinv1 := hinv.root hid hlen1 hop1 herr1 hview1
            have hpos : pos (ord ++ [id]) id = ord.length := pos_snoc_new hid
            have hlen := hinv.len
            obtain ⟨s2, new1, proc2, hrun1, hord1, _, hinv2, hp2, hfr1, hdone1, hordF2, hkeys2, hS2a⟩ :=
              kids_fix g hw g' ordF hFall fuel (ord ++ [id]) pool id none root.bonds 0 es1 ord1 pool1 c1 h1 (by simp) root [] hroot rfl
                s1 [] s.stack proc hinv1 (by rw [hst1, hpos, hlen]; rfl) rfl
                (by rw [hinv.proc_nil hid]; simp [procAt, keep]) hordF1 (hkeys.mono (fun x hx => by simp [hx]))
                (fun q hq => by cases hq)
            have hfin2 : ∀ x ∈ ord1, Fin g s2.graph ord1 proc2 x := by
              intro x hx
              rw [hord1] at hx ⊢
              simp only [List.mem_append, List.mem_singleton] at hx
              rcases hx with (hx | hx) | hx
              · have hxid : x ≠ id := fun e => hid (e ▸ hx)
                rw [List.append_assoc]
                apply (hfin x hx).lift hx _ (hfr1 x (by simp [hx]) hxid)
                rw [brun_kindAt hrun1 (by rw [hlen1, hlen]; have := pos_lt_of_mem hx; omega), kindAt_eq, kindAt_eq]
                have := bstep_kinds hb1
                rw [this, List.getElem?_append_left (by simpa [hlen] using pos_lt_of_mem hx)]
              · subst hx
                refine ⟨root, none, hroot, (by intro q h; cases h), ?_, ?_⟩
                · rw [hp2]; simp only [List.nil_append]; exact procAt_all none root.bonds
                · have : pos ((ord ++ [x]) ++ new1) x = pos (ord ++ [x]) x := pos_append_of_mem (by simp) _
                  rw [this, hpos, brun_kindAt hrun1 (by rw [hlen1]; omega), ← hlen]; exact hkind1
              · rw [← hord1]; exact (hdone1 x hx).fin
            obtain ⟨s3, new2, proc3, hrun2, hord2, hinv3, hfin3, hids, hfr2, hS2b⟩ :=
              comps_fix g hw g' ordF hFall hlenF fuel ids ord1 pool1 es2 ord2 pool2 h2 hF s2 proc2 hinv2 hfin2 hkeys2
            have hid1 : id ∈ ord1 := by rw [hord1]; simp
            refine ⟨s3, id :: new1 ++ new2, proc3, ?_, by rw [hord2, hord1]; simp, hinv3, hfin3, ?_, ?_, ?_⟩
            · simp only [List.map_cons, List.map_append]
              have : brun s ([] ++ Event.root root.kind :: (es1.map (·.1) ++ es2.map (·.1))) = some s3 :=
                brun_chain (s0 := s) rfl hb1 hrun1 hrun2
              simpa using this
            · intro i hi hlt
              simp only [List.mem_cons] at hi
              rcases hi with rfl | hi
              · rw [hord2, hord1]; simp
              · exact hids i hi hlt
            · intro x hx
              have hx1 : x ∈ ord1 := by rw [hord1]; simp [hx]
              rw [hfr2 x hx1, hfr1 x (by simp [hx]) (fun e => hid (e ▸ hx))]
            · -- the lockstep clause
              intro hag f2 hf2 j hj
              have hk_lt : ord.length < g'.length := by
                rw [← hlenF, hFshape]; simp
              have hV : ord.map (pos ordF) = List.range ord.length := map_pos_prefix hFshape hFnd
              -- skip the visited ids
              have hsplit : List.range' j (g'.length - j) =
                  List.range' j (ord.length - j) ++ (ord.length :: List.range' (ord.length + 1) (g'.length - (ord.length + 1))) := by
                have e1 : g'.length - j = (ord.length - j) + ((g'.length - (ord.length + 1)) + 1) := by omega
                rw [e1, ← List.range'_append_1, List.range'_succ]
                congr 3 <;> omega
              rw [hsplit, comps_skip g' f2 _ _ _ _ (by
                intro i hi
                rw [hV]
                simp only [List.mem_range'_1] at hi
                simp only [List.contains_iff_mem, List.mem_range]; omega)]
              -- the root on g'
              obtain ⟨kk, hkk, hnode⟩ := hag id (by simp)
              have hkk' : kk = root.kind := by
                have h3 : kindAt s3.graph (pos ord2 id) = kindAt s2.graph (pos ord1 id) := by
                  rw [hord2, pos_append_of_mem hid1]
                  exact brun_kindAt hrun2 (by rw [hinv2.len]; exact pos_lt_of_mem hid1)
                have h2' : kindAt s2.graph (pos ord1 id) = some root.kind := by
                  rw [hord1, pos_append_of_mem (by simp : id ∈ ord ++ [id]), hpos,
                    brun_kindAt hrun1 (by rw [hlen1]; omega), ← hlen]; exact hkind1
                rw [h3, h2'] at hkk; exact (Option.some.inj hkk).symm
              subst hkk'
              have hp3 : proc3 id = root.bonds := by
                rw [hfr2 id hid1, hp2]; simp only [List.nil_append]; rw [procAt_all]; rfl
              rw [hp3, hπid] at hnode
              have hag1 : ∀ x ∈ new1, NodeAgree g' ordF s2.graph ord1 proc2 x := by
                intro x hx
                have hx1 : x ∈ ord1 := by rw [hord1]; simp [hx]
                obtain ⟨k1, hk1, hn1'⟩ := hag x (by simp [hx])
                refine ⟨k1, ?_, by rw [← hfr2 x hx1]; exact hn1'⟩
                rw [← hk1, hord2, pos_append_of_mem hx1]
                exact (brun_kindAt hrun2 (by rw [hinv2.len]; exact pos_lt_of_mem hx1)).symm
              have hrec1 := hS2a hag1 f2 hf2
              have hrec2 := hS2b (fun x hx => hag x (by simp [hx])) f2 hf2 (ord.length + 1) (by rw [hord1]; simp)
              simp only [Option.map_none, keep_none, List.map_append, List.map_cons, List.map_nil, hπid] at hrec1
              have hnc : (ord.map (pos ordF)).contains ord.length = false := by
                rw [hV]; simp
              simp only [comps, hnc, Bool.false_eq_true, if_false, hnode, hrec1, hrec2]
              simp only [List.map_cons, List.map_append, evMap, hπid]

end Purr

namespace Purr
open Purr.Spec

theorem toBond_edgeOf_relB (ord : List Nat) (b : Bond) : toBond (edgeOf ord b) = relB ord b := rfl

/-- RTC with the fixed-point clause: the graph `g1` built from the traversal's events is the relabelled
    original, and traversing its normalised form (which is what reading the written text builds) emits the
    same events, normalised. -/
theorem rtc_fix (g : Graph) (hw : WellFormed g) (es : List (Event × Nat)) (ord : List Nat)
    (h : walkRecL g = some (es, ord)) :
    ∃ g1, build? (es.map (·.1)) = some (.ok g1) ∧ Relabelled g ord g1 ∧ ord.Nodup ∧ (∀ x, x < g.length ↔ x ∈ ord) ∧
      (∀ es' ord', walkRecL (g1.map normAtom) = some (es', ord') → es'.map (·.1) = (es.map (·.1)).map Event.norm) ∧
      (∃ f r, comps (g1.map normAtom) f (List.range (g1.map normAtom).length) [] Pool.init = some r) := by
  obtain ⟨g1, hb1, hrel1, hnd, hcov⟩ := rtc g hw es ord h
  refine ⟨g1, hb1, hrel1, hnd, hcov, ?_⟩
  unfold walkRecL at h
  split at h
  · cases h
  · simp only [Option.map_eq_some_iff] at h
    obtain ⟨⟨es0, ord0, pool0⟩, hc, heq⟩ := h
    simp only [Prod.mk.injEq] at heq
    obtain ⟨rfl, rfl⟩ := heq
    -- the builder's final state
    obtain ⟨s0, _, _, hrun0, _, hinv0, _, _⟩ :=
      comps_simR g hw (recFuel g) (List.range g.length) [] .init es0 ord0 pool0 hc .init (fun _ => []) (RInv.init g) (by simp)
    have hg1 : g1 = s0.graph.map (fun n => ⟨n.kind, n.edges.map toBond⟩) := by
      unfold build? at hb1
      rw [hrun0] at hb1
      simp only [Option.map_some, Option.some.injEq] at hb1
      have hall : buildNodes s0.graph = .ok g1 := by
        unfold BState.build at hb1
        rw [hinv0.errs] at hb1
        exact hb1
      -- `buildNodes` can only return the node-wise conversion
      have : ∀ (G : List Node) (gg : Graph), buildNodes G = .ok gg → gg = G.map (fun n => ⟨n.kind, n.edges.map toBond⟩) := by
        intro G
        induction G with
        | nil => intro gg h; simp [buildNodes] at h; cases h; rfl
        | cons n ns ih =>
          intro gg h
          simp only [buildNodes] at h
          cases hnb : nodeBonds n.edges with
          | error e => rw [hnb] at h; cases h
          | ok bs =>
            rw [hnb] at h
            simp only at h
            cases hbn : buildNodes ns with
            | error e => rw [hbn] at h; cases h
            | ok rest =>
              rw [hbn] at h
              simp only [Except.map] at h
              cases h
              have hbs := nodeBonds_ok hnb
              rw [ih rest hbn]
              simp only [List.map_cons, List.cons.injEq, Atom.mk.injEq, true_and, and_true]
              exact hbs.1
      exact this _ _ hall
    -- the lockstep
    have hcov' : ∀ x, x < g.length → x ∈ ord0 := fun x hx => (hcov x).mp hx
    have hFall : ∀ (x : Nat) (atomX : Atom), g[x]? = some atomX → ∀ b ∈ atomX.bonds, b.tid ∈ ord0 := by
      intro x atomX hx b hb
      obtain ⟨_, _, tatom, htat, _⟩ := hw x atomX hx b hb
      apply hcov'
      apply Nat.lt_of_not_le; intro hge
      rw [List.getElem?_eq_none_iff.mpr hge] at htat; cases htat
    have hlenF : ord0.length = (g1.map normAtom).length := by
      rw [hg1]; simp [hinv0.len]
    obtain ⟨s', new, proc, hrun, hord, hinv, hfin, hids, _, hS2⟩ :=
      comps_fix g hw (g1.map normAtom) ord0 hFall hlenF (recFuel g) (List.range g.length) [] .init es0 ord0 pool0 hc rfl
        .init (fun _ => []) (RInv.init g) (by simp) (by intro e he; simp [Pool.init] at he)
    have hss : s' = s0 := by rw [hrun0] at hrun; exact (Option.some.inj hrun).symm
    subst hss
    -- at the end no pair is open (as in `rtc`)
    have hclosed : ∀ x ∈ ord0, ∀ b ∈ proc x, pool0.find (x, b.tid) = none := by
      intro x hx b hb
      rw [hinv.j2]
      obtain ⟨_, htn, atomX, hgx, hbx⟩ := hinv.real x b hb
      obtain ⟨_, _, tatom, htat, back, hback, _⟩ := hw x atomX hgx b hbx
      obtain ⟨atomT, arr, hgt, _, hpt, _⟩ := hfin b.tid htn
      rw [htat] at hgt; cases hgt
      have hbk : back ∈ proc b.tid := by
        rw [hpt]
        apply (arrivalFirst_perm arr tatom.bonds).symm.subset
        have : back ∈ bondsTo tatom.bonds x := by rw [hback]; simp
        unfold bondsTo at this; exact (List.mem_filter.mp this).1
      have hbt : back.tid = x := by
        have : back ∈ bondsTo tatom.bonds x := by rw [hback]; simp
        unfold bondsTo at this; simpa using (List.mem_filter.mp this).2
      exact ⟨fun _ => ⟨back, hbk, hbt⟩, fun _ => ⟨b, hb, rfl⟩⟩
    have hag : ∀ x ∈ new, NodeAgree (g1.map normAtom) ord0 s'.graph ord0 proc x := by
      intro x hx
      have hx0 : x ∈ ord0 := by rw [hord]; simp [hx]
      obtain ⟨tes, hv, htes⟩ := hinv.vw x hx0
      obtain ⟨n, hn, hne⟩ := view_some hv
      refine ⟨n.kind, by unfold kindAt; rw [hn]; rfl, ?_⟩
      have htes' : tes = (proc x).map (edgeOf ord0) := by
        apply erase_all_id
        rw [htes]
        apply List.map_congr_left
        intro b hb
        unfold edgeP; rw [hclosed x hx0 b hb]
      rw [hg1, List.getElem?_map, List.getElem?_map, hn]
      simp only [Option.map_some, normAtom, hne, htes', List.map_map]
      congr 2
    have hlock := hS2 hag (max (2 * recFuel g) (recFuel (g1.map normAtom))) (Nat.le_max_left _ _) 0 (Nat.zero_le _)
    simp only [Nat.sub_zero, List.map_nil] at hlock
    have hinit : Pool.init.mapK (pos ord0) = Pool.init := rfl
    rw [hinit, ← List.range_eq_range'] at hlock
    refine ⟨?_, ⟨_, _, hlock⟩⟩
    intro es' ord' h'
    -- the traversal of the re-read graph, at its own fuel
    unfold walkRecL at h'
    split at h'
    · cases h'
    · simp only [Option.map_eq_some_iff] at h'
      obtain ⟨⟨es1, ord1, pool1⟩, hc', heq'⟩ := h'
      simp only [Prod.mk.injEq] at heq'
      obtain ⟨rfl, rfl⟩ := heq'
      have hup := comps_mono_le (g1.map normAtom) (Nat.le_max_right (2 * recFuel g) (recFuel (g1.map normAtom))) _ _ _ _ hc'
      rw [hlock] at hup
      simp only [Option.some.injEq, Prod.mk.injEq] at hup
      rw [← hup.1, List.map_map, List.map_map]
      apply List.map_congr_left
      intro e _
      exact evMap_fst ord0 e

end Purr
