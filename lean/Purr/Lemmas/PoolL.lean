/- Helper lemmas for C13: the ring-number pool invariant. -/
import Purr.Model.Pool
namespace Purr

theorem minOf_none {l : List Nat} : minOf l = none ↔ l = [] := by
  cases l with
  | nil => simp [minOf]
  | cons x xs => simp only [minOf]; split <;> simp

theorem minOf_spec : ∀ {l : List Nat} {m}, minOf l = some m → m ∈ l ∧ ∀ x ∈ l, m ≤ x
  | [], m, h => by simp [minOf] at h
  | x :: xs, m, h => by
    simp only [minOf] at h
    split at h
    · rename_i hn
      cases h
      have : xs = [] := minOf_none.mp hn
      subst this; simp
    · rename_i m' hm'
      cases h
      obtain ⟨hmem, hle⟩ := minOf_spec hm'
      constructor
      · by_cases hx : x ≤ m'
        · simp [Nat.min_eq_left hx]
        · have : min x m' = m' := Nat.min_eq_right (by omega)
          rw [this]; exact List.mem_cons_of_mem _ hmem
      · intro y hy
        cases hy with
        | head => exact Nat.min_le_left _ _
        | tail _ hy' => exact Nat.le_trans (Nat.min_le_right _ _) (hle y hy')

theorem pairEq_iff (p q : Nat × Nat) :
    pairEq p q = true ↔ (p.1 = q.1 ∧ p.2 = q.2) ∨ (p.1 = q.2 ∧ p.2 = q.1) := by
  simp [pairEq]

theorem pairEq_symm (p q : Nat × Nat) : pairEq p q = pairEq q p := by
  apply Bool.eq_iff_iff.mpr
  rw [pairEq_iff, pairEq_iff]
  constructor <;> (intro h; rcases h with ⟨a, b⟩ | ⟨a, b⟩ <;> simp [a, b])

theorem pairEq_trans {p q r : Nat × Nat} (h1 : pairEq p q = true) (h2 : pairEq q r = true) : pairEq p r = true := by
  rw [pairEq_iff] at *
  rcases h1 with ⟨a, b⟩ | ⟨a, b⟩ <;> rcases h2 with ⟨c, d⟩ | ⟨c, d⟩ <;> simp [a, b, c, d]

theorem eq_of_nodup_map {α β} {f : α → β} : ∀ {l : List α}, (l.map f).Nodup → ∀ {a b}, a ∈ l → b ∈ l → f a = f b → a = b
  | [], _, _, _, ha, _, _ => by cases ha
  | x :: xs, hnd, a, b, ha, hb, hab => by
    simp only [List.map_cons, List.nodup_cons, List.mem_map, not_exists, not_and] at hnd
    cases ha with
    | head =>
      cases hb with
      | head => rfl
      | tail _ hb' => exact absurd hab.symm (hnd.1 b hb')
    | tail _ ha' =>
      cases hb with
      | head => exact absurd hab (hnd.1 a ha')
      | tail _ hb' => exact eq_of_nodup_map hnd.2 ha' hb' hab

/-- numbers currently open -/
def Pool.opens (p : Pool) : List Nat := p.borrowed.map (·.2)

structure Pool.Inv (p : Pool) : Prop where
  cpos : 1 ≤ p.counter
  bndOpen : ∀ n ∈ p.opens, 1 ≤ n ∧ n < p.counter
  bndRep : ∀ n ∈ p.replaced, 1 ≤ n ∧ n < p.counter
  nodupOpen : p.opens.Nodup
  nodupRep : p.replaced.Nodup
  disj : ∀ n ∈ p.opens, n ∉ p.replaced
  cover : ∀ n, 1 ≤ n → n < p.counter → n ∈ p.opens ∨ n ∈ p.replaced
  keys : ∀ e ∈ p.borrowed, ∀ f ∈ p.borrowed, pairEq e.1 f.1 = true → e = f

theorem Pool.inv_init : Pool.init.Inv := by
  refine ⟨by decide, ?_, ?_, ?_, ?_, ?_, ?_, ?_⟩ <;> simp [Pool.init, Pool.opens]
  intro n h1 h2; omega

theorem find_none_iff {p : Pool} {ab} : p.find ab = none ↔ ∀ e ∈ p.borrowed, pairEq e.1 ab = false := by
  simp [Pool.find, List.find?_eq_none]

theorem find_some {p : Pool} {ab n} (h : p.find ab = some n) :
    ∃ e ∈ p.borrowed, pairEq e.1 ab = true ∧ e.2 = n := by
  simp only [Pool.find, Option.map_eq_some_iff] at h
  obtain ⟨e, he, rfl⟩ := h
  exact ⟨e, List.mem_of_find?_eq_some he, by simpa using List.find?_some he, rfl⟩

/-- membership in the open numbers after removing the entries whose key matches `ab` -/
theorem mem_opens_filter {p : Pool} (hi : p.Inv) {ab n} (hf : p.find ab = some n) (m : Nat) :
    m ∈ (p.borrowed.filter (fun e => !pairEq e.1 ab)).map (·.2) ↔ (m ∈ p.opens ∧ m ≠ n) := by
  obtain ⟨e, he, hke, hen⟩ := find_some hf
  constructor
  · intro hm
    simp only [List.mem_map, List.mem_filter] at hm
    obtain ⟨e', ⟨he', hk'⟩, rfl⟩ := hm
    refine ⟨List.mem_map.mpr ⟨e', he', rfl⟩, ?_⟩
    intro heq
    -- same number, so (no duplicates among open numbers) the same entry: but e matches the key, e' does not
    have : e' = e := by
      have hnd := hi.nodupOpen
      unfold Pool.opens at hnd
      exact eq_of_nodup_map hnd he' he (by rw [heq, hen])
    subst this
    simp [hke] at hk'
  · intro ⟨hm, hne⟩
    simp only [Pool.opens, List.mem_map] at hm
    obtain ⟨e', he', rfl⟩ := hm
    simp only [List.mem_map, List.mem_filter]
    refine ⟨e', ⟨he', ?_⟩, rfl⟩
    -- if e' matched the key too it would be a second entry for the same pair
    cases hk' : pairEq e'.1 ab with
    | false => rfl
    | true =>
      exfalso
      have hee : pairEq e'.1 e.1 = true := pairEq_trans hk' (by rw [pairEq_symm]; exact hke)
      have := hi.keys e' he' e he hee
      subst this; exact hne hen

/-- `hitNat` on a pair that is not open: the least number ≥ 1 that is not open -/
theorem hit_open_spec {p : Pool} (hi : p.Inv) {ab} (hf : p.find ab = none) :
    let n := (p.hitNat ab).1
    1 ≤ n ∧ n ∉ p.opens ∧ (∀ m, 1 ≤ m → m < n → m ∈ p.opens) ∧ (p.hitNat ab).2.opens = n :: p.opens := by
  simp only [Pool.hitNat, hf]
  cases hm : minOf p.replaced with
  | none =>
    have hrep : p.replaced = [] := minOf_none.mp hm
    simp only [Pool.opens, List.map_cons]
    refine ⟨hi.cpos, ?_, ?_, trivial⟩
    · intro h; have := (hi.bndOpen _ h).2; omega
    · intro m h1 h2
      rcases hi.cover m h1 h2 with h | h
      · exact h
      · rw [hrep] at h; cases h
  | some m =>
    obtain ⟨hmem, hle⟩ := minOf_spec hm
    simp only [Pool.opens, List.map_cons]
    refine ⟨(hi.bndRep m hmem).1, ?_, ?_, trivial⟩
    · intro h; exact hi.disj m h hmem
    · intro k h1 h2
      rcases hi.cover k h1 (by have := (hi.bndRep m hmem).2; omega) with h | h
      · exact h
      · have := hle k h; omega

theorem inv_hit_open {p : Pool} (hi : p.Inv) {ab} (hf : p.find ab = none) : (p.hitNat ab).2.Inv := by
  have hfn := find_none_iff.mp hf
  simp only [Pool.hitNat, hf]
  cases hm : minOf p.replaced with
  | none =>
    have hrep : p.replaced = [] := minOf_none.mp hm
    refine ⟨?_, ?_, ?_, ?_, ?_, ?_, ?_, ?_⟩
    · have := hi.cpos; simp
    · intro n hn
      simp only [Pool.opens, List.map_cons, List.mem_cons] at hn
      rcases hn with rfl | hn
      · have := hi.cpos; simp; omega
      · have := hi.bndOpen n hn; simp; omega
    · intro n hn; simp only at hn; rw [hrep] at hn; cases hn
    · simp only [Pool.opens, List.map_cons, List.nodup_cons]
      refine ⟨?_, hi.nodupOpen⟩
      intro h; have := (hi.bndOpen _ h).2; omega
    · exact hi.nodupRep
    · intro n _; simp only; rw [hrep]; simp
    · intro n h1 h2
      simp only at h2
      simp only [Pool.opens, List.map_cons, List.mem_cons]
      by_cases hn : n = p.counter
      · exact Or.inl (Or.inl hn)
      · rcases hi.cover n h1 (by omega) with h | h
        · exact Or.inl (Or.inr h)
        · exact Or.inr h
    · intro e he f hf' hef
      simp only [List.mem_cons] at he hf'
      rcases he with rfl | he <;> rcases hf' with rfl | hf'
      · rfl
      · have := hfn f hf'; rw [pairEq_symm] at hef; simp [hef] at this
      · have := hfn e he; simp [hef] at this
      · exact hi.keys e he f hf' hef
  | some m =>
    obtain ⟨hmem, hle⟩ := minOf_spec hm
    have hmb := hi.bndRep m hmem
    refine ⟨hi.cpos, ?_, ?_, ?_, ?_, ?_, ?_, ?_⟩
    · intro n hn
      simp only [Pool.opens, List.map_cons, List.mem_cons] at hn
      rcases hn with rfl | hn
      · exact hmb
      · exact hi.bndOpen n hn
    · intro n hn; exact hi.bndRep n (List.mem_of_mem_erase hn)
    · simp only [Pool.opens, List.map_cons, List.nodup_cons]
      exact ⟨fun h => hi.disj m h hmem, hi.nodupOpen⟩
    · exact hi.nodupRep.erase m
    · intro n hn
      simp only [Pool.opens, List.map_cons, List.mem_cons] at hn
      rcases hn with rfl | hn
      · exact hi.nodupRep.not_mem_erase
      · intro h; exact hi.disj n hn (List.mem_of_mem_erase h)
    · intro n h1 h2
      simp only [Pool.opens, List.map_cons, List.mem_cons]
      by_cases hn : n = m
      · exact Or.inl (Or.inl hn)
      · rcases hi.cover n h1 h2 with h | h
        · exact Or.inl (Or.inr h)
        · exact Or.inr ((List.mem_erase_of_ne hn).mpr h)
    · intro e he f hf' hef
      simp only [List.mem_cons] at he hf'
      rcases he with rfl | he <;> rcases hf' with rfl | hf'
      · rfl
      · have := hfn f hf'; rw [pairEq_symm] at hef; simp [hef] at this
      · have := hfn e he; simp [hef] at this
      · exact hi.keys e he f hf' hef

theorem inv_hit_close {p : Pool} (hi : p.Inv) {ab n} (hf : p.find ab = some n) : (p.hitNat ab).2.Inv := by
  have hmem := mem_opens_filter hi hf
  have hn : n ∈ p.opens := by
    obtain ⟨e, he, _, hen⟩ := find_some hf
    exact List.mem_map.mpr ⟨e, he, hen⟩
  simp only [Pool.hitNat, hf]
  refine ⟨hi.cpos, ?_, ?_, ?_, ?_, ?_, ?_, ?_⟩
  · intro m hm; exact hi.bndOpen m ((hmem m).mp hm).1
  · intro m hm
    simp only [List.mem_cons] at hm
    rcases hm with rfl | hm
    · exact hi.bndOpen _ hn
    · exact hi.bndRep m hm
  · exact hi.nodupOpen.sublist (List.Sublist.map _ List.filter_sublist)
  · simp only [List.nodup_cons]; exact ⟨hi.disj n hn, hi.nodupRep⟩
  · intro m hm
    have := (hmem m).mp hm
    simp only [List.mem_cons, not_or]
    exact ⟨this.2, hi.disj m this.1⟩
  · intro m h1 h2
    simp only [List.mem_cons]
    by_cases hmn : m = n
    · exact Or.inr (Or.inl hmn)
    · rcases hi.cover m h1 h2 with h | h
      · exact Or.inl ((hmem m).mpr ⟨h, hmn⟩)
      · exact Or.inr (Or.inr h)
  · intro e he f hf' hef
    exact hi.keys e (List.mem_filter.mp he).1 f (List.mem_filter.mp hf').1 hef

theorem inv_hit {p : Pool} (hi : p.Inv) (ab : Nat × Nat) : (p.hitNat ab).2.Inv := by
  cases hf : p.find ab with
  | none => exact inv_hit_open hi hf
  | some n => exact inv_hit_close hi hf

end Purr
