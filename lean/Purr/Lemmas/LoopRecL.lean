/-
  The explicit-stack loop of `walk` (Purr/Model/Walk.lean, mirroring src/walk/walk.rs) and the recursive
  depth-first formulation `walkRec` (Purr/Model/WalkRec.lean, about which the round-trip core is proved) emit
  the same events: whenever the recursive traversal succeeds, the loop ends with `ok` and exactly those events.
-/
import Purr.Lemmas.WalkPanicL
import Purr.Lemmas.FixL
namespace Purr
open Purr.Spec

theorem scanChild_fst_tid (sid t1 t2 : Nat) (k : AtomKind) : ∀ (bs : List Bond) (i : Nat),
    (scanChild sid t1 k bs i).1 = (scanChild sid t2 k bs i).1 ∧ (scanChild sid t1 k bs i).2.1 = (scanChild sid t2 k bs i).2.1
  | [], _ => ⟨rfl, rfl⟩
  | o :: os, i => by
    simp only [scanChild]
    have ih := scanChild_fst_tid sid t1 t2 k os (i + 1)
    generalize scanChild sid t1 k os (i + 1) = r1 at ih ⊢
    generalize scanChild sid t2 k os (i + 1) = r2 at ih ⊢
    obtain ⟨k1, b1, p1⟩ := r1
    obtain ⟨k2, b2, p2⟩ := r2
    simp only at ih ⊢
    obtain ⟨rfl, rfl⟩ := ih
    split <;> exact ⟨rfl, rfl⟩

theorem keep_some_eq_filter (a : Nat) (bs : List Bond) : keep (some a) bs = bs.filter (fun o => !(o.tid == a)) := by
  unfold keep
  apply List.filter_congr
  intro o _
  by_cases h : o.tid = a
  · simp [h]
  · have : ¬ a = o.tid := fun e => h e.symm
    simp [h, this]

/-- more fuel does not change a run that did not run out of fuel -/
theorem rootLoop_mono (g : Graph) : ∀ (f : Nat) (s : WState), (rootLoop g f s).2.1 ≠ .panic "fuel" →
    rootLoop g (f + 1) s = rootLoop g f s
  | 0, s, h => by simp [rootLoop] at h
  | f + 1, s, h => by
    rw [rootLoop.eq_def g (f + 1 + 1) s, rootLoop.eq_def g (f + 1) s]
    simp only
    rw [rootLoop.eq_def g (f + 1) s] at h
    simp only at h
    cases hst : s.stack with
    | nil => rfl
    | cons p rest =>
      obtain ⟨sid, bond⟩ := p
      rw [hst] at h
      simp only at h ⊢
      cases hw : wkStep g s sid bond rest with
      | err e evs => rfl
      | panic p evs => rfl
      | cont s' evs =>
        rw [hw] at h
        simp only at h ⊢
        rw [rootLoop_mono g f s' h]

theorem rootLoop_mono_le (g : Graph) {f f' : Nat} (hle : f ≤ f') (s : WState) (h : (rootLoop g f s).2.1 ≠ .panic "fuel") :
    rootLoop g f' s = rootLoop g f s := by
  induction hle with
  | refl => rfl
  | step _ ih => rw [rootLoop_mono g _ s (by rw [ih]; exact h), ih]

end Purr

namespace Purr
open Purr.Spec

/-- one iteration of the loop, spelled out -/
theorem rootLoop_step (g : Graph) (F : Nat) (s s' : WState) (sid : Nat) (bond : Bond) (rest : List (Nat × Bond)) (evs : List Event)
    (hst : s.stack = (sid, bond) :: rest) (hw : wkStep g s sid bond rest = .cont s' evs) :
    rootLoop g (F + 1) s = (evs ++ (rootLoop g F s').1, (rootLoop g F s').2) := by
  rw [rootLoop.eq_def]
  simp only [hst, hw]

/-- the recursive traversal of the remaining bonds `bs` of atom `a` is what the loop does with the scheduled
    half-bonds `(keep p bs).map (a, ·)` on top of its stack: after `k` iterations it has emitted the same events
    and continues with the rest of the stack -/
theorem kids_loop (g : Graph) (hw : WellFormed g) : ∀ (f : Nat) (ord : List Nat) (pool : Pool) (a : Nat) (p : Option Nat)
    (bs : List Bond) (cur : Nat) (es : List (Event × Nat)) (ord' : List Nat) (pool' : Pool) (c : Nat),
    kids g f ord pool a p bs cur = some (es, ord', pool', c) → a ∈ ord →
    ∀ (atomA : Atom), g[a]? = some atomA → (∀ b ∈ bs, b ∈ atomA.bonds) →
    ∀ (vis : List Nat) (rest : List (Nat × Bond)) (ch C : List Nat), (∀ x, x ∈ vis ↔ x ∈ ord) → C.length = cur → a ∉ C →
    ∃ k vis' C', (∀ x, x ∈ vis' ↔ x ∈ ord') ∧ C'.length = c ∧ (∀ x ∈ C', x ∈ C ∨ x ∉ ord) ∧
      ∀ F, rootLoop g (k + F) ⟨vis, (keep p bs).map (fun b => (a, b)) ++ rest, C ++ a :: ch, pool⟩ =
        (es.map (·.1) ++ (rootLoop g F ⟨vis', rest, C' ++ a :: ch, pool'⟩).1, (rootLoop g F ⟨vis', rest, C' ++ a :: ch, pool'⟩).2) := by
  intro f
  induction f with
  | zero => intro ord pool a p bs cur es ord' pool' c h; simp [kids] at h
  | succ f ih =>
    intro ord pool a p bs cur es ord' pool' c h ha atomA hga hbs vis rest ch C hvis hC haC
    cases bs with
    | nil =>
      simp only [kids, Option.some.injEq, Prod.mk.injEq] at h
      obtain ⟨rfl, rfl, rfl, rfl⟩ := h
      exact ⟨0, vis, C, hvis, hC, fun x hx => Or.inl hx, fun F => by simp [keep]⟩
    | cons b bs =>
      have hbs' : ∀ b' ∈ bs, b' ∈ atomA.bonds := fun b' hb' => hbs b' (List.mem_cons_of_mem _ hb')
      have hb_in : b ∈ atomA.bonds := hbs b (by simp)
      obtain ⟨hne, _, tatom, htat, back, hback, hkback⟩ := hw a atomA hga b hb_in
      have hlt : b.tid < g.length := by
        apply Nat.lt_of_not_le; intro hge
        rw [List.getElem?_eq_none_iff.mpr hge] at htat; cases htat
      simp only [kids] at h
      split at h
      · rename_i hp
        obtain ⟨k, vis', C', h1, h2, h3, h4⟩ := ih ord pool a p bs cur es ord' pool' c h ha atomA hga hbs' vis rest ch C hvis hC haC
        exact ⟨k, vis', C', h1, h2, h3, by rw [keep_cons_parent hp]; exact h4⟩
      · rename_i hp
        rw [keep_cons_other hp, List.map_cons, List.cons_append]
        have hun : unwind a (C ++ a :: ch) 0 = some (a :: ch, 0 + C.length) := unwind_of_split C ch 0 haC
        have hpops : (if 0 + C.length > 0 then [Event.pop (0 + C.length)] else []) = (popEv cur).map (·.1) := by
          rw [popEv_map, Nat.zero_add, hC]
        split at h
        · -- ring bond
          rename_i hvisit
          have hv' : vis.contains b.tid = true := by
            have : b.tid ∈ ord := by simpa using hvisit
            simpa using (hvis b.tid).mpr this
          split at h
          · rename_i r pool1 hhit
            split at h
            · rename_i es2 ord2 pool2 c2 h2
              simp only [Option.some.injEq, Prod.mk.injEq] at h
              obtain ⟨rfl, rfl, rfl, rfl⟩ := h
              obtain ⟨k, vis', C', h1, h2', h3, h4⟩ :=
                ih ord pool1 a p bs 0 es2 ord2 pool2 c2 h2 ha atomA hga hbs' vis rest ch [] hvis rfl (by simp)
              refine ⟨k + 1, vis', C', h1, h2', fun x hx => by rcases h3 x hx with h' | h'; cases h'; exact Or.inr h', ?_⟩
              intro F
              have hstep : wkStep g ⟨vis, (a, b) :: ((keep p bs).map (fun b => (a, b)) ++ rest), C ++ a :: ch, pool⟩ a b
                  ((keep p bs).map (fun b => (a, b)) ++ rest) =
                  .cont ⟨vis, (keep p bs).map (fun b => (a, b)) ++ rest, a :: ch, pool1⟩
                    ((popEv cur).map (·.1) ++ [.join b.kind r]) := by
                unfold wkStep
                have h1' : ¬ b.tid ≥ g.length := by omega
                simp only [h1', if_false, hne, hun, hv', if_true, hhit, hpops]
              have := rootLoop_step g (k + F) _ _ a b _ _ rfl hstep
              rw [show k + 1 + F = (k + F) + 1 by omega, this]
              have h4' := h4 F
              simp only [List.nil_append] at h4'
              rw [h4']
              simp only [List.map_append, List.map_cons, List.append_assoc, List.cons_append, List.nil_append]
            · cases h
          · cases h
        · -- tree edge
          rename_i hvisit
          have htn : b.tid ∉ ord := by simpa using hvisit
          have hv' : vis.contains b.tid = false := by
            simpa using (fun hm => htn ((hvis b.tid).mp hm))
          split at h
          · cases h
          · rename_i child hchild
            have : tatom = child := by rw [hchild] at htat; exact (Option.some.inj htat).symm
            subst this
            split at h
            · cases h
            · rename_i es1 ord1 pool1 d1 h1
              split at h
              · cases h
              · rename_i es2 ord2 pool2 c2 h2
                simp only [Option.some.injEq, Prod.mk.injEq] at h
                obtain ⟨rfl, rfl, rfl, rfl⟩ := h
                have hat : a ≠ b.tid := fun e => hne e.symm
                -- the child's subtree
                obtain ⟨k1, vis1, C1, hv1, hC1, hC1m, hrun1⟩ :=
                  ih (ord ++ [b.tid]) pool b.tid (some a) tatom.bonds 0 es1 ord1 pool1 d1 h1 (by simp) tatom htat (fun _ h => h)
                    (b.tid :: vis) ((keep p bs).map (fun b => (a, b)) ++ rest) (a :: ch) []
                    (by intro x; simp only [List.mem_cons, List.mem_append, List.not_mem_nil, or_false, hvis x]; exact Or.comm)
                    rfl (by simp)
                obtain ⟨n1, hn1⟩ := kids_ord_prefix g _ _ _ _ _ _ _ _ _ _ _ h1
                have ha1 : a ∈ ord1 := by rw [hn1]; simp [ha]
                have haC1 : a ∉ C1 ++ [b.tid] := by
                  intro hm
                  simp only [List.mem_append, List.mem_singleton] at hm
                  rcases hm with hm | hm
                  · rcases hC1m a hm with h' | h'
                    · cases h'
                    · exact h' (by simp [ha])
                  · exact hat hm
                obtain ⟨k2, vis2, C2, hv2, hC2, hC2m, hrun2⟩ :=
                  ih ord1 pool1 a p bs (1 + d1) es2 ord2 pool2 c2 h2 ha1 atomA hga hbs' vis1 rest ch (C1 ++ [b.tid]) hv1
                    (by simp [hC1]; omega) haC1
                refine ⟨k1 + k2 + 1, vis2, C2, hv2, hC2, ?_, ?_⟩
                · intro x hx
                  rcases hC2m x hx with h' | h'
                  · right
                    simp only [List.mem_append, List.mem_singleton] at h'
                    rcases h' with h' | h'
                    · rcases hC1m x h' with h'' | h''
                      · cases h''
                      · exact fun hm => h'' (by simp [hm])
                    · rw [h']; exact htn
                  · right; exact fun hm => h' (by rw [hn1]; simp [hm])
                · intro F
                  -- the first iteration: the tree edge
                  have hsc := scanChild_fst_tid a b.tid 0 tatom.kind tatom.bonds 0
                  have hbacks := scanChild_backs a b.tid tatom.kind tatom.bonds 0
                  have hpush := scanChild_pushes_eq a b.tid tatom.kind tatom.bonds 0
                  have hstep : wkStep g ⟨vis, (a, b) :: ((keep p bs).map (fun b => (a, b)) ++ rest), C ++ a :: ch, pool⟩ a b
                      ((keep p bs).map (fun b => (a, b)) ++ rest) =
                      .cont ⟨b.tid :: vis, (keep (some a) tatom.bonds).map (fun o => (b.tid, o)) ++ ((keep p bs).map (fun b => (a, b)) ++ rest),
                          b.tid :: a :: ch, pool⟩
                        ((popEv cur).map (·.1) ++ [.extend b.kind (enterKind a tatom.kind tatom.bonds)]) := by
                    unfold wkStep
                    have h1' : ¬ b.tid ≥ g.length := by omega
                    simp only [h1', if_false, hne, hun, hv', Bool.false_eq_true, htat, hpops]
                    unfold enterKind
                    rw [← hsc.1]
                    generalize scanChild a b.tid tatom.kind tatom.bonds 0 = r at hbacks hpush
                    obtain ⟨kind, backs, pushes⟩ := r
                    simp only at hbacks hpush ⊢
                    rw [hback] at hbacks
                    subst hbacks
                    have hkk : ¬ (b.kind ≠ back.kind.reverse) := by
                      simp; exact (rev_eq_iff _ _).mp hkback
                    simp only [hkk, if_false, hpush, keep_some_eq_filter]
                  have := rootLoop_step g (k1 + (k2 + F)) _ _ a b _ _ rfl hstep
                  rw [show k1 + k2 + 1 + F = (k1 + (k2 + F)) + 1 by omega, this]
                  have e1 := hrun1 (k2 + F)
                  simp only [List.nil_append] at e1
                  rw [e1]
                  have e2 := hrun2 F
                  simp only [List.append_assoc, List.cons_append, List.nil_append] at e2
                  rw [e2]
                  simp only [List.map_append, List.map_cons, List.append_assoc, List.cons_append, List.nil_append]

end Purr

namespace Purr
open Purr.Spec

/-- the loop of a component, started at its root with full fuel, does not run out of fuel -/
theorem root_no_fuel_panic {g : Graph} (hw : WellFormed g) (vis : List Nat) (pool : Pool) (id : Nat) (root : Atom)
    (hroot : g[id]? = some root) (hvn : id ∉ vis) :
    (rootLoop g (walkFuel g) ⟨id :: vis, root.bonds.map (fun b => (id, b)), [id], pool⟩).2.1 ≠ .panic "fuel" := by
  have hidlt : id < g.length := by
    apply Nat.lt_of_not_le; intro hge
    rw [List.getElem?_eq_none_iff.mpr hge] at hroot; cases hroot
  have hi0 : LoopInv g ⟨id :: vis, root.bonds.map (fun b => (id, b)), [id], pool⟩ := by
    refine ⟨?_, ?_, ?_⟩
    · intro p hp
      simp only [List.mem_map] at hp
      obtain ⟨b, hb, rfl⟩ := hp
      exact ⟨root, hroot, hb⟩
    · have := SC_pushes (t := id) (c := []) (rest := []) (root.bonds.map (fun b => (id, b)))
        (by intro p hp; simp only [List.mem_map] at hp; obtain ⟨b, _, rfl⟩ := hp; rfl) trivial
      simpa using this
    · intro x hx; simp only [List.mem_singleton] at hx; subst hx; simp
  have hphi : Phi g ⟨id :: vis, root.bonds.map (fun b => (id, b)), [id], pool⟩ < walkFuel g := by
    simp only [Phi, List.length_map]
    have hW := W_visit g vis id hvn hidlt
    have hdeg : deg g id = root.bonds.length := by simp [deg, hroot]
    have := W_lt_walkFuel g vis
    omega
  rcases rootLoop_inv hw (walkFuel g) _ hi0 hphi with h | h <;> rw [h] <;> simp

theorem comps_loop (g : Graph) (hw : WellFormed g) (f : Nat) : ∀ (ids ord : List Nat) (pool : Pool) (es : List (Event × Nat))
    (ord' : List Nat) (pool' : Pool), comps g f ids ord pool = some (es, ord', pool') →
    ∀ (vis : List Nat) (st : List (Nat × Bond)) (ch : List Nat), (∀ x, x ∈ vis ↔ x ∈ ord) →
    compLoop g (walkFuel g) ids ⟨vis, st, ch, pool⟩ = (es.map (·.1), .ok)
  | [], ord, pool, es, ord', pool', h, vis, st, ch, hvis => by
    simp only [comps, Option.some.injEq, Prod.mk.injEq] at h
    obtain ⟨rfl, _, _⟩ := h
    rfl
  | id :: ids, ord, pool, es, ord', pool', h, vis, st, ch, hvis => by
    simp only [comps] at h
    split at h
    · rename_i hv
      have : vis.contains id = true := by
        have : id ∈ ord := by simpa using hv
        simpa using (hvis id).mpr this
      simp only [compLoop, this, if_true]
      exact comps_loop g hw f ids ord pool es ord' pool' h vis st ch hvis
    · rename_i hv
      have hidn : id ∉ ord := by simpa using hv
      have hvn : id ∉ vis := fun hm => hidn ((hvis id).mp hm)
      have hvc : vis.contains id = false := by simpa using hvn
      split at h
      · cases h
      · rename_i root hroot
        split at h
        · cases h
        · rename_i es1 ord1 pool1 c1 h1
          split at h
          · cases h
          · rename_i es2 ord2 pool2 h2
            simp only [Option.some.injEq, Prod.mk.injEq] at h
            obtain ⟨rfl, rfl, rfl⟩ := h
            obtain ⟨k, vis1, C1, hv1, _, _, hrun⟩ :=
              kids_loop g hw f (ord ++ [id]) pool id none root.bonds 0 es1 ord1 pool1 c1 h1 (by simp) root hroot (fun _ h => h)
                (id :: vis) [] [] []
                (by intro x; simp only [List.mem_cons, List.mem_append, List.not_mem_nil, or_false, hvis x]; exact Or.comm)
                rfl (by simp)
            have hk1 := hrun 1
            simp only [keep_none, List.append_nil, List.nil_append] at hk1
            have hend : rootLoop g 1 ⟨vis1, [], C1 ++ [id], pool1⟩ = ([], .ok, ⟨vis1, [], C1 ++ [id], pool1⟩) := by
              simp [rootLoop]
            rw [hend] at hk1
            simp only [List.append_nil] at hk1
            -- the same run at the fuel the loop is given
            have hfull : rootLoop g (walkFuel g) ⟨id :: vis, root.bonds.map (fun b => (id, b)), [id], pool⟩ =
                (es1.map (·.1), .ok, ⟨vis1, [], C1 ++ [id], pool1⟩) := by
              rcases Nat.le_total (k + 1) (walkFuel g) with hle | hle
              · rw [rootLoop_mono_le g hle _ (by rw [hk1]; simp), hk1]
              · rw [← rootLoop_mono_le g hle _ (root_no_fuel_panic hw vis pool id root hroot hvn), hk1]
            simp only [compLoop, hvc, Bool.false_eq_true, if_false, hroot, hfull]
            rw [comps_loop g hw f ids ord1 pool1 es2 ord2 pool2 h2 vis1 [] (C1 ++ [id]) hv1]
            simp

/-- THE LOOP AND THE RECURSION AGREE: whenever the recursive traversal of a well-formed adjacency list
    succeeds, `walk` ends with `ok` and has emitted exactly the same events. -/
theorem walk_eq_walkRec (g : Graph) (es : List (Event × Nat)) (ord : List Nat) (h : walkRecL g = some (es, ord)) :
    walk g = (es.map (·.1), .ok) := by
  unfold walkRecL at h
  unfold walk
  cases hv : validate g with
  | some e => rw [hv] at h; cases h
  | none =>
    rw [hv] at h
    simp only [Option.map_eq_some_iff] at h
    obtain ⟨⟨es0, ord0, pool0⟩, hc, heq⟩ := h
    simp only [Prod.mk.injEq] at heq
    obtain ⟨rfl, rfl⟩ := heq
    have hw := (validate_none_iff g).mp hv
    exact comps_loop g hw (recFuel g) (List.range g.length) [] .init es0 ord0 pool0 hc [] [] [] (fun x => Iff.rfl)

end Purr

namespace Purr
open Purr.Spec

/-! ### the converse: the recursive traversal fails only where the loop panics -/

def usum (g : Graph) (ord : List Nat) (l : List Nat) : Nat :=
  ((l.filter (fun x => decide (x ∉ ord))).map (fun x => deg g x + 1)).sum

def U (g : Graph) (ord : List Nat) : Nat := usum g ord (List.range g.length)

theorem usum_congr (g : Graph) {o1 o2 : List Nat} (h : ∀ x, x ∈ o1 ↔ x ∈ o2) (l : List Nat) : usum g o1 l = usum g o2 l := by
  unfold usum
  congr 2
  apply List.filter_congr
  intro x _
  simp [h x]

theorem usum_visit (g : Graph) (ord : List Nat) (t : Nat) (ht : t ∉ ord) : ∀ (l : List Nat), l.Nodup → t ∈ l →
    usum g (t :: ord) l + (deg g t + 1) = usum g ord l
  | [], _, h => by cases h
  | a :: l, hnd, hm => by
    have hnd' := (List.nodup_cons.mp hnd)
    unfold usum
    by_cases hat : a = t
    · subst hat
      rw [List.filter_cons_of_neg (by simp), List.filter_cons_of_pos (by simpa using ht)]
      simp only [List.map_cons, List.sum_cons]
      have : l.filter (fun x => decide (x ∉ a :: ord)) = l.filter (fun x => decide (x ∉ ord)) := by
        apply List.filter_congr
        intro x hx
        have : x ≠ a := fun e => hnd'.1 (e ▸ hx)
        simp [this]
      rw [this]; omega
    · have hml : t ∈ l := by
        simp only [List.mem_cons] at hm
        rcases hm with rfl | hm
        · exact absurd rfl hat
        · exact hm
      have ih := usum_visit g ord t ht l hnd'.2 hml
      unfold usum at ih
      by_cases hav : a ∈ ord
      · rw [List.filter_cons_of_neg (by simp [hav]), List.filter_cons_of_neg (by simp [hav])]
        exact ih
      · rw [List.filter_cons_of_pos (by simp [hav, hat]), List.filter_cons_of_pos (by simp [hav])]
        simp only [List.map_cons, List.sum_cons]
        omega

theorem usum_mono (g : Graph) {o1 o2 : List Nat} (h : ∀ x ∈ o1, x ∈ o2) : ∀ (l : List Nat), usum g o2 l ≤ usum g o1 l
  | [] => by simp [usum]
  | a :: l => by
    have ih := usum_mono g h l
    unfold usum at ih ⊢
    by_cases h1 : a ∈ o1
    · rw [List.filter_cons_of_neg (by simp [h a h1]), List.filter_cons_of_neg (by simp [h1])]; exact ih
    · by_cases h2 : a ∈ o2
      · rw [List.filter_cons_of_neg (by simp [h2]), List.filter_cons_of_pos (by simp [h1])]
        simp only [List.map_cons, List.sum_cons]; omega
      · rw [List.filter_cons_of_pos (by simp [h2]), List.filter_cons_of_pos (by simp [h1])]
        simp only [List.map_cons, List.sum_cons]; omega

theorem U_snoc (g : Graph) (ord : List Nat) (t : Nat) (ht : t ∉ ord) (hlt : t < g.length) :
    U g (ord ++ [t]) + (deg g t + 1) = U g ord := by
  unfold U
  rw [usum_congr g (o1 := ord ++ [t]) (o2 := t :: ord) (by intro x; simp [or_comm])]
  exact usum_visit g ord t ht _ List.nodup_range (List.mem_range.mpr hlt)

theorem U_le_fuel (g : Graph) (ord : List Nat) : U g ord < walkFuel g := by
  have h1 : U g ord ≤ U g [] := usum_mono g (by simp) _
  have h2 : U g [] = ((List.range g.length).map (fun x => deg g x + 1)).sum := by
    unfold U usum
    have : ∀ (l : List Nat), l.filter (fun x => decide (x ∉ ([] : List Nat))) = l := by
      intro l; apply List.filter_eq_self.mpr; intro a _; simp
    rw [this]
  have h3 : ((List.range g.length).map (fun x => deg g x + 1)).sum = (g.map (fun a => a.bonds.length + 1)).sum := by
    congr 1
    apply List.ext_getElem
    · simp
    · intro i h1 h2
      have hi : i < g.length := by simpa using h2
      simp [deg, List.getElem?_eq_getElem hi]
  unfold walkFuel
  omega

end Purr

namespace Purr
open Purr.Spec

theorem rootLoop_panic_step (g : Graph) (F : Nat) (s : WState) (sid : Nat) (bond : Bond) (rest : List (Nat × Bond)) (p : String) (evs : List Event)
    (hst : s.stack = (sid, bond) :: rest) (hw : wkStep g s sid bond rest = .panic p evs) :
    rootLoop g (F + 1) s = (evs, .panic p, s) := by
  rw [rootLoop.eq_def]
  simp only [hst, hw]

/-- with enough fuel the recursive traversal fails only because the ring-number pool is exhausted, and then the
    loop reaches the same panic -/
theorem kids_none_loop (g : Graph) (hw : WellFormed g) : ∀ (f : Nat) (ord : List Nat) (pool : Pool) (a : Nat) (p : Option Nat)
    (bs : List Bond) (cur : Nat), kids g f ord pool a p bs cur = none → bs.length + U g ord < f → a ∈ ord →
    ∀ (atomA : Atom), g[a]? = some atomA → (∀ b ∈ bs, b ∈ atomA.bonds) →
    ∀ (vis : List Nat) (rest : List (Nat × Bond)) (ch C : List Nat), (∀ x, x ∈ vis ↔ x ∈ ord) → C.length = cur → a ∉ C →
    ∃ k, ∀ F, (rootLoop g (k + 1 + F) ⟨vis, (keep p bs).map (fun b => (a, b)) ++ rest, C ++ a :: ch, pool⟩).2.1 =
      .panic "join_pool.rs:rnum" := by
  intro f
  induction f with
  | zero => intro ord pool a p bs cur _ h; omega
  | succ f ih =>
    intro ord pool a p bs cur h hM ha atomA hga hbs vis rest ch C hvis hC haC
    cases bs with
    | nil => simp [kids] at h
    | cons b bs =>
      have hbs' : ∀ b' ∈ bs, b' ∈ atomA.bonds := fun b' hb' => hbs b' (List.mem_cons_of_mem _ hb')
      have hb_in : b ∈ atomA.bonds := hbs b (by simp)
      obtain ⟨hne, _, tatom, htat, back, hback, hkback⟩ := hw a atomA hga b hb_in
      have hlt : b.tid < g.length := by
        apply Nat.lt_of_not_le; intro hge
        rw [List.getElem?_eq_none_iff.mpr hge] at htat; cases htat
      simp only [List.length_cons] at hM
      simp only [kids] at h
      split at h
      · rename_i hp
        obtain ⟨k, hk⟩ := ih ord pool a p bs cur h (by omega) ha atomA hga hbs' vis rest ch C hvis hC haC
        exact ⟨k, by rw [keep_cons_parent hp]; exact hk⟩
      · rename_i hp
        rw [keep_cons_other hp, List.map_cons, List.cons_append]
        have hun : unwind a (C ++ a :: ch) 0 = some (a :: ch, 0 + C.length) := unwind_of_split C ch 0 haC
        split at h
        · rename_i hvisit
          have hv' : vis.contains b.tid = true := by
            have : b.tid ∈ ord := by simpa using hvisit
            simpa using (hvis b.tid).mpr this
          cases hhit : pool.hit (a, b.tid) with
          | panic n p' =>
            refine ⟨0, fun F => ?_⟩
            have hstep : wkStep g ⟨vis, (a, b) :: ((keep p bs).map (fun b => (a, b)) ++ rest), C ++ a :: ch, pool⟩ a b
                ((keep p bs).map (fun b => (a, b)) ++ rest) =
                .panic "join_pool.rs:rnum" (if 0 + C.length > 0 then [Event.pop (0 + C.length)] else []) := by
              unfold wkStep
              have h1' : ¬ b.tid ≥ g.length := by omega
              simp only [h1', if_false, hne, hun, hv', if_true, hhit]
            rw [show 0 + 1 + F = F + 1 by omega, rootLoop_panic_step g F _ a b _ _ _ rfl hstep]
          | ok r pool1 =>
            rw [hhit] at h
            simp only at h
            cases h2 : kids g f ord pool1 a p bs 0 with
            | some res => rw [h2] at h; cases h
            | none =>
              obtain ⟨k, hk⟩ := ih ord pool1 a p bs 0 h2 (by omega) ha atomA hga hbs' vis rest ch [] hvis rfl (by simp)
              refine ⟨k + 1, fun F => ?_⟩
              have hstep : wkStep g ⟨vis, (a, b) :: ((keep p bs).map (fun b => (a, b)) ++ rest), C ++ a :: ch, pool⟩ a b
                  ((keep p bs).map (fun b => (a, b)) ++ rest) =
                  .cont ⟨vis, (keep p bs).map (fun b => (a, b)) ++ rest, a :: ch, pool1⟩
                    ((if 0 + C.length > 0 then [Event.pop (0 + C.length)] else []) ++ [.join b.kind r]) := by
                unfold wkStep
                have h1' : ¬ b.tid ≥ g.length := by omega
                simp only [h1', if_false, hne, hun, hv', if_true, hhit]
              rw [show k + 1 + 1 + F = (k + 1 + F) + 1 by omega, rootLoop_step g (k + 1 + F) _ _ a b _ _ rfl hstep]
              have := hk F
              simp only [List.nil_append] at this
              exact this
        · rename_i hvisit
          have htn : b.tid ∉ ord := by simpa using hvisit
          have hv' : vis.contains b.tid = false := by
            simpa using (fun hm => htn ((hvis b.tid).mp hm))
          rw [htat] at h
          simp only at h
          have hat : a ≠ b.tid := fun e => hne e.symm
          have hU := U_snoc g ord b.tid htn hlt
          have hdeg : deg g b.tid = tatom.bonds.length := by simp [deg, htat]
          -- the first iteration: the tree edge
          have hsc := scanChild_fst_tid a b.tid 0 tatom.kind tatom.bonds 0
          have hbacks := scanChild_backs a b.tid tatom.kind tatom.bonds 0
          have hpush := scanChild_pushes_eq a b.tid tatom.kind tatom.bonds 0
          have hstep : wkStep g ⟨vis, (a, b) :: ((keep p bs).map (fun b => (a, b)) ++ rest), C ++ a :: ch, pool⟩ a b
              ((keep p bs).map (fun b => (a, b)) ++ rest) =
              .cont ⟨b.tid :: vis, (keep (some a) tatom.bonds).map (fun o => (b.tid, o)) ++ ((keep p bs).map (fun b => (a, b)) ++ rest),
                  b.tid :: a :: ch, pool⟩
                ((if 0 + C.length > 0 then [Event.pop (0 + C.length)] else []) ++ [.extend b.kind (enterKind a tatom.kind tatom.bonds)]) := by
            unfold wkStep
            have h1' : ¬ b.tid ≥ g.length := by omega
            simp only [h1', if_false, hne, hun, hv', Bool.false_eq_true, htat]
            unfold enterKind
            rw [← hsc.1]
            generalize scanChild a b.tid tatom.kind tatom.bonds 0 = r at hbacks hpush
            obtain ⟨kind, backs, pushes⟩ := r
            simp only at hbacks hpush ⊢
            rw [hback] at hbacks
            subst hbacks
            have hkk : ¬ (b.kind ≠ back.kind.reverse) := by
              simp; exact (rev_eq_iff _ _).mp hkback
            simp only [hkk, if_false, hpush, keep_some_eq_filter]
          have hvis1 : ∀ x, x ∈ b.tid :: vis ↔ x ∈ ord ++ [b.tid] := by
            intro x; simp only [List.mem_cons, List.mem_append, List.not_mem_nil, or_false, hvis x]; exact Or.comm
          cases h1 : kids g f (ord ++ [b.tid]) pool b.tid (some a) tatom.bonds 0 with
          | none =>
            obtain ⟨k, hk⟩ := ih (ord ++ [b.tid]) pool b.tid (some a) tatom.bonds 0 h1 (by omega) (by simp) tatom htat (fun _ h => h)
              (b.tid :: vis) ((keep p bs).map (fun b => (a, b)) ++ rest) (a :: ch) [] hvis1 rfl (by simp)
            refine ⟨k + 1, fun F => ?_⟩
            rw [show k + 1 + 1 + F = (k + 1 + F) + 1 by omega, rootLoop_step g (k + 1 + F) _ _ a b _ _ rfl hstep]
            have := hk F
            simp only [List.nil_append] at this
            exact this
          | some res1 =>
            obtain ⟨es1, ord1, pool1, d1⟩ := res1
            rw [h1] at h
            simp only at h
            cases h2 : kids g f ord1 pool1 a p bs (1 + d1) with
            | some res2 => rw [h2] at h; cases h
            | none =>
              obtain ⟨k1, vis1, C1, hv1, hC1, hC1m, hrun1⟩ :=
                kids_loop g hw f (ord ++ [b.tid]) pool b.tid (some a) tatom.bonds 0 es1 ord1 pool1 d1 h1 (by simp) tatom htat (fun _ h => h)
                  (b.tid :: vis) ((keep p bs).map (fun b => (a, b)) ++ rest) (a :: ch) [] hvis1 rfl (by simp)
              obtain ⟨n1, hn1⟩ := kids_ord_prefix g _ _ _ _ _ _ _ _ _ _ _ h1
              have ha1 : a ∈ ord1 := by rw [hn1]; simp [ha]
              have haC1 : a ∉ C1 ++ [b.tid] := by
                intro hm
                simp only [List.mem_append, List.mem_singleton] at hm
                rcases hm with hm | hm
                · rcases hC1m a hm with h' | h'
                  · cases h'
                  · exact h' (by simp [ha])
                · exact hat hm
              have hUm : U g ord1 ≤ U g ord := usum_mono g (by intro x hx; rw [hn1]; simp [hx]) _
              obtain ⟨k2, hk2⟩ := ih ord1 pool1 a p bs (1 + d1) h2 (by omega) ha1 atomA hga hbs' vis1 rest ch (C1 ++ [b.tid]) hv1
                (by simp [hC1]; omega) haC1
              refine ⟨k1 + k2 + 1, fun F => ?_⟩
              rw [show k1 + k2 + 1 + 1 + F = (k1 + (k2 + 1 + F)) + 1 by omega, rootLoop_step g _ _ _ a b _ _ rfl hstep]
              have e1 := hrun1 (k2 + 1 + F)
              simp only [List.nil_append] at e1
              rw [e1]
              have e2 := hk2 F
              simp only [List.append_assoc, List.cons_append, List.nil_append] at e2
              exact e2

end Purr

namespace Purr
open Purr.Spec

/-- a component whose recursive traversal succeeds: the loop, at the fuel it is given -/
theorem root_run (g : Graph) (hw : WellFormed g) (f : Nat) (ord vis : List Nat) (pool : Pool) (id : Nat) (root : Atom)
    (hroot : g[id]? = some root) (hidn : id ∉ ord) (hvis : ∀ x, x ∈ vis ↔ x ∈ ord)
    {es1 ord1 pool1 c1} (h1 : kids g f (ord ++ [id]) pool id none root.bonds 0 = some (es1, ord1, pool1, c1)) :
    ∃ vis1 C1, (∀ x, x ∈ vis1 ↔ x ∈ ord1) ∧
      rootLoop g (walkFuel g) ⟨id :: vis, root.bonds.map (fun b => (id, b)), [id], pool⟩ =
        (es1.map (·.1), .ok, ⟨vis1, [], C1 ++ [id], pool1⟩) := by
  have hvn : id ∉ vis := fun hm => hidn ((hvis id).mp hm)
  obtain ⟨k, vis1, C1, hv1, _, _, hrun⟩ :=
    kids_loop g hw f (ord ++ [id]) pool id none root.bonds 0 es1 ord1 pool1 c1 h1 (by simp) root hroot (fun _ h => h)
      (id :: vis) [] [] []
      (by intro x; simp only [List.mem_cons, List.mem_append, List.not_mem_nil, or_false, hvis x]; exact Or.comm)
      rfl (by simp)
  have hk1 := hrun 1
  simp only [keep_none, List.append_nil, List.nil_append] at hk1
  have hend : rootLoop g 1 ⟨vis1, [], C1 ++ [id], pool1⟩ = ([], .ok, ⟨vis1, [], C1 ++ [id], pool1⟩) := by
    simp [rootLoop]
  rw [hend] at hk1
  simp only [List.append_nil] at hk1
  refine ⟨vis1, C1, hv1, ?_⟩
  rcases Nat.le_total (k + 1) (walkFuel g) with hle | hle
  · rw [rootLoop_mono_le g hle _ (by rw [hk1]; simp), hk1]
  · rw [← rootLoop_mono_le g hle _ (root_no_fuel_panic hw vis pool id root hroot hvn), hk1]

theorem comps_none_loop (g : Graph) (hw : WellFormed g) : ∀ (ids ord : List Nat) (pool : Pool),
    comps g (recFuel g) ids ord pool = none → (∀ id ∈ ids, id < g.length) →
    ∀ (vis : List Nat) (st : List (Nat × Bond)) (ch : List Nat), (∀ x, x ∈ vis ↔ x ∈ ord) →
    (compLoop g (walkFuel g) ids ⟨vis, st, ch, pool⟩).2 = .panic "join_pool.rs:rnum"
  | [], ord, pool, h, _, _, _, _, _ => by simp [comps] at h
  | id :: ids, ord, pool, h, hids, vis, st, ch, hvis => by
    have hids' : ∀ i ∈ ids, i < g.length := fun i hi => hids i (by simp [hi])
    have hidlt : id < g.length := hids id (by simp)
    simp only [comps] at h
    split at h
    · rename_i hv
      have : vis.contains id = true := by
        have : id ∈ ord := by simpa using hv
        simpa using (hvis id).mpr this
      simp only [compLoop, this, if_true]
      exact comps_none_loop g hw ids ord pool h hids' vis st ch hvis
    · rename_i hv
      have hidn : id ∉ ord := by simpa using hv
      have hvn : id ∉ vis := fun hm => hidn ((hvis id).mp hm)
      have hvc : vis.contains id = false := by simpa using hvn
      cases hroot : g[id]? with
      | none => rw [List.getElem?_eq_none_iff] at hroot; omega
      | some root =>
        rw [hroot] at h
        simp only at h
        cases h1 : kids g (recFuel g) (ord ++ [id]) pool id none root.bonds 0 with
        | none =>
          have hU := U_snoc g ord id hidn hidlt
          have hdeg : deg g id = root.bonds.length := by simp [deg, hroot]
          have hUf := U_le_fuel g ord
          obtain ⟨k, hk⟩ := kids_none_loop g hw (recFuel g) (ord ++ [id]) pool id none root.bonds 0 h1
            (by unfold recFuel; omega) (by simp) root hroot (fun _ h => h) (id :: vis) [] [] []
            (by intro x; simp only [List.mem_cons, List.mem_append, List.not_mem_nil, or_false, hvis x]; exact Or.comm) rfl (by simp)
          have hfull : (rootLoop g (walkFuel g) ⟨id :: vis, root.bonds.map (fun b => (id, b)), [id], pool⟩).2.1 = .panic "join_pool.rs:rnum" := by
            have hk0 := hk 0
            simp only [keep_none, List.append_nil, List.nil_append, Nat.add_zero] at hk0
            rcases Nat.le_total (k + 1) (walkFuel g) with hle | hle
            · have := hk (walkFuel g - (k + 1))
              simp only [keep_none, List.append_nil, List.nil_append] at this
              rw [show k + 1 + (walkFuel g - (k + 1)) = walkFuel g by omega] at this
              exact this
            · rw [← rootLoop_mono_le g hle _ (root_no_fuel_panic hw vis pool id root hroot hvn)]; exact hk0
          simp only [compLoop, hvc, Bool.false_eq_true, if_false, hroot]
          generalize rootLoop g (walkFuel g) ⟨id :: vis, root.bonds.map (fun b => (id, b)), [id], pool⟩ = r at hfull
          obtain ⟨es, v, s1⟩ := r
          simp only at hfull
          subst hfull
          rfl
        | some res1 =>
          obtain ⟨es1, ord1, pool1, c1⟩ := res1
          rw [h1] at h
          simp only at h
          cases h2 : comps g (recFuel g) ids ord1 pool1 with
          | some res2 => rw [h2] at h; cases h
          | none =>
            obtain ⟨vis1, C1, hv1, hfull⟩ := root_run g hw (recFuel g) ord vis pool id root hroot hidn hvis h1
            simp only [compLoop, hvc, Bool.false_eq_true, if_false, hroot, hfull]
            exact comps_none_loop g hw ids ord1 pool1 h2 hids' vis1 [] (C1 ++ [id]) hv1

/-- THE RECURSIVE TRAVERSAL SUCCEEDS WHENEVER THE LOOP DOES: for a well-formed adjacency list on which `walk`
    ends with `ok`, `walkRecL` returns the same events. -/
theorem walkRec_of_walk_ok (g : Graph) (hw : WellFormed g) (hok : (walk g).2 = .ok) :
    ∃ es ord, walkRecL g = some (es, ord) ∧ es.map (·.1) = (walk g).1 := by
  cases hr : walkRecL g with
  | some r =>
    obtain ⟨es, ord⟩ := r
    exact ⟨es, ord, rfl, by rw [walk_eq_walkRec g es ord hr]⟩
  | none =>
    exfalso
    have hv := (validate_none_iff g).mpr hw
    unfold walkRecL at hr
    rw [hv] at hr
    simp only [Option.map_eq_none_iff] at hr
    have := comps_none_loop g hw (List.range g.length) [] .init hr (fun i hi => List.mem_range.mp hi) [] [] [] (fun _ => Iff.rfl)
    unfold walk at hok
    rw [hv] at hok
    simp only at hok
    rw [this] at hok
    cases hok

end Purr
