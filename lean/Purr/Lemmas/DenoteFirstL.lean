/-
  The first bond of a non-root atom in the denotation (`Spec.denote`) is the bond to the atom it is attached to — the head
  atom when its `extend` event is written (C12: "the bond through which the traversal arrived is written first").
-/
import Purr.Lemmas.DenoteL
namespace Purr
open Purr.Spec

theorem replay_count_le : ∀ (es : List Event) (st : List Nat) (n : Nat), n ≤ (replay st n es).2
  | [], _, _ => Nat.le_refl _
  | .root _ :: es, st, n => by simp only [replay]; have := replay_count_le es (n :: st) (n + 1); omega
  | .extend _ _ :: es, st, n => by simp only [replay]; have := replay_count_le es (n :: st) (n + 1); omega
  | .pop d :: es, st, n => by simp only [replay]; exact replay_count_le es _ n
  | .join _ _ :: es, st, n => by simp only [replay]; exact replay_count_le es st n

theorem replay_stack_lt : ∀ (es : List Event) (st : List Nat) (n : Nat), (∀ x ∈ st, x < n) →
    ∀ x ∈ (replay st n es).1, x < (replay st n es).2
  | [], _, _, h => h
  | .root _ :: es, st, n, h => by
    simp only [replay]
    exact replay_stack_lt es (n :: st) (n + 1) (by
      intro x hx; simp only [List.mem_cons] at hx
      rcases hx with rfl | hx
      · omega
      · have := h x hx; omega)
  | .extend _ _ :: es, st, n, h => by
    simp only [replay]
    exact replay_stack_lt es (n :: st) (n + 1) (by
      intro x hx; simp only [List.mem_cons] at hx
      rcases hx with rfl | hx
      · omega
      · have := h x hx; omega)
  | .pop d :: es, st, n, h => by
    simp only [replay]
    exact replay_stack_lt es (st.drop d) n (fun x hx => h x (List.mem_of_mem_drop hx))
  | .join _ _ :: es, st, n, h => by
    simp only [replay]
    exact replay_stack_lt es st n h

/-- entry `j` of the annotation: the event, the head and the atom count after the first `j` events -/
theorem annotate_get : ∀ (es : List Event) (st : List Nat) (n : Nat) (j : Nat) (x : Ann),
    (annotate st n es)[j]? = some x →
    es[j]? = some x.ev ∧ x.head = (replay st n (es.take j)).1.head? ∧ x.count = (replay st n (es.take j)).2
  | [], _, _, _, _, h => by simp [annotate] at h
  | e :: es, st, n, 0, x, h => by
    simp only [annotate, List.getElem?_cons_zero, Option.some.injEq] at h
    subst h
    simp [replay]
  | e :: es, st, n, j + 1, x, h => by
    simp only [annotate, List.getElem?_cons_succ] at h
    obtain ⟨h1, h2, h3⟩ := annotate_get es _ _ j x h
    refine ⟨by simpa using h1, ?_, ?_⟩
    · rw [h2]; simp only [List.take_succ_cons]
      cases e <;> rfl
    · rw [h3]; simp only [List.take_succ_cons]
      cases e <;> rfl

/-- counts only grow along the history, and grow by one across an atom event -/
theorem count_mono (es : List Event) (st : List Nat) (n : Nat) {j' j : Nat} (hle : j' ≤ j) :
    (replay st n (es.take j')).2 ≤ (replay st n (es.take j)).2 := by
  have : es.take j = es.take j' ++ (es.drop j').take (j - j') := by
    rw [← List.take_add]; congr 1; omega
  rw [this, replay_append]
  exact replay_count_le _ _ _

theorem count_succ_atom (es : List Event) (st : List Nat) (n : Nat) {j' : Nat} {e : Event} (he : es[j']? = some e)
    (hat : isAtomEv e = true) : (replay st n (es.take (j' + 1))).2 = (replay st n (es.take j')).2 + 1 := by
  have hlt : j' < es.length := by
    apply Nat.lt_of_not_le; intro hge
    rw [List.getElem?_eq_none_iff.mpr hge] at he; cases he
  have : es.take (j' + 1) = es.take j' ++ [e] := by
    rw [List.take_succ, he]; rfl
  rw [this, replay_append]
  cases e <;> simp [isAtomEv] at hat <;> rfl

theorem head_lt_count (es : List Event) (j : Nat) (h : Nat)
    (hh : (replay [] 0 (es.take j)).1.head? = some h) : h < (replay [] 0 (es.take j)).2 := by
  apply replay_stack_lt (es.take j) [] 0 (by intro x hx; cases hx)
  cases hs : (replay [] 0 (es.take j)).1 with
  | nil => rw [hs] at hh; cases hh
  | cons y ys => rw [hs] at hh; simp at hh; subst hh; simp

theorem filterMap_range_head {β} (f : Nat → Option β) (j : Nat) (v : β) (hnone : ∀ j', j' < j → f j' = none) (hj : f j = some v) :
    ∀ m, ((List.range (j + 1 + m)).filterMap f).head? = some v
  | 0 => by
    rw [Nat.add_zero, List.range_succ, List.filterMap_append]
    have : (List.range j).filterMap f = [] := by
      rw [List.filterMap_eq_nil_iff]
      intro a ha; exact hnone a (List.mem_range.mp ha)
    rw [this]; simp [hj]
  | m + 1 => by
    have ih := filterMap_range_head f j v hnone hj m
    rw [show j + 1 + (m + 1) = (j + 1 + m) + 1 by omega, List.range_succ, List.filterMap_append]
    cases hl : (List.range (j + 1 + m)).filterMap f with
    | nil => rw [hl] at ih; cases ih
    | cons y ys => rw [hl] at ih; simpa using ih

/-- THE FIRST BOND OF A NON-ROOT ATOM: if event `j` of the history is `extend b k` written at head `h` and creating atom
    `i`, then in the denotation atom `i`'s bond list begins with the bond to `h`, kind reversed -/
theorem denote_first_bond (es : List Event) (j : Nat) (b : BondKind) (k : AtomKind) (h i : Nat)
    (hA : (annotate [] 0 es)[j]? = some ⟨.extend b k, some h, i⟩) (atom : Atom) (hi : (denote es)[i]? = some atom) :
    atom.bonds.head? = some ⟨b.reverse, h⟩ := by
  obtain ⟨hev, hhead, hcount⟩ := annotate_get es [] 0 j _ hA
  simp only at hev hhead hcount
  have hjlt : j < (annotate [] 0 es).length := by
    apply Nat.lt_of_not_le; intro hge
    rw [List.getElem?_eq_none_iff.mpr hge] at hA; cases hA
  have hhi : h < i := by rw [hcount]; exact head_lt_count es j h hhead.symm
  -- the bond list of atom i
  unfold denote at hi
  simp only [List.getElem?_map] at hi
  cases hz : ((List.filterMap kindOfAnn (annotate [] 0 es)).zipIdx)[i]? with
  | none => rw [hz] at hi; cases hi
  | some p =>
    rw [hz] at hi
    simp only [Option.map_some, Option.some.injEq] at hi
    have hp2 : p.2 = i := by
      rw [List.getElem?_zipIdx] at hz
      cases hq : (List.filterMap kindOfAnn (annotate [] 0 es))[i]? with
      | none => rw [hq] at hz; cases hz
      | some q => rw [hq] at hz; simp at hz; rw [← hz]
    subst hi
    simp only
    rw [hp2]
    obtain ⟨m, hm⟩ : ∃ m, (annotate [] 0 es).length = j + 1 + m := ⟨(annotate [] 0 es).length - (j + 1), by omega⟩
    rw [hm]
    apply filterMap_range_head
    · intro j' hj'
      cases hx : (annotate [] 0 es)[j']? with
      | none => simp [contribH, hx]
      | some x =>
        obtain ⟨hev', hhead', hcount'⟩ := annotate_get es [] 0 j' x hx
        have hcle : x.count ≤ i := by rw [hcount', hcount]; exact count_mono es [] 0 (Nat.le_of_lt hj')
        have hhne : ∀ h', x.head = some h' → h' ≠ i := by
          intro h' hh'
          have := head_lt_count es j' h' (by rw [← hhead']; exact hh')
          rw [← hcount'] at this; omega
        obtain ⟨ev, hd, cnt⟩ := x
        simp only at hcle hhne hev' hcount'
        unfold contribH
        rw [hx]
        cases ev with
        | root _ => rfl
        | pop _ => rfl
        | extend b' k' =>
          cases hd with
          | none => rfl
          | some h' =>
            have h1 : i ≠ h' := fun e => hhne h' rfl e.symm
            have h2 : i ≠ cnt := by
              have := count_succ_atom es [] 0 hev' (by rfl)
              have hm2 := count_mono es [] 0 (show j' + 1 ≤ j by omega)
              rw [this, ← hcount', ← hcount] at hm2
              omega
            simp [h1, h2]
        | join b' r' =>
          cases hd with
          | none => rfl
          | some h' =>
            have h1 : i ≠ h' := fun e => hhne h' rfl e.symm
            simp [h1]
    · unfold contribH
      rw [hA]
      have h1 : i ≠ h := by omega
      simp [h1, Half.toBond?]

end Purr
